"""Per-property configuration of ./check: streams, projections (the observables the property talks about),
predicates evaluated on the implementation's own observations, known-finding classifiers, translators."""
import os
import re

# translators run before every lake build: (tool directory under tools/, generated file, arguments)
GENERATORS = [
    ("rngcooked", "RngCooked.lean", []),
    ("pkgstate", "PackageState.lean", ["{repo}"]),
    ("unicode", "Unicode.lean", []),
    ("evalfacts", "EvalFacts.lean", ["{repo}"]),
    ("numfacts", "NumFacts.lean", ["{repo}"]),
    ("chanfacts", "ChanFacts.lean", ["{repo}"]),
    ("statefacts", "StateFacts.lean", ["{repo}"]),
    ("evalir", "EvalIR.lean", ["{repo}"]),
    ("convir", "ConvIR.lean", ["{repo}"]),
    ("runnerir", "RunnerIR.lean", ["{repo}"]),
]


def identity(obs, case):
    return list(obs)


def obs_kind(o):
    return re.split(r"[| ]", o, 1)[0]


def parse_run(o):
    m = re.match(r"^(.*?)\|log:(.*?)\|v:(.*?)\|vis:(.*)$", o, flags=re.S)
    if not m:
        return {"res": o, "log": "", "v": "", "vis": "", "kind": obs_kind(o)}
    return {"res": m.group(1), "log": m.group(2), "v": m.group(3), "vis": m.group(4), "kind": obs_kind(m.group(1))}


def line_parts(res):
    """L|node|text^tags^attrs  /  O|node|dis^text^tags^attrs~..."""
    p = res.split("|", 2)
    kind, node, body = p[0], p[1] if len(p) > 1 else "", p[2] if len(p) > 2 else ""
    if kind == "L":
        f = body.split("^")
        return kind, node, [{"text": f[0], "tags": f[1] if len(f) > 1 else "", "attrs": f[2] if len(f) > 2 else ""}]
    opts = []
    for o in body.split("~"):
        f = o.split("^")
        opts.append({"dis": f[0], "text": f[1] if len(f) > 1 else "", "tags": f[2] if len(f) > 2 else "", "attrs": f[3] if len(f) > 3 else ""})
    return kind, node, opts


def project_run(fields, elem_fields):
    """projection of run-stream observations: which of (res, log, v, vis) and which parts of elements are compared"""
    def proj(obs, case):
        out = []
        for o in obs:
            d = parse_run(o)
            item = [d["kind"]]
            if "res" in fields:
                if d["kind"] in ("L", "O"):
                    kind, node, parts = line_parts(d["res"])
                    item.append(node)
                    for p in parts:
                        item.append(tuple(p.get(f, "") for f in elem_fields))
                else:
                    item.append(d["res"])
            for f in ("log", "v", "vis"):
                if f in fields:
                    item.append(d[f])
            out.append(tuple(item))
        return out
    return proj


def case_features(case):
    """input distribution of a case, read off its S-expression (cheap syntactic counts)"""
    f = {}
    if case.startswith("(case run "):
        prog = case.split("(prog", 1)[-1].split("(seed", 1)[0]
        for key, pat in (("nodes", "(node "), ("lines", "(line "), ("option_groups", "(opts "), ("options", "(opt "), ("ifs", "(if "), ("clauses", "(clause "),
                         ("sets", "(set "), ("declares", "(declare "), ("jumps", "(jump "), ("commands", "(cmd "), ("calls", "(call "),
                         ("function_calls", "(fn "), ("binary_ops", "(bin "), ("conditions_on_options", "(cond (b"), ("null_literals", "(null)")):
            f[key] = prog.count(pat)
        depth = cur = 0
        for m in re.finditer(r"\(stmts|\)", prog):
            pass
        f["readers"] = case.split("(prog", 1)[0].count("(s ")
        ops = case.split("(ops", 1)[-1]
        for key, pat in (("op_next", "(next "), ("op_snap", "(snap "), ("op_restore", "(restore "), ("op_hostwrite", "(hset "), ("op_complete", "(complete "),
                         ("op_newrunner", "(new "), ("op_newrunner_other_last_reader", "(newalt "), ("op_mutsnap", "(mutsnap "), ("op_restorebad", "(restorebad "), ("op_hostwrite_same_length", "(hrev "), ("op_host_clear", "(hclear "), ("op_late_command", "(addcmd ")):
            f[key] = ops.count(pat)
        # nesting depth of statement lists
        d = mx = 0
        for tok in re.findall(r"\(stmts|\(|\)", prog):
            if tok == "(stmts":
                d += 1
                mx = max(mx, d)
        f["programs_with_nesting_ge_3"] = 1 if prog.count("(opt ") and re.search(r"\(opt .*\(opt .*\(opt ", prog) else 0
    return f


def no_panic(obs, case):
    for i, o in enumerate(obs):
        if obs_kind(o) == "PANIC" or " PANIC" in o.split("|")[0]:
            return f"observation {i} is a panic"
    return None


def no_panic_but_the_hosts(obs, case):
    """a panic raised by the host function `crash` passes through Next (that is the host's panic, and the model says so too:
    the comparison requires PANIC exactly there); any other panic is the library's"""
    for i, o in enumerate(obs):
        if obs_kind(o) == "PANIC" or " PANIC" in o.split("|")[0]:
            if "crash(" not in o:
                return f"observation {i} is a panic"
    return None


def after_end_absorbing(obs, case):
    """C12 on the implementation's own trace: per runner, after END every next is END with no effects, until a restore."""
    ops = re.findall(r"\((next|snap|resnap|mutsnap|restorenil|restorebad|restore|hset|hrev|hclear|addcmd|complete|newalt|new) (\d+)", case.split("(ops", 1)[-1])
    ended = {}
    for i, (op, j) in enumerate(ops):
        if i + 1 >= len(obs):
            break
        d = parse_run(obs[i + 1])
        if op == "next":
            if d["kind"] == "SKIP":
                continue
            if j in ended:
                if d["kind"] != "END":
                    return f"runner {j}: observation {i+1} is {d['kind']} after the end was reported"
                if d["log"] != "":
                    return f"runner {j}: host invocation after the end at observation {i+1}"
                if d["v"] != ended[j]:
                    return f"runner {j}: variables changed after the end at observation {i+1}"
            elif d["kind"] == "END":
                ended[j] = d["v"]
        elif op in ("restore", "restorenil", "new", "newalt") and d["res"].startswith(("RESTORE OK", "NEW")):
            ended.pop(j, None)
        elif op in ("hset", "hrev", "hclear") and j in ended:
            ended[j] = d["v"]
    return None


def generic_nontrivial(obs, case):
    kinds = {obs_kind(o) for o in obs}
    return len(obs) >= 3 and len(kinds) >= 2


def run_nontrivial(min_elems=3, need=("O",)):
    def f(obs, case):
        ks = [obs_kind(o) for o in obs]
        elems = sum(1 for k in ks if k in ("L", "O"))
        return elems >= min_elems and all(n in ks for n in need)
    return f


def shrink_ops(case):
    """candidates with fewer operations (drop suffixes, then single ops)"""
    m = re.search(r"\(ops(.*)\)\)\s*$", case)
    if not m:
        return
    ops = re.findall(r"\([a-z]+(?: (?:\d+|ok|err|\(s[ 0-9]*\)|\((?:num|bool|str) [^()]*(?:\([^()]*\))?\)))*\)", m.group(1))
    head = case[:m.start()]
    n = len(ops)
    k = n // 2
    while k >= 1:
        yield head + "(ops " + " ".join(ops[:n - k]) + "))"
        k //= 2
    for i in range(min(n, 25)):
        yield head + "(ops " + " ".join(ops[:i] + ops[i + 1:]) + "))"



# ---------------------------------------------------------------------------------------------------------------
# exact arithmetic on doubles given as bit patterns (for contract predicates evaluated on the implementation's output)
from fractions import Fraction


def bits_to_fraction(bits):
    """exact value of a finite double, None for NaN / Inf"""
    sign = -1 if bits >> 63 else 1
    e = (bits >> 52) & 0x7FF
    f = bits & ((1 << 52) - 1)
    if e == 2047:
        return None
    if e == 0:
        return sign * Fraction(f, 1 << 1074)
    m = f + (1 << 52)
    return sign * (Fraction(m) * Fraction(2) ** (e - 1075))


def probe_values(obs):
    """typed values received by the host function `probe`, in order, over the whole trace"""
    vals = []
    for o in obs:
        d = parse_run(o)
        for entry in d["log"].split(";"):
            m = re.match(r"^probe\((.*)\)$", entry)
            if m:
                vals.append(m.group(1))
    return vals


def numeric_contracts(obs, case):
    """C19 evaluated on the implementation's own results, in exact rational arithmetic"""
    m = re.search(r"\(expect(.*?)\) \(ops", case)
    if not m:
        return None
    expects = re.findall(r"\((\w+) (\d+)(?: (\d+))?\)", m.group(1))
    vals = probe_values(obs)
    for i, (fn, bits, extra) in enumerate(expects):
        if i >= len(vals):
            return f"probe call {i} ({fn}) never reached the host"
        x = bits_to_fraction(int(bits))
        got = vals[i]
        if x is None or abs(x) >= 2 ** 52:
            continue  # outside the quantifier of the property
        def num():
            mm = re.match(r"^N:(\d+)$", got)
            return bits_to_fraction(int(mm.group(1))) if mm else None
        y = num()
        bad = lambda why: f"{fn}({float(x)!r} bits {bits}{' ,' + extra if extra else ''}) = {got}: {why}"
        if fn in ("floor", "ceil", "inc", "dec", "integer", "decimal", "round", "round_places", "number", "numstr", "intplusdec") and y is None:
            return bad("not a finite number")
        if fn == "floor" and not (y.denominator == 1 and y <= x < y + 1):
            return bad("violates floor(x) <= x < floor(x)+1")
        if fn == "ceil" and not (y.denominator == 1 and y - 1 < x <= y):
            return bad("violates ceil(x)-1 < x <= ceil(x)")
        if fn == "inc" and not (y.denominator == 1 and y > x and y - 1 <= x):
            return bad("is not the least integer greater than x")
        if fn == "dec" and not (y.denominator == 1 and y < x and y + 1 >= x):
            return bad("is not the greatest integer less than x")
        if fn == "integer" and not (y.denominator == 1 and abs(y) <= abs(x) < abs(y) + 1 and y * x >= 0):
            return bad("does not truncate toward zero")
        if fn == "intplusdec" and y != x:
            return bad("integer(x)+decimal(x) differs from x")
        if fn == "round" and not (y.denominator == 1 and abs(y - x) <= Fraction(1, 2)):
            return bad("is not an integer within 0.5 of x")
        if fn == "round_places":
            n = int(extra)
            unit = Fraction(1, 10 ** n)
            slack = Fraction(1, 2 ** 51) * max(abs(x), unit)
            if abs(y - x) > unit / 2 + slack:
                return bad("is not within half a unit of the n-th decimal place (plus the representation slack of DESIGN C19.5)")
        if fn in ("number", "numstr") and y != x:
            return bad("differs from x")
        if fn == "string" and not got.startswith("S:"):
            return bad("is not a string")
    return None


def snapshots_immutable(obs, case):
    """C07 on the implementation's own trace: every re-observation of a snapshot equals what it showed when taken"""
    ops = re.findall(r"\((next|snap|resnap|mutsnap|restorenil|restorebad|restore|hset|hrev|hclear|addcmd|complete|newalt|new) (\d+)", case.split("(ops", 1)[-1])
    snaps = []
    for i, (op, j) in enumerate(ops):
        if i + 1 >= len(obs):
            break
        o = obs[i + 1]
        if op == "snap" and o.startswith("SNAP"):
            snaps.append(o)
        elif op == "mutsnap" and o.startswith("SNAP") and int(j) < len(snaps):
            snaps[int(j)] = o   # the host changed this snapshot itself
        elif op == "resnap" and o.startswith("SNAP"):
            k = int(j)
            if k < len(snaps) and snaps[k] != o:
                return f"snapshot {k} changed after it was taken: was {snaps[k][:120]} now {o[:120]}"
    return None


def both(*preds):
    def f(obs, case):
        for p in preds:
            m = p(obs, case)
            if m:
                return m
        return None
    return f


def special_rerun(prop, sc, tier, seed, harness, repo):
    """C09 determinism: the same cases in reverse order in a second, fresh process must give the same observations per case
    (whatever ran before, same or different process)."""
    import subprocess
    n = sc["thorough"] if tier == "thorough" else sc["quick"]
    r = subprocess.run([harness, "gen", sc["stream"], sc["profile"], str(seed), str(n)], capture_output=True, text=True)
    lines = [l for l in r.stdout.split("\n") if l]
    def run_lines(ls):
        # error messages are part of what must be the same (VERIF_ERRTEXT: the harness prints them)
        out = subprocess.run([harness, "run"], input="\n".join(ls) + "\n", capture_output=True, text=True, timeout=900,
                             env=dict(os.environ, VERIF_ERRTEXT="1")).stdout
        obs = {}
        for line in out.split("\n"):
            p = line.split("\t")
            if len(p) == 3:
                obs.setdefault(p[0], []).append(p[2])
        return obs
    a = run_lines(lines)
    b = run_lines(list(reversed(lines)))
    failures = []
    agree = 0
    for line in lines:
        cid = re.match(r"\(case \S+ (\S+)", line).group(1)
        if a.get(cid) != b.get(cid):
            failures.append({"case": line, "kind": "two executions of the same case (different process, different history) differ", "impl": a.get(cid, []), "model": b.get(cid, []), "concrete": True})
        else:
            agree += 1
    return {"stats": {"cases": len(lines), "agree": agree, "distinct_nontrivial": len({l.split(' ', 3)[-1] for l in lines})}, "failures": failures[:3],
            "samples": []}

def decode_strings(text):
    return ["".join(chr(int(x)) for x in m.split()) for m in re.findall(r"\(s((?: \d+)*)\)", text)]


def cmd_text_of_case(case):
    """the written text of a generic command of the cmdargs stream: text pieces verbatim, expressions as {}"""
    m = re.search(r"\(pieces(.*)\) \(reg", case)
    if not m:
        return ""
    out = []
    for kind, body in re.findall(r"\((t|e) (\(s[ 0-9]*\))", m.group(1)):
        out.append(decode_strings(body)[0] if kind == "t" else "{}")
    return "".join(out)


def classify_cmd_name_prefix(params, fail):
    name = cmd_text_of_case(fail.get("case", "")).lstrip()
    return re.match(params["pattern"], name) is not None


def classify_jump_spaces(params, fail):
    srcs = " ".join(decode_strings(fail.get("case", "")))
    return re.search(r"<<jump\s\s+", srcs) is not None


def classify_truncated_after_node(params, fail):
    """F31: the failure is 'a line indented with tabs and spaces was loaded', and that line lies after a complete node that is
    followed by something no node can start with (a body marker without headers, an indented hashtag): the parser stops
    there without an error and the rest of the reader — the mixed line included — is never looked at."""
    if "indented with both tabs and spaces was loaded" not in fail.get("kind", ""):
        return False
    for m in re.findall(r"\(b((?: \d+)*)\)", fail.get("case", "").split("(seed", 1)[0]):
        text = bytes(int(x) for x in m.split()).decode("utf-8", errors="replace")
        lines = re.split(r"\r\n|\n|\r", text)
        stopped = False
        for k, ln in enumerate(lines):
            if ln.strip(" \t").startswith("==="):
                nxt = next((l for l in lines[k + 1:] if l.strip(" \t") != ""), None)
                if nxt is not None and (nxt.strip(" \t") == "---" or (nxt[:1] in " \t" and nxt.lstrip(" \t").startswith("#"))):
                    stopped = True
            body = ln.lstrip(" \t")
            ind = ln[:len(ln) - len(body)]
            if " " in ind and "\t" in ind and body.strip() != "" and not body.startswith("//"):
                return stopped       # the first mixed line: known only if the parser had stopped before it
    return False


CLASSIFIERS = {"cmd-name-prefix": classify_cmd_name_prefix, "jump-extra-space": classify_jump_spaces, "truncated-after-node": classify_truncated_after_node}


def cmdargs_spec(io, spec, case):
    if spec and len(io) > 1 and spec[0] != io[-1]:
        return f"expected {spec[0][:200]} observed {io[-1][:200]}"
    return None


RUN_ASSUME = ["generated programs are Productive (every node starts with a line, so no jump cycle without a yielding statement)",
              "errors are compared as a class, never by message", "choices are kept in range while a choice is expected"]

def special_concurrent(prop, sc, tier, seed, harness, repo):
    """C18: the same cases run one after the other in one goroutine, and each in its own goroutine under the race
    detector (creation/parsing and stepping interleave), repeated with several degrees of parallelism."""
    import subprocess, os
    sys_path = os.path.dirname(os.path.dirname(os.path.abspath(__file__)))
    import importlib
    chk = importlib.import_module("__main__")
    race, err = chk.build_harness(race=True)
    if race is None:
        return {"stats": {"cases": 0}, "failures": [{"case": "", "kind": "the race-detector build of the harness failed: " + err[:500], "impl": [], "model": [], "concrete": False}]}
    n = sc["thorough"] if tier == "thorough" else sc["quick"]
    lines = []
    # runners of different kinds side by side: flow, numeric built-ins, random built-ins, markup incl. replacement markers, commands
    for prof in (sc["profile"], "expr", "numeric", "markuprun", "rand", "cmds", "lines"):
        # (blocks of the same profile stay adjacent: runners exercising the same code paths overlap in time)
        r = subprocess.run([harness, "gen", "run", prof, str(seed), str(max(n // 3, 100))], capture_output=True, text=True)
        lines += [l for l in r.stdout.split("\n") if l]
    text = "\n".join(lines) + "\n"
    def obs_of(out):
        obs = {}
        for line in out.split("\n"):
            p = line.split("\t")
            if len(p) == 3:
                obs.setdefault(p[0], []).append(p[2])
        return obs
    seq = obs_of(subprocess.run([harness, "run"], input=text, capture_output=True, text=True, timeout=900).stdout)
    failures = []
    runs = 0
    for workers in ([4, 16] if tier != "thorough" else [1, 2, 4, 8, 16, 32]):
        for procs in ([8] if tier != "thorough" else [1, 4, 16]):
            env = dict(os.environ, GOMAXPROCS=str(procs), GORACE="halt_on_error=0")
            c = subprocess.run([race, "conc", str(workers)], input=text, capture_output=True, text=True, timeout=1800, env=env)
            runs += 1
            if "DATA RACE" in c.stderr:
                failures.append({"case": lines[0], "kind": "the race detector reported a data race while distinct runners were created and driven concurrently", "impl": c.stderr.split("\n")[:40], "model": [], "concrete": True})
                break
            par = obs_of(c.stdout)
            for line in lines:
                cid = re.match(r"\(case \S+ (\S+)", line).group(1)
                if seq.get(cid) != par.get(cid):
                    failures.append({"case": line, "kind": f"the trace of a runner driven concurrently with others ({workers} goroutines, GOMAXPROCS={procs}) differs from its solo trace", "impl": par.get(cid, []), "model": seq.get(cid, []), "concrete": True})
                    break
        if failures:
            break
    return {"stats": {"cases": len(lines) * runs, "agree": len(lines) * runs - len(failures), "distinct_nontrivial": len({l.split(' ', 3)[-1] for l in lines})},
            "failures": failures[:3], "samples": []}


def special_listener(prop, sc, tier, seed, harness, repo):
    """the tree builder (parser_listener.go): two passes. The implementation side dumps, per generated script, the ANTLR parse
    tree and the tree the listener built from it; the parse tree is handed to the Lean model of the listener, which must
    build the same tree (and say that its one-clause-per-production translation agrees: SPEC same)."""
    import subprocess, os
    n = sc["thorough"] if tier == "thorough" else sc["quick"]
    r = subprocess.run([harness, "gen", "listener", sc["profile"], str(seed), str(n)], capture_output=True, text=True)
    lines = [l for l in r.stdout.split("\n") if l]
    env = dict(os.environ, GOMAXPROCS="8", GOMEMLIMIT="4GiB")
    p = subprocess.run([harness, "run"], input="\n".join(lines) + "\n", capture_output=True, text=True, timeout=3000, env=env)
    impl = {}
    for line in p.stdout.split("\n"):
        q = line.split("\t", 2)
        if len(q) == 3:
            impl.setdefault(q[0], []).append(q[2])
    cases2 = []
    for line in lines:
        cid = re.match(r"\(case \S+ (\S+)", line).group(1)
        io = impl.get(cid)
        if not io:
            continue
        if io[0].startswith("TREE "):
            cases2.append(f"(case listener {cid} (tree {io[0][5:]}))")
        elif io[0] == "LOADERR":
            cases2.append(f"(case listener {cid} (loaderr))")
        else:
            cases2.append(f"(case listener {cid} (panic))")
    exe = os.path.join(os.path.dirname(os.path.dirname(os.path.abspath(__file__))), "lean", ".lake", "build", "bin", "ysgo-model")
    mo = subprocess.run([exe], input="\n".join(cases2) + "\n", capture_output=True, text=True, timeout=3000)
    model = {}
    for l in mo.stdout.split("\n"):
        q = l.split("\t", 2)
        if len(q) == 3:
            model.setdefault(q[0], []).append(q[2])
    failures, agree, kinds, distinct = [], 0, {}, set()
    died = p.returncode != 0
    for line in lines:
        cid = re.match(r"\(case \S+ (\S+)", line).group(1)
        io, mo_ = impl.get(cid), model.get(cid, [])
        if not io:
            if died:
                failures.append({"case": line, "kind": "the implementation process died on this input (or an earlier one): " + p.stderr[-300:], "impl": [], "model": [], "concrete": True})
                died = False
            continue
        kinds[io[0].split(" ")[0]] = kinds.get(io[0].split(" ")[0], 0) + 1
        if any(o == "PANIC" for o in io):
            failures.append({"case": line, "kind": "parsing or the tree builder panicked", "impl": [o[:2000] for o in io], "model": [m[:2000] for m in mo_], "concrete": True})
        elif any(m.startswith("UNMODELLED") for m in mo_):
            kinds["outside_model_domain"] = kinds.get("outside_model_domain", 0) + 1
        elif io != mo_:
            k = next((i for i in range(min(len(io), len(mo_))) if io[i] != mo_[i]), min(len(io), len(mo_)))
            failures.append({"case": line, "kind": f"the tree built by the implementation differs from the listener model at observation {k}",
                             "impl": [o[:3000] for o in io], "model": [m[:3000] for m in mo_], "concrete": True})
        else:
            agree += 1
            if io[0].startswith("TREE "):
                distinct.add(hash(io[0]))
    stats = {"cases": len(lines), "agree": agree, "distinct_nontrivial": len(distinct)}
    stats.update({"class_" + k: v for k, v in kinds.items()})
    return {"stats": stats, "failures": failures[:5], "samples": []}


def special_load(prop, sc, tier, seed, harness, repo):
    """C05: two passes. The implementation side reports, per case, the oracle values of an independent lexer+parser and the
    outcome class of NewDialogueRunner; the oracle values are then handed to the Lean model of the load decision."""
    import subprocess, os
    n = sc["thorough"] if tier == "thorough" else sc["quick"]
    r = subprocess.run([harness, "gen", "load", sc["profile"], str(seed), str(n)], capture_output=True, text=True)
    lines = [l for l in r.stdout.split("\n") if l]
    if sc["profile"] == "mixed" and prop == "C05":
        # the corpus of the property runs first (known findings among them)
        cdir = os.path.join(os.path.dirname(os.path.dirname(os.path.abspath(__file__))), "corpus", prop)
        if os.path.isdir(cdir):
            for fn in sorted(os.listdir(cdir)):
                lines = [l for l in open(os.path.join(cdir, fn)).read().split("\n") if l.startswith("(case load ")] + lines
    env = dict(os.environ, GOMAXPROCS="8", GOMEMLIMIT="4GiB")
    p = subprocess.run([harness, "run"], input="\n".join(lines) + "\n", capture_output=True, text=True, timeout=3000, env=env)
    impl = {}
    for line in p.stdout.split("\n"):
        q = line.split("\t")
        if len(q) == 3:
            impl.setdefault(q[0], []).append(q[2])
    failures, model_lines, stats = [], [], {"cases": len(lines), "agree": 0, "distinct_nontrivial": 0}
    kinds = {}
    crashed = p.returncode != 0
    for line in lines:
        cid = re.match(r"\(case \S+ (\S+)", line).group(1)
        io = impl.get(cid)
        if not io:
            if crashed:
                failures.append({"case": line, "kind": "the implementation process died while loading this input (or an earlier one): " + p.stderr[-300:], "impl": [], "model": [], "concrete": True})
                crashed = False
            continue
        m = re.match(r"ORACLE (\S*) (\S*)", io[0])
        ses, nodes = m.group(1).split(","), m.group(2).split(",")
        if m.group(1) == "":
            ses, nodes = [], []
        if "panic" in ses:
            failures.append({"case": line, "kind": "the lexer/parser panicked on this input (independent parse)", "impl": io, "model": [], "concrete": True})
            continue
        seedm = re.search(r"\(seed \(s[ 0-9]*\)\)", line).group(0)
        model_lines.append((cid, line, f"(case load {cid} (oracle (se {' '.join(ses)}) (nodes {' '.join(nodes)})) {seedm})"))
        # independent of the lexer under test: a content line indented with both tabs and spaces must make loading fail
        mixed = mixed_indent_line(line)
        if mixed is not None and len(io) > 1 and io[1] == "RUNNER":
            failures.append({"case": line, "kind": "a script whose line %r is indented with both tabs and spaces was loaded instead of being refused" % mixed, "impl": io, "model": [], "concrete": True})
            continue
        # oracle contract of the grammar: a clean parse has at least one node
        for a, b in zip(ses, nodes):
            if a == "0" and b == "0":
                failures.append({"case": line, "kind": "oracle contract broken: a reader parsed without syntax error but yields no node", "impl": io, "model": [], "concrete": True})
    exe = os.path.join(os.path.dirname(os.path.dirname(os.path.abspath(__file__))), "lean", ".lake", "build", "bin", "ysgo-model")
    mo = subprocess.run([exe], input="\n".join(x[2] for x in model_lines) + "\n", capture_output=True, text=True, timeout=600)
    model = {}
    for l in mo.stdout.split("\n"):
        q = l.split("\t")
        if len(q) == 3:
            model[q[0]] = q[2]
    distinct = set()
    for cid, line, _ in model_lines:
        io = impl[cid]
        cls = io[1] if len(io) > 1 else "NONE"
        kinds[cls] = kinds.get(cls, 0) + 1
        if cls == "PANIC":
            failures.append({"case": line, "kind": "creating a runner panicked", "impl": io, "model": [model.get(cid, "")], "concrete": True})
        elif len(io) > 2 and io[2] != "STEPS ok":
            failures.append({"case": line, "kind": "the loaded runner panicked within three Next calls", "impl": io, "model": [model.get(cid, "")], "concrete": True})
        elif cls != model.get(cid):
            failures.append({"case": line, "kind": f"load outcome {cls} differs from the load decision of the model ({model.get(cid)}) on the oracle values {io[0]}", "impl": io, "model": [model.get(cid, "")], "concrete": True})
        else:
            stats["agree"] += 1
            distinct.add((io[0], cls))
    stats["distinct_nontrivial"] = len(distinct)
    stats["outcome_classes"] = kinds
    return {"stats": stats, "failures": failures[:5], "samples": [pretty_load(l) for l in lines[:2]]}


def mixed_indent_line(case):
    """first content line (not blank, not comment-only) of a node body whose indentation contains both a tab and a space.
    Only white space that follows a line end of the BODY counts as indentation: a line end inside an open command or inline
    expression (<<set\n \t $x to 1>>, {1 +\n \t 2}) is white space of that construct, and header lines are not body lines.
    Deliberately conservative: anything that might be inside such a construct is not judged by this predicate (the
    comparison with the independent syntax-error oracle still applies to it)."""
    for m in re.findall(r"\(b((?: \d+)*)\)", case.split("(seed", 1)[0]):
        data = bytes(int(x) for x in m.split())
        text = data.decode("utf-8", errors="replace")
        lines = re.split(r"\r\n|\n|\r", text)
        in_body = False
        open_cmd = open_brace = 0
        for k, ln in enumerate(lines):
            stripped = ln.strip(" \t")
            if k > 0 and in_body and open_cmd <= 0 and open_brace <= 0:
                body = ln.lstrip(" \t")
                ind = ln[:len(ln) - len(body)]
                if " " in ind and "\t" in ind and body.strip() != "" and not body.startswith("//"):
                    return ln[:40]
            if stripped == "---":
                in_body, open_cmd, open_brace = True, 0, 0
            elif stripped.startswith("==="):
                in_body, open_cmd, open_brace = False, 0, 0
            elif in_body:
                code = ln.split("//", 1)[0]
                open_cmd += code.count("<<") - code.count(">>")
                open_brace += code.count("{") - code.count("}")
                if "<" in code.replace("<<", "") or '"' in code and code.count('"') % 2 == 1 or "\ufffd" in code or "\x00" in code:
                    # a lone '<', an open string or undecodable bytes: what mode the lexer is in after this line is not
                    # something this predicate should guess
                    open_cmd = max(open_cmd, 1)
    return None


def pretty_load(line):
    def dec(m):
        try:
            return repr(bytes(int(x) for x in m.group(1).split()))[:300]
        except ValueError:
            return m.group(0)
    return re.sub(r"\(b((?: \d+)*)\)", dec, line)[:700]


def unesc_len(text):
    """number of characters of an escaped observation string"""
    return len(re.sub(r"\\u\{[0-9a-f]+\}", "X", text))


def order_ok(obs, case):
    """C02 on the implementation alone: the fixed probe of the hostile stream (host functions that write a variable between
    two reads of it in one expression) shows Yarn's evaluation order"""
    for o in obs:
        if o.startswith("ORDER bad"):
            return o
    return None


def markup_ranges(obs, case):
    """C15 on the implementation's own results: every attribute lies inside the returned text (in characters), lengths and
    positions are non-negative, and asking for the text of an attribute never panicked"""
    for i, o in enumerate(obs):
        if not o.startswith("OK|"):
            continue
        parts = o.split("|")
        if len(parts) < 3:
            continue
        n = unesc_len(parts[1])
        for a in parts[2].split(";"):
            m = re.match(r"^(.*?)@(-?\d+)\+(-?\d+)@(-?\d+)\{", a)
            if not m:
                continue
            pos, ln = int(m.group(2)), int(m.group(3))
            if pos < 0 or ln < 0 or pos + ln > n:
                return f"observation {i}: attribute {m.group(1)} has position {pos} length {ln} in a text of {n} characters"
        if len(parts) > 3 and "PANIC" in parts[3]:
            return f"observation {i}: TextForAttribute panicked"
    return None


def runprop(profile, fields, elem_fields, quick, thorough, predicate=no_panic, nontrivial=None, extra_streams=(), **kw):
    d = {
        "level": "proof",
        "streams": [{"stream": "run", "profile": profile, "quick": quick, "thorough": thorough,
                     "project": project_run(fields, elem_fields), "predicate": predicate,
                     "nontrivial": nontrivial or run_nontrivial(2, ()), "shrink": shrink_ops}] + list(extra_streams),
        "assumptions": RUN_ASSUME,
    }
    d.update(kw)
    return d


PROPERTIES = {
    "C01": runprop("flow", ("res",), ("text", "dis"), 1500, 60000, nontrivial=run_nontrivial(3, ("O",)),
                   # the tree builder: ANTLR parse tree of every generated script -> listener model -> same tree as the code built
                   extra_streams=[{"stream": "listener", "profile": "mixed", "quick": 1500, "thorough": 60000, "special": special_listener},
                                  {"stream": "listener", "profile": "nest", "quick": 600, "thorough": 30000, "special": special_listener},
                                  {"stream": "listener", "profile": "cmds", "quick": 400, "thorough": 20000, "special": special_listener},
                                  {"stream": "listener", "profile": "mutate", "quick": 800, "thorough": 40000, "special": special_listener}],
                   rule="listener: the ANTLR parse tree of generated scripts (all statement kinds, nesting, expressions, commands; byte mutations) is handed to the Lean model of parser_listener.go, which must build exactly the tree the code built and agree with the one-clause-per-production translation; run/flow: random 1-4 node programs (nested options, if/elseif/else, set/declare, jumps by name and expression, stop, call, commands) x random in-range choices; non-trivial = at least 3 elements shown incl. an option group; distinct by hash of the case payload",
                   leanchecker=["Ysgo.Props.C01", "Ysgo.Props.C01Listener"]),
    "C02": runprop("expr", ("res", "log"), ("text",), 1500, 60000, nontrivial=lambda obs, case: any("probe(" in o for o in obs),
                   extra_streams=[{"stream": "exprsyn", "profile": "all", "quick": 6000, "thorough": 150000, "nontrivial": lambda obs, case: not obs[0].startswith(("LOADERR", "LEXERR"))},
                                  # hosts whose functions write variables while an expression is evaluated have no model (Env.call cannot reach the store):
                                  # the fixed evaluation-order probe of the hostile stream is judged on the implementation alone (a test, not a theorem)
                                  {"stream": "hostile", "profile": "mix", "quick": 20, "thorough": 200, "predicate": both(no_panic, order_ok), "project": lambda obs, case: [],
                                   "nontrivial": lambda obs, case: any(o.startswith("ORDER") for o in obs)}],
                   generated_facts=["Generated.EvalFacts (tools/evalfacts, go/ast): operator switch, lazy tests, same-type guard of evaluateBinaryOperation, built-in registry, token-to-operator maps == the model (Props/C02Facts: opSwitch_is_model for all operators and values, lazyTests_are_model, sameTypeGuard_is_model, builtin_registry_is_model, token_maps_are_model)"],
                   rule="run/expr: expression trees of depth <= 5 over literals of the three types, variables, built-ins and logging probe functions, embedded in lines, conditions, assignments and calls; compared: rendered value or error, and the probe log (order and count of evaluations); non-trivial = at least one probe invocation observed",
                   leanchecker=["Ysgo.Props.C02"]),
    "C03": runprop("vars", ("res", "v"), ("text",), 1500, 60000, nontrivial=lambda obs, case: sum(1 for o in obs if obs_kind(o) == "HSET") >= 1 and len({parse_run(o)["v"] for o in obs}) >= 3,
                   rule="run/vars: set/declare statements with every assignment operator over every pair of (current type or unset, assigned type), interleaved with host writes of same and other types; compared: result class and the complete variable contents after every operation; non-trivial = a host write and at least 3 distinct store contents",
                   leanchecker=["Ysgo.Props.C03", "Ysgo.Props.C03Facts"]),
    "C04": runprop("lines", ("res",), ("text", "tags", "dis"), 1500, 60000, nontrivial=lambda obs, case: any(obs_kind(o) == "O" for o in obs) or sum(1 for o in obs if obs_kind(o) == "L") >= 3,
                   extra_streams=[{"stream": "linelex", "profile": "all", "quick": 6000, "thorough": 150000, "nontrivial": lambda obs, case: not obs[0].startswith(("LOADERR", "ERR"))},
                                  {"stream": "f64", "profile": "fmt", "quick": 9000, "thorough": 600000, "nontrivial": lambda obs, case: True}],
                   rule="run/lines: lines and option groups over printable ASCII and multi-byte characters with every escapable character escaped or not, 0-2 inline expressions of each type incl. numbers exercising the display forms, tags, option conditions; compared: text, tags and Disabled of every element; linelex/all: line descriptions (first-character rule, escapes at every position class, expressions, tags, conditions, comments) through ANTLR vs the scanner model; f64/fmt: fmt.Sprint/ToString/ParseFloat vs the display model, bit for bit",
                   leanchecker=["Ysgo.Props.C04", "Ysgo.Props.C04Lex", "Ysgo.Props.C04Display", "Ysgo.Props.C19Roundtrip"]),
    "C13": {
        "level": "proof",
        "streams": [{"stream": "markup", "profile": "chunks", "quick": 8000, "thorough": 300000, "predicate": no_panic,
                     "spec_check": lambda io, spec, case: None, "nontrivial": lambda obs, case: obs[0].count("@") >= 2},
                    # results handed out earlier must keep their ranges when the parser goes on to other lines
                    {"stream": "markup", "profile": "history", "quick": 2000, "thorough": 60000, "predicate": both(no_panic, markup_ranges), "nontrivial": lambda obs, case: obs[0].startswith("OK")}],
        "assumptions": ["unicode.IsSpace/IsLetter/IsDigit/ToLower are regenerated tables of the Go toolchain in use; regexp is modelled for the two fixed patterns only"],
        "rule": "markup/chunks: chunk lists from the grammar of DESIGN C13 (text over ASCII, accented, CJK and astral characters with white space at every edge; escapes; open/close/close-all/self-closing markers with 0-3 properties of every value type, shorthand, nesting, overlap, repetition; nomarkup/select/plural/ordinal self-closing or closed by name) rendered to a line; compared: implementation = model exactly, and model = the parser-independent specification `expected` (line SPEC same); non-trivial = at least two attributes",
        "leanchecker": ["Ysgo.Props.C13", "Ysgo.Props.C13Facts"],
    },
    "C14": {
        "level": "proof",
        "streams": [{"stream": "markup", "profile": "history", "quick": 6000, "thorough": 250000, "predicate": no_panic, "nontrivial": lambda obs, case: True},
                    {"stream": "run", "profile": "markuprun", "quick": 800, "thorough": 30000, "project": project_run(("res",), ("text", "attrs")), "predicate": no_panic,
                     "nontrivial": lambda obs, case: any("@" in o for o in obs), "shrink": shrink_ops}],
        "assumptions": RUN_ASSUME,
        "rule": "markup/history: a line parsed on one LineParser value after 0-5 earlier lines incl. failing ones, and on a fresh parser: identical results (text, attributes, positions, source positions); run/markuprun: lines with markup shown by a dialogue runner after different prefixes, attributes compared with the history-free model",
        "leanchecker": ["Ysgo.Props.C14"],
    },
    "C15": {
        "level": "proof",
        "streams": [{"stream": "markup", "profile": "fuzz", "quick": 10000, "thorough": 500000, "predicate": both(no_panic, markup_ranges), "nontrivial": lambda obs, case: obs[0].startswith("OK")},
                    {"stream": "markup", "profile": "utf8", "quick": 3000, "thorough": 200000, "predicate": no_panic, "nontrivial": lambda obs, case: True},
                    # results of a parser value that has parsed other lines before (also failing ones) must be safe to use too
                    {"stream": "markup", "profile": "history", "quick": 4000, "thorough": 150000, "predicate": both(no_panic, markup_ranges), "nontrivial": lambda obs, case: obs[0].startswith("OK")},
                    {"stream": "markup", "profile": "chunks", "quick": 3000, "thorough": 100000, "predicate": both(no_panic, markup_ranges), "nontrivial": lambda obs, case: obs[0].count("@") >= 2}],
        "assumptions": ["the tie between the model and the implementation on arbitrary bytes is sampled"],
        "rule": "markup/fuzz: arbitrary byte strings incl. invalid UTF-8 and token-level assemblies of marker fragments ([ [/ /] = \" \\ names digits spaces); compared: outcome class, text, attributes, and TextForAttribute of every attribute (the enclosed text or PANIC); predicate: no panic; markup/utf8 ties the UTF-8 decoding model",
        "leanchecker": ["Ysgo.Props.C15"],
    },
    "C05": {
        "level": "proof",
        "streams": [{"stream": "load", "profile": "mixed", "quick": 1500, "thorough": 60000, "special": special_load},
                    {"stream": "load", "profile": "bytes", "quick": 500, "thorough": 40000, "special": special_load},
                    {"stream": "listener", "profile": "mutate", "quick": 1000, "thorough": 50000, "special": special_listener},
                    {"stream": "listener", "profile": "expr", "quick": 600, "thorough": 30000, "special": special_listener}],
        "assumptions": ["the parser is an oracle of the model: its syntax-error count and node count are inputs of the load decision",
                        "never-panics inside the ANTLR runtime, generated parser and tree builder is sampled, not proved"],
        "rule": "load/mixed+bytes: valid generated scripts in random layouts, 1-3 byte/line/fragment-level mutations of them (delete, overwrite, swap, truncate, duplicate, unbalanced if, mixed tabs and spaces), fragment assemblies and raw bytes incl. NUL and invalid UTF-8; every case split across 0-3 readers (none, at node boundaries, anywhere, plus a valid second reader) with seed strings over valid and invalid alphabets, empty and wrapping int64; distinct by (oracle values, outcome)",
        "leanchecker": ["Ysgo.Props.C05", "Ysgo.Props.C05Facts", "Ysgo.Props.C01Listener"],
    },
    "C06": runprop("faults", (), (), 2000, 80000,
                   extra_streams=[{"stream": "hostile", "profile": "mix", "quick": 3000, "thorough": 150000, "predicate": no_panic, "project": lambda obs, case: [],
                                   "nontrivial": lambda obs, case: "ERR" in obs and "L" in obs},
                                  {"stream": "bridge", "profile": "sample", "quick": 5000, "thorough": 100000, "predicate": no_panic,
                                   "nontrivial": lambda obs, case: any(o.startswith("REG OK") for o in obs)}],
                   nontrivial=lambda obs, case: sum(1 for o in obs if obs_kind(o) == "ERR") >= 2 and any(obs_kind(o) in ("L", "O") for o in obs),
                   rule="run/faults: valid scripts in which every expression position holds a faulty expression with probability 1/2 (ill-typed operations, unknown names, null, value-less functions, dice(0), inverted ranges, NaN/Inf arguments); compared: result class only; predicate: no panic; non-trivial = at least two errors and an element after which the runner was still usable",
                   leanchecker=["Ysgo.Props.C06"]),
    "C07": runprop("snap", ("res", "v", "vis"), ("text", "dis"), 1200, 50000, predicate=both(no_panic, snapshots_immutable),
                   # a restore while a converted command is pending, then the same command again (real goroutines)
                   extra_streams=[{"stream": "wait", "profile": "abandon", "quick": 20, "thorough": 400, "nontrivial": lambda obs, case: True, "timeout": 1800}],
                   nontrivial=lambda obs, case: any(o.startswith("RESTORE OK") for o in obs) and sum(1 for o in obs if o.startswith("SNAP")) >= 2,
                   rule="run/snap: multi-node programs; histories over 1-3 runners of the same script mixing next, snapshot, restore into any runner in any state (mid-node, waiting for a choice, command pending, ended), host writes, and re-observation of every snapshot taken so far; compared: everything; predicate: a snapshot never changes after it was taken; non-trivial = a successful restore and at least two snapshots",
                   leanchecker=["Ysgo.Props.C07"]),
    "C09": runprop("rand", ("res", "v"), ("text", "dis"), 1200, 50000, nontrivial=lambda obs, case: True,
                   extra_streams=[{"stream": "run", "profile": "rand", "quick": 400, "thorough": 8000, "special": special_rerun},
                                  # runs full of errors: their texts are part of the run too
                                  {"stream": "run", "profile": "faults", "quick": 300, "thorough": 6000, "special": special_rerun}],
                   rule="run/rand: programs rendering dice, random and random_range in lines, conditions and assignments over several seeds; the implementation must reproduce the pure model's random values bit for bit; plus the same cases re-executed in reverse order in a second process must give identical observations",
                   leanchecker=["Ysgo.Props.C09", "Ysgo.Props.C09Facts"]),
    "C10": runprop("cmds", ("res", "log"), ("text",), 1200, 50000,
                   extra_streams=[{"stream": "run", "profile": "long", "quick": 3, "thorough": 12, "project": project_run(("res", "log"), ("text",)), "predicate": no_panic,
                                   "nontrivial": lambda obs, case: len(obs) > 10000, "timeout": 1800},
                                  {"stream": "wait", "profile": "duration", "quick": 5000, "thorough": 300000, "nontrivial": lambda obs, case: obs[0] not in ("0", "9223372036854775807")},
                                  {"stream": "wait", "profile": "shape", "quick": 70, "thorough": 1500, "nontrivial": lambda obs, case: True, "timeout": 1800},
                                  {"stream": "wait", "profile": "timing", "quick": 24, "thorough": 400, "nontrivial": lambda obs, case: True, "timeout": 1800},
                                  {"stream": "wait", "profile": "abandon", "quick": 40, "thorough": 800, "nontrivial": lambda obs, case: True, "timeout": 1800},
                                  {"stream": "wait", "profile": "cross", "quick": 16, "thorough": 300, "nontrivial": lambda obs, case: True, "timeout": 1800},
                                  # real goroutines ordered event by event against the channel-level model (Props/C10Chan)
                                  {"stream": "chansched", "profile": "mixed", "quick": 300, "thorough": 6000, "nontrivial": lambda obs, case: any(o.startswith("WAIT") for o in obs) and any(o.startswith(("ERR", "LINE")) for o in obs), "timeout": 1800},
                                  {"stream": "chansched", "profile": "wrap", "quick": 150, "thorough": 3000, "nontrivial": lambda obs, case: any(o.startswith("WAIT") for o in obs), "timeout": 1800},
                                  {"stream": "chansched", "profile": "host", "quick": 150, "thorough": 3000, "nontrivial": lambda obs, case: any(o.startswith("WAIT") for o in obs), "timeout": 1800}],
                   nontrivial=lambda obs, case: any(obs_kind(o) == "WAIT" for o in obs) and any(o.startswith("DONE") for o in obs),
                   rule="run/cmds: scripts with commands that complete on return, fail on return, or stay pending until the harness completes them with success or an error after any number of polls; compared: result class and the handler invocation log; non-trivial = a waiting answer and a later completion",
                   leanchecker=["Ysgo.Props.C10", "Ysgo.Props.C10Facts", "Ysgo.Props.C10Chan"]),
    "C11": runprop("visits", ("res", "vis"), ("text",), 1200, 50000,
                   nontrivial=lambda obs, case: len({parse_run(o)["vis"] for o in obs}) >= 3,
                   rule="run/visits: jump graphs with self-loops, cycles, jumps out of nested bodies and by expression, nodes marked tracking never/always, visit counters rendered in lines, snapshots and restores; compared: elements and the visit-count map after every operation; non-trivial = at least 3 distinct counter maps",
                   leanchecker=["Ysgo.Props.C11"]),
    "C12": runprop("end", ("res", "log", "v"), ("text", "dis"), 1500, 60000, predicate=both(no_panic_but_the_hosts, after_end_absorbing),
                   # long sessions: more than ten thousand further calls after the end
                   extra_streams=[{"stream": "run", "profile": "long", "quick": 3, "thorough": 12, "project": project_run(("res", "log", "v"), ("text", "dis")),
                                   "predicate": both(no_panic, after_end_absorbing), "nontrivial": lambda obs, case: len(obs) > 10000, "timeout": 1800}],
                   nontrivial=lambda obs, case: sum(1 for o in obs if obs_kind(o) == "END") >= 2 and any(obs_kind(o) in ("L", "O") for o in obs),
                   rule="run/end: programs biased to reach an end (node end, <<stop>> at depth 0-3 with trailing statements, option group last) followed by further Next calls with arbitrary arguments; non-trivial = an element shown and at least two END results",
                   leanchecker=["Ysgo.Props.C12"]),
    "C16": {
        "level": "proof",
        "streams": [# the built-ins are converted functions too: two results of one of them alive in one expression, calls nested in arguments
                    {"stream": "run", "profile": "numeric", "quick": 300, "thorough": 5000, "project": project_run(("res", "log"), ("text",)), "predicate": no_panic,
                     "nontrivial": lambda obs, case: any("probe(" in o for o in obs), "shrink": shrink_ops},
                    {"stream": "bridge", "profile": "sample", "quick": 15000, "thorough": 400000, "predicate": no_panic,
                     "nontrivial": lambda obs, case: any(o.startswith("REG OK") for o in obs)},
                    {"stream": "bridge", "profile": "all", "quick": 0, "thorough": 5161246, "tier": "thorough", "predicate": no_panic,
                     "nontrivial": lambda obs, case: any(o.startswith("REG OK") for o in obs), "timeout": 7200},
                    # the result reported for a converted command is that invocation's own (also after an abandoned one)
                    {"stream": "wait", "profile": "abandon", "quick": 40, "thorough": 800, "nontrivial": lambda obs, case: True, "timeout": 1800},
                    {"stream": "wait", "profile": "shape", "quick": 40, "thorough": 800, "nontrivial": lambda obs, case: True, "timeout": 1800}],
        "assumptions": ["reflect.Value.Call is modelled by its type-identity rule; Go/amd64 float-to-int conversions by the F64 model (validated by the f64 stream)"],
        "rule": "bridge: function types built with reflect.FuncOf/MakeFunc over 0-3 parameters (+ optional variadic tail) and 0-2 results over {int..int64, uint, float32, float64, bool, string, error, chan error, <-chan error, chan<- error, named variants, struct, slice} x argument lists of length 0-4 over {number incl. fractional, negative, huge, NaN; boolean; string}, plus nil, typed nil functions and non-function values, registered through ConvertAndAddFunction/ConvertAndAddCommand of a real runner and called from a script; sample = seeded slice, all = the complete enumeration (5,161,246 elements) in thorough tier; non-trivial = registration accepted",
        "leanchecker": ["Ysgo.Props.C16"],
    },
    "C17": {
        "level": "proof",
        "streams": [{"stream": "hostile", "profile": "mix", "quick": 20, "thorough": 200, "predicate": both(no_panic, order_ok), "project": lambda obs, case: [],
                     "nontrivial": lambda obs, case: any(o.startswith("ORDER") for o in obs)},
                    {"stream": "cmdargs", "profile": "sample", "quick": 6000, "thorough": 300000, "predicate": no_panic, "spec_check": cmdargs_spec,
                     "nontrivial": lambda obs, case: any(o.startswith("RUN cmd:") for o in obs)},
                    {"stream": "run", "profile": "cmds", "quick": 600, "thorough": 20000, "project": project_run(("res", "log"), ("text",)),
                     "predicate": no_panic, "nontrivial": lambda obs, case: any("cmd:" in o for o in obs), "shrink": shrink_ops}],
        "assumptions": ["the CommandMode keyword rules of the lexer are modelled by cmdHead; number words go through the F64 model of strconv.ParseFloat"],
        "rule": "cmdargs: command statements over identifier-like and multi-byte words, every keyword exact and as a prefix (iffy settings jumpy elsewhere callous declared stopper ...), numeric/boolean look-alikes (Inf NaN 1e3 1_000 0x1p4 .5 5. +1 -3.5 007 1.50), inline expressions of each type, any Unicode white space; run through a real runner with recording handlers, unregistered names and <<stop>>; the model's SPEC line (what the property prescribes) is compared with the implementation as well; run/cmds ties dispatch-once-in-order to runner.go",
        "leanchecker": ["Ysgo.Props.C17"],
    },
    "C20": {
        "level": "proof",
        "streams": [{"stream": "containers", "profile": "queue", "quick": 6000, "thorough": 250000, "predicate": no_panic, "project": lambda obs, case: obs[:1], "nontrivial": lambda obs, case: True},
                    {"stream": "containers", "profile": "stack", "quick": 6000, "thorough": 250000, "predicate": no_panic, "project": lambda obs, case: obs[:1], "nontrivial": lambda obs, case: True},
                    {"stream": "containers", "profile": "queue-exh", "quick": 20000, "thorough": 283000, "predicate": no_panic, "project": lambda obs, case: obs[:1], "nontrivial": lambda obs, case: True},
                    {"stream": "tokens", "profile": "layout", "quick": 3000, "thorough": 200000, "project": lambda obs, case: obs[:2], "nontrivial": lambda obs, case: "I" in obs[0]},
                    {"stream": "tokens", "profile": "bytes", "quick": 4000, "thorough": 250000, "nontrivial": lambda obs, case: True},
                    {"stream": "nexttoken", "profile": "layout", "quick": 3000, "thorough": 200000, "predicate": no_panic, "nontrivial": lambda obs, case: " I" in obs[0]},
                    # the token streams of a real load cannot be read off: scripts split over several readers must load exactly when
                    # a fresh lexer finds no syntax error in each of them (one balanced stream, one EOF, per reader)
                    {"stream": "load", "profile": "mixed", "quick": 600, "thorough": 20000, "special": special_load}],
        "assumptions": ["the raw queue state (capacity, first, next) is informational only: the verdict uses results and sizes, so another initial capacity does not alarm"],
        "rule": "containers: random and phase-structured operation sequences on the real Queue/Stack through the hook; queue-exh enumerates all words over {enq, deq, peek} up to length 11 plus 16k phase sequences forcing three growths from wrapped buffers (every (cap, first, next) for cap 8, 16, 32 is visited); tokens: INDENT/DEDENT/EOF projection of the real lexer on generated scripts in random (also ragged, noisy, mixed tab/space) layouts and on arbitrary bytes (balance predicate); nexttoken: the complete delivered token stream (ordinary tokens in place, synthetic tokens with their widths) of the real lexer against the NextToken plumbing model pulled over the pending queue and the indent stack",
        "leanchecker": ["Ysgo.Props.C20", "Ysgo.Props.C20NextToken"],
    },
    "C08": runprop("layout", ("res", "log", "v"), ("text", "dis", "tags", "attrs"), 1500, 60000, nontrivial=run_nontrivial(2, ()),
                   extra_streams=[{"stream": "tokens", "profile": "layout", "quick": 3000, "thorough": 200000, "nontrivial": lambda obs, case: "I" in obs[0]},
                                  {"stream": "exprsyn", "profile": "valid", "quick": 4000, "thorough": 150000, "nontrivial": lambda obs, case: True}],
                   rule="run/layout (metamorphic against the layout-free model): every generated program is written in a random layout (indent unit 1-8 spaces or 1-2 tabs, if-bodies indented or not, blank / whitespace-only / comment lines of random width between any two lines, trailing comments, LF/CRLF/CR, operator spellings, minimal/full/redundant parentheses, extra spaces in commands, 1-3 readers); the parsed tree must equal the generating AST and the trace the model's; tokens/layout ties the indentation model, exprsyn/valid the expression spellings and parentheses",
                   leanchecker=["Ysgo.Props.C08Layout", "Ysgo.Props.C02Syntax"]),
    "C18": runprop("snap", ("res", "v", "vis"), ("text", "dis"), 600, 20000,
                   nontrivial=lambda obs, case: sum(1 for o in obs if o.startswith("NEW")) >= 1,
                   extra_streams=[{"stream": "run", "profile": "flow", "quick": 300, "thorough": 3000, "special": special_concurrent},
                                  # two runners, one of them inside a built-in wait while the other restores / completes / fails (real timers)
                                  {"stream": "wait", "profile": "cross", "quick": 16, "thorough": 300, "nontrivial": lambda obs, case: True, "timeout": 1800},
                                  # many runners inside commands that wait for each other (3 to 70 at once)
                                  {"stream": "wait", "profile": "crowd", "quick": 12, "thorough": 200, "nontrivial": lambda obs, case: True, "timeout": 1800}],
                   generated_facts=["Generated.PackageState (tools/pkgstate): no writable package-level state in the hand-written packages == Props/C18.no_mutable_package_state by decide"],
                   rule="run/snap: several runners of one script created and stepped in deterministic sequential interleavings (logical sharing shows as divergence from the model); concurrent: the same flow cases run sequentially and, under the race detector, each in its own goroutine with 4-32 goroutines and GOMAXPROCS 1-16: every trace must equal the solo trace and the race detector must stay silent",
                   leanchecker=["Ysgo.Props.C18"], trusted=["Go race detector (supporting evidence only)"]),
    "C19": runprop("numeric", ("res", "log"), ("text",), 1500, 60000, predicate=both(no_panic, numeric_contracts),
                   nontrivial=lambda obs, case: len(probe_values(obs)) >= 5,
                   extra_streams=[{"stream": "f64", "profile": "all", "quick": 20000, "thorough": 1000000, "nontrivial": lambda obs, case: True}],
                   rule="run/numeric: every numeric and conversion built-in applied, through a script, to doubles |x| < 2^52 supplied through the storer (random bit patterns, integers, half-way cases, neighbours of integers, signed zeros, subnormals; n in 0..8) and captured by a host function; the contracts of the property are evaluated on the implementation's results in exact rational arithmetic; f64/all: the softfloat model against the compiler's arithmetic, bit for bit",
                   leanchecker=["Ysgo.Props.C19", "Ysgo.Props.C19Roundtrip", "Ysgo.Props.C19Facts"], trusted=["python fractions for the contract predicates"]),
}

# regenerated facts per property (what the translators extract from the current source on every run, and the theorem that
# decides it) — listed in the evidence next to the theorems
_FACTS = {
    "C12": ["Generated.RunnerIR (tools/runnerir): the bodies of runner.go's methods (Next, the execute* helpers, RestoreAt, Snapshot, nextStatement) translated into the RunnerIR embedding and proved equal to the runner model (Props/C01IR: next_is_model, executeCommandStatement_is_model (stop clears the continuation), executeSetStatement_failure_writes_nothing)"],
    "C11": ["Generated.RunnerIR (tools/runnerir): the bodies of runner.go's methods (Next, the execute* helpers, RestoreAt, Snapshot, nextStatement) translated into the RunnerIR embedding and proved equal to the runner model (Props/C01IR: next_is_model, incrementNodeTracking_is_model, executeJumpStatement_is_model)"],
    "C01": ["Generated.RunnerIR (tools/runnerir): the bodies of runner.go's methods (Next, the execute* helpers, RestoreAt, Snapshot, nextStatement) translated into the RunnerIR embedding and proved equal to the runner model (Props/C01IR: next_is_model, next_pass_is_micro, executeIfStatement_is_model, executeCallStatement_is_model)"],
    "C03": ["Generated.RunnerIR (tools/runnerir): the bodies of runner.go's methods (Next, the execute* helpers, RestoreAt, Snapshot, nextStatement) translated into the RunnerIR embedding and proved equal to the runner model (Props/C01IR: next_is_model, executeSetStatement_is_model)",
            "Generated.StateFacts.storerOps (tools/statefacts): what the setters and Clear of InMemoryStorer do to the three maps == Props/C03Facts (setters_keep_one_type, clear_resets_every_map)"],
    "C02": ["Generated.EvalIR (tools/evalir): the whole of evaluator.go (evaluateExpression, evaluateBinaryOperation, evaluateFunctionCall, xor) translated into the GoIR embedding and proved equal to the model's eval for every expression, store and host (Props/C02IR.evaluateExpression_is_model)"],
    "C04": ["Generated.ConvIR (tools/convir): Value.ToString == the model's display for every value (Props/C19IR.valueToString_is_model)"],
    "C05": ["Generated.StateFacts.loadSteps (tools/statefacts): FromReader attaches the collecting error listener before anything is lexed and walks only after the early return on errors (Props/C05Facts)"],
    "C06": ["Generated.NumFacts.guardSrc (tools/numfacts): refusal conditions of checkedDice/checkedRandomRange == the model's guards under int64 wrap-around (Props/C09Facts)"],
    "C07": ["Generated.RunnerIR (tools/runnerir): the bodies of runner.go's methods (Next, the execute* helpers, RestoreAt, Snapshot, nextStatement) translated into the RunnerIR embedding and proved equal to the runner model (Props/C01IR: next_is_model, snapshot_is_model, restoreAt_is_model)",
            "Generated.StateFacts (tools/statefacts): every DialogueRunner field written after construction is written by RestoreAt; method-mutated fields are the model's containers (Props/C07Facts)"],
    "C09": ["Generated.NumFacts.guardSrc / rngSrc (tools/numfacts): guards, radix, toRadix36, seed accumulation step, IntBetween == the model (Props/C09Facts)"],
    "C10": ["Generated.RunnerIR (tools/runnerir): the bodies of runner.go's methods (Next, the execute* helpers, RestoreAt, Snapshot, nextStatement) translated into the RunnerIR embedding and proved equal to the runner model (Props/C01IR: next_is_model, executeCommandStatement_is_model)",
            "Generated.ChanFacts (tools/chanfacts): per-call make with capacity >= 1, one send per path, select/default polls, nil assignments == Cfg.Good (Props/C10Chan.code_meets_hypotheses)",
            "Generated.NumFacts.durationSrc (tools/numfacts): secondsToDuration == Command.waitNanos for every double (Props/C10Facts)"],
    "C13": ["Generated.ConvIR (tools/convir): getProcessor, processSelect/Plural/Ordinal/NoMarkup, GetProperty, Value.toString, replacePlaceholders == the model for all property lists (Props/C13IR)",
            "Generated.NumFacts.ordinalSwitch (tools/numfacts): the switch of processOrdinal == Markup.ordinalCase for n >= 0 (Props/C13Facts)"],
    "C14": ["Generated.StateFacts.lineParserFields (tools/statefacts): every LineParser field is assigned on entry of ParseMarkup (Props/C07Facts.lineParser_fields_reset_on_entry)"],
    "C15": ["Generated.ConvIR (tools/convir): the replacement processors and replacePlaceholders == the model, whose totality C15 proves (Props/C13IR)"],
    "C19": ["Generated.ConvIR (tools/convir): toString/toBoolean/toFloat == the model's string/bool/number built-ins for all argument lists (Props/C19IR)",
            "Generated.NumFacts.numBuiltinSrc (tools/numfacts): bodies of round … integer == Ysgo.Num.* for every argument (Props/C19Facts.numBuiltins_are_model)"],
}
for _p, _f in _FACTS.items():
    PROPERTIES[_p]["generated_facts"] = list(PROPERTIES[_p].get("generated_facts", [])) + _f
