"""Per-property configuration of ./check: streams, projections (the observables the property talks about),
predicates evaluated on the implementation's own observations, known-finding classifiers, translators."""
import re

# translators run before every lake build: (tool directory under tools/, generated file, arguments)
GENERATORS = [
    ("rngcooked", "RngCooked.lean", []),
]


def identity(obs, case):
    return list(obs)


def obs_kind(o):
    return re.split(r"[| ]", o, 1)[0]


def parse_run(o):
    m = re.match(r"^(.*?)\|log:(.*?)\|v:(.*?)\|vis:(.*)$", o, flags=re.S)
    if not m:
        return {"res": o, "log": "", "v": "", "vis": "", "kind": obs_kind(o)}
    return {"res": m.group(1), "log": m.group(2), "v": m.group(3), "vis": m.group(4), "kind": obs_kind(m.group(1))}


def line_parts(res):
    """L|node|text^tags^attrs  /  O|node|dis^text^tags^attrs~..."""
    p = res.split("|", 2)
    kind, node, body = p[0], p[1] if len(p) > 1 else "", p[2] if len(p) > 2 else ""
    if kind == "L":
        f = body.split("^")
        return kind, node, [{"text": f[0], "tags": f[1] if len(f) > 1 else "", "attrs": f[2] if len(f) > 2 else ""}]
    opts = []
    for o in body.split("~"):
        f = o.split("^")
        opts.append({"dis": f[0], "text": f[1] if len(f) > 1 else "", "tags": f[2] if len(f) > 2 else "", "attrs": f[3] if len(f) > 3 else ""})
    return kind, node, opts


def project_run(fields, elem_fields):
    """projection of run-stream observations: which of (res, log, v, vis) and which parts of elements are compared"""
    def proj(obs, case):
        out = []
        for o in obs:
            d = parse_run(o)
            item = [d["kind"]]
            if "res" in fields:
                if d["kind"] in ("L", "O"):
                    kind, node, parts = line_parts(d["res"])
                    item.append(node)
                    for p in parts:
                        item.append(tuple(p.get(f, "") for f in elem_fields))
                else:
                    item.append(d["res"])
            for f in ("log", "v", "vis"):
                if f in fields:
                    item.append(d[f])
            out.append(tuple(item))
        return out
    return proj


def no_panic(obs, case):
    for i, o in enumerate(obs):
        if obs_kind(o) == "PANIC" or " PANIC" in o.split("|")[0]:
            return f"observation {i} is a panic"
    return None


def after_end_absorbing(obs, case):
    """C12 on the implementation's own trace: per runner, after END every next is END with no effects, until a restore."""
    ops = re.findall(r"\((next|snap|resnap|restore|restorebad|hset|complete|new) (\d+)", case.split("(ops", 1)[-1])
    ended = {}
    for i, (op, j) in enumerate(ops):
        if i + 1 >= len(obs):
            break
        d = parse_run(obs[i + 1])
        if op == "next":
            if d["kind"] == "SKIP":
                continue
            if j in ended:
                if d["kind"] != "END":
                    return f"runner {j}: observation {i+1} is {d['kind']} after the end was reported"
                if d["log"] != "":
                    return f"runner {j}: host invocation after the end at observation {i+1}"
                if d["v"] != ended[j]:
                    return f"runner {j}: variables changed after the end at observation {i+1}"
            elif d["kind"] == "END":
                ended[j] = d["v"]
        elif op in ("restore", "new") and d["res"].startswith(("RESTORE OK", "NEW")):
            ended.pop(j, None)
        elif op == "hset" and j in ended:
            ended[j] = d["v"]
    return None


def generic_nontrivial(obs, case):
    kinds = {obs_kind(o) for o in obs}
    return len(obs) >= 3 and len(kinds) >= 2


def run_nontrivial(min_elems=3, need=("O",)):
    def f(obs, case):
        ks = [obs_kind(o) for o in obs]
        elems = sum(1 for k in ks if k in ("L", "O"))
        return elems >= min_elems and all(n in ks for n in need)
    return f


def shrink_ops(case):
    """candidates with fewer operations (drop suffixes, then single ops)"""
    m = re.search(r"\(ops(.*)\)\)\s*$", case)
    if not m:
        return
    ops = re.findall(r"\([a-z]+(?: (?:\d+|ok|err|\(s[ 0-9]*\)|\((?:num|bool|str) [^()]*(?:\([^()]*\))?\)))*\)", m.group(1))
    head = case[:m.start()]
    n = len(ops)
    k = n // 2
    while k >= 1:
        yield head + "(ops " + " ".join(ops[:n - k]) + "))"
        k //= 2
    for i in range(min(n, 25)):
        yield head + "(ops " + " ".join(ops[:i] + ops[i + 1:]) + "))"


CLASSIFIERS = {}

RUN_ASSUME = ["generated programs are Productive (every node starts with a line, so no jump cycle without a yielding statement)",
              "errors are compared as a class, never by message", "choices are kept in range while a choice is expected"]

PROPERTIES = {
    "C01": {
        "level": "proof",
        "streams": [
            {"stream": "run", "profile": "flow", "quick": 1500, "thorough": 60000,
             "project": project_run(("res",), ("text", "dis")), "predicate": no_panic,
             "nontrivial": run_nontrivial(3, ("O",)), "shrink": shrink_ops},
        ],
        "assumptions": RUN_ASSUME,
        "rule": "run/flow: random 1-4 node programs (nested options, if/elseif/else, set/declare, jumps by name and expression, stop, call, commands) x random in-range choices; non-trivial = at least 3 elements shown incl. an option group; distinct by hash of the case payload",
        "leanchecker": ["Ysgo.Props.C01"],
    },
    "C12": {
        "level": "proof",
        "streams": [
            {"stream": "run", "profile": "end", "quick": 1500, "thorough": 60000,
             "project": project_run(("res", "log", "v"), ("text", "dis")), "predicate": after_end_absorbing,
             "nontrivial": lambda obs, case: sum(1 for o in obs if obs_kind(o) == "END") >= 2 and any(obs_kind(o) in ("L", "O") for o in obs),
             "shrink": shrink_ops},
        ],
        "assumptions": RUN_ASSUME,
        "rule": "run/end: programs biased to reach an end (node end, <<stop>> at depth 0-3 with trailing statements, option group last) followed by further Next calls with arbitrary arguments; non-trivial = an element shown and at least two END results",
        "leanchecker": ["Ysgo.Props.C12"],
    },
}
