#!/bin/sh
# development helper: confirm a seeded change (patch + demo) and run checks against it
# usage: seed_eval.sh <dir with patch.diff, seed_demo_test.go, README.md> <name> <demo package dir relative to repo root> <Cxx> [<Cyy> ...]
src="$1"; name="$2"; demodir="$3"; shift 3
home=$(cd "$(dirname "$0")/.." && pwd)
export GOFLAGS=-mod=mod GOPROXY=off GOSUMDB=off GOTOOLCHAIN=local
wt=/tmp/wt_seed_$$_$name
git -C /repo worktree add -f $wt HEAD >/dev/null 2>&1
demo=$(ls $src/*_test.go | head -1)
cp $demo $wt/$demodir/
echo "--- demo on the unchanged code:"; (cd $wt/$demodir && go test -vet=off -count=1 -run 'Seed|Demo' . 2>&1 | tail -3)
if ! git -C $wt apply $src/patch.diff; then echo "PATCH DOES NOT APPLY"; git -C /repo worktree remove --force $wt; exit 2; fi
echo "--- demo with the change:"; (cd $wt/$demodir && go test -vet=off -count=1 -run 'Seed|Demo' . 2>&1 | grep -v "^\s*$" | tail -6)
rm $wt/$demodir/$(basename $demo)
echo "--- existing suite with the change:"; (cd $wt && go build ./... && go build -tags verif ./... && go test -vet=off -count=1 ./... 2>&1 | grep -v "no test files" | tr '\n' ' '); echo
mkdir -p $home/seeded/$name
cp $src/patch.diff $src/README.md $home/seeded/$name/ 2>/dev/null; cp $demo $home/seeded/$name/
for prop in "$@"; do
  echo "--- ./check $prop --tier quick against the change:"
  VERIF_REPO=$wt $home/check $prop --tier quick 2>&1 | tail -3
done
git -C /repo worktree remove --force $wt; git -C /repo worktree prune
