#!/bin/sh
# Mutation test of the runner.go -> IR -> model theorems (lean/Ysgo/Props/C01IR.lean).
#
# usage: runnerir_mutants.sh [patch files...]          (default: all of /verif/mutants/runnerir/*.patch)
#
# For every patch (a unified diff of runner.go against /repo HEAD): apply it in a scratch worktree of /repo, check the
# mutant compiles, translate its runner.go with tools/runnerir into Ysgo/Generated/RunnerIR.lean of a PRIVATE copy of the
# lean tree (never /verif/lean itself) and build Ysgo.Props.C01IR there: exit 0 = GREEN, anything else = BROKEN. The result
# is compared with /verif/mutants/runnerir/EXPECTED.txt (semantic mutants must be BROKEN, neutral rewrites GREEN).
#
# environment:
#   RUNNERIR_LEAN  the private lean copy (default /tmp/ag_runnerir_mut/lean); created on first use from
#                  /tmp/ag_runnerir/lean (warm .lake) if that exists, else from /verif/lean
#   RUNNERIR_SRC   where Ysgo/Spec/RunnerIR.lean and Ysgo/Props/C01IR.lean are refreshed from (default /verif/lean)
# logs: /tmp/runnerir_mut_logs/<patch name>.log (and baseline.log)
# exit: 0 all as expected, 1 some mismatch, 2 the baseline (unpatched /repo) is not GREEN or the set-up failed

export GOFLAGS=-mod=mod GOPROXY=off GOSUMDB=off GOTOOLCHAIN=local

REPO=/repo
VERIF=/verif
MUT=$VERIF/mutants/runnerir
EXPECTED=$MUT/EXPECTED.txt
LEAN="${RUNNERIR_LEAN:-/tmp/ag_runnerir_mut/lean}"
SRC="${RUNNERIR_SRC:-$VERIF/lean}"
LOGS=/tmp/runnerir_mut_logs
TARGET=Ysgo.Props.C01IR
GEN=Ysgo/Generated/RunnerIR.lean
wt=/tmp/wt_rir_$$
tmpgen=/tmp/rir_gen_$$.lean
lock="$LEAN.lock"

case "$LEAN" in
  $VERIF/lean|$VERIF/lean/*) echo "runnerir_mutants: refusing to build inside $VERIF/lean"; exit 2;;
esac

mkdir -p "$LOGS"

# ---------------------------------------------------------------- private lean copy
if [ ! -d "$LEAN" ]; then
  mkdir -p "$(dirname "$LEAN")"
  if [ -d /tmp/ag_runnerir/lean ]; then
    cp -r /tmp/ag_runnerir/lean "$LEAN" || { echo "runnerir_mutants: cannot copy /tmp/ag_runnerir/lean"; exit 2; }
  else
    cp -r $VERIF/lean "$LEAN" || { echo "runnerir_mutants: cannot copy $VERIF/lean"; exit 2; }
  fi
fi

if ! mkdir "$lock" 2>/dev/null; then
  echo "runnerir_mutants: $LEAN is in use by another run (remove $lock if that run is dead)"; exit 2
fi

have_wt=0
remove_wt() {
  if [ $have_wt = 1 ]; then
    git -C $REPO worktree remove --force $wt >/dev/null 2>&1
    rm -rf $wt
    git -C $REPO worktree prune >/dev/null 2>&1
    have_wt=0
  fi
}
cleanup() { remove_wt; rm -f $tmpgen; rmdir "$lock" 2>/dev/null; }
trap 'cleanup' EXIT
trap 'cleanup; exit 130' INT TERM HUP

# the interpreter and the theorems under test: always the current ones
for f in Ysgo/Spec/RunnerIR.lean Ysgo/Props/C01IR.lean; do
  if [ ! -f "$SRC/$f" ]; then echo "runnerir_mutants: $SRC/$f does not exist"; exit 2; fi
  mkdir -p "$(dirname "$LEAN/$f")"
  cmp -s "$SRC/$f" "$LEAN/$f" || cp "$SRC/$f" "$LEAN/$f"
done
mkdir -p "$(dirname "$LEAN/$GEN")"

# translate <repo dir> into the generated file of the copy; 0 = ok
translate() {
  if (cd $VERIF/tools && go run ./runnerir "$1") > $tmpgen 2>>"$2"; then
    cmp -s $tmpgen "$LEAN/$GEN" || cp $tmpgen "$LEAN/$GEN"
    return 0
  fi
  return 1
}

build() { (cd "$LEAN" && lake build $TARGET) >>"$1" 2>&1; }

# name of the theorem (of C01IR.lean) that contains the first error of a build log; the first error line otherwise
first_failure() {
  line=$(grep -E '^error: .*C01IR\.lean:[0-9]+:[0-9]+' "$1" | sed -E 's/^error: [^:]*C01IR\.lean:([0-9]+):.*/\1/' | sort -n | head -1)
  if [ -n "$line" ]; then
    awk -v L="$line" 'NR <= L && $1 == "theorem" { n = $2 } NR <= L && $1 ~ /^(private|protected)$/ && $2 == "theorem" { n = $3 } END { if (n != "") print n; else print "line " L }' "$LEAN/Ysgo/Props/C01IR.lean"
  else
    grep -m1 -E '^error' "$1" | cut -c1-160
  fi
}

# ---------------------------------------------------------------- baseline: unpatched /repo must be GREEN
blog=$LOGS/baseline.log
: > $blog
echo "== baseline: $REPO (unpatched), theorems from $SRC, build in $LEAN"
if ! translate $REPO $blog; then
  echo "runnerir_mutants: the translator fails on the unpatched $REPO (see $blog)"; tail -5 $blog; exit 2
fi
if ! build $blog; then
  echo "runnerir_mutants: BASELINE NOT GREEN: lake build $TARGET fails on the unpatched $REPO (see $blog); first failure: $(first_failure $blog)"
  grep -m5 -E '^error' $blog
  exit 2
fi
echo "baseline GREEN"

# ---------------------------------------------------------------- the patches
if [ $# -eq 0 ]; then set -- $MUT/*.patch; fi

total=0; okc=0; mism=0; unknown=0
mismatches=""
for patch in "$@"; do
  name=$(basename "$patch")
  log=$LOGS/$name.log
  : > $log
  total=$((total + 1))
  exp=$(awk -v n="$name" '$1 == n { print $2 }' $EXPECTED 2>/dev/null | head -1)
  [ -n "$exp" ] || exp="?"
  result=""; detail=""
  case "$patch" in /*) ;; *) patch="$(pwd)/$patch";; esac

  remove_wt
  if ! git -C $REPO worktree add -f $wt HEAD >>$log 2>&1; then
    result="NO-WORKTREE"
  else
    have_wt=1
    if ! git -C $wt apply "$patch" >>$log 2>&1; then
      result="PATCH-DOES-NOT-APPLY"
    elif ! (cd $wt && go build ./...) >>$log 2>&1; then
      result="DOES-NOT-COMPILE"
    elif ! translate $wt $log; then
      result="BROKEN(translator)"
    elif build $log; then
      result="GREEN"
    else
      result="BROKEN"
      detail=$(first_failure $log)
    fi
  fi
  remove_wt

  case "$result" in
    "BROKEN(translator)") cmpres=BROKEN;;
    *) cmpres=$result;;
  esac
  if [ "$exp" = "?" ]; then
    verdict="no-expectation"; unknown=$((unknown + 1))
  elif [ "$cmpres" = "$exp" ]; then
    verdict="ok"; okc=$((okc + 1))
  else
    verdict="MISMATCH"; mism=$((mism + 1)); mismatches="$mismatches $name"
  fi
  if [ -n "$detail" ]; then
    echo "$name $result expected=$exp $verdict [$detail]"
  else
    echo "$name $result expected=$exp $verdict"
  fi
done

# ---------------------------------------------------------------- leave the copy with the file of the unpatched /repo
if ! translate $REPO $blog; then echo "runnerir_mutants: warning: could not restore $LEAN/$GEN from $REPO"; fi

echo "== summary: $total patches, $okc as expected, $mism MISMATCH, $unknown without expectation (logs: $LOGS)"
if [ $mism -ne 0 ]; then
  echo "== mismatches:$mismatches"
  exit 1
fi
exit 0
