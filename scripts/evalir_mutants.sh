#!/bin/sh
# Mutation test of the evaluator.go <-> model tie (tools/evalir + Spec/GoIR.lean + Props/C02IR.lean).
# For every patch of mutants/evalir/*.patch: apply it to a scratch worktree of the repository under /tmp, check that the
# mutant compiles, regenerate Generated/EvalIR.lean from it into a PRIVATE copy of the lean directory, build
# Ysgo.Props.C02IR there and print GREEN (theorems still hold) or BROKEN (translator refused the source, or a theorem
# fails), next to the expectation of mutants/evalir/EXPECTED.txt.
# usage: evalir_mutants.sh [patch ...]        (default: all patches)
# environment: VERIF (default /verif), VERIF_REPO (default /repo); VERIF_LEAN / VERIF_TOOLS / VERIF_MUTANTS override the
# places the lean sources, the tools and the patches are taken from (used before the files were delivered).
VERIF="${VERIF:-/verif}"
REPO="${VERIF_REPO:-/repo}"
LEAN_SRC="${VERIF_LEAN:-$VERIF/lean}"
TOOLS="${VERIF_TOOLS:-$VERIF/tools}"
MUT="${VERIF_MUTANTS:-$VERIF/mutants/evalir}"
export GOFLAGS=-mod=mod GOPROXY=off GOSUMDB=off GOTOOLCHAIN=local

work=/tmp/evalir_mut_$$
wt=$work/wt
mkdir -p $work
trap 'git -C "$REPO" worktree remove --force $wt >/dev/null 2>&1; git -C "$REPO" worktree prune; rm -rf $work' EXIT INT TERM

# private copy of the lean sources (never build in $VERIF/lean)
mkdir -p $work/lean
(cd "$LEAN_SRC" && tar cf - --exclude=.lake .) | (cd $work/lean && tar xf -)
gen=$work/lean/Ysgo/Generated/EvalIR.lean

build() {  # regenerate from the repository given, build the theorems; prints GREEN or BROKEN
  if ! (cd "$TOOLS" && go run ./evalir "$1") > $gen 2> $work/gen.err; then
    echo "BROKEN (translator: $(head -1 $work/gen.err | cut -c1-100))"
    return
  fi
  if (cd $work/lean && lake build Ysgo.Props.C02IR) > $work/build.log 2>&1; then
    echo GREEN
  else
    echo "BROKEN ($(grep -c 'error:' $work/build.log) errors, first: $(grep -m1 'error:' $work/build.log | sed 's/.*error: //' | cut -c1-80))"
  fi
}

printf '%-52s %-8s %s\n' "patch" "expected" "result"
printf '%-52s %-8s %s\n' "(unpatched repository)" "GREEN" "$(build "$REPO")"
[ $# -gt 0 ] || set -- "$MUT"/*.patch
fail=0
for p in "$@"; do
  case "$p" in /*) ;; *) p="$PWD/$p" ;; esac
  name=$(basename "$p" .patch)
  expected=$(grep -E "^$name[[:space:]]" "$MUT/EXPECTED.txt" 2>/dev/null | awk '{print $2}')
  git -C "$REPO" worktree add -f $wt HEAD >/dev/null 2>&1
  if ! git -C $wt apply "$p" 2>/dev/null; then
    result="PATCH DOES NOT APPLY"
  elif ! (cd $wt && go build ./... ) >/dev/null 2>&1; then
    result="MUTANT DOES NOT COMPILE"
  else
    result=$(build $wt)
  fi
  git -C "$REPO" worktree remove --force $wt >/dev/null 2>&1
  case "$result" in "$expected"*) ;; *) fail=1; result="$result   <-- UNEXPECTED" ;; esac
  printf '%-52s %-8s %s\n' "$name" "${expected:-?}" "$result"
done
[ $fail -eq 0 ] && echo "all results as expected" || echo "SOME RESULTS DIFFER FROM EXPECTED.txt"
exit $fail
