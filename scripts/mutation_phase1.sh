#!/bin/bash
# development helper, phase 1 of the mechanical mutation sweep: which mutants compile and pass the existing test suite
# usage: mutation_phase1.sh <workers> <out file>
W=${1:-6}; OUT=${2:-/tmp/mut_survivors.txt}
export GOFLAGS=-mod=mod GOPROXY=off GOSUMDB=off GOTOOLCHAIN=local
FILES="runner.go evaluator.go base_functions.go command_storer.go function_storer.go markup/line_parser.go markup/processors.go markup/parse_result.go internal/tree/parser_listener.go internal/tree/tree.go internal/tree/creator.go internal/parser/indent_aware_lexer.go internal/container/queue.go internal/container/stack.go internal/rng/rng.go internal/rng/seed.go variable/value.go variable/in_memory_storer.go"
: > /tmp/mut_all.txt
for f in $FILES; do /verif/build/mutate list /repo/$f | while read i line op desc; do echo "$f $i $line $op $desc"; done; done >> /tmp/mut_all.txt
: > $OUT
worker() {
  w=$1; wt=/tmp/mut_w$w
  git -C /repo worktree add -f $wt HEAD >/dev/null 2>&1
  awk -v w=$w -v W=$W 'NR % W == w' /tmp/mut_all.txt | while read f i line op desc; do
    /verif/build/mutate apply /repo/$f $i > $wt/$f.mut 2>/dev/null || { rm -f $wt/$f.mut; continue; }
    mv $wt/$f.mut $wt/$f
    if (cd $wt && timeout 120 go build ./... >/dev/null 2>&1 && timeout 120 go build -tags verif ./... >/dev/null 2>&1 && timeout 180 go test -vet=off -count=1 ./... >/dev/null 2>&1); then
      echo "$f $i $line $op $desc" >> $OUT
    fi
    git -C $wt checkout -- $f
  done
  git -C /repo worktree remove --force $wt
}
for w in $(seq 0 $((W-1))); do worker $w & done
wait
git -C /repo worktree prune
echo "sites: $(wc -l < /tmp/mut_all.txt) survivors: $(wc -l < $OUT)"
