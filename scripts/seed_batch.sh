#!/bin/sh
# development helper: evaluate one delivery of a seed round (ROUND=5|6 ...): seed_batch.sh Cxx A|B [extra props...]
p="$1"; ab="$2"; shift 2
src=/tmp/seed${ROUND:-5}_out/$p/$ab
low=$(echo $ab | tr AB ab)
name=$p-r${ROUND:-5}$low
demo=$(ls $src/*_test.go | head -1)
pkg=$(grep -m1 '^package ' $demo | awk '{print $2}')
case "$pkg" in
  ysgo_test|ysgo) dir=. ;;
  markup|markup_test) dir=markup ;;
  variable|variable_test) dir=variable ;;
  tree|tree_test) dir=internal/tree ;;
  parser|parser_test) dir=internal/parser ;;
  container|container_test) dir=internal/container ;;
  rng|rng_test) dir=internal/rng ;;
  *) dir=. ;;
esac
$(dirname "$0")/seed_eval.sh $src $name $dir $p "$@" 2>&1
