#!/bin/bash
# development helper, phase 2 of the mechanical mutation sweep: run the checks of the touched area against each surviving mutant
# usage: mutation_phase2.sh <survivors file> <every n-th> <out file>
IN=$1; NTH=${2:-1}; OUT=${3:-/tmp/mut_phase2.txt}
export GOFLAGS=-mod=mod GOPROXY=off GOSUMDB=off GOTOOLCHAIN=local
checks_for() {
  case $1 in
    runner.go) echo "C12 C03 C06 C07 C01 C11 C10 C04 C14";;
    evaluator.go) echo "C02 C06 C09";;
    base_functions.go) echo "C19 C09 C06";;
    command_storer.go) echo "C10 C16 C17 C06";;
    function_storer.go) echo "C16 C06 C02";;
    markup/line_parser.go) echo "C13 C15 C14";;
    markup/processors.go) echo "C13 C15";;
    markup/parse_result.go) echo "C15 C13";;
    internal/tree/parser_listener.go) echo "C01 C03 C17 C04 C05";;
    internal/tree/tree.go) echo "C17 C01 C07 C08";;
    internal/tree/creator.go) echo "C05 C08 C01";;
    internal/parser/indent_aware_lexer.go) echo "C20 C08 C05";;
    internal/container/*) echo "C20";;
    internal/rng/*) echo "C09 C05";;
    variable/*) echo "C03 C04 C19";;
  esac
}
wt=/tmp/mut_p2
awk -v n=$NTH 'NR % n == 0' $IN | while read f i line op desc; do
  git -C /repo worktree add -f $wt HEAD >/dev/null 2>&1
  /verif/build/mutate apply /repo/$f $i > $wt/$f.mut && mv $wt/$f.mut $wt/$f
  verdict="SURVIVED"
  for c in $(checks_for $f); do
    if VERIF_REPO=$wt /verif/check $c --tier quick 2>&1 | grep -q "^VIOLATION"; then verdict="CAUGHT $c"; break; fi
  done
  echo "$verdict | $f:$line #$i $op $desc" >> $OUT
  git -C /repo worktree remove --force $wt; git -C /repo worktree prune
done
echo DONE >> $OUT
