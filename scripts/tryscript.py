#!/usr/bin/env python3
"""development helper: run a Yarn script given on stdin (or as argument) through the implementation side of the run stream
   usage: tryscript.py 'ops...' < script.yarn     e.g. tryscript.py '(next 0 0) (next 0 0)'"""
import sys, subprocess
ops = sys.argv[1] if len(sys.argv) > 1 else "(next 0 0) (next 0 0) (next 0 0)"
src = sys.stdin.read()
s = "(s " + " ".join(str(ord(c)) for c in src) + ")"
case = f"(case run try (srcs {s}) (seed (s 97)) (vars) (ops {ops}))\n"
print(subprocess.run(["/verif/build/harness", "run"], input=case, capture_output=True, text=True).stdout)
