#!/usr/bin/env python3
"""development helper: print the table of seeded changes (DESIGN.md R.5) from seeded/*/meta.json"""
import json, os, sys

root = os.path.join(os.path.dirname(os.path.abspath(__file__)), "..", "seeded")
rows = []
for d in sorted(os.listdir(root)):
    mp = os.path.join(root, d, "meta.json")
    if not os.path.exists(mp):
        print("missing meta.json:", d, file=sys.stderr)
        continue
    m = json.load(open(mp))
    caught = "; ".join(m.get("caught_by", []))
    rows.append((d, m.get("breaks", ""), m.get("needs", ""), caught, m.get("strengthened", "")))
print("| seeded change | breaks | needs | caught by | strengthened |")
print("|---|---|---|---|---|")
for r in rows:
    print("| " + " | ".join(x.replace("|", "\\|").replace("\n", " ") for x in r) + " |")
print()
print(f"{len(rows)} seeded changes")
