#!/bin/sh
# For every patch in /verif/mutants/convir: apply it in a scratch git worktree of /repo, regenerate
# Generated/ConvIR.lean from the patched source into a PRIVATE copy of the Lean project, build Props/C19IR and
# Props/C13IR there and report BROKEN (a theorem no longer holds / the translator refused) or GREEN.
# Semantic mutants (S*) must be BROKEN, neutral rewrites (N*) must be GREEN: see mutants/convir/EXPECTED.txt.
#
# usage: scripts/convir_mutants.sh [patch ...]        (default: all of /verif/mutants/convir/*.patch)
#   CONVIR_LEAN=<dir>  reuse this private copy of /verif/lean (it is created and first built if missing)
#   VERIF=<dir>        where tools/ and mutants/ are (default /verif)
#   VERBOSE=1          show the first error lines of a broken build
VERIF=${VERIF:-/verif}
REPO=${VERIF_REPO:-/repo}
export GOFLAGS=-mod=mod GOPROXY=off GOSUMDB=off GOTOOLCHAIN=local
LEAN=${CONVIR_LEAN:-/tmp/convir_mut_lean}
wt=/tmp/wt_convir_$$
exp=$VERIF/mutants/convir/EXPECTED.txt

if [ ! -d "$LEAN" ]; then
  mkdir -p "$LEAN" && (cd $VERIF/lean && tar cf - --exclude=.lake .) | (cd "$LEAN" && tar xf -)
fi
# the private copy gets the current versions of the files this check is about
cp $VERIF/lean/Ysgo/Spec/ConvIR.lean "$LEAN/Ysgo/Spec/ConvIR.lean"
cp $VERIF/lean/Ysgo/Props/C19IR.lean $VERIF/lean/Ysgo/Props/C13IR.lean "$LEAN/Ysgo/Props/"

gen_and_build() { # $1 = repo tree
  (cd $VERIF/tools && go run ./convir "$1") > "$LEAN/Ysgo/Generated/ConvIR.lean.new" 2> "$LEAN/convir.err" || { echo "translator refused: $(head -1 "$LEAN/convir.err")" > "$LEAN/build.log"; return 1; }
  mv "$LEAN/Ysgo/Generated/ConvIR.lean.new" "$LEAN/Ysgo/Generated/ConvIR.lean"
  (cd "$LEAN" && lake build Ysgo.Props.C19IR Ysgo.Props.C13IR) > "$LEAN/build.log" 2>&1
}

echo "== baseline (unpatched $REPO)"
if gen_and_build "$REPO"; then echo "baseline GREEN"; else echo "baseline BROKEN"; grep -m5 "error" "$LEAN/build.log"; exit 2; fi

patches="$@"
[ -z "$patches" ] && patches=$(ls $VERIF/mutants/convir/*.patch)
fail=0
for patch in $patches; do
  name=$(basename "$patch" .patch)
  want=$(grep -E "^$name[[:space:]]" "$exp" 2>/dev/null | awk '{print $2}')
  git -C "$REPO" worktree add -f $wt HEAD >/dev/null 2>&1
  if ! git -C $wt apply "$patch" 2>/dev/null; then
    echo "$name PATCH-DOES-NOT-APPLY (expected ${want:-?})"; fail=1
  elif ! (cd $wt && go build ./... >/dev/null 2>&1); then
    echo "$name DOES-NOT-COMPILE (expected ${want:-?})"; fail=1
  else
    if gen_and_build $wt; then got=GREEN; else got=BROKEN; fi
    which=""
    if [ $got = BROKEN ]; then
      which=$(grep -oE "error: Ysgo/Props/(C19IR|C13IR)\.lean:[0-9]+" "$LEAN/build.log" | sed 's/^error: //' | sort -u | while IFS=: read f l; do
        awk -v n=$l 'NR<=n && /^(theorem|example)/ {t=$2} END{print t}' "$LEAN/$f"; done | sort -u | tr '\n' ' ')
      [ -z "$which" ] && which=$(head -1 "$LEAN/build.log")
    fi
    mark=ok
    [ -n "$want" ] && [ "$want" != "$got" ] && { mark=UNEXPECTED; fail=1; }
    echo "$name $got (expected ${want:-?}) $mark $which"
    [ -n "$VERBOSE" ] && [ $got = BROKEN ] && grep -m3 -A3 "error:" "$LEAN/build.log"
  fi
  git -C "$REPO" worktree remove --force $wt >/dev/null 2>&1; git -C "$REPO" worktree prune
done
# leave the private copy regenerated from the unpatched source
gen_and_build "$REPO" >/dev/null 2>&1
[ -z "$CONVIR_LEAN" ] && rm -rf "$LEAN"
exit $fail
