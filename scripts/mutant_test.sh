#!/bin/sh
# development helper: apply a patch to a scratch worktree of /repo (HEAD), check it builds and passes the tests, run a check
# usage: mutant_test.sh <patch> <Cxx> [tier]
patch="$1"; prop="$2"; tier="${3:-quick}"
wt=/tmp/wt_mut_$$
export GOFLAGS=-mod=mod GOPROXY=off GOSUMDB=off GOTOOLCHAIN=local
git -C /repo worktree add -f $wt HEAD >/dev/null 2>&1
if ! git -C $wt apply "$patch"; then echo "patch does not apply"; git -C /repo worktree remove --force $wt; exit 2; fi
if ! (cd $wt && go build ./... && go test -vet=off -count=1 ./... >/tmp/mut_test_$$.log 2>&1); then echo "MUTANT DOES NOT BUILD OR FAILS THE TESTS:"; tail -5 /tmp/mut_test_$$.log; else echo "mutant builds and passes the 272 tests"; fi
rm -f /tmp/mut_test_$$.log
echo "== $(basename $patch) -> ./check $prop --tier $tier"
VERIF_REPO=$wt /verif/check $prop --tier $tier 2>&1 | tail -3
git -C /repo worktree remove --force $wt; git -C /repo worktree prune
