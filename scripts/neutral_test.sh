#!/bin/sh
# development helper: apply a behaviour-preserving patch and run ALL checks (quick) against it: none may alarm
patch="$1"; shift
home=$(cd "$(dirname "$0")/.." && pwd)
wt=/tmp/wt_neutral_$$
export GOFLAGS=-mod=mod GOPROXY=off GOSUMDB=off GOTOOLCHAIN=local
git -C /repo worktree add -f $wt HEAD >/dev/null 2>&1
git -C $wt apply "$patch" || { echo "patch does not apply"; git -C /repo worktree remove --force $wt; exit 2; }
(cd $wt && go build ./... && go test -vet=off -count=1 ./... >/dev/null 2>&1) && echo "builds, tests pass" || echo "BUILD OR TESTS FAIL"
echo "== $(basename $patch)"
for p in ${@:-C01 C02 C03 C04 C05 C06 C07 C08 C09 C10 C11 C12 C13 C14 C15 C16 C17 C18 C19 C20}; do
  VERIF_REPO=$wt $home/check $p --tier quick 2>&1 | grep -E "VIOLATION|quick:" | grep -v "violations=0" | cut -c1-160
done
echo "== done"
git -C /repo worktree remove --force $wt; git -C /repo worktree prune
