#!/bin/bash
# development helper: run the checks of the touched area against each behaviour-preserving patch of a directory; none may alarm
# usage: neutral_batch.sh <dir with *.patch> <out file>
DIR=$1; OUT=${2:-/tmp/neutral_batch.txt}
export GOFLAGS=-mod=mod GOPROXY=off GOSUMDB=off GOTOOLCHAIN=local
checks_for() {
  case $1 in
    runner.go) echo "C01 C03 C04 C06 C07 C10 C11 C12 C14 C17";;
    evaluator.go) echo "C02 C06 C09";;
    base_functions.go) echo "C19 C09 C06";;
    command_storer.go) echo "C10 C16 C17 C06";;
    function_storer.go) echo "C16 C06 C02 C18";;
    markup/*) echo "C13 C15 C14 C04";;
    internal/tree/parser_listener.go) echo "C01 C03 C17 C04 C05 C08";;
    internal/tree/tree.go) echo "C17 C01 C07 C08 C11";;
    internal/tree/creator.go) echo "C05 C08 C01";;
    internal/parser/indent_aware_lexer.go) echo "C20 C08 C05";;
    internal/container/*) echo "C20 C01";;
    internal/rng/*) echo "C09 C05";;
    variable/*) echo "C03 C04 C19 C07";;
    snapshot.go) echo "C07";;
  esac
}
wt=/tmp/neut_eval
for patch in $DIR/*.patch; do
  git -C /repo worktree add -f $wt HEAD >/dev/null 2>&1
  if ! git -C $wt apply $patch 2>/dev/null; then echo "DOES-NOT-APPLY | $patch" >> $OUT; git -C /repo worktree remove --force $wt; continue; fi
  if ! (cd $wt && go build ./... && go build -tags verif ./... && go test -vet=off -count=1 ./... >/dev/null 2>&1); then echo "BUILD-OR-TESTS-FAIL | $patch" >> $OUT; git -C /repo worktree remove --force $wt; continue; fi
  files=$(git -C $wt diff --name-only)
  cs=$(for f in $files; do checks_for $f; done | tr ' ' '\n' | sort -u | tr '\n' ' ')
  verdict="QUIET"
  for c in $cs; do
    o=$(VERIF_REPO=$wt /verif/check $c --tier quick 2>&1 | grep -E "^VIOLATION" | head -2 | tr '\n' ';')
    if [ -n "$o" ]; then verdict="ALARM $c: $o"; break; fi
  done
  echo "$verdict | $patch | files: $files | checks: $cs" >> $OUT
  git -C /repo worktree remove --force $wt; git -C /repo worktree prune
done
echo DONE >> $OUT
