#!/bin/sh
# development helper: revert one fix commit of /repo in a scratch worktree and run a check against it
# usage: revert_test.sh <commit-ish or grep pattern of the subject> <Cxx> [tier]
set -e
pat="$1"; prop="$2"; tier="${3:-quick}"
wt=/tmp/wt_revert_$$
c=$(git -C /repo log --format='%h %s' | grep -i -- "$pat" | head -1 | cut -d' ' -f1)
[ -n "$c" ] || { echo "no commit matches $pat"; exit 2; }
git -C /repo worktree add -f $wt HEAD >/dev/null 2>&1
(cd $wt && git revert --no-commit $c >/dev/null 2>&1) || { echo "revert of $c does not apply"; git -C /repo worktree remove --force $wt; exit 2; }
echo "== reverted $c ($(git -C /repo log --format=%s -1 $c | cut -c1-70)) -> ./check $prop"
set +e
VERIF_REPO=$wt /verif/check $prop --tier $tier 2>&1 | tail -4
rc=$?
git -C /repo worktree remove --force $wt
git -C /repo worktree prune
