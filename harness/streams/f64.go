package streams

import (
	"fmt"
	"math"
	"strconv"

	"github.com/remieven/ysgo/variable"

	"verifharness/obs"
	"verifharness/sexp"
)

func bitsOf(f float64) string {
	if f != f {
		return "nan"
	}
	return strconv.FormatUint(math.Float64bits(f), 10)
}

// F64 runs one floating point operation with the Go compiler's arithmetic: (case f64 id op a b) or (case f64 id op (s ...)).
func F64(c *sexp.S, out *Out) {
	op := c.List[3].Atom
	if op == "parse" {
		f, err := strconv.ParseFloat(c.List[4].GoString(), 64)
		if err != nil {
			out.Put("err")
		} else {
			out.Put("%s", bitsOf(f))
		}
		return
	}
	a := math.Float64frombits(c.List[4].Uint())
	var b float64
	if len(c.List) > 5 {
		b = math.Float64frombits(c.List[5].Uint())
	}
	switch op {
	case "add":
		out.Put("%s", bitsOf(a+b))
	case "sub":
		out.Put("%s", bitsOf(a-b))
	case "mul":
		out.Put("%s", bitsOf(a*b))
	case "div":
		out.Put("%s", bitsOf(a/b))
	case "mod":
		out.Put("%s", bitsOf(math.Mod(a, b)))
	case "neg":
		out.Put("%s", bitsOf(-a))
	case "lt":
		out.Put("%v", a < b)
	case "le":
		out.Put("%v", a <= b)
	case "eq":
		out.Put("%v", a == b)
	case "floor":
		out.Put("%s", bitsOf(math.Floor(a)))
	case "ceil":
		out.Put("%s", bitsOf(math.Ceil(a)))
	case "trunc":
		out.Put("%s", bitsOf(math.Trunc(a)))
	case "round":
		out.Put("%s", bitsOf(math.Round(a)))
	case "toint":
		out.Put("%d", int64(a))
	case "toint32":
		out.Put("%d", int32(a))
	case "toint16":
		out.Put("%d", int16(a))
	case "toint8":
		out.Put("%d", int8(a))
	case "ofint":
		out.Put("%s", bitsOf(float64(int64(c.List[4].Uint()))))
	case "pow10":
		out.Put("%s", bitsOf(math.Pow10(int(int64(c.List[4].Uint())))))
	case "f32":
		out.Put("%s", bitsOf(float64(float32(a))))
	case "fmt":
		out.Put("%s", obs.Esc(fmt.Sprint(a)))
	case "display":
		out.Put("%s", obs.Esc(variable.NewNumber(a).ToString()))
	default:
		out.Put("BADOP")
	}
}

func init() { Register("f64", F64) }
