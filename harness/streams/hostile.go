package streams

import (
	"fmt"
	"strings"

	"github.com/remieven/ysgo"
	"github.com/remieven/ysgo/variable"

	"verifharness/sexp"
)

// Hostile runs a script on a host whose functions change the runner's surroundings while an expression is being
// evaluated: they clear the storer, change the type of a variable, write variables, take snapshots. The property (C06) is
// about every host configuration: whatever such a function does, Next answers with an element, the end or an error — it
// never panics — and stays usable. There is no model of these hosts: the observations are judged by the no-panic predicate
// alone (the model side answers UNMODELLED).
//
//	(case hostile <id> (srcs (s ...)) (vars ...) (ops (next 0 c) ...))
func Hostile(c *sexp.S, out *Out) {
	h, err := newHostRunner(c)
	if err != nil {
		out.Put("LOAD ERR")
		return
	}
	one := func() *variable.Value { v := 1.0; return &variable.Value{Number: &v} }
	h.dr.AddFunction("wipe", func(a []*variable.Value) (*variable.Value, error) {
		h.storer.Clear()
		return one(), nil
	})
	h.dr.AddFunction("retype", func(a []*variable.Value) (*variable.Value, error) {
		if len(a) != 1 || a[0].String == nil {
			return nil, fmt.Errorf("retype wants a name")
		}
		name := *a[0].String
		cur, ok := h.storer.GetValue(name)
		switch {
		case !ok || cur.Boolean != nil:
			h.storer.SetNumberValue(name, 2)
		case cur.Number != nil:
			h.storer.SetStringValue(name, "x")
		default:
			h.storer.SetBooleanValue(name, true)
		}
		return one(), nil
	})
	h.dr.AddFunction("drop", func(a []*variable.Value) (*variable.Value, error) {
		// remove one variable: everything else is written back
		if len(a) != 1 || a[0].String == nil {
			return nil, fmt.Errorf("drop wants a name")
		}
		all := h.storer.GetValues()
		h.storer.Clear()
		for k, v := range all {
			if k != *a[0].String {
				v := v
				setValue(h.storer, k, &v)
			}
		}
		return one(), nil
	})
	var kept []*ysgo.Snapshot
	h.dr.AddFunction("snapf", func(a []*variable.Value) (*variable.Value, error) {
		s := h.dr.Snapshot()
		kept = append(kept, s)
		if s.Variables != nil {
			z := 0.0
			s.Variables["scribble"] = variable.Value{Number: &z}
		}
		return one(), nil
	})
	// a function that puts the runner back to where it started while Next is evaluating the expression that called it (a
	// "load game" action; once per case: a host that rewinds every time never lets the dialogue get anywhere). Asking the
	// runner for the next element from inside a function is NOT tried: a runner is not re-entrant, as it is not safe for
	// concurrent use.
	start := h.dr.Snapshot()
	rewound := false
	h.dr.AddFunction("rewind", func(a []*variable.Value) (*variable.Value, error) {
		if !rewound {
			rewound = true
			if err := h.dr.RestoreAt(start); err != nil {
				return nil, err
			}
		}
		return one(), nil
	})
	out.Put("LOAD OK")
	for _, op := range c.Find("ops").Args() {
		a := op.Args()
		if op.Head() != "next" {
			out.Put("BADOP")
			continue
		}
		choice := a[1].Int()
		if h.waiting > 0 {
			choice %= h.waiting
		}
		res := h.next(choice)
		// the class only
		for _, cls := range []string{"PANIC", "ERR", "END", "WAIT", "L", "O"} {
			if strings.HasPrefix(res, cls) {
				res = cls
				break
			}
		}
		out.Put("%s", res)
	}
	_ = kept
}

func init() { Register("hostile", Hostile) }
