package streams

import (
	"fmt"
	"strings"

	"github.com/remieven/ysgo"
	"github.com/remieven/ysgo/variable"

	"verifharness/sexp"
)

// Hostile runs a script on a host whose functions change the runner's surroundings while an expression is being
// evaluated: they clear the storer, change the type of a variable, write variables, take snapshots. The property (C06) is
// about every host configuration: whatever such a function does, Next answers with an element, the end or an error — it
// never panics — and stays usable. There is no model of these hosts: the observations are judged by the no-panic predicate
// alone (the model side answers UNMODELLED).
//
//	(case hostile <id> (srcs (s ...)) (vars ...) (ops (next 0 c) ...))
func Hostile(c *sexp.S, out *Out) {
	h, err := newHostRunner(c)
	if err != nil {
		out.Put("LOAD ERR")
		return
	}
	one := func() *variable.Value { v := 1.0; return &variable.Value{Number: &v} }
	h.dr.AddFunction("wipe", func(a []*variable.Value) (*variable.Value, error) {
		h.storer.Clear()
		return one(), nil
	})
	h.dr.AddFunction("retype", func(a []*variable.Value) (*variable.Value, error) {
		if len(a) != 1 || a[0].String == nil {
			return nil, fmt.Errorf("retype wants a name")
		}
		name := *a[0].String
		cur, ok := h.storer.GetValue(name)
		switch {
		case !ok || cur.Boolean != nil:
			h.storer.SetNumberValue(name, 2)
		case cur.Number != nil:
			h.storer.SetStringValue(name, "x")
		default:
			h.storer.SetBooleanValue(name, true)
		}
		return one(), nil
	})
	h.dr.AddFunction("drop", func(a []*variable.Value) (*variable.Value, error) {
		// remove one variable: everything else is written back
		if len(a) != 1 || a[0].String == nil {
			return nil, fmt.Errorf("drop wants a name")
		}
		all := h.storer.GetValues()
		h.storer.Clear()
		for k, v := range all {
			if k != *a[0].String {
				v := v
				setValue(h.storer, k, &v)
			}
		}
		return one(), nil
	})
	var kept []*ysgo.Snapshot
	h.dr.AddFunction("snapf", func(a []*variable.Value) (*variable.Value, error) {
		s := h.dr.Snapshot()
		kept = append(kept, s)
		if s.Variables != nil {
			z := 0.0
			s.Variables["scribble"] = variable.Value{Number: &z}
		}
		return one(), nil
	})
	// a function that puts the runner back to where it started while Next is evaluating the expression that called it (a
	// "load game" action; once per case: a host that rewinds every time never lets the dialogue get anywhere). Asking the
	// runner for the next element from inside a function is NOT tried: a runner is not re-entrant, as it is not safe for
	// concurrent use.
	start := h.dr.Snapshot()
	rewound := false
	h.dr.AddFunction("rewind", func(a []*variable.Value) (*variable.Value, error) {
		if !rewound {
			rewound = true
			if err := h.dr.RestoreAt(start); err != nil {
				return nil, err
			}
		}
		return one(), nil
	})
	out.Put("LOAD OK")
	for _, op := range c.Find("ops").Args() {
		a := op.Args()
		if op.Head() != "next" {
			out.Put("BADOP")
			continue
		}
		choice := a[1].Int()
		if h.waiting > 0 {
			choice %= h.waiting
		}
		res := h.next(choice)
		// the class only
		for _, cls := range []string{"PANIC", "ERR", "END", "WAIT", "L", "O"} {
			if strings.HasPrefix(res, cls) {
				res = cls
				break
			}
		}
		out.Put("%s", res)
	}
	_ = kept
	out.Put("%s", orderProbe())
}

// orderProbe: operands are read when their turn comes. A host function that writes a variable between two reads of that
// variable in ONE expression makes the order of evaluation visible (left operand, then the call, then the right operand;
// arguments left to right): the expected texts follow from Yarn's evaluation order alone.
func orderProbe() (res string) {
	defer func() {
		if r := recover(); r != nil {
			res = "ORDER bad PANIC"
		}
	}()
	storer := variable.NewInMemoryStorer()
	dr, err := ysgo.NewDialogueRunner(storer, "o", strings.NewReader("title: Order\n---\n<<declare $n = 1>>\n<<declare $f = false>>\n"+
		"A {$n + bump() + $n}\nB {three($n, bump(), $n)}\nC {$f or (raise() and $f)}\nD {$n * 2 - bump() * $n}\n<<report {$n} {bump()} {$n} done>>\nE {$n}\n===\n"))
	if err != nil {
		return "ORDER bad load"
	}
	dr.AddFunction("bump", func(a []*variable.Value) (*variable.Value, error) {
		cur, _ := storer.GetValue("n")
		storer.SetNumberValue("n", *cur.Number+10)
		v := 1.0
		return &variable.Value{Number: &v}, nil
	})
	dr.AddFunction("raise", func(a []*variable.Value) (*variable.Value, error) {
		storer.SetBooleanValue("f", true)
		v := true
		return &variable.Value{Boolean: &v}, nil
	})
	dr.AddFunction("three", func(a []*variable.Value) (*variable.Value, error) {
		parts := make([]string, len(a))
		for i, x := range a {
			parts[i] = x.ToString()
		}
		v := strings.Join(parts, ",")
		return &variable.Value{String: &v}, nil
	})
	var reported []string
	dr.AddCommand("report", func(a []*variable.Value) <-chan error {
		for _, x := range a {
			reported = append(reported, x.ToString())
		}
		ch := make(chan error, 1)
		ch <- nil
		return ch
	})
	var got []string
	for i := 0; i < 5; i++ {
		el, err := dr.Next(0)
		if err != nil || el == nil || el.Line == nil {
			return "ORDER bad " + strings.Join(got, "|") + " then no line"
		}
		got = append(got, el.Line.Text)
	}
	// A: 1 + 1 + 11; B: 11, 1, 21; C: false or (true and true); D: 21*2 - 1*31
	if want := "A 13|B 11,1,21|C True|D 11|E 41"; strings.Join(got, "|") != want {
		return "ORDER bad " + strings.Join(got, "|") + " wanted " + want
	}
	// the command statement between D and E: each element is the value it had when its turn came, and stays that value
	if want := "31,1,41,done"; strings.Join(reported, ",") != want {
		return "ORDER bad command arguments " + strings.Join(reported, ",") + " wanted " + want
	}
	return "ORDER ok"
}

func init() { Register("hostile", Hostile) }
