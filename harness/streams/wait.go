package streams

import (
	"fmt"
	"math"
	"strings"
	"sync"
	"sync/atomic"
	"time"

	"github.com/remieven/ysgo"
	"github.com/remieven/ysgo/variable"

	"verifharness/sexp"
)

// Wait exercises pending commands with real goroutines and the real clock.
//
//	(case wait <id> duration <bits>)          the duration arithmetic of <<wait n>> (through the hook), in nanoseconds
//	(case wait <id> timing <bits>)            <<wait {$n}>> timed with the monotonic clock: never reported complete early
//	(case wait <id> shape <shape> <delayMs> <ok|err>)   converted handlers of every supported shape completing after a delay
func Wait(c *sexp.S, out *Out) {
	kind := c.List[3].Atom
	switch kind {
	case "duration":
		x := math.Float64frombits(c.List[4].Uint())
		out.Put("%d", int64(ysgo.VerifSecondsToDuration(x)))
	case "timing":
		out.Put("%s", patient(func() string { return waitTiming(math.Float64frombits(c.List[4].Uint())) }))
	case "shape":
		out.Put("%s", patient(func() string { return waitShape(c.List[4].Atom, c.List[5].Int(), c.List[6].Atom == "err") }))
	case "crowd":
		out.Put("%s", patient(func() string { return waitCrowd(c.List[4].Int(), c.List[5].Atom) }))
	case "cross":
		out.Put("%s", patient(func() string { return waitCross(c.List[4].Atom, c.List[5].Int()) }))
	case "abandon":
		out.Put("%s", patient(func() string { return waitAbandon(c.List[4].Atom, c.List[5].Atom == "err", c.List[6].Atom == "err") }))
	default:
		out.Put("BADKIND")
	}
}

// patient: the verdicts "a Next call took longer than the budget" and "the command never completed" are measured against
// the wall clock; on a machine that stalls this process for half a second (a freshly restored sandbox, a loaded host) they
// say nothing about the library. Such a verdict is believed only when three attempts in a row give it — a Next that really
// blocks, or a completion that is really lost, fails every time. Verdicts about order and values are never retried.
func patient(scenario func() string) string {
	res := scenario()
	for attempt := 1; attempt < 3 && (strings.Contains(res, "blocked") || strings.Contains(res, "never-completed") || strings.Contains(res, "no-waiting-answer")); attempt++ {
		time.Sleep(200 * time.Millisecond)
		res = scenario()
	}
	return res
}

// waitCrowd: n runners, each executing a command whose handler returns only after the handlers of ALL n runners have been
// invoked (actors waiting for each other's cue). Alone, every runner's handler is invoked by its own Next; together it must
// be the same — whatever the library shares between runners must not make one runner's command wait for another's.
func waitCrowd(n int, shape string) string {
	var entered int32
	all := make(chan struct{})
	var once sync.Once
	arrive := func() {
		if int(atomic.AddInt32(&entered, 1)) == n {
			once.Do(func() { close(all) })
		}
	}
	runners := make([]*ysgo.DialogueRunner, n)
	for i := range runners {
		dr, err := ysgo.NewDialogueRunner(nil, "a", strings.NewReader("title: S\n---\nbefore\n<<hold>>\nafter\n===\n"))
		if err != nil {
			return "CROWD loaderr"
		}
		var regErr error
		switch shape {
		case "noret":
			regErr = dr.ConvertAndAddCommand("hold", func() { arrive(); <-all })
		case "err":
			regErr = dr.ConvertAndAddCommand("hold", func() error { arrive(); <-all; return nil })
		case "chan":
			regErr = dr.ConvertAndAddCommand("hold", func() <-chan error {
				arrive()
				ch := make(chan error, 1)
				go func() { <-all; ch <- nil }()
				return ch
			})
		default:
			dr.AddCommand("hold", func([]*variable.Value) <-chan error {
				arrive()
				ch := make(chan error, 1)
				go func() { <-all; ch <- nil }()
				return ch
			})
		}
		if regErr != nil {
			return "CROWD registration-refused"
		}
		runners[i] = dr
		if el, err, _, p := timedNext(dr); p || err != nil || el == nil || el.Line.Text != "before" {
			return "CROWD bad-first-line"
		}
	}
	for _, dr := range runners {
		if _, err, took, p := timedNext(dr); p || took > nextBudget {
			return fmt.Sprintf("CROWD next-blocked-for %v", took)
		} else if err != ysgo.ErrWaitingForCommandCompletion && n > 1 {
			return "CROWD not-waiting"
		}
	}
	select {
	case <-all:
	case <-time.After(3 * time.Second):
		once.Do(func() { close(all) }) // let the goroutines go
		return fmt.Sprintf("CROWD only %d of %d handlers were invoked: a runner's command waits for other runners", atomic.LoadInt32(&entered), n)
	}
	deadline := time.Now().Add(5 * time.Second)
	for i, dr := range runners {
		for {
			el, err, _, p := timedNext(dr)
			if p {
				return "CROWD panic"
			}
			if err == ysgo.ErrWaitingForCommandCompletion {
				if time.Now().After(deadline) {
					return fmt.Sprintf("CROWD never-completed runner %d", i)
				}
				time.Sleep(time.Millisecond)
				continue
			}
			if err != nil || el == nil || el.Line == nil || el.Line.Text != "after" {
				return "CROWD unexpected-element"
			}
			break
		}
	}
	return "CROWD ok"
}

// waitCross: runner B is inside a built-in <<wait>>; runner A, with a command of its own pending, is restored (or its
// command completes, fails, or a third runner is created) meanwhile. B's wait is B's business: it ends when its time is
// up — Next answers "waiting" until then and resumes afterwards, exactly as when B runs alone.
func waitCross(what string, ms int) string {
	script := "title: S\n---\nbefore\n<<wait {$n}>>\nafter\n===\n"
	storerB := variable.NewInMemoryStorer()
	storerB.SetNumberValue("n", float64(ms)/1000)
	b, err := ysgo.NewDialogueRunner(storerB, "b", strings.NewReader(script))
	if err != nil {
		return "CROSS loaderr"
	}
	a, err := ysgo.NewDialogueRunner(nil, "a", strings.NewReader("title: S\n---\nbefore\n<<work>>\nafter\n===\n"))
	if err != nil {
		return "CROSS loaderr"
	}
	gate := make(chan error, 1)
	a.AddCommand("work", func([]*variable.Value) <-chan error { return gate })
	snapA := a.Snapshot()
	for _, r := range []*ysgo.DialogueRunner{a, b} {
		if el, err, _, p := timedNext(r); p || err != nil || el == nil || el.Line.Text != "before" {
			return "CROSS bad-first-line"
		}
	}
	if _, err, _, p := timedNext(a); p || err != ysgo.ErrWaitingForCommandCompletion {
		return "CROSS a-not-waiting"
	}
	start := time.Now()
	if _, err, _, p := timedNext(b); p || err != ysgo.ErrWaitingForCommandCompletion {
		return "CROSS b-not-waiting"
	}
	switch what {
	case "restore":
		if err := a.RestoreAt(snapA); err != nil {
			return "CROSS restore-refused"
		}
	case "complete":
		gate <- nil
		timedNext(a)
	case "fail":
		gate <- fmt.Errorf("work failed")
		timedNext(a)
	case "new":
		if _, err := ysgo.NewDialogueRunner(nil, "c", strings.NewReader(script)); err != nil {
			return "CROSS loaderr"
		}
	}
	for {
		el, err, took, p := timedNext(b)
		elapsed := time.Since(start)
		switch {
		case p:
			return "CROSS panic"
		case took > nextBudget:
			return fmt.Sprintf("CROSS next-blocked-for %v", took)
		case err == ysgo.ErrWaitingForCommandCompletion:
			if elapsed > time.Duration(ms)*time.Millisecond+3*time.Second {
				return "CROSS never-completed: the other runner's " + what + " took this runner's wait with it"
			}
			time.Sleep(2 * time.Millisecond)
		case err != nil:
			return "CROSS error " + err.Error()
		case el != nil && el.Line != nil && el.Line.Text == "after":
			if elapsed < time.Duration(ms)*time.Millisecond-time.Millisecond {
				return fmt.Sprintf("CROSS early: the wait of %d ms was reported over after %v", ms, elapsed)
			}
			return "CROSS ok"
		default:
			return "CROSS unexpected-element"
		}
	}
}

// waitAbandon: a command is pending, the runner is restored (which abandons that invocation), the abandoned invocation
// completes afterwards, and the same command is executed again: the second invocation is a command of its own — Next
// answers "waiting" while it runs and reports its result, not the abandoned one's.
func waitAbandon(shape string, fails1, fails2 bool) string {
	dr, err := ysgo.NewDialogueRunner(nil, "a", strings.NewReader("title: S\n---\nbefore\n<<work 7 x>>\nafter\n===\n"))
	if err != nil {
		return "ABANDON loaderr"
	}
	var calls int32
	gates := []chan struct{}{make(chan struct{}), make(chan struct{})}
	done := []chan struct{}{make(chan struct{}), make(chan struct{})}
	outcome := func(k int) error {
		if (k == 0 && fails1) || (k == 1 && fails2) {
			return fmt.Errorf("work %d failed", k+1)
		}
		return nil
	}
	enter := func() int {
		k := int(atomic.AddInt32(&calls, 1)) - 1
		if k > 1 {
			k = 1
		}
		return k
	}
	var regErr error
	switch shape {
	case "noret":
		fails1, fails2 = false, false
		regErr = dr.ConvertAndAddCommand("work", func(a int, s string) { k := enter(); <-gates[k]; close(done[k]) })
	case "err":
		regErr = dr.ConvertAndAddCommand("work", func(a int, s string) error { k := enter(); <-gates[k]; close(done[k]); return outcome(k) })
	case "chan":
		regErr = dr.ConvertAndAddCommand("work", func(a int, s string) chan error {
			k := enter()
			ch := make(chan error, 1)
			go func() { <-gates[k]; ch <- outcome(k); close(done[k]) }()
			return ch
		})
	case "raw":
		dr.AddCommand("work", func(args []*variable.Value) <-chan error {
			k := enter()
			ch := make(chan error, 1)
			go func() { <-gates[k]; ch <- outcome(k); close(done[k]) }()
			return ch
		})
	default:
		return "ABANDON badshape"
	}
	if regErr != nil {
		return "ABANDON registration-refused"
	}
	snap := dr.Snapshot()
	if el, err, _, p := timedNext(dr); p || err != nil || el == nil || el.Line.Text != "before" {
		return "ABANDON bad-first-line"
	}
	for i := 0; i < 3; i++ {
		if _, err, took, p := timedNext(dr); p || took > nextBudget || err != ysgo.ErrWaitingForCommandCompletion {
			return "ABANDON first-invocation-not-pending"
		}
	}
	if err := dr.RestoreAt(snap); err != nil {
		return "ABANDON restore-refused"
	}
	close(gates[0])
	<-done[0]
	time.Sleep(20 * time.Millisecond) // the abandoned invocation has reported whatever it reports
	if el, err, _, p := timedNext(dr); p || err != nil || el == nil || el.Line.Text != "before" {
		return "ABANDON bad-first-line-after-restore"
	}
	// the second invocation starts now and stays blocked on its gate
	for i := 0; i < 5; i++ {
		el, err, took, p := timedNext(dr)
		switch {
		case p:
			return "ABANDON panic"
		case took > nextBudget:
			return fmt.Sprintf("ABANDON next-blocked-for %v", took)
		case err == ysgo.ErrWaitingForCommandCompletion:
		case err != nil:
			return "ABANDON error-reported-while-the-second-invocation-runs: " + err.Error()
		default:
			return fmt.Sprintf("ABANDON resumed-while-the-second-invocation-runs (element %v)", el != nil)
		}
		time.Sleep(2 * time.Millisecond)
	}
	if n := atomic.LoadInt32(&calls); n != 2 {
		return fmt.Sprintf("ABANDON handler-invoked-%d-times", n)
	}
	close(gates[1])
	start := time.Now()
	errors := 0
	for {
		el, err, took, p := timedNext(dr)
		switch {
		case p:
			return "ABANDON panic"
		case took > nextBudget:
			return fmt.Sprintf("ABANDON next-blocked-for %v", took)
		case err == ysgo.ErrWaitingForCommandCompletion:
			if time.Since(start) > 6*time.Second {
				return "ABANDON never-completed"
			}
			time.Sleep(time.Millisecond)
		case err != nil:
			errors++
			if errors > 1 || !strings.Contains(err.Error(), "work 2 failed") {
				return "ABANDON wrong-error: " + err.Error()
			}
		case el != nil && el.Line != nil && el.Line.Text == "after":
			if fails2 && errors != 1 {
				return "ABANDON error-not-surfaced"
			}
			if !fails2 && errors != 0 {
				return "ABANDON spurious-error"
			}
			if n := atomic.LoadInt32(&calls); n != 2 {
				return fmt.Sprintf("ABANDON handler-invoked-%d-times", n)
			}
			return "ABANDON ok"
		default:
			return "ABANDON unexpected-element"
		}
	}
}

// a Next call that takes longer than this is considered blocking (generous: the machine may be busy; an implementation
// that waits for the handler inside Next is caught by the missing "waiting" answers, not by this budget)
const nextBudget = 500 * time.Millisecond

func timedNext(dr *ysgo.DialogueRunner) (el *ysgo.DialogueElement, err error, took time.Duration, panicked bool) {
	start := time.Now()
	defer func() {
		if r := recover(); r != nil {
			panicked = true
		}
		took = time.Since(start)
	}()
	el, err = dr.Next(0)
	return
}

func waitTiming(n float64) string {
	storer := variable.NewInMemoryStorer()
	storer.SetNumberValue("n", n)
	dr, err := ysgo.NewDialogueRunner(storer, "a", strings.NewReader("title: S\n---\nbefore\n<<wait {$n}>>\nafter\n===\n"))
	if err != nil {
		return "TIMING loaderr"
	}
	if el, err, _, p := timedNext(dr); p || err != nil || el == nil || el.Line.Text != "before" {
		return "TIMING bad-first-line"
	}
	start := time.Now()
	limit := 400 * time.Millisecond // longer waits are only observed to be still pending at the limit
	for {
		el, err, took, p := timedNext(dr)
		elapsed := time.Since(start)
		switch {
		case p:
			return "TIMING panic"
		case took > nextBudget:
			return fmt.Sprintf("TIMING next-blocked-for %v", took)
		case err == ysgo.ErrWaitingForCommandCompletion:
			if elapsed > limit && n*float64(time.Second) > float64(limit) {
				return "TIMING ok" // still pending, as it must be
			}
			if elapsed > limit+5*time.Second {
				// (a short wait gets five more seconds before it is declared lost: the machine may be busy)
				return fmt.Sprintf("TIMING never-completed n=%v", n)
			}
			time.Sleep(2 * time.Millisecond)
		case err != nil:
			return "TIMING error " + err.Error()
		case el != nil && el.Line != nil && el.Line.Text == "after":
			// completion was reported: not before n seconds have passed (n <= 0, NaN: at once is fine)
			if n > 0 && elapsed.Seconds() < n*(1-1e-9)-1e-9 {
				return fmt.Sprintf("TIMING early: completion of wait %v reported after %v", n, elapsed)
			}
			return "TIMING ok"
		default:
			return "TIMING unexpected-element"
		}
	}
}

type namedChan chan error

func waitShape(shape string, delayMs int, fails bool) string {
	dr, err := ysgo.NewDialogueRunner(nil, "a", strings.NewReader("title: S\n---\nbefore\n<<work 7 x>>\nafter\n===\n"))
	if err != nil {
		return "SHAPE loaderr"
	}
	var calls int32
	var gotArgs atomic.Value
	delay := time.Duration(delayMs) * time.Millisecond
	result := func() error {
		if fails {
			return fmt.Errorf("work failed")
		}
		return nil
	}
	record := func(a int, s string) {
		atomic.AddInt32(&calls, 1)
		gotArgs.Store(fmt.Sprintf("%d,%s", a, s))
	}
	var regErr error
	switch shape {
	case "noret":
		regErr = dr.ConvertAndAddCommand("work", func(a int, s string) { record(a, s); time.Sleep(delay) })
		fails = false
	case "err":
		regErr = dr.ConvertAndAddCommand("work", func(a int, s string) error { record(a, s); time.Sleep(delay); return result() })
	case "chan":
		regErr = dr.ConvertAndAddCommand("work", func(a int, s string) chan error {
			record(a, s)
			ch := make(chan error, 1)
			go func() { time.Sleep(delay); ch <- result() }()
			return ch
		})
	case "recvchan":
		regErr = dr.ConvertAndAddCommand("work", func(a int, s string) <-chan error {
			record(a, s)
			ch := make(chan error) // unbuffered
			go func() { time.Sleep(delay); ch <- result() }()
			return ch
		})
	case "namedchan":
		regErr = dr.ConvertAndAddCommand("work", func(a int, s string) namedChan {
			record(a, s)
			ch := make(namedChan, 1)
			go func() { time.Sleep(delay); ch <- result() }()
			return ch
		})
	case "nilchan":
		regErr = dr.ConvertAndAddCommand("work", func(a int, s string) chan error { record(a, s); return nil })
		fails = true
	case "raw":
		dr.AddCommand("work", func(args []*variable.Value) <-chan error {
			record(int(*args[0].Number), *args[1].String)
			ch := make(chan error, 1)
			go func() { time.Sleep(delay); ch <- result() }()
			return ch
		})
	default:
		return "SHAPE badshape"
	}
	if regErr != nil {
		return "SHAPE registration-refused"
	}
	if el, err, _, p := timedNext(dr); p || err != nil || el == nil || el.Line.Text != "before" {
		return "SHAPE bad-first-line"
	}
	start := time.Now()
	waits, errors := 0, 0
	for {
		el, err, took, p := timedNext(dr)
		switch {
		case p:
			return "SHAPE panic"
		case took > nextBudget:
			return fmt.Sprintf("SHAPE next-blocked-for %v (handler delay %v)", took, delay)
		case err == ysgo.ErrWaitingForCommandCompletion:
			waits++
			if time.Since(start) > delay+6*time.Second {
				return "SHAPE never-completed"
			}
			time.Sleep(time.Millisecond)
		case err != nil:
			errors++
			if errors > 1 {
				return "SHAPE error-surfaced-more-than-once"
			}
		case el != nil && el.Line != nil && el.Line.Text == "after":
			if time.Since(start) < delay && shape != "nilchan" {
				return fmt.Sprintf("SHAPE resumed-before-completion after %v of %v", time.Since(start), delay)
			}
			if fails && errors != 1 {
				return "SHAPE error-not-surfaced"
			}
			if !fails && errors != 0 {
				return "SHAPE spurious-error"
			}
			if n := atomic.LoadInt32(&calls); n != 1 {
				return fmt.Sprintf("SHAPE handler-invoked-%d-times", n)
			}
			if a, _ := gotArgs.Load().(string); a != "7,x" {
				return "SHAPE wrong-arguments " + a
			}
			if delayMs >= 40 && waits == 0 && shape != "nilchan" {
				return "SHAPE no-waiting-answer-although-handler-was-running"
			}
			// the end must follow, and the handler must not run again
			el2, err2, _, _ := timedNext(dr)
			if el2 != nil || err2 != nil || atomic.LoadInt32(&calls) != 1 {
				return "SHAPE bad-end"
			}
			return "SHAPE ok"
		default:
			return "SHAPE unexpected-element"
		}
	}
}

func init() { Register("wait", Wait) }
