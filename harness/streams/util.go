package streams

import (
	"io"
	"math"
)

type ioReader = io.Reader

func float64frombits(b uint64) float64 { return math.Float64frombits(b) }
