// Package streams runs the real implementation on case lines and prints canonical observations.
package streams

import (
	"bufio"
	"fmt"
	"io"
	"os"
	"sort"
	"strconv"
	"strings"
	"testing/iotest"
	"unicode/utf8"

	"github.com/remieven/ysgo"
	"github.com/remieven/ysgo/markup"
	"github.com/remieven/ysgo/variable"
	"github.com/remieven/ysgo/verifhook"

	"verifharness/obs"
	"verifharness/sexp"
)

// Out writes observation lines: case id, index within the case, observation.
type Out struct {
	W  *bufio.Writer
	ID string
	K  int
}

func (o *Out) Put(format string, args ...any) {
	fmt.Fprintf(o.W, "%s\t%d\t%s\n", o.ID, o.K, fmt.Sprintf(format, args...))
	o.K++
	o.W.Flush()
}

func markupValue(v markup.Value) string {
	switch v.ValueType {
	case markup.ValueTypeInteger:
		return "i:" + strconv.Itoa(v.IntegerValue)
	case markup.ValueTypeFloat:
		return "f:" + obs.Num(v.FloatValue)
	case markup.ValueTypeString:
		return "s:" + obs.Esc(v.StringValue)
	case markup.ValueTypeBool:
		return "b:" + strconv.FormatBool(v.BoolValue)
	}
	return "?"
}

// Attrs prints the attributes of a parse result in order.
func Attrs(attributes []markup.Attribute) string {
	parts := make([]string, 0, len(attributes))
	for _, a := range attributes {
		keys := make([]string, 0, len(a.Properties))
		for k := range a.Properties {
			keys = append(keys, k)
		}
		sort.Strings(keys)
		props := make([]string, 0, len(keys))
		for _, k := range keys {
			props = append(props, obs.Esc(k)+"="+markupValue(a.Properties[k]))
		}
		parts = append(parts, fmt.Sprintf("%s@%d+%d@%d{%s}", obs.Esc(a.Name), a.Position, a.Length, a.SourcePosition, strings.Join(props, ",")))
	}
	return strings.Join(parts, ";")
}

func tags(ts []string) string {
	parts := make([]string, len(ts))
	for i, t := range ts {
		parts[i] = obs.Esc(t)
	}
	return strings.Join(parts, ",")
}

type hostRunner struct {
	dr      *ysgo.DialogueRunner
	storer  variable.Storer
	log     []string
	ctl     chan error
	waiting int        // number of options presented by the last element, 0 if none
	ends    int        // consecutive END results; after three, further next operations are skipped (both sides apply this rule)
	held    []heldElem // the last elements the runner returned, with what they showed then
}

func (h *hostRunner) takeLog() string {
	s := strings.Join(h.log, ";")
	h.log = h.log[:0]
	return s
}

func decodeValue(s *sexp.S) *variable.Value {
	switch s.Head() {
	case "num":
		return variable.NewNumber(float64frombits(s.List[1].Uint()))
	case "bool":
		return variable.NewBoolean(s.List[1].Atom == "true")
	case "str":
		return variable.NewString(s.List[1].GoString())
	}
	return nil
}

func setValue(st variable.Storer, name string, v *variable.Value) {
	switch {
	case v == nil:
	case v.Number != nil:
		st.SetNumberValue(name, *v.Number)
	case v.Boolean != nil:
		st.SetBooleanValue(name, *v.Boolean)
	case v.String != nil:
		st.SetStringValue(name, *v.String)
	}
}

// mapStorer is a storer of the host's own: the library must work through the variable.Storer interface alone. One map,
// copies in and out (the behaviour the interface promises, implemented independently of variable.InMemoryStorer).
type mapStorer struct{ m map[string]variable.Value }

func copyValue(v variable.Value) variable.Value {
	var c variable.Value
	if v.Number != nil {
		n := *v.Number
		c.Number = &n
	}
	if v.Boolean != nil {
		b := *v.Boolean
		c.Boolean = &b
	}
	if v.String != nil {
		t := *v.String
		c.String = &t
	}
	return c
}

func (s *mapStorer) GetValue(name string) (*variable.Value, bool) {
	v, ok := s.m[name]
	if !ok {
		return nil, false
	}
	c := copyValue(v)
	return &c, true
}

func (s *mapStorer) GetValues() map[string]variable.Value {
	out := make(map[string]variable.Value, len(s.m))
	for k, v := range s.m {
		out[k] = copyValue(v)
	}
	return out
}

func (s *mapStorer) Contains(name string) bool { _, ok := s.m[name]; return ok }
func (s *mapStorer) SetNumberValue(name string, v float64) {
	s.m[name] = variable.Value{Number: &v}
}
func (s *mapStorer) SetBooleanValue(name string, v bool) {
	s.m[name] = variable.Value{Boolean: &v}
}
func (s *mapStorer) SetStringValue(name string, v string) {
	s.m[name] = variable.Value{String: &v}
}
func (s *mapStorer) Clear() { s.m = map[string]variable.Value{} }

func newHostRunner(c *sexp.S) (*hostRunner, error) { return newHostRunnerAlt(c, false) }

// newHostRunnerAlt: with alt, the last of several readers holds another version of its file (every node in it greets with
// ENTER instead of enter)
func newHostRunnerAlt(c *sexp.S, alt bool) (*hostRunner, error) {
	h := &hostRunner{storer: variable.NewInMemoryStorer()}
	// every other case runs on a storer of the host's own
	if id := c.List[2].Atom; len(id) > 0 && (id[len(id)-1]-'0')%2 == 1 {
		h.storer = &mapStorer{m: map[string]variable.Value{}}
	}
	if vars := c.Find("vars"); vars != nil {
		for _, kv := range vars.Args() {
			setValue(h.storer, kv.List[0].GoString(), decodeValue(kv.List[1]))
		}
	}
	var readers []*strings.Reader
	srcList := c.Find("srcs").Args()
	for i, src := range srcList {
		text := src.GoString()
		if alt && len(srcList) >= 2 && i == len(srcList)-1 {
			text = strings.ReplaceAll(text, "enter ", "ENTER ")
		}
		readers = append(readers, strings.NewReader(text))
	}
	seed := "seed"
	if s := c.Find("seed"); s != nil {
		seed = s.List[1].GoString()
	}
	dr, err := newRunner(h.storer, seed, readers)
	if err != nil {
		return nil, err
	}
	h.dr = dr
	dr.AddFunction("probe", func(a []*variable.Value) (*variable.Value, error) {
		h.log = append(h.log, "probe("+obs.Values(a)+")")
		if len(a) != 1 {
			return nil, fmt.Errorf("arity")
		}
		return a[0], nil
	})
	// tick hands out the SAME *Value at every call and counts in place (a host that recycles its result object): whoever
	// keeps the pointer instead of using the value at once sees later counts
	zero := 0.0
	tickCell := &variable.Value{Number: &zero}
	dr.AddFunction("tick", func(a []*variable.Value) (*variable.Value, error) {
		h.log = append(h.log, "tick("+obs.Values(a)+")")
		if len(a) != 0 {
			return nil, fmt.Errorf("arity")
		}
		*tickCell.Number++
		return tickCell, nil
	})
	dr.AddFunction("two", func(a []*variable.Value) (*variable.Value, error) {
		h.log = append(h.log, "two("+obs.Values(a)+")")
		if len(a) != 2 {
			return nil, fmt.Errorf("arity")
		}
		return a[0], nil
	})
	dr.AddFunction("boom", func(a []*variable.Value) (*variable.Value, error) {
		h.log = append(h.log, "boom("+obs.Values(a)+")")
		return nil, fmt.Errorf("boom")
	})
	dr.AddFunction("crash", func(a []*variable.Value) (*variable.Value, error) {
		h.log = append(h.log, "crash("+obs.Values(a)+")")
		panic("the host function crash panics")
	})
	dr.AddFunction("nr", func(a []*variable.Value) (*variable.Value, error) {
		h.log = append(h.log, "nr("+obs.Values(a)+")")
		return nil, nil
	})
	recorder := h.recorder
	if c.Find("bare") != nil {
		// a host that registers nothing before the run starts: every handler it has arrives through addcmd
		return h, nil
	}
	dr.AddCommand("cmd", recorder("cmd"))
	if cmds := c.Find("cmds"); cmds != nil {
		for _, n := range cmds.Args() {
			dr.AddCommand(n.GoString(), recorder(n.GoString()))
		}
	}
	dr.AddCommand("failing", func(a []*variable.Value) <-chan error {
		h.log = append(h.log, "cmd:failing("+obs.Values(a)+")")
		ch := make(chan error, 1)
		ch <- hostError(len(a))
		return ch
	})
	dr.AddCommand("ctl", func(a []*variable.Value) <-chan error {
		h.log = append(h.log, "cmd:ctl("+obs.Values(a)+")")
		h.ctl = make(chan error, 1)
		return h.ctl
	})
	return h, nil
}

// recorder is a handler that logs its invocation and completes at once
func (h *hostRunner) recorder(name string) ysgo.YarnSpinnerCommand {
	return func(a []*variable.Value) <-chan error {
		h.log = append(h.log, "cmd:"+obs.Esc(name)+"("+obs.Values(a)+")")
		ch := make(chan error, 1)
		ch <- nil
		return ch
	}
}

// errors of the host come in every shape an error value can have: a pointer, a string, a struct
type strErr string

func (e strErr) Error() string { return string(e) }

type structErr struct{ code int }

func (e structErr) Error() string { return fmt.Sprintf("host error %d", e.code) }

func hostError(k int) error {
	switch k % 3 {
	case 0:
		return fmt.Errorf("failing")
	case 1:
		return strErr("failing")
	}
	return structErr{k}
}

func newRunner(storer variable.Storer, seed string, readers []*strings.Reader) (dr *ysgo.DialogueRunner, err error) {
	defer func() {
		if r := recover(); r != nil {
			err = fmt.Errorf("PANIC %v", r)
		}
	}()
	rs := make([]ioReader, len(readers))
	for i, r := range readers {
		rs[i] = shapedReader(r, ReaderShape+i)
	}
	return ysgo.NewDialogueRunner(storer, seed, rs...)
}

// ReaderShape is set per case (from the case id) by the dispatcher: the io.Reader contract allows many delivery
// patterns, and what a script means must not depend on which one the host's reader happens to have.
var ReaderShape int

// shapedReader delivers the same bytes as r in one of several contract-conforming ways.
func shapedReader(r *strings.Reader, shape int) ioReader {
	switch shape % 6 {
	case 1:
		return iotest.DataErrReader(r) // the last bytes arrive together with io.EOF
	case 2:
		return iotest.OneByteReader(r)
	case 3:
		return iotest.HalfReader(r)
	case 4:
		return iotest.DataErrReader(iotest.OneByteReader(r))
	case 5:
		return &chunkReader{r: r, n: 7} // short reads that split multi-byte characters, EOF with the last chunk
	}
	return r
}

type chunkReader struct {
	r *strings.Reader
	n int
}

func (c *chunkReader) Read(p []byte) (int, error) {
	if len(p) > c.n {
		p = p[:c.n]
	}
	n, err := c.r.Read(p)
	if err == nil && c.r.Len() == 0 {
		err = io.EOF
	}
	return n, err
}

func lineObs(l *ysgo.Line) string {
	return obs.Esc(l.Text) + "^" + tags(l.Tags) + "^" + Attrs(l.Attributes)
}

func (h *hostRunner) next(choice int) (result string) {
	defer func() {
		if r := recover(); r != nil {
			result = "PANIC"
		}
	}()
	el, err := h.dr.Next(choice)
	h.waiting = 0
	switch {
	case err == ysgo.ErrWaitingForCommandCompletion:
		return "WAIT"
	case err != nil:
		if errText {
			// (only for comparisons of the implementation with itself: the text of the error belongs to the run)
			return "ERR " + obs.Esc(err.Error())
		}
		return "ERR"
	case el == nil:
		if stale := h.staleHeld(); stale != "" {
			return stale
		}
		return "END"
	default:
		if el.Options != nil || el.Line == nil {
			h.waiting = len(el.Options)
		}
		res := elemObs(el)
		// an element the host was given earlier stays what it was: a game keeps them (backlog, history view)
		if stale := h.staleHeld(); stale != "" {
			return stale
		}
		h.held = append(h.held, heldElem{el, res})
		if len(h.held) > 6 {
			h.held = h.held[1:]
		}
		return res
	}
}

type heldElem struct {
	el    *ysgo.DialogueElement
	first string
}

// staleHeld re-reads the elements returned by earlier Next calls
func (h *hostRunner) staleHeld() string {
	for _, k := range h.held {
		if again := elemObs(k.el); again != k.first {
			return "STALE an element returned earlier has changed: " + again + " (was " + k.first + ")"
		}
	}
	return ""
}

func elemObs(el *ysgo.DialogueElement) (res string) {
	defer func() {
		if r := recover(); r != nil {
			res = "PANIC reading an element"
		}
	}()
	if el.Line != nil {
		return "L|" + obs.Esc(el.Node) + "|" + lineObs(el.Line)
	}
	parts := make([]string, len(el.Options))
	for i, o := range el.Options {
		parts[i] = strconv.FormatBool(o.Disabled) + "^" + lineObs(o.Line)
	}
	return "O|" + obs.Esc(el.Node) + "|" + strings.Join(parts, "~")
}

// errText: print the message of errors too (VERIF_ERRTEXT=1)
var errText = os.Getenv("VERIF_ERRTEXT") == "1"

func (h *hostRunner) state() string {
	snap := h.dr.Snapshot()
	return "|log:" + h.takeLog() + "|v:" + obs.Vars(h.storer.GetValues()) + "|vis:" + obs.Counts(snap.VisitedNodes)
}

// tooBig: a string variable has grown past 500 characters (<<set $s += $s>> in a jump loop doubles it every round);
// both sides stop stepping such a runner, every observation prints the whole store.
func (h *hostRunner) tooBig() bool {
	for _, v := range h.storer.GetValues() {
		if v.String != nil && utf8.RuneCountInString(*v.String) > 500 {
			return true
		}
	}
	return false
}

func snapObs(s *ysgo.Snapshot) string {
	return "SNAP|" + obs.Esc(s.CurrentNode) + "|v:" + obs.Vars(s.Variables) + "|vis:" + obs.Counts(s.VisitedNodes)
}

func stripHeaders(dump string) string {
	s, err := sexp.Parse(dump)
	if err != nil {
		return dump
	}
	for _, n := range s.Args() {
		kept := n.List[:0]
		for _, x := range n.List {
			if x.Head() != "headers" {
				kept = append(kept, x)
			}
		}
		n.List = kept
	}
	return s.String()
}

// Run executes one case of the run stream.
func Run(c *sexp.S, out *Out) {
	noskip := c.Find("noskip") != nil // long sessions: keep calling Next after the end
	runners := map[int]*hostRunner{}
	var snaps []*ysgo.Snapshot
	var srcs []string
	for _, src := range c.Find("srcs").Args() {
		srcs = append(srcs, src.GoString())
	}
	h, err := newHostRunner(c)
	if err != nil {
		if strings.HasPrefix(err.Error(), "PANIC") {
			out.Put("LOAD PANIC")
		} else {
			out.Put("LOAD ERR")
		}
		return
	}
	runners[0] = h
	astState := "noast"
	if prog := c.Find("prog"); prog != nil {
		dump, derr := verifhook.DumpDialogue(srcs...)
		if derr != nil {
			astState = "asterr"
		} else if stripHeaders(dump) == prog.String() {
			astState = "astok"
		} else {
			astState = "astdiff " + stripHeaders(dump)
		}
	}
	out.Put("LOAD OK %s", astState)
	for _, op := range c.Find("ops").Args() {
		a := op.Args()
		switch op.Head() {
		case "new", "newalt":
			nh, err := newHostRunnerAlt(c, op.Head() == "newalt")
			if err != nil {
				out.Put("NEWERR")
				continue
			}
			runners[a[0].Int()] = nh
			out.Put("NEW")
		case "next":
			r := runners[a[0].Int()]
			if r == nil {
				out.Put("NORUNNER")
				continue
			}
			if (r.ends >= 3 && !noskip) || r.tooBig() {
				out.Put("SKIP")
				continue
			}
			choice := a[1].Int()
			if r.waiting > 0 {
				choice %= r.waiting // keep the choice in range; when not waiting the argument is passed as it is
			}
			res := r.next(choice)
			if res == "END" {
				r.ends++
			} else {
				r.ends = 0
			}
			out.Put("%s%s", res, r.state())
		case "snap":
			r := runners[a[0].Int()]
			if r == nil {
				out.Put("NORUNNER")
				continue
			}
			s := r.dr.Snapshot()
			snaps = append(snaps, s)
			out.Put("%s", snapObs(s))
		case "resnap":
			k := a[0].Int()
			if k >= len(snaps) {
				out.Put("NOSNAP")
				continue
			}
			out.Put("%s", snapObs(snaps[k]))
		case "mutsnap":
			// the host scribbles on a snapshot it holds: nothing else (runner, other snapshots) may notice
			k := a[0].Int()
			if k >= len(snaps) {
				out.Put("NOSNAP")
				continue
			}
			seven := 7.0
			if snaps[k].Variables == nil {
				snaps[k].Variables = map[string]variable.Value{}
			}
			snaps[k].Variables["zz_mut"] = variable.Value{Number: &seven}
			if snaps[k].VisitedNodes == nil {
				snaps[k].VisitedNodes = map[string]int{}
			}
			snaps[k].VisitedNodes["zz_mut"] = 9
			out.Put("%s", snapObs(snaps[k]))
		case "restore":
			r := runners[a[0].Int()]
			k := a[1].Int()
			if r == nil || k >= len(snaps) {
				out.Put("NOSNAP")
				continue
			}
			res := guard(func() string {
				if err := r.dr.RestoreAt(snaps[k]); err != nil {
					return "ERR"
				}
				return "OK"
			})
			r.waiting = 0
			if res == "OK" {
				r.ends = 0
			}
			out.Put("RESTORE %s%s", res, r.state())
		case "restorebad":
			r := runners[a[0].Int()]
			if r == nil {
				out.Put("NORUNNER")
				continue
			}
			res := guard(func() string {
				n := 1.0
				if err := r.dr.RestoreAt(&ysgo.Snapshot{CurrentNode: a[1].GoString(), Variables: map[string]variable.Value{"zz": {Number: &n}}, VisitedNodes: map[string]int{"zz": 3}}); err != nil {
					return "ERR"
				}
				return "OK"
			})
			out.Put("RESTORE %s%s", res, r.state())
		case "restorenil":
			// a snapshot the host built itself (say, decoded from a file that omits empty maps): nil maps, a real node
			r := runners[a[0].Int()]
			if r == nil {
				out.Put("NORUNNER")
				continue
			}
			res := guard(func() string {
				if err := r.dr.RestoreAt(&ysgo.Snapshot{CurrentNode: a[1].GoString()}); err != nil {
					return "ERR"
				}
				return "OK"
			})
			r.waiting = 0
			if res == "OK" {
				r.ends = 0
			}
			out.Put("RESTORE %s%s", res, r.state())
		case "hset":
			r := runners[a[0].Int()]
			if r == nil {
				out.Put("NORUNNER")
				continue
			}
			setValue(r.storer, a[1].GoString(), decodeValue(a[2]))
			out.Put("HSET%s", r.state())
		case "hclear":
			// the host empties its storer between two calls
			r := runners[a[0].Int()]
			if r == nil {
				out.Put("NORUNNER")
				continue
			}
			r.storer.Clear()
			out.Put("HSET%s", r.state())
		case "hrev":
			// the host replaces a string variable by another value of exactly the same length (letters and digits rotated by one)
			r := runners[a[0].Int()]
			if r == nil {
				out.Put("NORUNNER")
				continue
			}
			if v, ok := r.storer.GetValue(a[1].GoString()); ok && v.String != nil {
				rs := []rune(*v.String)
				for i, c := range rs {
					switch {
					case c >= 'a' && c <= 'z':
						rs[i] = 'a' + (c-'a'+1)%26
					case c >= 'A' && c <= 'Z':
						rs[i] = 'A' + (c-'A'+1)%26
					case c >= '0' && c <= '9':
						rs[i] = '0' + (c-'0'+1)%10
					}
				}
				r.storer.SetStringValue(a[1].GoString(), string(rs))
			}
			out.Put("HSET%s", r.state())
		case "addcmd":
			// a command registered late, on this runner only, after the run has started
			r := runners[a[0].Int()]
			if r == nil {
				out.Put("NORUNNER")
				continue
			}
			r.dr.AddCommand(a[1].GoString(), r.recorder(a[1].GoString()))
			out.Put("ADDCMD")
		case "complete":
			r := runners[a[0].Int()]
			if r == nil || r.ctl == nil {
				out.Put("NOCTL")
				continue
			}
			if a[1].Atom == "ok" {
				r.ctl <- nil
			} else {
				r.ctl <- hostError(len(r.log) + r.ends)
			}
			r.ctl = nil
			out.Put("DONE")
		default:
			out.Put("BADOP")
		}
	}
}

func guard(f func() string) (res string) {
	defer func() {
		if r := recover(); r != nil {
			res = "PANIC"
		}
	}()
	return f()
}
