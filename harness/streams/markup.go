package streams

import (
	"strconv"
	"strings"
	"unicode"

	"github.com/remieven/ysgo/markup"

	"verifharness/obs"
	"verifharness/sexp"
)

// Stream markup: markup.LineParser on one line (properties C13, C14, C15).
//
//	(case markup <id> chunks  (chunks ...) <line>)          the chunk list is only used by the Lean side (spec)
//	(case markup <id> history (hist <line>*) <line>)        earlier lines parsed on the same LineParser value
//	(case markup <id> fuzz    <line>)
//	(case markup <id> utf8    <line>)                        validates the model's UTF-8 decoder: the runes of the bytes
//	(case markup <id> unicode <lo> <hi>)                     validates the model's Unicode tables on the code points [lo, hi)
//
// <line> is (b byte ...) (arbitrary bytes) or (s codepoint ...).
//
// Observation of one parse: OK|<text>|<attributes as printed by Attrs>|<TextForAttribute of every attribute joined by ;>
// where a panicking TextForAttribute prints as PANIC; or ERR; or PANIC.

func markupLine(s *sexp.S) string {
	if s.Head() == "b" {
		return string(s.GoBytes())
	}
	return s.GoString()
}

func markupTFA(res *markup.ParseResult, a markup.Attribute) (out string) {
	defer func() {
		if r := recover(); r != nil {
			out = "PANIC"
		}
	}()
	return obs.Esc(res.TextForAttribute(a))
}

// MarkupObs parses one line on the given parser and prints the observation.
func MarkupObs(lp *markup.LineParser, line string) (out string) {
	defer func() {
		if r := recover(); r != nil {
			out = "PANIC"
		}
	}()
	out, _ = markupParseObs(lp, line)
	return out
}

// markupParseObs parses one line and returns the observation together with the result object (nil on errors)
func markupParseObs(lp *markup.LineParser, line string) (out string, kept *markup.ParseResult) {
	defer func() {
		if r := recover(); r != nil {
			out, kept = "PANIC", nil
		}
	}()
	res, err := lp.ParseMarkup(line)
	if err != nil {
		return "ERR", nil
	}
	return markupResultObs(res), res
}

// markupResultObs prints what a caller can see of a result it holds
func markupResultObs(res *markup.ParseResult) (out string) {
	defer func() {
		if r := recover(); r != nil {
			out = "PANIC"
		}
	}()
	tfa := make([]string, 0, len(res.Attributes))
	for _, a := range res.Attributes {
		tfa = append(tfa, markupTFA(res, a))
	}
	// the accessor by name: the first attribute of that name, and nothing for a name that does not occur
	seen := map[string]bool{}
	for _, a := range res.Attributes {
		if seen[a.Name] {
			continue
		}
		seen[a.Name] = true
		got, ok := res.Attribute(a.Name)
		if !ok || got.Name != a.Name || got.Position != a.Position || got.Length != a.Length {
			return "LOOKUP-BAD " + obs.Esc(a.Name)
		}
	}
	if _, ok := res.Attribute("\x00 no such name"); ok {
		return "LOOKUP-BAD (absent name found)"
	}
	return "OK|" + obs.Esc(res.Text) + "|" + Attrs(res.Attributes) + "|" + strings.Join(tfa, ";")
}

// Markup runs one case of the markup stream.
func Markup(c *sexp.S, out *Out) {
	if len(c.List) < 5 {
		out.Put("BADCASE")
		return
	}
	switch c.List[3].Atom {
	case "fuzz":
		out.Put("%s", MarkupObs(&markup.LineParser{}, markupLine(c.List[4])))
	case "chunks":
		if len(c.List) < 6 {
			out.Put("BADCASE")
			return
		}
		out.Put("%s", MarkupObs(&markup.LineParser{}, markupLine(c.List[5])))
	case "history":
		if len(c.List) < 6 {
			out.Put("BADCASE")
			return
		}
		lp := &markup.LineParser{}
		// results the caller keeps: a result handed out earlier must not change when the parser is used again
		type held struct {
			res   *markup.ParseResult
			first string
		}
		var keep []held
		for _, h := range c.List[4].Args() {
			if o, res := markupParseObs(lp, markupLine(h)); res != nil {
				keep = append(keep, held{res, o})
			}
		}
		line := markupLine(c.List[5])
		reused := MarkupObs(lp, line)
		fresh := MarkupObs(&markup.LineParser{}, line)
		out.Put("%s", reused)
		if fresh == reused {
			out.Put("FRESH same")
		} else {
			out.Put("FRESH diff %s", fresh)
		}
		for i, k := range keep {
			if again := markupResultObs(k.res); again != k.first {
				out.Put("STALE result %d changed after later parses: %s (was %s)", i, again, k.first)
			}
		}
	case "utf8":
		// the runes Go sees in a byte string
		var b strings.Builder
		for _, r := range markupLine(c.List[4]) {
			b.WriteString(strconv.FormatInt(int64(r), 16))
			b.WriteByte('.')
		}
		out.Put("%s", b.String())
	case "unicode":
		// classification of every code point in [lo, hi): bit 0 IsSpace, bit 1 IsLetter, bit 2 IsDigit; then the code
		// points that ToLower changes
		if len(c.List) < 6 {
			out.Put("BADCASE")
			return
		}
		lo, hi := c.List[4].Int(), c.List[5].Int()
		var cls, low strings.Builder
		for cp := lo; cp < hi; cp++ {
			r := rune(cp)
			if r >= 0xD800 && r <= 0xDFFF {
				cls.WriteByte('-')
				continue
			}
			k := 0
			if unicode.IsSpace(r) {
				k |= 1
			}
			if unicode.IsLetter(r) {
				k |= 2
			}
			if unicode.IsDigit(r) {
				k |= 4
			}
			cls.WriteByte(byte('0' + k))
			if l := unicode.ToLower(r); l != r {
				low.WriteString(strconv.FormatInt(int64(r), 16) + ">" + strconv.FormatInt(int64(l), 16) + ".")
			}
		}
		out.Put("%s|%s", cls.String(), low.String())
	default:
		out.Put("BADCASE")
	}
}

func init() { Register("markup", Markup) }
