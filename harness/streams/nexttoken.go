package streams

import (
	"strings"

	"github.com/remieven/ysgo/verifhook"

	"verifharness/sexp"
)

// NextToken runs the indentation-aware lexer on the text of the case (same case layout as stream tokens, profile layout) and
// prints what the repeated NextToken calls returned, the ordinary tokens included.
//
// Observation 0: the delivered tokens in order, separated by blanks: N (NEWLINE), I<to> (INDENT), D<from> (DEDENT), E (EOF),
// o for every maximal run of other tokens (of any channel), then why the calls ended: EOF, NIL (NextToken returned nil) or
// LIMIT; PANIC if the lexer panicked.
func NextToken(c *sexp.S, out *Out) {
	text := c.Find("text").List[1].GoString()
	tokens, _, panicked := verifhook.Tokens(text, tokensLimit)
	if panicked {
		out.Put("PANIC")
		return
	}
	var b strings.Builder
	stop := "LIMIT"
	inRun := false
	for _, t := range tokens {
		run := false
		switch t.Type {
		case "NEWLINE":
			b.WriteString("N ")
		case "INDENT":
			b.WriteString("I" + tokensDigits.FindString(t.Text) + " ")
		case "DEDENT":
			b.WriteString("D" + tokensDigits.FindString(t.Text) + " ")
		case "EOF":
			b.WriteString("E ")
			stop = "EOF"
		case "<nil>":
			stop = "NIL"
		default:
			run = true
			if !inRun {
				b.WriteString("o ")
			}
		}
		inRun = run
	}
	out.Put("%s%s", b.String(), stop)
}

func init() { Register("nexttoken", NextToken) }
