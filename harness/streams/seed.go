package streams

// Stream `seed` (C05.2 / C09.3): (case seed <id> (b byte ...)) — the bytes are the seed string handed to
// NewDialogueRunner with a fixed valid script.
//
//	line 0: OK | ERR | PANIC                       creation outcome (compared with the model)
//	line 1: DICE a b c                              for OK: the line {dice(1000000)} {dice(1000000)} {dice(1000000)}
//	        (DICE random for the empty seed, whose values are not reproducible); the model prints INFO <int64> here
//
// Stream `seeddice`: (case seeddice <id> <int64>) prints the same DICE line computed directly from
// rand.New(rand.NewSource(v)), so that the int64 the model derives from a seed can be tied to the values the runner shows.

import (
	"fmt"
	"math/rand"
	"strconv"
	"strings"

	"github.com/remieven/ysgo"

	"verifharness/obs"
	"verifharness/sexp"
)

const seedScript = "title: S\n---\n{dice(1000000)} {dice(1000000)} {dice(1000000)}\n===\n"

// Seed runs one case of the seed stream.
func Seed(c *sexp.S, out *Out) {
	seed := string(c.List[3].GoBytes())
	var dr *ysgo.DialogueRunner
	res := guard(func() string {
		var err error
		dr, err = ysgo.NewDialogueRunner(nil, seed, strings.NewReader(seedScript))
		if err != nil {
			return "ERR"
		}
		return "OK"
	})
	out.Put("%s", res)
	if res != "OK" {
		return
	}
	if seed == "" {
		out.Put("DICE random")
		return
	}
	out.Put("%s", guard(func() string {
		el, err := dr.Next(0)
		if err != nil || el == nil || el.Line == nil {
			return "DICE ERR"
		}
		return "DICE " + obs.Esc(el.Line.Text)
	}))
}

// SeedDice prints the three dice values of a source seeded with the given int64.
func SeedDice(c *sexp.S, out *Out) {
	v, err := strconv.ParseInt(c.List[3].Atom, 10, 64)
	if err != nil {
		out.Put("BADCASE")
		return
	}
	r := rand.New(rand.NewSource(v))
	out.Put("DICE %s", obs.Esc(fmt.Sprintf("%d %d %d", 1+r.Intn(1000000), 1+r.Intn(1000000), 1+r.Intn(1000000))))
}

func init() {
	Register("seed", Seed)
	Register("seeddice", SeedDice)
}
