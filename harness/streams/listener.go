package streams

// Stream `listener` (property C01, theorem 5; also the tree-building part of C02, C04, C17): a TWO-PASS stream.
//
//	pass 1   (case listener <id> (src (s ...)))      one Yarn text
//	         line 0: TREE <verifhook.DumpParseTree>   the parse tree the listener walks, or
//	                 LOADERR                          the lexer or the parser reported a syntax error (the tree is not walked)
//	                 PANIC                            lexing or parsing panicked
//	         line 1: AST <verifhook.DumpDialogue with the (headers ...) element of every node removed>, ERR or PANIC
//	         line 2: SPEC same                        (a constant: the model prints whether its listener model and its
//	                                                  structural translation agree on the tree)
//	pass 2   the orchestrator turns line 0 of every case into the model's case
//	         (case listener <id> (tree <dump>))       or (case listener <id> (loaderr)) / (case listener <id> (panic))
//	         and the model prints TREE <the tree it decoded, printed again>, AST <what its listener model builds> (or PANIC /
//	         UNMODELLED), SPEC same|diff; the three lines are compared exactly with the three lines of pass 1.
//
// Given a pass-2 case, this runner echoes: it prints the three lines the implementation would have printed for the tree
// (TREE <dump> from the case itself), so that `harness run` is total on both forms; the AST line of an echoed case is
// `AST ?` and must not be used.

import (
	"github.com/remieven/ysgo/verifhook"

	"verifharness/sexp"
)

// Listener runs one case of the listener stream.
func Listener(c *sexp.S, out *Out) {
	src := c.Find("src")
	if src == nil {
		switch {
		case c.Find("tree") != nil && len(c.Find("tree").List) == 2:
			out.Put("TREE %s", c.Find("tree").List[1].String())
		case c.Find("loaderr") != nil:
			out.Put("LOADERR")
		default:
			out.Put("PANIC")
		}
		out.Put("AST ?")
		out.Put("SPEC same")
		return
	}
	var text string
	if len(src.List) == 2 && src.List[1].Head() == "b" {
		text = string(src.List[1].GoBytes())
	} else if len(src.List) == 2 {
		text = src.List[1].GoString()
	}
	dump, syntaxErrors, err := verifhook.DumpParseTree(text)
	switch {
	case err != nil:
		out.Put("PANIC")
	case syntaxErrors > 0:
		out.Put("LOADERR")
	default:
		out.Put("TREE %s", dump)
	}
	ast, err := verifhook.DumpDialogue(text)
	switch {
	case err != nil && len(err.Error()) >= 6 && err.Error()[:6] == "panic:":
		out.Put("PANIC")
	case err != nil:
		out.Put("ERR")
	default:
		out.Put("AST %s", stripHeaders(ast))
	}
	out.Put("SPEC same")
}

func init() { Register("listener", Listener) }
