package streams

import "verifharness/sexp"

// Runner runs one case of a stream on the implementation.
type Runner func(c *sexp.S, out *Out)

var registry = map[string]Runner{}

// Register adds a stream; called from init functions.
func Register(stream string, r Runner) { registry[stream] = r }

// Dispatch runs one case on the implementation.
func Dispatch(stream string, c *sexp.S, out *Out) {
	if r, ok := registry[stream]; ok {
		r(c, out)
		return
	}
	out.Put("UNKNOWN-STREAM")
}

func init() { Register("run", Run) }
