package streams

import "verifharness/sexp"

// Dispatch runs one case on the implementation.
func Dispatch(stream string, c *sexp.S, out *Out) {
	switch stream {
	case "run":
		Run(c, out)
	default:
		out.Put("UNKNOWN-STREAM")
	}
}
