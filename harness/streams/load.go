package streams

import (
	"strconv"
	"strings"

	"github.com/remieven/ysgo"
	"github.com/remieven/ysgo/verifhook"

	"verifharness/sexp"
)

// Load creates a runner from arbitrary bytes split across readers with an arbitrary seed string.
// Observations: the oracle values of an independent lexer+parser of the same grammar (syntax error count per reader, node
// count of the readers that parse cleanly), then the outcome class of NewDialogueRunner, then three Next calls.
func Load(c *sexp.S, out *Out) {
	var srcs []string
	for _, s := range c.Find("srcs").Args() {
		if s.Head() == "b" {
			srcs = append(srcs, string(s.GoBytes()))
		} else {
			srcs = append(srcs, s.GoString())
		}
	}
	seed := c.Find("seed").List[1].GoString()
	counts := make([]string, len(srcs))
	nodeCounts := make([]string, len(srcs))
	nodes := 0
	for i, src := range srcs {
		n, panicked := verifhook.SyntaxErrors(src)
		if panicked {
			counts[i] = "panic"
			nodeCounts[i] = "0"
			continue
		}
		counts[i] = strconv.Itoa(n)
		nodeCounts[i] = "0"
		if n == 0 {
			if dump, err := verifhook.DumpDialogue(src); err == nil {
				k := strings.Count(dump, "(node ")
				nodes += k
				nodeCounts[i] = strconv.Itoa(k)
			}
		}
	}
	out.Put("ORACLE %s %s", strings.Join(counts, ","), strings.Join(nodeCounts, ","))
	readers := make([]*strings.Reader, len(srcs))
	for i, src := range srcs {
		readers[i] = strings.NewReader(src)
	}
	dr, err := newRunner(nil, seed, readers)
	switch {
	case err != nil && strings.HasPrefix(err.Error(), "PANIC"):
		out.Put("PANIC")
		return
	case err != nil:
		out.Put("ERR")
		return
	}
	out.Put("RUNNER")
	res := guard(func() string {
		for i := 0; i < 3; i++ {
			el, err := dr.Next(0)
			if err == nil && el == nil {
				break
			}
		}
		return "ok"
	})
	out.Put("STEPS %s", res)
	_ = ysgo.ErrWaitingForCommandCompletion
}

func init() { Register("load", Load) }
