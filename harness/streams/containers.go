package streams

import (
	"strings"

	"github.com/remieven/ysgo/verifhook"

	"verifharness/sexp"
)

// Containers runs an operation sequence on the real container.Queue / container.Stack through the hook.
//
//	(case containers <id> queue (ops (enq 5) (deq) (peek) (size) ...))
//	(case containers <id> stack (ops (push 1) (pushall 1 2 3) (pop) (peek) (size) (clear) ...))
//
// A size operation is inserted behind every operation of the case, so that the observation of every operation is
// "<result>/<size afterwards>". Observation 0 is the list of these (API level: what C20 is about). For the queue,
// observation 1 is the raw state "cap,first,next" behind every operation (informational: it depends on the initial
// capacity and on the growth policy, which the property does not fix).
func Containers(c *sexp.S, out *Out) {
	defer func() {
		if r := recover(); r != nil {
			out.Put("PANIC")
		}
	}()
	kind := c.List[3].Atom
	var ops []verifhook.ContainerOp
	for _, o := range c.Find("ops").Args() {
		op := verifhook.ContainerOp{Kind: o.Head()}
		for _, v := range o.Args() {
			op.Values = append(op.Values, v.Int())
		}
		ops = append(ops, op, verifhook.ContainerOp{Kind: "size"})
	}
	switch kind {
	case "queue":
		results := verifhook.QueueRun(ops)
		api := make([]string, 0, len(results)/2)
		raw := make([]string, 0, len(results)/2)
		for i := 0; i+1 < len(results); i += 2 {
			r, _, _ := strings.Cut(results[i], "@")
			s, state, _ := strings.Cut(results[i+1], "@")
			api = append(api, r+"/"+s)
			raw = append(raw, state)
		}
		out.Put("%s", strings.Join(api, " "))
		out.Put("%s", strings.Join(raw, " "))
	case "stack":
		results := verifhook.StackRun(ops)
		api := make([]string, 0, len(results)/2)
		for i := 0; i+1 < len(results); i += 2 {
			api = append(api, results[i]+"/"+results[i+1])
		}
		out.Put("%s", strings.Join(api, " "))
	default:
		out.Put("BADCASE")
	}
}

func init() { Register("containers", Containers) }
