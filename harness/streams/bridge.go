package streams

// Stream `bridge` (property C16): a Go function type is built from the case line with reflect.FuncOf, a probe of that
// type with reflect.MakeFunc, and the probe is registered through the PUBLIC converting API of a real runner
// (ConvertAndAddFunction / ConvertAndAddCommand) and invoked from the script side with arguments supplied through
// variables of the storer.
//
//	(case bridge <id> (kind fn|cmd) (val nil | (nonfunc <what>) | func | nilfunc)
//	      (sig (params t ...) (variadic t|none) (results t ...)) (ret spec ...) (args (num bits)|(bool b)|(str (s ...)) ...))
//
// Observations:
//
//	REG OK|ERR|PANIC
//	fn, REG OK:   CALL <L|ERR|END|PANIC> calls=<received>          script <<call f($a0, ...)>>
//	              SET <L|ERR|END|PANIC> r=<value|unset> calls=...  script <<set $r = f($a0, ...)>>
//	cmd, REG OK:  CMD <L|ERR|WAIT|END|PANIC> calls=<received>      script <<c {$a0} ...>> (polled until it completes)
//	              CMD UNSAFE-SKIP when a typed nil function would be called inside the wrapper's goroutine
//
// <received> lists every invocation of the probe: (type:payload,...|variadic tail) joined by ';', '-' when never invoked.

import (
	"errors"
	"fmt"
	"reflect"
	"strconv"
	"strings"
	"time"

	"github.com/remieven/ysgo"
	"github.com/remieven/ysgo/variable"

	"verifharness/obs"
	"verifharness/sexp"
)

type (
	BNInt     int
	BNInt8    int8
	BNInt16   int16
	BNInt32   int32
	BNInt64   int64
	BNUint    uint
	BNFloat32 float32
	BNFloat64 float64
	BNBool    bool
	BNString  string
	BNErr     error
	BNErrStr  string
	BNErrPtr  struct{}
	BNChan    chan error
	BNRChan   <-chan error
	BStruct   struct{ A int }
)

func (e BNErrStr) Error() string  { return string(e) }
func (e *BNErrPtr) Error() string { return "p" }

var bridgeTypeList = []struct {
	atom string
	t    reflect.Type
}{
	{"int", reflect.TypeOf(int(0))}, {"int8", reflect.TypeOf(int8(0))}, {"int16", reflect.TypeOf(int16(0))},
	{"int32", reflect.TypeOf(int32(0))}, {"int64", reflect.TypeOf(int64(0))}, {"uint", reflect.TypeOf(uint(0))},
	{"float32", reflect.TypeOf(float32(0))}, {"float64", reflect.TypeOf(float64(0))}, {"bool", reflect.TypeOf(false)},
	{"string", reflect.TypeOf("")},
	{"Nint", reflect.TypeOf(BNInt(0))}, {"Nint8", reflect.TypeOf(BNInt8(0))}, {"Nint16", reflect.TypeOf(BNInt16(0))},
	{"Nint32", reflect.TypeOf(BNInt32(0))}, {"Nint64", reflect.TypeOf(BNInt64(0))}, {"Nuint", reflect.TypeOf(BNUint(0))},
	{"Nfloat32", reflect.TypeOf(BNFloat32(0))}, {"Nfloat64", reflect.TypeOf(BNFloat64(0))}, {"Nbool", reflect.TypeOf(BNBool(false))},
	{"Nstring", reflect.TypeOf(BNString(""))},
	{"error", reflect.TypeOf((*error)(nil)).Elem()}, {"Nerror", reflect.TypeOf((*BNErr)(nil)).Elem()},
	{"errstr", reflect.TypeOf(BNErrStr(""))}, {"errptr", reflect.TypeOf((*BNErrPtr)(nil))},
	{"chan", reflect.TypeOf((chan error)(nil))}, {"rchan", reflect.TypeOf((<-chan error)(nil))},
	{"schan", reflect.TypeOf((chan<- error)(nil))}, {"Nchan", reflect.TypeOf(BNChan(nil))},
	{"Nrchan", reflect.TypeOf(BNRChan(nil))}, {"chanX", reflect.TypeOf((chan BNErrStr)(nil))},
	{"struct", reflect.TypeOf(BStruct{})}, {"slice", reflect.TypeOf([]int(nil))}, {"ptr", reflect.TypeOf((*int)(nil))},
	{"any", reflect.TypeOf((*any)(nil)).Elem()}, {"func", reflect.TypeOf((func())(nil))}, {"map", reflect.TypeOf(map[string]int(nil))},
}

var (
	bridgeTypeByAtom = map[string]reflect.Type{}
	bridgeAtomByType = map[reflect.Type]string{}
)

// bridgeTwinTypes: named types declared in a function scope with the names of the package-level ones. reflect prints
// them alike ("streams.BNInt"), yet they are different types: a host may well have two types called Level.
func bridgeTwinTypes() map[string]reflect.Type {
	type (
		BNInt     int
		BNInt8    int8
		BNInt16   int16
		BNInt32   int32
		BNInt64   int64
		BNUint    uint
		BNFloat32 float32
		BNFloat64 float64
		BNBool    bool
		BNString  string
	)
	return map[string]reflect.Type{
		"Nint": reflect.TypeOf(BNInt(0)), "Nint8": reflect.TypeOf(BNInt8(0)), "Nint16": reflect.TypeOf(BNInt16(0)),
		"Nint32": reflect.TypeOf(BNInt32(0)), "Nint64": reflect.TypeOf(BNInt64(0)), "Nuint": reflect.TypeOf(BNUint(0)),
		"Nfloat32": reflect.TypeOf(BNFloat32(0)), "Nfloat64": reflect.TypeOf(BNFloat64(0)), "Nbool": reflect.TypeOf(BNBool(false)),
		"Nstring": reflect.TypeOf(BNString("")),
	}
}

var bridgeTwinByAtom = bridgeTwinTypes()

func bridgeParamType(atom string, twin bool) (reflect.Type, bool) {
	if twin {
		if t, ok := bridgeTwinByAtom[atom]; ok {
			return t, true
		}
	}
	t, ok := bridgeTypeByAtom[atom]
	return t, ok
}

func init() {
	for _, e := range bridgeTypeList {
		bridgeTypeByAtom[e.atom] = e.t
		bridgeAtomByType[e.t] = e.atom
	}
	for atom, t := range bridgeTwinByAtom {
		bridgeAtomByType[t] = atom
	}
	Register("bridge", Bridge)
}

func bridgeGoVal(v reflect.Value) string {
	atom, ok := bridgeAtomByType[v.Type()]
	if !ok {
		atom = "?" + v.Type().String()
	}
	switch v.Kind() {
	case reflect.Int, reflect.Int8, reflect.Int16, reflect.Int32, reflect.Int64:
		return atom + ":i" + strconv.FormatInt(v.Int(), 10)
	case reflect.Uint, reflect.Uint8, reflect.Uint16, reflect.Uint32, reflect.Uint64:
		return atom + ":u" + strconv.FormatUint(v.Uint(), 10)
	case reflect.Float32, reflect.Float64:
		return atom + ":" + obs.Num(v.Float())
	case reflect.Bool:
		return atom + ":B:" + strconv.FormatBool(v.Bool())
	case reflect.String:
		return atom + ":S:" + obs.Esc(v.String())
	}
	return atom + ":?"
}

// bridgeResult builds the value the probe returns at one result position from its specification.
func bridgeResult(t reflect.Type, spec *sexp.S) reflect.Value {
	head := spec.Atom
	if spec.IsList {
		head = spec.Head()
	}
	switch t.Kind() {
	case reflect.Int, reflect.Int8, reflect.Int16, reflect.Int32, reflect.Int64:
		v := reflect.New(t).Elem()
		if head == "i" {
			n, _ := strconv.ParseInt(spec.List[1].Atom, 10, 64)
			v.SetInt(n)
		}
		return v
	case reflect.Uint:
		v := reflect.New(t).Elem()
		if head == "i" {
			n, _ := strconv.ParseInt(spec.List[1].Atom, 10, 64)
			v.SetUint(uint64(n))
		}
		return v
	case reflect.Float32, reflect.Float64:
		v := reflect.New(t).Elem()
		if head == "f" {
			v.SetFloat(float64frombits(spec.List[1].Uint()))
		}
		return v
	case reflect.Bool:
		v := reflect.New(t).Elem()
		if head == "b" {
			v.SetBool(spec.List[1].Atom == "true")
		}
		return v
	case reflect.String:
		v := reflect.New(t).Elem()
		if head == "s" {
			v.SetString(spec.List[1].GoString())
		}
		return v
	case reflect.Interface:
		if head == "err" && t.NumMethod() > 0 {
			v := reflect.New(t).Elem()
			v.Set(reflect.ValueOf(errors.New("probe error")))
			return v
		}
		return reflect.Zero(t)
	case reflect.Ptr:
		if head == "err" && t == bridgeTypeByAtom["errptr"] {
			return reflect.ValueOf(&BNErrPtr{})
		}
		return reflect.Zero(t)
	case reflect.Chan:
		if head != "ch" || spec.List[1].Atom == "nil" {
			return reflect.Zero(t)
		}
		ch := reflect.MakeChan(reflect.ChanOf(reflect.BothDir, t.Elem()), 1)
		switch spec.List[1].Atom {
		case "ok":
			ch.Send(reflect.Zero(t.Elem()))
		case "err":
			if t.Elem().Kind() == reflect.Interface {
				e := reflect.New(t.Elem()).Elem()
				e.Set(reflect.ValueOf(errors.New("probe chan error")))
				ch.Send(e)
			} else {
				ch.Send(reflect.Zero(t.Elem()))
			}
		}
		return ch.Convert(t)
	}
	return reflect.Zero(t)
}

type bridgeProbe struct {
	value    any      // what is handed to ConvertAndAdd*
	calls    []string // one entry per invocation
	goUnsafe bool     // calling it would panic inside the command wrapper's goroutine
	emptyCh  bool     // the probe returns a channel that never delivers
}

func bridgeBuildProbe(c *sexp.S) (*bridgeProbe, error) {
	p := &bridgeProbe{}
	val := c.Find("val")
	if val == nil || len(val.List) < 2 {
		return nil, fmt.Errorf("no val")
	}
	what := val.List[1]
	if !what.IsList && what.Atom == "nil" {
		p.value = nil
		return p, nil
	}
	if what.IsList && what.Head() == "nonfunc" {
		switch what.List[1].Atom {
		case "int":
			p.value = 3
		case "string":
			p.value = "f"
		case "struct":
			p.value = BStruct{}
		case "slice":
			p.value = []int{1}
		case "nilptr":
			p.value = (*int)(nil)
		case "funcptr":
			f := func() {}
			p.value = &f
		case "chan":
			p.value = make(chan error)
		case "nilerror":
			var e error
			p.value = e // a nil interface again
		case "nilmap":
			p.value = map[string]int(nil)
		case "bool":
			p.value = true
		default:
			return nil, fmt.Errorf("unknown nonfunc")
		}
		return p, nil
	}
	sig := c.Find("sig")
	var in, out []reflect.Type
	twin := ReaderShape%2 == 1 // every other case declares its named parameter types in another scope (same printed name)
	for _, a := range sig.Find("params").Args() {
		t, ok := bridgeParamType(a.Atom, twin)
		if !ok {
			return nil, fmt.Errorf("unknown type %s", a.Atom)
		}
		in = append(in, t)
	}
	variadic := false
	if v := sig.Find("variadic").List[1].Atom; v != "none" {
		t, ok := bridgeParamType(v, twin)
		if !ok {
			return nil, fmt.Errorf("unknown type %s", v)
		}
		in = append(in, reflect.SliceOf(t))
		variadic = true
	}
	for _, a := range sig.Find("results").Args() {
		t, ok := bridgeTypeByAtom[a.Atom]
		if !ok {
			return nil, fmt.Errorf("unknown type %s", a.Atom)
		}
		out = append(out, t)
	}
	ft := reflect.FuncOf(in, out, variadic)
	if what.Atom == "nilfunc" {
		p.value = reflect.Zero(ft).Interface()
		p.goUnsafe = !(len(out) == 1 && out[0].Kind() == reflect.Chan)
		return p, nil
	}
	specs := c.Find("ret").Args()
	results := make([]reflect.Value, len(out))
	for i, t := range out {
		spec := sexp.A("zero")
		if i < len(specs) {
			spec = specs[i]
		}
		results[i] = bridgeResult(t, spec)
		if spec.IsList && spec.Head() == "ch" && spec.List[1].Atom == "empty" {
			p.emptyCh = true
		}
	}
	p.value = reflect.MakeFunc(ft, func(args []reflect.Value) []reflect.Value {
		parts := make([]string, 0, len(args))
		for i, a := range args {
			if variadic && i == len(args)-1 {
				tail := make([]string, a.Len())
				for k := range tail {
					tail[k] = bridgeGoVal(a.Index(k))
				}
				parts = append(parts, "|"+strings.Join(tail, ","))
			} else {
				parts = append(parts, bridgeGoVal(a))
			}
		}
		s := strings.Join(parts, ",")
		s = strings.Replace(s, ",|", "|", 1)
		p.calls = append(p.calls, "("+s+")")
		return results
	}).Interface()
	return p, nil
}

func (p *bridgeProbe) takeCalls() string {
	if len(p.calls) == 0 {
		return "-"
	}
	s := strings.Join(p.calls, ";")
	p.calls = nil
	return s
}

func bridgeRunner(c *sexp.S, script string) (*ysgo.DialogueRunner, *variable.InMemoryStorer, int, error) {
	storer := variable.NewInMemoryStorer()
	n := 0
	for i, a := range c.Find("args").Args() {
		setValue(storer, "a"+strconv.Itoa(i), decodeValue(a))
		n++
	}
	dr, err := ysgo.NewDialogueRunner(storer, "s", strings.NewReader(script))
	return dr, storer, n, err
}

func bridgeArgList(n int, pre, post, sep string) string {
	parts := make([]string, n)
	for i := range parts {
		parts[i] = pre + "$a" + strconv.Itoa(i) + post
	}
	return strings.Join(parts, sep)
}

func nextClass(dr *ysgo.DialogueRunner) (res string) {
	defer func() {
		if r := recover(); r != nil {
			res = "PANIC"
		}
	}()
	el, err := dr.Next(0)
	switch {
	case err == ysgo.ErrWaitingForCommandCompletion:
		return "WAIT"
	case err != nil:
		return "ERR"
	case el == nil:
		return "END"
	case el.Line != nil:
		return "L"
	}
	return "O"
}

func bridgeRegister(f func() error) (res string) {
	defer func() {
		if r := recover(); r != nil {
			res = "PANIC"
		}
	}()
	if err := f(); err != nil {
		return "ERR"
	}
	return "OK"
}

// Bridge runs one case of the bridge stream.
func Bridge(c *sexp.S, out *Out) {
	kind := c.Find("kind").List[1].Atom
	nargs := len(c.Find("args").Args())
	if kind == "fn" {
		p, err := bridgeBuildProbe(c)
		if err != nil {
			out.Put("BADCASE %v", err)
			return
		}
		dr, _, _, err := bridgeRunner(c, "title: S\n---\n<<call f("+bridgeArgList(nargs, "", "", ", ")+")>>\ndone\n===\n")
		if err != nil {
			out.Put("BADCASE load %v", err)
			return
		}
		reg := bridgeRegister(func() error { return dr.ConvertAndAddFunction("f", p.value) })
		out.Put("REG %s", reg)
		if reg != "OK" {
			return
		}
		res := nextClass(dr)
		out.Put("CALL %s calls=%s", res, p.takeCalls())
		dr2, storer, _, err := bridgeRunner(c, "title: S\n---\n<<set $r = f("+bridgeArgList(nargs, "", "", ", ")+")>>\ndone\n===\n")
		if err != nil {
			out.Put("BADCASE load %v", err)
			return
		}
		if reg2 := bridgeRegister(func() error { return dr2.ConvertAndAddFunction("f", p.value) }); reg2 != "OK" {
			out.Put("SET REG %s", reg2)
			return
		}
		res = nextClass(dr2)
		r := "unset"
		if v, ok := storer.GetValue("r"); ok {
			r = obs.Value(v)
		}
		out.Put("SET %s r=%s calls=%s", res, r, p.takeCalls())
		return
	}
	p, err := bridgeBuildProbe(c)
	if err != nil {
		out.Put("BADCASE %v", err)
		return
	}
	dr, _, _, err := bridgeRunner(c, "title: S\n---\n<<c "+bridgeArgList(nargs, "{", "}", " ")+">>\ndone\n===\n")
	if err != nil {
		out.Put("BADCASE load %v", err)
		return
	}
	reg := bridgeRegister(func() error { return dr.ConvertAndAddCommand("c", p.value) })
	out.Put("REG %s", reg)
	if reg != "OK" {
		return
	}
	if p.goUnsafe {
		out.Put("CMD UNSAFE-SKIP")
		return
	}
	res := nextClass(dr)
	polls := 20000
	if p.emptyCh {
		polls = 3
	}
	for k := 0; res == "WAIT" && k < polls; k++ {
		time.Sleep(20 * time.Microsecond)
		res = nextClass(dr)
	}
	out.Put("CMD %s calls=%s", res, p.takeCalls())
}
