package streams

// Stream `cmdargs` (property C17).
//
//	(case cmdargs <id> (pieces (t (s ...)) | (e (s src) <value>) ...) (reg (s name) ...))
//
// The command text is the concatenation of the pieces (an expression piece is rendered {src}; <value> is what the
// generator expects the expression to evaluate to and is only read by the model). The script
// "<<text>>\nafter" is loaded by a real runner whose storer holds $v = 7, $s = "vs", $b = true; a recording handler is
// registered with AddCommand under every name of (reg ...); Next is called once.
//
//	line 0: HEAD <token>     type of the first default-channel token the real lexer produces after COMMAND_START
//	line 1: LOADERR          the script is refused (only printed when the head is COMMAND_TEXT)
//	        NOCALL           the head is not COMMAND_TEXT (a keyword token, >>, …) and no handler was invoked
//	        RUN <log> <L|ERR|END|WAIT|PANIC>   log = cmd:<name>(<typed args>) of every handler invocation, '-' if none
//
//	(case cmdargs <id> (rearrange (s ...) ...))   CommandStatement.rearrange through the hook: a non-empty string is a
//	        text element, an empty one an expression element; observation = the dumped statement.

import (
	"strings"

	"github.com/remieven/ysgo"
	"github.com/remieven/ysgo/variable"
	"github.com/remieven/ysgo/verifhook"

	"verifharness/obs"
	"verifharness/sexp"
)

// CmdArgs runs one case of the cmdargs stream.
func CmdArgs(c *sexp.S, out *Out) {
	if r := c.Find("rearrange"); r != nil {
		var elements []string
		for _, e := range r.Args() {
			elements = append(elements, e.GoString())
		}
		out.Put("%s", guard(func() string { return verifhook.Rearrange(elements) }))
		return
	}
	var text strings.Builder
	for _, p := range c.Find("pieces").Args() {
		switch p.Head() {
		case "t":
			text.WriteString(p.List[1].GoString())
		case "e":
			text.WriteString("{" + p.List[1].GoString() + "}")
		}
	}
	script := "title: S\n---\n<<" + text.String() + ">>\nafter\n===\n"
	head := "NONE"
	tokens, _, panicked := verifhook.Tokens(script, 200)
	if panicked {
		head = "PANIC"
	} else {
		seen := false
		for _, t := range tokens {
			if seen && t.Channel == 0 {
				head = t.Type
				break
			}
			if t.Type == "COMMAND_START" {
				seen = true
			}
		}
	}
	out.Put("HEAD %s", head)
	storer := variable.NewInMemoryStorer()
	storer.SetNumberValue("v", 7)
	storer.SetStringValue("s", "vs")
	storer.SetBooleanValue("b", true)
	dr, err := newRunner(storer, "s", []*strings.Reader{strings.NewReader(script)})
	if err != nil {
		switch {
		case strings.HasPrefix(err.Error(), "PANIC"):
			out.Put("LOADPANIC")
		case head == "COMMAND_TEXT":
			out.Put("LOADERR")
		default:
			out.Put("NOCALL")
		}
		return
	}
	var log []string
	if reg := c.Find("reg"); reg != nil {
		for _, n := range reg.Args() {
			name := n.GoString()
			dr.AddCommand(name, ysgo.YarnSpinnerCommand(func(a []*variable.Value) <-chan error {
				log = append(log, "cmd:"+obs.Esc(name)+"("+obs.Values(a)+")")
				ch := make(chan error, 1)
				ch <- nil
				return ch
			}))
		}
	}
	res := nextClass(dr)
	if len(log) == 0 && head != "COMMAND_TEXT" {
		out.Put("NOCALL")
		return
	}
	l := "-"
	if len(log) > 0 {
		l = strings.Join(log, ";")
	}
	out.Put("RUN %s %s", l, res)
}

func init() { Register("cmdargs", CmdArgs) }
