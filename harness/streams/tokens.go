package streams

import (
	"regexp"
	"strconv"
	"strings"

	"github.com/remieven/ysgo/verifhook"

	"verifharness/sexp"
)

const tokensLimit = 1 << 20

// tokensBalance is the predicate of C20 on a token stream: never more DEDENT than INDENT in a prefix, equal totals, exactly
// one EOF and it is the last token.
func tokensBalance(tokens []verifhook.Token) string {
	depth := 0
	for i, t := range tokens {
		switch t.Type {
		case "INDENT":
			depth++
		case "DEDENT":
			depth--
			if depth < 0 {
				return "UNBALANCED:dedent-without-indent@" + strconv.Itoa(i)
			}
		case "EOF":
			if i != len(tokens)-1 {
				return "UNBALANCED:eof-not-last"
			}
		case "<nil>":
			return "UNBALANCED:nil-token@" + strconv.Itoa(i)
		}
	}
	if len(tokens) == 0 || tokens[len(tokens)-1].Type != "EOF" {
		return "UNBALANCED:no-eof"
	}
	if depth != 0 {
		return "UNBALANCED:open-indents=" + strconv.Itoa(depth)
	}
	return "BALANCED"
}

var tokensDigits = regexp.MustCompile(`[0-9]+`)

// tokensFirstID returns the number in the first string of a dumped statement (the generator puts the id of a statement
// into its text, variable, node, function or command name).
func tokensFirstID(s *sexp.S) string {
	if s.Head() == "s" {
		return tokensDigits.FindString(s.GoString())
	}
	if s.IsList {
		for _, x := range s.List {
			if x.IsList {
				if id := tokensFirstID(x); id != "" {
					return id
				}
			}
		}
	}
	return ""
}

// tokensSkeleton prints the nesting of a dumped statement list: L<id> line, S<id> single-line statement,
// O[<id>(body)...] option group, I[(clause)...] if statement.
func tokensSkeleton(b *strings.Builder, stmts *sexp.S) {
	for i, s := range stmts.Args() {
		if i > 0 {
			b.WriteByte(' ')
		}
		switch s.Head() {
		case "line":
			b.WriteString("L" + tokensFirstID(s))
		case "opts":
			b.WriteString("O[")
			for _, o := range s.Args() {
				b.WriteString(tokensFirstID(o.List[1]) + "(")
				tokensSkeleton(b, o.List[2])
				b.WriteString(")")
			}
			b.WriteString("]")
		case "if":
			b.WriteString("I[")
			for _, c := range s.Args() {
				b.WriteString("(")
				tokensSkeleton(b, c.List[2])
				b.WriteString(")")
			}
			b.WriteString("]")
		default:
			b.WriteString("S" + tokensFirstID(s))
		}
	}
}

// Tokens runs the indentation-aware lexer on the input of the case.
//
// Profile layout, observations:
//
//	0  kinds of the NEWLINE / INDENT / DEDENT / EOF tokens in order, as N I D E
//	1  number of errors the lexer reported
//	2  the same as 0 with the widths the lexer wrote into the synthetic tokens: I<to> D<from>
//	3  per NEWLINE token: 1 if a token other than WS / COMMENT follows before the next NEWLINE or EOF
//	4  the (infos ...) of the case, printed back (the model prints what it reads off the text)
//	5  nesting skeleton of every node body of verifhook.DumpDialogue(text), or ERR
//
// Profile bytes, observation 0: BALANCED, UNBALANCED:<why> or PANIC.
func Tokens(c *sexp.S, out *Out) {
	profile := c.List[3].Atom
	if profile == "bytes" {
		tokens, _, panicked := verifhook.Tokens(string(c.List[4].GoBytes()), tokensLimit)
		if panicked {
			out.Put("PANIC")
			return
		}
		out.Put("%s", tokensBalance(tokens))
		return
	}
	text := c.Find("text").List[1].GoString()
	tokens, lexerErrors, panicked := verifhook.Tokens(text, tokensLimit)
	if panicked {
		out.Put("PANIC")
		return
	}
	var kinds, widths, content strings.Builder
	pending := false // a NEWLINE has been seen and its content flag is not written yet
	seen := false
	flush := func() {
		if pending {
			if seen {
				content.WriteByte('1')
			} else {
				content.WriteByte('0')
			}
		}
		pending, seen = false, false
	}
	for _, t := range tokens {
		switch t.Type {
		case "NEWLINE":
			flush()
			pending = true
			kinds.WriteByte('N')
			widths.WriteString("N ")
		case "INDENT":
			kinds.WriteByte('I')
			widths.WriteString("I" + tokensDigits.FindString(t.Text) + " ")
		case "DEDENT":
			kinds.WriteByte('D')
			widths.WriteString("D" + tokensDigits.FindString(t.Text) + " ")
		case "EOF":
			flush()
			kinds.WriteByte('E')
			widths.WriteString("E")
		case "WS", "COMMENT":
		default:
			seen = true
		}
	}
	out.Put("%s", kinds.String())
	out.Put("%d", lexerErrors)
	out.Put("%s", widths.String())
	out.Put("%s", content.String())
	var infos strings.Builder
	for _, li := range c.Find("infos").Args() {
		infos.WriteString(li.List[0].Atom + "," + li.List[1].Atom + "," + li.List[2].Atom + " ")
	}
	out.Put("%s", infos.String())
	dump, err := verifhook.DumpDialogue(text)
	if err != nil {
		out.Put("ERR")
		return
	}
	prog, err := sexp.Parse(dump)
	if err != nil {
		out.Put("BAD-DUMP")
		return
	}
	var sk strings.Builder
	for _, node := range prog.Args() {
		sk.WriteString("{")
		tokensSkeleton(&sk, node.List[4])
		sk.WriteString("}")
	}
	out.Put("%s", sk.String())
}

func init() { Register("tokens", Tokens) }
