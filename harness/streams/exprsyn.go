package streams

import (
	"sort"
	"strings"

	"github.com/remieven/ysgo/verifhook"

	"verifharness/sexp"
)

// lineOf loads a one-node script whose body is the given physical line and returns the dump of the body statements,
// or nil when loading fails.
func lineOf(line string) (stmts *sexp.S, result string) {
	src := "title: T\n---\n" + line + "\n===\n"
	dump, err := verifhook.DumpDialogue(src)
	if err != nil {
		if strings.HasPrefix(err.Error(), "panic:") {
			return nil, "PANIC"
		}
		return nil, "LOADERR"
	}
	d, perr := sexp.Parse(dump)
	if perr != nil || d.Head() != "prog" || len(d.List) != 2 {
		return nil, "OTHER:" + dump
	}
	node := d.List[1]
	st := node.Find("stmts")
	if st == nil {
		return nil, "OTHER:" + dump
	}
	return st, ""
}

// exprTokens returns the type names of the default-channel tokens between the first EXPRESSION_START and the token
// that ends the expression, or LEXERR when the lexer reported an error anywhere.
func exprTokens(line string) string {
	src := "title: T\n---\n" + line + "\n===\n"
	toks, errs, panicked := verifhook.Tokens(src, 100000)
	if panicked {
		return "PANIC"
	}
	if errs > 0 {
		return "LEXERR"
	}
	var names []string
	in := false
	for _, t := range toks {
		if !in {
			if t.Type == "EXPRESSION_START" {
				in = true
			}
			continue
		}
		if t.Type == "EXPRESSION_END" || t.Type == "COMMAND_END" || t.Type == "NEWLINE" || t.Type == "EOF" {
			names = append(names, "/"+t.Type)
			break
		}
		if t.Channel != 0 {
			continue
		}
		names = append(names, t.Type)
	}
	return strings.Join(names, " ")
}

// ExprSyn: (case exprsyn id (kind k) (text (s ...)) (expect e|(none))). The text is embedded as the line `{text}`.
// Observations: 0 the dumped expression or LOADERR; 1 the ExpressionMode token type names or LEXERR;
// 2 whether the dump equals the tree the text was printed from (same / differs / - when there is no expectation).
func ExprSyn(c *sexp.S, out *Out) {
	if k := c.Find("kind"); k != nil && len(k.List) > 1 && k.List[1].Atom == "table" {
		out.Put("%s", spellingTable())
		return
	}
	text := c.Find("text").List[1].GoString()
	expect := c.Find("expect").List[1]
	line := "{" + text + "}"
	stmts, res := lineOf(line)
	got := ""
	if stmts == nil {
		out.Put("%s", res)
	} else {
		// (stmts (line (els (e X)) (cond (none)) (tags)))
		ok := len(stmts.List) == 2 && stmts.List[1].Head() == "line"
		var x *sexp.S
		if ok {
			ln := stmts.List[1]
			els, cond, tags := ln.Find("els"), ln.Find("cond"), ln.Find("tags")
			ok = els != nil && len(els.List) == 2 && els.List[1].Head() == "e" && cond != nil && cond.List[1].Head() == "none" && tags != nil && len(tags.List) == 1
			if ok {
				x = els.List[1].List[1]
			}
		}
		if ok {
			got = x.String()
			out.Put("%s", got)
		} else {
			out.Put("OTHER:%s", stmts.String())
		}
	}
	out.Put("%s", exprTokens(line))
	switch {
	case expect.Head() == "none":
		out.Put("-")
	case got == expect.String():
		out.Put("same")
	default:
		out.Put("differs")
	}
}

// exprSpellings is the operator / keyword table of ExpressionMode as the lexer grammar lists it: token type, spellings.
var exprSpellings = []struct {
	Type string
	Sp   []string
}{
	{"KEYWORD_TRUE", []string{"true"}}, {"KEYWORD_FALSE", []string{"false"}}, {"KEYWORD_NULL", []string{"null"}},
	{"OPERATOR_ASSIGNMENT", []string{"=", "to"}},
	{"OPERATOR_LOGICAL_LESS_THAN_EQUALS", []string{"<=", "lte"}}, {"OPERATOR_LOGICAL_GREATER_THAN_EQUALS", []string{">=", "gte"}},
	{"OPERATOR_LOGICAL_EQUALS", []string{"==", "is", "eq"}}, {"OPERATOR_LOGICAL_LESS", []string{"<", "lt"}},
	{"OPERATOR_LOGICAL_GREATER", []string{">", "gt"}}, {"OPERATOR_LOGICAL_NOT_EQUALS", []string{"!=", "neq"}},
	{"OPERATOR_LOGICAL_AND", []string{"and", "&&"}}, {"OPERATOR_LOGICAL_OR", []string{"or", "||"}},
	{"OPERATOR_LOGICAL_XOR", []string{"xor", "^"}}, {"OPERATOR_LOGICAL_NOT", []string{"not", "!"}},
	{"OPERATOR_MATHS_ADDITION_EQUALS", []string{"+="}}, {"OPERATOR_MATHS_SUBTRACTION_EQUALS", []string{"-="}},
	{"OPERATOR_MATHS_MULTIPLICATION_EQUALS", []string{"*="}}, {"OPERATOR_MATHS_MODULUS_EQUALS", []string{"%="}},
	{"OPERATOR_MATHS_DIVISION_EQUALS", []string{"/="}},
	{"OPERATOR_MATHS_ADDITION", []string{"+"}}, {"OPERATOR_MATHS_SUBTRACTION", []string{"-"}},
	{"OPERATOR_MATHS_MULTIPLICATION", []string{"*"}}, {"OPERATOR_MATHS_DIVISION", []string{"/"}},
	{"OPERATOR_MATHS_MODULUS", []string{"%"}},
	{"LPAREN", []string{"("}}, {"RPAREN", []string{")"}}, {"COMMA", []string{","}}, {"EXPRESSION_AS", []string{"as"}}, {"DOT", []string{"."}},
}

// spellingTable prints the table as sorted TYPE=spelling entries, each checked against the running lexer
// (an entry the lexer reads differently is printed as TYPE=spelling!got).
func spellingTable() string {
	var entries []string
	for _, row := range exprSpellings {
		for _, sp := range row.Sp {
			e := row.Type + "=" + sp
			if got := exprTokens("{" + sp + "}"); got != row.Type+" /EXPRESSION_END" {
				e += "!" + got
			}
			entries = append(entries, e)
		}
	}
	sort.Strings(entries)
	return strings.Join(entries, " ")
}

func init() { Register("exprsyn", ExprSyn) }
