package streams

import (
	"bytes"
	"fmt"
	"regexp"
	"runtime"
	"strconv"
	"strings"
	"sync"
	"sync/atomic"
	"time"

	"github.com/remieven/ysgo"
	"github.com/remieven/ysgo/variable"

	"verifharness/sexp"
)

// ChanSched replays a schedule of the channel-level model (lean/Ysgo/Model/Chan.lean) on the real runner with real
// goroutines, the order of the events being enforced by the harness:
//
//	(case chansched <id> (script <stmt>...) (sched <ev>...))
//	stmt := (line) | (noret ok|bad) | (err ok|bad ok|fail) | (chan ok|bad <ret>) | (raw <ret>) | (wait ok|bad) | (unknown)
//	ret  := nil | (hc <cap> (pre ok|fail ...) open|closed (proc <act>...)...)      act := (send ok|fail) | (close)
//	ev   := next | restore | tick | (go <stmt index> <k: k-th dispatch of that statement> <j: j-th goroutine of that invocation>)
//
// A converted handler blocks on a gate the harness closes at its `go` event; the host's goroutines execute one action of
// their list per `go` event; `<<wait>>` elapses on the real clock. After every event the harness waits until every
// goroutine started on behalf of the case is parked or gone (read off the runtime's goroutine dump), so that the order
// of the events is the order of the schedule and nothing depends on how fast goroutines get scheduled.
// Observation per `next`: WAIT / ERR / LINE i / END / BLOCKED / CRASH, then the invocation log; at the end the number of
// goroutines left parked in a send.
func ChanSched(c *sexp.S, out *Out) {
	var obs []string
	for attempt := 0; attempt < 8; attempt++ {
		var retry bool
		obs, retry = chanSchedOnce(c)
		if !retry {
			break
		}
	}
	for _, o := range obs {
		out.Put("%s", o)
	}
}

const csWait = 20 * time.Millisecond // the duration of <<wait 0.02>>

type csProc struct {
	acts     []*sexp.S
	steps    chan struct{}
	issued   int
	acked    int32
	panicked int32
}

type csInv struct {
	gate     chan struct{}
	released bool
	hostCh   chan error
	procs    []*csProc
}

type csCase struct {
	mu       sync.Mutex
	invs     map[int][]*csInv // statement index -> its invocations in order
	calls    []int            // invocation log
	family   map[int]bool     // goroutine ids started on behalf of this case
	crashed  bool
	blocked  bool
	waitSeen map[int]bool // goroutines of <<wait>> seen so far
	waitBorn time.Time    // lower bound of the time the youngest of them was started
	retry    bool
}

func (cs *csCase) enter(i int) *csInv {
	cs.mu.Lock()
	defer cs.mu.Unlock()
	inv := &csInv{gate: make(chan struct{})}
	cs.invs[i] = append(cs.invs[i], inv)
	cs.calls = append(cs.calls, i)
	return inv
}

func csErr(a string) error {
	if a == "fail" {
		return fmt.Errorf("reported failure")
	}
	return nil
}

// hostChan is what a chan-returning or raw handler does: make the channel, fill it, start the goroutines
func (cs *csCase) hostChan(inv *csInv, ret *sexp.S) chan error {
	if !ret.IsList {
		return nil
	}
	capacity := ret.List[1].Int()
	ch := make(chan error, capacity)
	inv.hostCh = ch
	for k, v := range ret.List[2].Args() {
		if k < capacity {
			ch <- csErr(v.Atom)
		}
	}
	if ret.List[3].Atom == "closed" {
		close(ch)
	}
	for _, p := range ret.List[4:] {
		proc := &csProc{acts: p.Args(), steps: make(chan struct{})}
		inv.procs = append(inv.procs, proc)
		go func() {
			defer func() {
				if r := recover(); r != nil {
					atomic.StoreInt32(&proc.panicked, 1)
				}
			}()
			for _, a := range proc.acts {
				if _, ok := <-proc.steps; !ok {
					return
				}
				if a.Head() == "send" {
					ch <- csErr(a.List[1].Atom)
				} else {
					close(ch)
				}
				atomic.AddInt32(&proc.acked, 1)
			}
		}()
	}
	return ch
}

var csHeader = regexp.MustCompile(`^goroutine (\d+) \[([^\],]*)`)
var csCreator = regexp.MustCompile(`(?m)^created by .* in goroutine (\d+)$`)

func csSelf() int {
	buf := make([]byte, 64)
	buf = buf[:runtime.Stack(buf, false)]
	m := csHeader.FindSubmatch(buf)
	if m == nil {
		return -1
	}
	n, _ := strconv.Atoi(string(m[1]))
	return n
}

// the wait states in which a goroutine stays until another goroutine of the case (or the clock) acts
var csParked = map[string]bool{"chan receive": true, "chan send": true, "select": true, "sleep": true,
	"chan receive (nil chan)": true, "chan send (nil chan)": true, "select (no cases)": true}

type csG struct {
	id    int
	state string
	stack string
}

// dump lists the live goroutines of the case's family (and extends the family by the newly created ones)
func (cs *csCase) dump() []csG {
	buf := make([]byte, 1<<20)
	for {
		n := runtime.Stack(buf, true)
		if n < len(buf) {
			buf = buf[:n]
			break
		}
		buf = make([]byte, 2*len(buf))
	}
	type rec struct {
		g       csG
		creator int
	}
	var all []rec
	for _, block := range bytes.Split(buf, []byte("\n\n")) {
		m := csHeader.FindSubmatch(block)
		if m == nil {
			continue
		}
		id, _ := strconv.Atoi(string(m[1]))
		creator := -1
		if cm := csCreator.FindSubmatch(block); cm != nil {
			creator, _ = strconv.Atoi(string(cm[1]))
		}
		all = append(all, rec{csG{id, string(m[2]), string(block)}, creator})
	}
	for changed := true; changed; {
		changed = false
		for _, r := range all {
			if !cs.family[r.g.id] && cs.family[r.creator] {
				cs.family[r.g.id] = true
				changed = true
			}
		}
	}
	var out []csG
	self := csSelf()
	for _, r := range all {
		if cs.family[r.g.id] && r.g.id != self {
			out = append(out, r.g)
		}
	}
	return out
}

// settle waits until every goroutine of the family is parked (or gone); with `noWait` also until no goroutine of
// <<wait>> is left. It returns the goroutines still alive.
func (cs *csCase) settle(noWait bool) []csG {
	deadline := time.Now().Add(10 * time.Second) // (generous: the machine may be busy)
	for {
		gs := cs.dump()
		quiet := true
		for _, g := range gs {
			if !csParked[g.state] {
				quiet = false // running, runnable, preempted, in a syscall, or waiting for something transient (GC, a mutex)
			}
			if noWait && strings.Contains(g.stack, "ysgo.waitCommand") {
				quiet = false
			}
		}
		if quiet || time.Now().After(deadline) {
			return gs
		}
		runtime.Gosched()
		time.Sleep(50 * time.Microsecond)
	}
}

func chanSchedOnce(c *sexp.S) (obs []string, retry bool) {
	script := c.Find("script").Args()
	sched := c.Find("sched").Args()
	cs := &csCase{invs: map[int][]*csInv{}, family: map[int]bool{csSelf(): true}, waitSeen: map[int]bool{}}

	var src strings.Builder
	src.WriteString("title: Start\n---\n")
	for i, st := range script {
		switch st.Head() {
		case "line":
			fmt.Fprintf(&src, "l%d\n", i)
		case "noret", "err", "chan":
			arg := "7"
			if st.List[1].Atom == "bad" {
				arg = "zz" // a string where an int is expected: the conversion of the arguments fails
			}
			fmt.Fprintf(&src, "<<c%d %s>>\n", i, arg)
		case "raw":
			fmt.Fprintf(&src, "<<c%d 7>>\n", i)
		case "wait":
			if st.List[1].Atom == "ok" {
				fmt.Fprintf(&src, "<<wait %v>>\n", csWait.Seconds())
			} else {
				src.WriteString("<<wait zz>>\n")
			}
		case "unknown":
			fmt.Fprintf(&src, "<<nosuch%d 7>>\n", i)
		}
	}
	src.WriteString("===\n")
	dr, err := ysgo.NewDialogueRunner(nil, "a", strings.NewReader(src.String()))
	if err != nil {
		return []string{"LOADERR"}, false
	}
	for i, st := range script {
		i, st := i, st
		name := fmt.Sprintf("c%d", i)
		var regErr error
		switch st.Head() {
		case "noret":
			regErr = dr.ConvertAndAddCommand(name, func(a int) { inv := cs.enter(i); <-inv.gate })
		case "err":
			regErr = dr.ConvertAndAddCommand(name, func(a int) error { inv := cs.enter(i); <-inv.gate; return csErr(st.List[2].Atom) })
		case "chan":
			regErr = dr.ConvertAndAddCommand(name, func(a int) chan error { return cs.hostChan(cs.enter(i), st.List[2]) })
		case "raw":
			dr.AddCommand(name, func(args []*variable.Value) <-chan error {
				// (a nil `chan error` converted to `<-chan error` is a nil channel)
				return cs.hostChan(cs.enter(i), st.List[1])
			})
		}
		if regErr != nil {
			return []string{"REGERR"}, false
		}
	}
	snap := dr.Snapshot()

	log := func() string {
		cs.mu.Lock()
		defer cs.mu.Unlock()
		parts := make([]string, len(cs.calls))
		for k, i := range cs.calls {
			parts[k] = strconv.Itoa(i)
		}
		return strings.Join(parts, ",")
	}
	checkCrash := func() {
		for _, invs := range cs.invs {
			for _, inv := range invs {
				for _, p := range inv.procs {
					if atomic.LoadInt32(&p.panicked) != 0 {
						cs.crashed = true
					}
				}
			}
		}
	}

	for _, ev := range sched {
		switch {
		case cs.crashed:
			// a goroutine of the host panicked: in a real program the process is gone
			if ev.Atom == "next" {
				obs = append(obs, "CRASH|"+log())
			}
		case ev.Atom == "next":
			if cs.blocked {
				obs = append(obs, "BLOCKED|"+log())
				continue
			}
			type result struct {
				el       *ysgo.DialogueElement
				err      error
				panicked bool
			}
			done := make(chan result, 1)
			started := make(chan int, 1)
			callStart := time.Now()
			go func() {
				started <- csSelf()
				var r result
				defer func() {
					if rec := recover(); rec != nil {
						r.panicked = true
					}
					done <- r
				}()
				r.el, r.err = dr.Next(0)
			}()
			cs.family[<-started] = true
			var r result
			select {
			case r = <-done:
			case <-time.After(100 * time.Millisecond):
				// not back yet: wait until its goroutine is gone (merely slow) or parked (blocked for ever)
				cs.settle(false)
				select {
				case r = <-done:
				default:
					cs.blocked = true
				}
			}
			for _, g := range cs.settle(false) {
				if strings.Contains(g.stack, "ysgo.waitCommand") && !cs.waitSeen[g.id] {
					cs.waitSeen[g.id] = true
					cs.waitBorn = callStart
				}
			}
			switch {
			case cs.blocked:
				obs = append(obs, "BLOCKED|"+log())
			case r.panicked:
				obs = append(obs, "PANIC|"+log())
			case r.err == ysgo.ErrWaitingForCommandCompletion:
				obs = append(obs, "WAIT|"+log())
			case r.err != nil:
				obs = append(obs, "ERR|"+log())
			case r.el == nil:
				obs = append(obs, "END|"+log())
			case r.el.Line != nil && strings.HasPrefix(r.el.Line.Text, "l"):
				obs = append(obs, "LINE "+r.el.Line.Text[1:]+"|"+log())
			default:
				obs = append(obs, "OTHER|"+log())
			}
		case ev.Atom == "restore":
			if cs.blocked {
				continue
			}
			if err := dr.RestoreAt(snap); err != nil {
				obs = append(obs, "RESTORE-REFUSED")
			}
		case ev.Atom == "tick":
			// the clock: every <<wait>> started so far elapses. The schedule must not have taken so long that the
			// youngest of them may have elapsed before this event (its polls would not be what the schedule says)
			if !cs.waitBorn.IsZero() && time.Since(cs.waitBorn) > csWait/2 {
				cs.retry = true
			}
			time.Sleep(csWait + 2*time.Millisecond)
			cs.settle(true)
			cs.waitBorn = time.Time{}
		case ev.Head() == "go":
			i, k, j := ev.List[1].Int(), ev.List[2].Int(), ev.List[3].Int()
			if i < 0 || i >= len(script) {
				continue
			}
			st := script[i]
			switch st.Head() {
			case "noret", "err":
				cs.mu.Lock()
				var inv *csInv
				if k >= 0 && k < len(cs.invs[i]) && j == 0 {
					inv = cs.invs[i][k]
				}
				cs.mu.Unlock()
				if inv != nil && !inv.released {
					inv.released = true
					close(inv.gate)
					cs.settle(false)
				}
			case "chan", "raw":
				cs.mu.Lock()
				var proc *csProc
				if k >= 0 && k < len(cs.invs[i]) && j >= 0 && j < len(cs.invs[i][k].procs) {
					proc = cs.invs[i][k].procs[j]
				}
				cs.mu.Unlock()
				if proc != nil && proc.issued < len(proc.acts) && int(atomic.LoadInt32(&proc.acked)) == proc.issued &&
					atomic.LoadInt32(&proc.panicked) == 0 {
					proc.issued++
					proc.steps <- struct{}{}
					cs.settle(false)
					checkCrash()
				}
			}
		}
	}
	if !cs.waitBorn.IsZero() && time.Since(cs.waitBorn) > csWait/2 {
		cs.retry = true // a <<wait>> the schedule leaves sleeping may have elapsed under it
	}
	if cs.crashed {
		obs = append(obs, "FINAL crashed")
	} else {
		parked := 0
		for _, g := range cs.settle(false) {
			if g.state == "chan send" {
				parked++
			}
		}
		obs = append(obs, fmt.Sprintf("FINAL parked=%d", parked))
	}
	// let the goroutines of the case go: nothing of this case must be mistaken for a goroutine of a later one
	for _, invs := range cs.invs {
		for _, inv := range invs {
			if !inv.released {
				close(inv.gate)
			}
			for _, p := range inv.procs {
				close(p.steps)
			}
			for drained := false; inv.hostCh != nil && !drained; {
				// wake the host's goroutines still parked in a send
				select {
				case _, ok := <-inv.hostCh:
					drained = !ok
				default:
					drained = true
				}
			}
		}
	}
	return obs, cs.retry
}

func init() { Register("chansched", ChanSched) }
