package streams

import (
	"verifharness/sexp"
)

// LineLex: (case linelex id (kind k) (line (s ...)) (expect (line|opt <line sexp>) | (none))).
// The line is the only body line of a one-node script. Observations: 0 `line <dump>` for a line statement,
// `opt <dump>` for a shortcut option without body, LOADERR, or OTHER:<stmts>; 1 same / differs / - against the expectation.
func LineLex(c *sexp.S, out *Out) {
	line := c.Find("line").List[1].GoString()
	expect := c.Find("expect").List[1]
	stmts, res := lineOf(line)
	got := ""
	switch {
	case stmts == nil:
		got = res
	case len(stmts.List) == 2 && stmts.List[1].Head() == "line":
		got = "line " + stmts.List[1].String()
	case len(stmts.List) == 2 && stmts.List[1].Head() == "opts" && len(stmts.List[1].List) == 2 &&
		len(stmts.List[1].List[1].List) == 3 && len(stmts.List[1].List[1].List[2].List) == 1:
		got = "opt " + stmts.List[1].List[1].List[1].String()
	default:
		got = "OTHER:" + stmts.String()
	}
	out.Put("%s", got)
	switch {
	case expect.Head() == "none":
		out.Put("-")
	case got == expect.Head()+" "+expect.List[1].String():
		out.Put("same")
	default:
		out.Put("differs")
	}
}

func init() { Register("linelex", LineLex) }
