// Package obs prints observations canonically; the Lean driver prints the same forms.
package obs

import (
	"math"
	"sort"
	"strconv"
	"strings"

	"github.com/remieven/ysgo/variable"
)

// Esc prints a string so that it contains no separator used by the observation lines.
// Printable ASCII except \ | ; ^ , @ = is kept, everything else becomes \u{hex}.
func Esc(s string) string {
	var b strings.Builder
	for _, r := range s {
		if r >= 0x20 && r <= 0x7e && !strings.ContainsRune("\\|;^,@=~", r) {
			b.WriteRune(r)
		} else {
			b.WriteString("\\u{" + strconv.FormatInt(int64(r), 16) + "}")
		}
	}
	return b.String()
}

// Num prints a float64 as its bit pattern; every NaN prints as nan.
func Num(f float64) string {
	if f != f {
		return "N:nan"
	}
	return "N:" + strconv.FormatUint(math.Float64bits(f), 10)
}

// Value prints a yarn value with its type.
func Value(v *variable.Value) string {
	switch {
	case v == nil:
		return "nil"
	case v.Number != nil:
		return Num(*v.Number)
	case v.Boolean != nil:
		return "B:" + strconv.FormatBool(*v.Boolean)
	case v.String != nil:
		return "S:" + Esc(*v.String)
	}
	return "empty"
}

// Values prints a list of values.
func Values(vs []*variable.Value) string {
	parts := make([]string, len(vs))
	for i, v := range vs {
		parts[i] = Value(v)
	}
	return strings.Join(parts, ",")
}

// Vars prints a variable map sorted by name.
func Vars(m map[string]variable.Value) string {
	// (a nil map and an empty map are the same state: no variables)
	keys := make([]string, 0, len(m))
	for k := range m {
		keys = append(keys, k)
	}
	sort.Strings(keys)
	parts := make([]string, 0, len(keys))
	for _, k := range keys {
		v := m[k]
		parts = append(parts, Esc(k)+"="+Value(&v))
	}
	return strings.Join(parts, ",")
}

// Counts prints a visit-count map sorted by name.
func Counts(m map[string]int) string {
	keys := make([]string, 0, len(m))
	for k := range m {
		keys = append(keys, k)
	}
	sort.Strings(keys)
	parts := make([]string, 0, len(keys))
	for _, k := range keys {
		parts = append(parts, Esc(k)+"="+strconv.Itoa(m[k]))
	}
	return strings.Join(parts, ",")
}
