// Command harness generates cases and runs the real implementation on them.
//
//	harness gen <stream> <profile> <seed> <n>   prints n case lines
//	harness run                                 reads case lines on stdin, prints observation lines
package main

import (
	"bufio"
	"bytes"
	"fmt"
	"os"
	"strconv"
	"sync"

	"verifharness/gen"
	"verifharness/prng"
	"verifharness/sexp"
	"verifharness/streams"
)

func main() {
	if len(os.Args) < 2 {
		fmt.Fprintln(os.Stderr, "usage: harness gen <stream> <profile> <seed> <n> | harness run")
		os.Exit(2)
	}
	w := bufio.NewWriterSize(os.Stdout, 1<<20)
	defer w.Flush()
	switch os.Args[1] {
	case "gen":
		stream, profile := os.Args[2], os.Args[3]
		seed, _ := strconv.ParseUint(os.Args[4], 10, 64)
		n, _ := strconv.Atoi(os.Args[5])
		r := prng.New(seed)
		for i := 0; i < n; i++ {
			id := fmt.Sprintf("%s-%d-%d", profile, seed, i)
			c := gen.Case(stream, profile, r.Fork(), id, i)
			if c == nil {
				fmt.Fprintf(os.Stderr, "unknown stream/profile %s/%s\n", stream, profile)
				os.Exit(2)
			}
			fmt.Fprintln(w, c.String())
		}
	case "conc":
		// every case in its own goroutine (creation/parsing and stepping interleave); output in input order
		workers := 8
		if len(os.Args) > 2 {
			workers, _ = strconv.Atoi(os.Args[2])
		}
		sc := bufio.NewScanner(os.Stdin)
		sc.Buffer(make([]byte, 1<<20), 1<<28)
		var lines []string
		for sc.Scan() {
			if sc.Text() != "" {
				lines = append(lines, sc.Text())
			}
		}
		results := make([]bytes.Buffer, len(lines))
		sem := make(chan struct{}, workers)
		var wg sync.WaitGroup
		for i := range lines {
			wg.Add(1)
			sem <- struct{}{}
			go func(i int) {
				defer wg.Done()
				defer func() { <-sem }()
				c, err := sexp.Parse(lines[i])
				if err != nil || c.Head() != "case" || len(c.List) < 3 {
					return
				}
				bw := bufio.NewWriter(&results[i])
				out := &streams.Out{W: bw, ID: c.List[2].Atom}
				streams.Dispatch(c.List[1].Atom, c, out)
				bw.Flush()
			}(i)
		}
		wg.Wait()
		for i := range results {
			w.Write(results[i].Bytes())
		}
	case "run":
		sc := bufio.NewScanner(os.Stdin)
		sc.Buffer(make([]byte, 1<<20), 1<<28)
		for sc.Scan() {
			line := sc.Text()
			if line == "" {
				continue
			}
			c, err := sexp.Parse(line)
			if err != nil || c.Head() != "case" || len(c.List) < 3 {
				fmt.Fprintf(os.Stderr, "bad case line: %v\n", err)
				continue
			}
			out := &streams.Out{W: w, ID: c.List[2].Atom}
			streams.ReaderShape = shapeOf(c.List[2].Atom) // sequential mode only: the concurrent mode never writes it
			streams.Dispatch(c.List[1].Atom, c, out)
		}
	}
}

// shapeOf derives the reader delivery pattern of a case from its id (FNV-1a), so that a replay uses the same one.
func shapeOf(id string) int {
	h := uint32(2166136261)
	for i := 0; i < len(id); i++ {
		h = (h ^ uint32(id[i])) * 16777619
	}
	return int(h % 600)
}
