module verifharness

go 1.22

require github.com/remieven/ysgo v0.0.0

require (
	github.com/antlr4-go/antlr/v4 v4.13.1 // indirect
	golang.org/x/exp v0.0.0-20240808152545-0cdaa3abc0fa // indirect
)

replace github.com/remieven/ysgo => /repo
