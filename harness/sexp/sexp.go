// Package sexp is the tiny S-expression format shared by the harness and the Lean driver.
// Atoms contain no whitespace and no parentheses; strings are lists (s cp cp ...) of code points.
package sexp

import (
	"fmt"
	"strconv"
	"strings"
)

// S is an atom (List == nil, IsList false) or a list.
type S struct {
	Atom   string
	List   []*S
	IsList bool
}

func A(a string) *S         { return &S{Atom: a} }
func L(items ...*S) *S      { return &S{List: items, IsList: true} }
func N(n int) *S            { return A(strconv.Itoa(n)) }
func U(n uint64) *S         { return A(strconv.FormatUint(n, 10)) }
func (s *S) Add(x ...*S) *S { s.List = append(s.List, x...); return s }

// Str encodes a Go string as (s cp ...). Invalid UTF-8 bytes become U+FFFD like a range loop delivers them.
func Str(str string) *S {
	l := L(A("s"))
	for _, r := range str {
		l.List = append(l.List, N(int(r)))
	}
	return l
}

// Bytes encodes a byte string as (b n ...), for inputs that are not necessarily UTF-8.
func Bytes(b []byte) *S {
	l := L(A("b"))
	for _, c := range b {
		l.List = append(l.List, N(int(c)))
	}
	return l
}

func (s *S) write(b *strings.Builder) {
	if !s.IsList {
		b.WriteString(s.Atom)
		return
	}
	b.WriteByte('(')
	for i, x := range s.List {
		if i > 0 {
			b.WriteByte(' ')
		}
		x.write(b)
	}
	b.WriteByte(')')
}

func (s *S) String() string {
	var b strings.Builder
	s.write(&b)
	return b.String()
}

// Parse reads one S-expression.
func Parse(text string) (*S, error) {
	pos := 0
	var rec func() (*S, error)
	skip := func() {
		for pos < len(text) && (text[pos] == ' ' || text[pos] == '\n' || text[pos] == '\t' || text[pos] == '\r') {
			pos++
		}
	}
	rec = func() (*S, error) {
		skip()
		if pos >= len(text) {
			return nil, fmt.Errorf("unexpected end")
		}
		if text[pos] == '(' {
			pos++
			l := L()
			for {
				skip()
				if pos >= len(text) {
					return nil, fmt.Errorf("unterminated list")
				}
				if text[pos] == ')' {
					pos++
					return l, nil
				}
				x, err := rec()
				if err != nil {
					return nil, err
				}
				l.List = append(l.List, x)
			}
		}
		if text[pos] == ')' {
			return nil, fmt.Errorf("unexpected )")
		}
		start := pos
		for pos < len(text) && text[pos] != ' ' && text[pos] != '(' && text[pos] != ')' && text[pos] != '\n' {
			pos++
		}
		return A(text[start:pos]), nil
	}
	return rec()
}

// Head returns the first atom of a list, or "".
func (s *S) Head() string {
	if s != nil && s.IsList && len(s.List) > 0 && !s.List[0].IsList {
		return s.List[0].Atom
	}
	return ""
}

// Args returns the elements after the head.
func (s *S) Args() []*S {
	if s == nil || !s.IsList || len(s.List) == 0 {
		return nil
	}
	return s.List[1:]
}

// Find returns the first sub-list with the given head among the arguments.
func (s *S) Find(head string) *S {
	for _, x := range s.Args() {
		if x.Head() == head {
			return x
		}
	}
	return nil
}

// GoString decodes (s cp ...) to a Go string.
func (s *S) GoString() string {
	var b strings.Builder
	for _, x := range s.Args() {
		n, _ := strconv.Atoi(x.Atom)
		b.WriteRune(rune(n))
	}
	return b.String()
}

// GoBytes decodes (b n ...) to bytes.
func (s *S) GoBytes() []byte {
	out := make([]byte, 0, len(s.List))
	for _, x := range s.Args() {
		n, _ := strconv.Atoi(x.Atom)
		out = append(out, byte(n))
	}
	return out
}

// Int decodes an atom as an int.
func (s *S) Int() int {
	n, _ := strconv.Atoi(s.Atom)
	return n
}

// Uint decodes an atom as a uint64.
func (s *S) Uint() uint64 {
	n, _ := strconv.ParseUint(s.Atom, 10, 64)
	return n
}
