package ast

import (
	"strings"

	"verifharness/prng"
)

// Layout says how a program is written down. The zero value is the plain layout (4 spaces, LF, no noise).
type Layout struct {
	Unit        string // one indentation step; "" = 4 spaces
	EOL         string // "" = "\n"
	Noise       int    // per line, chance in 8 of a blank / whitespace-only / comment line before it
	Trailing    int    // chance in 8 of a trailing comment after a statement
	Spell       bool   // random operator spellings
	Parens      int    // 0 minimal, 1 full, 2 random redundant
	CmdSpaces   bool   // random extra spaces inside commands
	ReaderNoise bool   // vary the beginning and end of each reader's text
	IfIndent    bool   // indent if-bodies
	EscapeMore  bool   // escape characters that do not need it
	HeaderSpace bool
	JumpSpaces  bool // two spaces between `jump` and its destination (known finding F30)
	R           *prng.R
}

func (l *Layout) unit() string {
	if l.Unit == "" {
		return "    "
	}
	return l.Unit
}
func (l *Layout) eol() string {
	if l.EOL == "" {
		return "\n"
	}
	return l.EOL
}
func (l *Layout) chance(n int) bool { return l.R != nil && n > 0 && l.R.Intn(8) < n }

var spellings = map[string][]string{
	"le": {"<=", "lte"}, "ge": {">=", "gte"}, "eq": {"==", "is", "eq"}, "lt": {"<", "lt"}, "gt": {">", "gt"},
	"ne": {"!=", "neq"}, "and": {"and", "&&"}, "or": {"or", "||"}, "xor": {"xor", "^"}, "not": {"not", "!"},
	"mul": {"*"}, "div": {"/"}, "mod": {"%"}, "add": {"+"}, "sub": {"-"}, "set": {"=", "to"},
}

func (l *Layout) spell(op string) string {
	s := spellings[op]
	if l.Spell && l.R != nil {
		return s[l.R.Intn(len(s))]
	}
	return s[0]
}

// precedence levels of the grammar: higher binds tighter
func level(op string) int {
	switch op {
	case "mul", "div", "mod":
		return 5
	case "add", "sub":
		return 4
	case "le", "ge", "lt", "gt":
		return 3
	case "eq", "ne":
		return 2
	}
	return 1 // and or xor
}

// Expr renders an expression; min is the lowest level that needs no parentheses here.
func (l *Layout) expr(e *Expr, min int) string {
	wrap := func(s string, lvl int) string {
		need := lvl < min
		if l.Parens == 1 && (e.Kind == "bin" || e.Kind == "neg" || e.Kind == "not") {
			need = true
		}
		if l.Parens == 2 && l.R != nil && l.R.Intn(4) == 0 {
			need = true
		}
		if need {
			if l.Parens == 2 && l.R != nil && l.R.Intn(4) == 0 {
				return "((" + s + "))"
			}
			return "(" + s + ")"
		}
		return s
	}
	switch e.Kind {
	case "num":
		return wrap(e.NumText, 9)
	case "bool":
		if e.B {
			return wrap("true", 9)
		}
		return wrap("false", 9)
	case "str":
		return wrap("\""+e.S+"\"", 9)
	case "var":
		return wrap("$"+e.S, 9)
	case "null":
		return wrap("null", 9)
	case "fn":
		parts := make([]string, len(e.Args))
		for i, a := range e.Args {
			parts[i] = l.expr(a, 0)
		}
		sep := ", "
		if l.CmdSpaces && l.R != nil && l.R.Intn(2) == 0 {
			sep = ","
		}
		return wrap(e.S+"("+strings.Join(parts, sep)+")", 9)
	case "neg":
		// unary operators bind tightest: operand must be a primary or another unary
		return wrap("-"+l.expr(e.Args[0], 6), 6)
	case "not":
		sp := l.spell("not")
		if sp == "not" {
			sp = "not "
		}
		return wrap(sp+l.expr(e.Args[0], 6), 6)
	case "bin":
		lv := level(e.Op)
		// left associative: the right operand needs a strictly higher level
		s := l.expr(e.Args[0], lv) + " " + l.spell(e.Op) + " " + l.expr(e.Args[1], lv+1)
		return wrap(s, lv)
	}
	return "null"
}

// Expr renders an expression on its own.
func (l *Layout) Expr(e *Expr) string { return l.expr(e, 0) }

// text renders literal line text with the escapes the lexer needs (and optional ones when EscapeMore is set).
func (l *Layout) text(t string, first bool) string {
	var b strings.Builder
	rs := []rune(t)
	for i := 0; i < len(rs); i++ {
		c := rs[i]
		next := rune(0)
		if i+1 < len(rs) {
			next = rs[i+1]
		}
		optional := l.EscapeMore && l.R != nil && l.R.Intn(2) == 0
		switch c {
		case '\\':
			if next == '[' || next == ']' {
				if first && i == 0 {
					b.WriteString("\\\\") // a line cannot start with \[ : ESCAPED_ANY knows no bracket escape
				} else if optional {
					b.WriteString("\\\\")
				} else {
					b.WriteString("\\")
				}
			} else {
				b.WriteString("\\\\")
			}
		case '{', '#':
			b.WriteString("\\" + string(c))
		case '<':
			if next == '<' || optional {
				b.WriteString("\\<")
			} else {
				b.WriteString("<")
			}
		case '/':
			if next == '/' || optional {
				b.WriteString("\\/")
			} else {
				b.WriteString("/")
			}
		case '>', '}':
			if optional {
				b.WriteString("\\" + string(c))
			} else {
				b.WriteString(string(c))
			}
		default:
			b.WriteRune(c)
		}
	}
	return b.String()
}

func (l *Layout) line(ln *Line) string {
	var b strings.Builder
	for i, el := range ln.Els {
		if el.E != nil {
			b.WriteString("{" + l.Expr(el.E) + "}")
		} else {
			b.WriteString(l.text(el.Text, i == 0))
		}
	}
	// no space is added before the condition or the first tag: in text mode it would be part of the text
	if ln.Cond != nil {
		b.WriteString("<<if " + l.Expr(ln.Cond) + ">>")
	}
	for i, t := range ln.Tags {
		if i > 0 || ln.Cond != nil {
			b.WriteString(" ")
		}
		b.WriteString("#" + t)
	}
	return b.String()
}

func (l *Layout) spaces() string {
	if l.CmdSpaces && l.R != nil {
		return strings.Repeat(" ", 1+l.R.Intn(3))
	}
	return " "
}

type writer struct {
	l *Layout
	b strings.Builder
}

func (w *writer) noise(ind string) {
	for w.l.chance(w.l.Noise) {
		switch w.l.R.Intn(4) {
		case 0:
			w.b.WriteString(w.l.eol())
		case 1:
			w.b.WriteString(strings.Repeat(" ", w.l.R.Intn(9)) + w.l.eol())
		case 2:
			w.b.WriteString("// a comment at column zero" + w.l.eol())
		default:
			w.b.WriteString(strings.Repeat(w.l.unit(), w.l.R.Intn(4)) + "// an indented comment" + w.l.eol())
		}
	}
}

func (w *writer) emit(ind, s string) { w.emitC(ind, s, true) }

// emitC writes one line; spaceOK says whether a space may precede a trailing comment (after free text the space
// would become part of the text)
func (w *writer) emitC(ind, s string, spaceOK bool) {
	w.noise(ind)
	w.b.WriteString(ind + s)
	if w.l.chance(w.l.Trailing) {
		if spaceOK {
			w.b.WriteString(" ")
		}
		w.b.WriteString("// trailing comment")
	}
	w.b.WriteString(w.l.eol())
}

func (w *writer) body(ind string, stmts []*Stmt) {
	l := w.l
	for _, s := range stmts {
		switch s.Kind {
		case "line":
			w.emitC(ind, l.line(s.Line), s.Line.Cond != nil || len(s.Line.Tags) > 0)
		case "opts":
			for _, o := range s.Opts {
				w.emitC(ind, "-> "+l.line(o.Line), o.Line.Cond != nil || len(o.Line.Tags) > 0)
				w.body(ind+l.unit(), o.Body)
			}
		case "set":
			w.emit(ind, "<<set"+l.spaces()+"$"+s.Var+l.spaces()+setOp(l, s.Op)+l.spaces()+l.Expr(s.E)+">>")
		case "declare":
			// the grammar takes a value here, not an expression: no parentheses
			plain := &Layout{}
			val := plain.Expr(s.E)
			// the optional type clause (`as number`) is accepted by the grammar and means nothing to this interpreter,
			// whatever the default value is (a literal, a variable, a call): written for two declares out of five
			as := ""
			if k := (len(s.Var)*7 + len(val)) % 5; k < 2 {
				as = " as " + []string{"number", "string", "bool"}[(len(val)+k)%3]
			}
			w.emit(ind, "<<declare"+l.spaces()+"$"+s.Var+l.spaces()+l.spell("set")+l.spaces()+val+as+">>")
		case "jump":
			// exactly one space after the keyword: the lexer mode that follows `jump ` hides no whitespace (finding F30)
			sp := " "
			if l.JumpSpaces {
				sp = "  "
			}
			after := ""
			if l.CmdSpaces && l.R != nil && l.R.Intn(2) == 0 {
				after = " "
			}
			if s.JumpID {
				w.emit(ind, "<<jump"+sp+s.E.S+after+">>")
			} else {
				w.emit(ind, "<<jump"+sp+"{"+l.Expr(s.E)+"}"+after+">>")
			}
		case "if":
			bind := ind
			if l.IfIndent {
				bind = ind + l.unit()
			}
			for i, c := range s.Clauses {
				switch {
				case i == 0:
					w.emit(ind, "<<if"+l.spaces()+l.Expr(c.Cond)+">>")
				case c.IsElse:
					w.emit(ind, "<<else>>")
				default:
					w.emit(ind, "<<elseif"+l.spaces()+l.Expr(c.Cond)+">>")
				}
				w.body(bind, c.Body)
			}
			w.emit(ind, "<<endif>>")
		case "cmd":
			var b strings.Builder
			b.WriteString("<<")
			if len(s.Cmd) == 0 || s.Cmd[0].E != nil {
				// the lexer takes the first character after << as command text whatever it is; a white space that the
				// lexer does not skip but strings.Fields does makes the first element an expression (or leaves no element)
				lead := "\u00a0"
				if l.R != nil {
					lead = l.R.Pick("\u00a0", "\u3000", "\v", "\u00a0\u2003")
				}
				b.WriteString(lead)
			}
			for i, el := range s.Cmd {
				if i > 0 {
					b.WriteString(l.spaces())
				}
				if el.E != nil {
					b.WriteString("{" + l.Expr(el.E) + "}")
				} else {
					b.WriteString(el.Word)
				}
			}
			if l.CmdSpaces && l.R != nil && l.R.Intn(3) == 0 {
				b.WriteString(" ")
			}
			b.WriteString(">>")
			w.emit(ind, b.String())
		case "call":
			// the grammar takes a function call here, not an expression: the call itself is never parenthesised
			parts := make([]string, len(s.Args))
			for i, a := range s.Args {
				parts[i] = l.Expr(a)
			}
			w.emit(ind, "<<call"+l.spaces()+s.Fn+"("+strings.Join(parts, ", ")+")>>")
		}
	}
}

func setOp(l *Layout, op string) string {
	switch op {
	case "set":
		return l.spell("set")
	case "mul":
		return "*="
	case "div":
		return "/="
	case "mod":
		return "%="
	case "add":
		return "+="
	}
	return "-="
}

// Render writes the nodes as one Yarn text.
// ReaderEnd varies how one reader's text begins and ends (each reader is a file of its own: its end is an end of input):
// no final line end, a comment or blanks after the last ===, a file-level hashtag before the first node.
func (l *Layout) ReaderEnd(s string) string {
	if !l.ReaderNoise || l.R == nil {
		return s
	}
	eol := l.EOL
	if eol == "" {
		eol = "\n"
	}
	switch l.R.Intn(8) {
	case 0:
		s = strings.TrimSuffix(s, eol)
	case 1:
		s = strings.TrimSuffix(s, eol) + " // the end"
	case 2:
		s += "    "
	case 3:
		s += "\t// c"
	case 4:
		s = "#version:2" + eol + s
	case 5:
		s = "#a" + eol + "#b:c" + eol + strings.TrimSuffix(s, eol)
	}
	return s
}

func (l *Layout) Render(nodes []*Node) string {
	w := &writer{l: l}
	for _, n := range nodes {
		sp := " "
		if l.HeaderSpace && l.R != nil {
			sp = strings.Repeat(" ", l.R.Intn(3))
		}
		for _, h := range n.Pre {
			w.b.WriteString(h[0] + ":" + sp + h[1] + l.eol())
		}
		w.b.WriteString("title:" + sp + n.Title + l.eol())
		if n.Tracking != "" {
			w.b.WriteString("tracking:" + sp + n.Tracking + l.eol())
		}
		for k, v := range n.Headers {
			w.b.WriteString(k + ":" + sp + v + l.eol())
		}
		for _, h := range n.Post {
			w.b.WriteString(h[0] + ":" + sp + h[1] + l.eol())
		}
		w.b.WriteString("---" + l.eol())
		w.body("", n.Body)
		w.noise("")
		w.b.WriteString("===" + l.eol())
	}
	return w.b.String()
}
