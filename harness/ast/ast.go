// Package ast is the harness-side abstract syntax of Yarn scripts: what the generators build, what is rendered to
// Yarn text in some layout, and what is printed as the canonical S-expression (the same one verifhook.DumpDialogue prints).
package ast

import (
	"math"
	"regexp"
	"strconv"

	"verifharness/sexp"
)

type Expr struct {
	Kind    string // num bool str var fn neg not bin null
	NumText string // num: the literal as written (INT or INT.INT)
	B       bool
	S       string // str: content between the quotes, raw; var: name; fn: function name
	Op      string // bin: mul div mod add sub le ge lt gt eq ne and or xor
	Args    []*Expr
}

func Num(text string) *Expr           { return &Expr{Kind: "num", NumText: text} }
func Bool(b bool) *Expr               { return &Expr{Kind: "bool", B: b} }
func Str(s string) *Expr              { return &Expr{Kind: "str", S: s} }
func Var(n string) *Expr              { return &Expr{Kind: "var", S: n} }
func Fn(f string, a ...*Expr) *Expr   { return &Expr{Kind: "fn", S: f, Args: a} }
func Neg(e *Expr) *Expr               { return &Expr{Kind: "neg", Args: []*Expr{e}} }
func Not(e *Expr) *Expr               { return &Expr{Kind: "not", Args: []*Expr{e}} }
func Bin(op string, l, r *Expr) *Expr { return &Expr{Kind: "bin", Op: op, Args: []*Expr{l, r}} }
func Null() *Expr                     { return &Expr{Kind: "null"} }

func (e *Expr) NumBits() uint64 {
	f, _ := strconv.ParseFloat(e.NumText, 64)
	return math.Float64bits(f)
}

func (e *Expr) Sexp() *sexp.S {
	switch e.Kind {
	case "num":
		return sexp.L(sexp.A("num"), sexp.U(e.NumBits()))
	case "bool":
		return sexp.L(sexp.A("bool"), sexp.A(strconv.FormatBool(e.B)))
	case "str":
		return sexp.L(sexp.A("str"), sexp.Str(e.S))
	case "var":
		return sexp.L(sexp.A("var"), sexp.Str(e.S))
	case "fn":
		l := sexp.L(sexp.A("fn"), sexp.Str(e.S))
		for _, a := range e.Args {
			l.Add(a.Sexp())
		}
		return l
	case "neg", "not":
		return sexp.L(sexp.A(e.Kind), e.Args[0].Sexp())
	case "bin":
		return sexp.L(sexp.A("bin"), sexp.A(e.Op), e.Args[0].Sexp(), e.Args[1].Sexp())
	}
	return sexp.L(sexp.A("null"))
}

// El is one element of a line: literal text (as the tree holds it: escapes resolved, \[ and \] kept) or an expression.
type El struct {
	Text string
	E    *Expr
}

type Line struct {
	Els  []El
	Cond *Expr
	Tags []string
}

func (l *Line) Sexp() *sexp.S {
	els := sexp.L(sexp.A("els"))
	for _, el := range l.Els {
		if el.E != nil {
			els.Add(sexp.L(sexp.A("e"), el.E.Sexp()))
		} else {
			els.Add(sexp.L(sexp.A("t"), sexp.Str(el.Text)))
		}
	}
	cond := sexp.L(sexp.A("cond"))
	if l.Cond != nil {
		cond.Add(l.Cond.Sexp())
	} else {
		cond.Add(sexp.L(sexp.A("none")))
	}
	tags := sexp.L(sexp.A("tags"))
	for _, t := range l.Tags {
		tags.Add(sexp.Str(t))
	}
	return sexp.L(sexp.A("line"), els, cond, tags)
}

type Opt struct {
	Line *Line
	Body []*Stmt
}

type Clause struct {
	Cond   *Expr // nil for else (dumped as (bool true))
	IsElse bool
	Body   []*Stmt
}

// CmdEl is one written element of a generic command: a word (no whitespace inside) or an inline expression.
type CmdEl struct {
	Word string
	E    *Expr
}

type Stmt struct {
	Kind    string // line opts set declare jump if cmd call
	Line    *Line
	Opts    []Opt
	Var     string
	Op      string // set: set mul div mod add sub
	E       *Expr  // set/declare value, jump destination expression
	JumpID  bool   // jump written as <<jump Name>> (E is then a str)
	Clauses []Clause
	Cmd     []CmdEl
	Fn      string
	Args    []*Expr
}

func Body(stmts []*Stmt) *sexp.S {
	l := sexp.L(sexp.A("stmts"))
	for _, s := range stmts {
		l.Add(s.Sexp())
	}
	return l
}

// WordValue is the expression a command word becomes (mirror of valueFromCommandText as the property states it).
var WordValue func(word string) *sexp.S

func (s *Stmt) Sexp() *sexp.S {
	switch s.Kind {
	case "line":
		return s.Line.Sexp()
	case "opts":
		l := sexp.L(sexp.A("opts"))
		for _, o := range s.Opts {
			l.Add(sexp.L(sexp.A("opt"), o.Line.Sexp(), Body(o.Body)))
		}
		return l
	case "set":
		return sexp.L(sexp.A("set"), sexp.Str(s.Var), sexp.A(s.Op), s.E.Sexp())
	case "declare":
		return sexp.L(sexp.A("declare"), sexp.Str(s.Var), s.E.Sexp())
	case "jump":
		return sexp.L(sexp.A("jump"), s.E.Sexp())
	case "if":
		l := sexp.L(sexp.A("if"))
		for _, c := range s.Clauses {
			cond := sexp.L(sexp.A("bool"), sexp.A("true"))
			if !c.IsElse {
				cond = c.Cond.Sexp()
			}
			l.Add(sexp.L(sexp.A("clause"), cond, Body(c.Body)))
		}
		return l
	case "cmd":
		l := sexp.L(sexp.A("cmd"))
		for _, el := range s.Cmd {
			if el.E != nil {
				l.Add(el.E.Sexp())
			} else {
				l.Add(WordValue(el.Word))
			}
		}
		return l
	case "call":
		l := sexp.L(sexp.A("call"), sexp.Str(s.Fn))
		for _, a := range s.Args {
			l.Add(a.Sexp())
		}
		return l
	}
	return sexp.L(sexp.A("empty"))
}

type Node struct {
	Title    string
	Tracking string            // value of the tracking header, "" if absent
	Headers  map[string]string // extra headers
	Pre      [][2]string       // headers written before the title line, in order (an earlier title: header loses against the later one)
	Post     [][2]string       // headers written after the title/tracking lines, in order (never title or tracking)
	Body     []*Stmt
}

type Program struct {
	Nodes []*Node
}

// Sexp prints the program like verifhook.DumpDialogue does, without the (headers ...) detail when short is set.
func (p *Program) Sexp() *sexp.S {
	l := sexp.L(sexp.A("prog"))
	for _, n := range p.Nodes {
		l.Add(sexp.L(sexp.A("node"), sexp.Str(n.Title), sexp.Str(n.Tracking), Body(n.Body)))
	}
	return l
}

var numberWord = regexp.MustCompile(`^-?[0-9]+(\.[0-9]+)?$`)

func init() {
	WordValue = func(word string) *sexp.S {
		switch {
		case word == "true":
			return Bool(true).Sexp()
		case word == "false":
			return Bool(false).Sexp()
		case numberWord.MatchString(word):
			f, _ := strconv.ParseFloat(word, 64)
			return sexp.L(sexp.A("num"), sexp.U(math.Float64bits(f)))
		}
		return Str(word).Sexp()
	}
}
