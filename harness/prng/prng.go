// Package prng is a splitmix64 generator: every random choice of the harness derives from one seed.
package prng

type R struct{ s uint64 }

// New derives the initial state from the seed through the output function, so that the streams of neighbouring seeds are
// unrelated (with a state that is linear in the seed, stream s+1 is stream s shifted by one draw).
func New(seed uint64) *R {
	z := seed + 0x1234567
	z = (z ^ (z >> 30)) * 0xBF58476D1CE4E5B9
	z = (z ^ (z >> 27)) * 0x94D049BB133111EB
	z ^= z >> 31
	z = (z ^ 0xD6E8FEB86659FD93) * 0x9E3779B97F4A7C15
	z = (z ^ (z >> 32)) * 0xBF58476D1CE4E5B9
	return &R{s: z ^ (z >> 29)}
}

func (r *R) U64() uint64 {
	r.s += 0x9E3779B97F4A7C15
	z := r.s
	z = (z ^ (z >> 30)) * 0xBF58476D1CE4E5B9
	z = (z ^ (z >> 27)) * 0x94D049BB133111EB
	return z ^ (z >> 31)
}

// Intn returns a value in [0, n).
func (r *R) Intn(n int) int {
	if n <= 0 {
		return 0
	}
	return int(r.U64() % uint64(n))
}

// Chance returns true with probability num/den.
func (r *R) Chance(num, den int) bool { return r.Intn(den) < num }

// Pick returns one of the strings.
func (r *R) Pick(xs ...string) string { return xs[r.Intn(len(xs))] }

// Fork derives an independent generator.
func (r *R) Fork() *R { return New(r.U64()) }
