package gen

import (
	"fmt"
	"strconv"
	"strings"

	"verifharness/prng"
	"verifharness/sexp"
)

// Generator of the markup stream (properties C13, C14, C15). Profiles:
//
//	chunks   chunk lists from the grammar of DESIGN §5 C13 and the line they render to
//	history  0-5 earlier lines (failing ones included) then a line, all parsed on one LineParser value
//	fuzz     arbitrary bytes, token-level assemblies of marker fragments, mutated well-formed lines
//	utf8     byte strings around the borders of UTF-8 well-formedness (validates the model's decoder)
//	unicode  blocks of 1024 code points; 1088 cases cover everything (validates the model's Unicode tables)
//
// Chunk syntax (mirrored by Ysgo/Spec/MarkupSpec.lean and Driver/MarkupDrv.lean):
//
//	(text (s ..)) (escOpen) (escClose)
//	(open (s name) SHORT (props PROP*) WS)  (selfClose (s name) SHORT (props PROP*) WS)
//	(close (s name) WS)  (closeAll WS)
//	(repl (s name) SHORT (props PROP*) WS (s raw) byName|byAll WS)      name is nomarkup, select, plural or ordinal
//	SHORT = (none) | (some VAL)    PROP = (p (s name) VAL)    WS = (ws (s ..)*)   white space slots, used in order
//	VAL = (int lz n) | (dec lz n (s fraction digits)) | (bool true|false (s spelling)) | (quoted (s ..)) | (bare (s ..))

type mval struct {
	kind string // int dec bool quoted bare
	lz   int
	n    string
	frac string
	b    bool
	s    string
}

type mprop struct {
	name string
	val  mval
}

type mchunk struct {
	kind    string // text escOpen escClose open close closeAll selfClose repl
	text    string
	name    string
	short   *mval
	props   []mprop
	ws      []string
	raw     string
	byName  bool
	closeWs []string
}

type slots struct {
	ws []string
	i  int
}

func (s *slots) next() string {
	if s.i < len(s.ws) {
		s.i++
		return s.ws[s.i-1]
	}
	return ""
}

func (v mval) render() string {
	switch v.kind {
	case "int":
		return strings.Repeat("0", v.lz) + v.n
	case "dec":
		return strings.Repeat("0", v.lz) + v.n + "." + v.frac
	case "bool", "bare":
		return v.s
	case "quoted":
		var b strings.Builder
		b.WriteByte('"')
		for _, r := range v.s {
			if r == '"' || r == '\\' {
				b.WriteByte('\\')
			}
			b.WriteRune(r)
		}
		b.WriteByte('"')
		return b.String()
	}
	return ""
}

func renderHead(c *mchunk, sl *slots) string {
	var b strings.Builder
	b.WriteString("[" + sl.next() + c.name)
	if c.short != nil {
		b.WriteString(sl.next() + "=" + sl.next() + c.short.render())
	}
	for _, p := range c.props {
		b.WriteString(" " + sl.next() + p.name + sl.next() + "=" + sl.next() + p.val.render())
	}
	b.WriteString(sl.next())
	return b.String()
}

func (c *mchunk) render() string {
	sl := &slots{ws: c.ws}
	switch c.kind {
	case "text":
		return c.text
	case "escOpen":
		return "\\["
	case "escClose":
		return "\\]"
	case "open":
		return renderHead(c, sl) + "]"
	case "selfClose":
		return renderHead(c, sl) + "/" + sl.next() + "]"
	case "close":
		return "[" + sl.next() + "/" + sl.next() + c.name + sl.next() + "]"
	case "closeAll":
		return "[" + sl.next() + "/" + sl.next() + "]"
	case "repl":
		cs := &slots{ws: c.closeWs}
		s := renderHead(c, sl) + "]" + c.raw
		if c.byName {
			return s + "[" + cs.next() + "/" + cs.next() + c.name + cs.next() + "]"
		}
		return s + "[" + cs.next() + "/" + cs.next() + "]"
	}
	return ""
}

func renderChunks(cs []*mchunk) string {
	var b strings.Builder
	for _, c := range cs {
		b.WriteString(c.render())
	}
	return b.String()
}

func (v mval) sexp() *sexp.S {
	switch v.kind {
	case "int":
		return sexp.L(sexp.A("int"), sexp.N(v.lz), sexp.A(v.n))
	case "dec":
		return sexp.L(sexp.A("dec"), sexp.N(v.lz), sexp.A(v.n), sexp.Str(v.frac))
	case "bool":
		return sexp.L(sexp.A("bool"), sexp.A(strconv.FormatBool(v.b)), sexp.Str(v.s))
	case "quoted":
		return sexp.L(sexp.A("quoted"), sexp.Str(v.s))
	}
	return sexp.L(sexp.A("bare"), sexp.Str(v.s))
}

func wsSexp(ws []string) *sexp.S {
	l := sexp.L(sexp.A("ws"))
	for _, w := range ws {
		l.Add(sexp.Str(w))
	}
	return l
}

func (c *mchunk) headSexp(kind string) *sexp.S {
	short := sexp.L(sexp.A("none"))
	if c.short != nil {
		short = sexp.L(sexp.A("some"), c.short.sexp())
	}
	props := sexp.L(sexp.A("props"))
	for _, p := range c.props {
		props.Add(sexp.L(sexp.A("p"), sexp.Str(p.name), p.val.sexp()))
	}
	return sexp.L(sexp.A(kind), sexp.Str(c.name), short, props, wsSexp(c.ws))
}

func (c *mchunk) sexp() *sexp.S {
	switch c.kind {
	case "text":
		return sexp.L(sexp.A("text"), sexp.Str(c.text))
	case "escOpen", "escClose":
		return sexp.L(sexp.A(c.kind))
	case "open", "selfClose":
		return c.headSexp(c.kind)
	case "close":
		return sexp.L(sexp.A("close"), sexp.Str(c.name), wsSexp(c.ws))
	case "closeAll":
		return sexp.L(sexp.A("closeAll"), wsSexp(c.ws))
	}
	by := "byAll"
	if c.byName {
		by = "byName"
	}
	return c.headSexp("repl").Add(sexp.Str(c.raw), sexp.A(by), wsSexp(c.closeWs))
}

// ---- random material ------------------------------------------------------------------------------------------------

var markupNames = []string{"b", "i", "bold", "a", "x", "wave", "名", "é1", "_u", "B2", "shake", "c", "9lives", "character", "trimwhitespace", "Ünï"}
var markupPropNames = []string{"k", "v", "n", "key2", "名", "size", "value", "one", "other", "few", "two", "m", "f", "trimwhitespace", "name", "contents", "k"}
var markupWords = []string{"a", "b", "x", "hello", "Hello", "world", "\u00e9", "\u00e0\u00e9", "\u540d\u524d", "\U0001F600", "x\U0001F600y", "ok", "Mae", "\u2026", "\u00df", "\u0130", "e\u0301", "]", "%", "1", "22", "a.b", "=", "/", "\"", "\x00"}
var markupSpaces = []string{" ", " ", " ", "  ", "\t", "\u00a0", "\u3000", "\u2003", "\n", "\u0085", "\v"}
var markupSlot = []string{"", "", "", "", "", " ", " ", "  ", "\t", "\u00a0", "\u3000", " \t"}
var markupPerlSlot = []string{"", "", "", "", " ", "  ", "\t", "\n", "\f\r"}

func mText(r *prng.R) string {
	var b strings.Builder
	if r.Chance(1, 4) {
		b.WriteString(r.Pick(markupSpaces...))
	}
	n := 1 + r.Intn(3)
	for i := 0; i < n; i++ {
		if i > 0 {
			b.WriteString(r.Pick(markupSpaces...))
		}
		b.WriteString(r.Pick(markupWords...))
	}
	if r.Chance(1, 4) {
		b.WriteString(r.Pick(markupSpaces...))
	}
	switch r.Intn(24) {
	case 0:
		return r.Pick(markupSpaces...)
	case 1:
		return r.Pick("Mae", "Name", "名", "Jean-Luc", "A b", "") + ":" + r.Pick("", " ", "  ", "\t", " ", " \n")
	case 2:
		return ""
	case 3:
		return r.Pick(markupSpaces...) + r.Pick(markupSpaces...)
	}
	return b.String()
}

func mSlots(r *prng.R, pool []string, n int) []string {
	if r.Chance(1, 2) {
		return nil
	}
	ws := make([]string, n)
	for i := range ws {
		ws[i] = r.Pick(pool...)
	}
	return ws
}

func mIdent(r *prng.R) string {
	return r.Pick("v", "w", "abc", "he", "she", "they", "x1", "名", "été", "_", "T", "tru", "falsey", "True1", "yes", "no", "m", "f", "other", "contents", "İ", "K")
}

func mVal(r *prng.R) mval {
	switch r.Intn(12) {
	case 0, 1, 2:
		n := strconv.Itoa(r.Intn(30))
		switch r.Intn(12) {
		case 0:
			n = strconv.Itoa(r.Intn(1000000))
		case 1:
			n = r.Pick("9223372036854775807", "9223372036854775808", "18446744073709551616", "123456789012345678901234567890", "0", "11", "12", "13", "111", "112", "113", "101")
		}
		return mval{kind: "int", lz: []int{0, 0, 0, 0, 1, 2}[r.Intn(6)], n: n}
	case 3, 4:
		frac := r.Pick("5", "05", "050", "0", "25", "000001", "1", "10", "99", "3333333333333333333333", "75", "125", "00", "9999999999999999999")
		if r.Chance(1, 4) {
			frac = strconv.Itoa(r.Intn(100000))
		}
		n := strconv.Itoa(r.Intn(20))
		if r.Chance(1, 8) {
			n = r.Pick("9007199254740993", "9223372036854775807", "123456789", "4503599627370496", "9223372036854775808")
		}
		return mval{kind: "dec", lz: []int{0, 0, 0, 1}[r.Intn(4)], n: n, frac: frac}
	case 5, 6:
		b := r.Chance(1, 2)
		sp := r.Pick("true", "True", "TRUE", "tRuE")
		if !b {
			sp = r.Pick("false", "False", "FALSE", "fAlSe")
		}
		return mval{kind: "bool", b: b, s: sp}
	case 7, 8, 9:
		s := r.Pick("q", "he said", "a\"b", "back\\slash", "x]y", "[b]", "% apples", "%st", "\\%", "名 前", "é", "", " ", "a:b", "true", "12", "😀", "/]", "100\\% of %", "%%", "%:\\", "% \\", "\\", "%\\%\\")
		return mval{kind: "quoted", s: s}
	}
	return mval{kind: "bare", s: mIdent(r)}
}

func mProps(r *prng.R) []mprop {
	n := []int{0, 0, 0, 1, 1, 2, 3}[r.Intn(7)]
	ps := make([]mprop, 0, n)
	for i := 0; i < n; i++ {
		name := r.Pick(markupPropNames...)
		v := mVal(r)
		if name == "trimwhitespace" && r.Chance(3, 4) {
			v = mval{kind: "bool", b: r.Chance(1, 2)}
			v.s = strconv.FormatBool(v.b)
		}
		ps = append(ps, mprop{name, v})
	}
	return ps
}

func mHead(r *prng.R, kind, name string) *mchunk {
	c := &mchunk{kind: kind, name: name, props: mProps(r)}
	if r.Chance(1, 8) {
		v := mVal(r)
		c.short = &v
	}
	c.ws = mSlots(r, markupSlot, 3+3*len(c.props)+2)
	return c
}

func mRaw(r *prng.R) string {
	var b strings.Builder
	for n := r.Intn(4); n > 0; n-- {
		b.WriteString(r.Pick("x", "raw text", " ", "[b]", "[/b]", "[b", "]", "[ / c ]", "é", "名", "\\[", "%", "[i/]", "a:b", "😀", "[/nomarkupx]", "[/ b]", " "))
	}
	return b.String()
}

func placeholderText(r *prng.R) mval {
	return mval{kind: "quoted", s: r.Pick("% apple", "% apples", "%st", "%nd", "%rd", "%th", "he", "she", "they", "\\% of %", "x", "", "名%", "%%", "a\\\\%b", "%:\\", "% \\", "\\", "%\\%\\", "\\1 of %", "%\\")}
}

func mRepl(r *prng.R, selfClosing bool) *mchunk {
	name := r.Pick("nomarkup", "select", "plural", "ordinal")
	c := &mchunk{kind: "repl", name: name}
	if selfClosing {
		c.kind = "selfClose"
	}
	perm := func(ps []mprop) []mprop {
		for i := len(ps) - 1; i > 0; i-- {
			j := r.Intn(i + 1)
			ps[i], ps[j] = ps[j], ps[i]
		}
		return ps
	}
	switch name {
	case "nomarkup":
		if r.Chance(1, 6) {
			c.props = mProps(r)
		}
	case "select":
		keys := []string{"m", "f", "nb", "x1", "名"}
		val := mval{kind: "bare", s: r.Pick(keys...)}
		switch r.Intn(8) {
		case 0:
			val = mval{kind: "quoted", s: r.Pick(keys...)}
		case 1:
			val = mval{kind: "int", n: strconv.Itoa(r.Intn(3))}
			keys = append(keys, "0", "1", "2")
		case 2:
			val = mval{kind: "bool", b: true, s: "true"}
			keys = append(keys, "True")
		case 3:
			val = mval{kind: "dec", n: "1", frac: r.Pick("0", "5")}
			keys = append(keys, "1")
		case 4:
			val = mval{kind: "bare", s: "contents"}
		}
		c.props = append(c.props, mprop{"value", val})
		for _, k := range keys {
			if r.Chance(7, 8) {
				c.props = append(c.props, mprop{k, placeholderText(r)})
			}
		}
		c.props = perm(c.props)
	case "plural", "ordinal":
		val := mval{kind: "int", n: strconv.Itoa(r.Intn(125))}
		switch r.Intn(10) {
		case 0:
			val = mval{kind: "dec", n: strconv.Itoa(r.Intn(3)), frac: r.Pick("0", "5", "25")}
		case 1:
			val = mval{kind: "bare", s: "many"}
		case 2:
			val = mval{kind: "int", n: r.Pick("1", "1", "2", "3", "11", "12", "13", "21", "22", "23", "101", "111", "1000001")}
		}
		c.props = append(c.props, mprop{"value", val})
		for _, k := range []string{"one", "two", "few", "many", "other"} {
			if r.Chance(15, 16) {
				c.props = append(c.props, mprop{k, placeholderText(r)})
			}
		}
		if r.Chance(1, 12) {
			c.props = c.props[1:]
		}
		c.props = perm(c.props)
	}
	if r.Chance(1, 10) {
		v := mval{kind: "bool", b: r.Chance(1, 2)}
		v.s = strconv.FormatBool(v.b)
		c.props = append(c.props, mprop{"trimwhitespace", v})
	}
	c.ws = mSlots(r, markupSlot, 3+3*len(c.props)+2)
	if !selfClosing {
		c.raw = mRaw(r)
		c.byName = r.Chance(2, 3)
		c.closeWs = mSlots(r, markupPerlSlot, 3)
	}
	return c
}

// MarkupChunks generates a chunk list: mostly well-nested, with overlaps, repeated names, close-all and a small share of
// unmatched close markers (expected: error).
func MarkupChunks(r *prng.R) []*mchunk {
	n := 1 + r.Intn(9)
	var cs []*mchunk
	var open []string
	core := r.Chance(1, 3) // only the chunk kinds of theorem parse_render_core
	for i := 0; i < n; i++ {
		k := r.Intn(20)
		switch {
		case k < 6:
			cs = append(cs, &mchunk{kind: "text", text: mText(r)})
		case k < 7:
			cs = append(cs, &mchunk{kind: r.Pick("escOpen", "escClose")})
		case k < 11:
			name := r.Pick(markupNames...)
			c := mHead(r, "open", name)
			if core {
				c.props, c.short = nil, nil
			}
			open = append(open, name)
			cs = append(cs, c)
		case k < 14:
			if len(open) == 0 || r.Chance(1, 12) {
				if r.Chance(7, 8) {
					cs = append(cs, &mchunk{kind: "text", text: mText(r)})
				} else {
					cs = append(cs, &mchunk{kind: "close", name: r.Pick(markupNames...), ws: mSlots(r, markupSlot, 3)})
				}
				break
			}
			j := len(open) - 1
			if r.Chance(1, 3) {
				j = r.Intn(len(open)) // overlap
			}
			cs = append(cs, &mchunk{kind: "close", name: open[j], ws: mSlots(r, markupSlot, 3)})
			open = append(open[:j], open[j+1:]...)
		case k < 15:
			cs = append(cs, &mchunk{kind: "closeAll", ws: mSlots(r, markupSlot, 2)})
			open = nil
		case k < 18:
			c := mHead(r, "selfClose", r.Pick(markupNames...))
			if core {
				c.props, c.short = nil, nil
			}
			cs = append(cs, c)
		default:
			if core {
				cs = append(cs, &mchunk{kind: "text", text: mText(r)})
				break
			}
			c := mRepl(r, r.Chance(1, 2))
			if c.kind == "repl" && !c.byName {
				open = nil
			}
			cs = append(cs, c)
		}
	}
	// close what is still open, most of the time
	for len(open) > 0 && r.Chance(5, 6) {
		if r.Chance(1, 5) {
			cs = append(cs, &mchunk{kind: "closeAll"})
			break
		}
		j := len(open) - 1
		cs = append(cs, &mchunk{kind: "close", name: open[j]})
		open = open[:j]
		if r.Chance(1, 3) {
			cs = append(cs, &mchunk{kind: "text", text: mText(r)})
		}
	}
	return cs
}

// mTight draws a short chunk list over a small alphabet in which every neighbourhood matters: escaped brackets, markers
// and blanks directly next to each other, at the start and at the end of the line (the parser's decisions "preceded by
// white space or the start of the line" and "swallow one following blank" live here).
func mTight(r *prng.R) []*mchunk {
	var cs []*mchunk
	var open []string
	for n := 1 + r.Intn(5); n > 0; n-- {
		switch r.Intn(9) {
		case 0:
			cs = append(cs, &mchunk{kind: "text", text: " "})
		case 1:
			cs = append(cs, &mchunk{kind: "text", text: r.Pick("x", " x", "x ", " x ", "  ", "é ", "\u3000")})
		case 2:
			cs = append(cs, &mchunk{kind: "escOpen"})
		case 3:
			cs = append(cs, &mchunk{kind: "escClose"})
		case 4, 5:
			cs = append(cs, &mchunk{kind: "selfClose", name: r.Pick("a", "b")})
		case 6:
			name := r.Pick("a", "b")
			open = append(open, name)
			cs = append(cs, &mchunk{kind: "open", name: name})
		case 7:
			if len(open) > 0 {
				cs = append(cs, &mchunk{kind: "close", name: open[len(open)-1]})
				open = open[:len(open)-1]
			} else {
				cs = append(cs, &mchunk{kind: "text", text: "y"})
			}
		default:
			cs = append(cs, &mchunk{kind: "closeAll"})
			open = nil
		}
	}
	// two neighbouring text chunks would not re-parse as two chunks
	var out []*mchunk
	for _, c := range cs {
		if c.kind == "text" && len(out) > 0 && out[len(out)-1].kind == "text" {
			out[len(out)-1] = &mchunk{kind: "text", text: out[len(out)-1].text + c.text}
			continue
		}
		out = append(out, c)
	}
	if len(open) > 0 && r.Chance(3, 4) {
		out = append(out, &mchunk{kind: "closeAll"})
	}
	return out
}

var markupFrags = []string{"[", "]", "[/", "/]", "[/]", "=", "\"", "\\", "\\[", "\\]", " ", "  ", "a", "b", "bold", "x y", "é", "名", "1", "12",
	"1.05", ".", "true", "False", "[b]", "[/b]", "[a]", "[/a]", "[i/]", "[ b ]", "[ / b ]", "[a=1]", "[a k=v]", "[a k=\"q\\\"w\"]",
	"[nomarkup]", "[/nomarkup]", "[select value=m m=\"he\" f=\"she\"/]", "[plural value=2 one=\"% apple\" other=\"% apples\"/]",
	"[ordinal value=22 one=\"%st\" two=\"%nd\" few=\"%rd\" other=\"%th\"/]", "[select value=x x=y]", "[/select]",
	"[x trimwhitespace=false/]", "[x trimwhitespace=true]", "[x trimwhitespace=3/]", "Name: ", ":", "\t", " ", "character",
	"[character name=\"Z\"]", "%", "\\%", "\x00", "\xff", "\xc3", "\xa9", "\xe2\x82", "\xed\xa0\x80", "\xf0\x9f\x98\x80", "\xc0\xaf", "٣", "１",
	"9223372036854775808", "[a=", "[a=1.", "[a=1.0", "k=", "=v", "[plural value=1.5 other=\"%\"/]", "[select value=contents]", "[ /select ]",
	"[/ nomarkup]", "[nomarkup/]", "value=", "　", " ", "[a/", "[a /]", "😀", "_", "[_]", "[/_]", "[é]", "[/é]", "\n", "\r", "\f", "\v", "\u0085"}

func fuzzLine(r *prng.R) []byte {
	switch r.Intn(8) {
	case 0: // arbitrary bytes
		n := r.Intn(24)
		b := make([]byte, n)
		for i := range b {
			b[i] = byte(r.Intn(256))
		}
		return b
	case 1: // bytes biased to the markup alphabet
		alphabet := []byte("[]/=\"\\ :.%abn1 0_\t\xc3\xa9\xe5\x90\x8d\xff\x00")
		n := r.Intn(30)
		b := make([]byte, n)
		for i := range b {
			b[i] = alphabet[r.Intn(len(alphabet))]
		}
		return b
	case 2, 3: // a well-formed line with a few byte mutations
		b := []byte(renderChunks(MarkupChunks(r)))
		for m := 1 + r.Intn(3); m > 0 && len(b) > 0; m-- {
			i := r.Intn(len(b))
			switch r.Intn(4) {
			case 0:
				b = append(b[:i], b[i+1:]...)
			case 1:
				b[i] = byte(r.Intn(256))
			case 2:
				b = append(b[:i], append([]byte(r.Pick(markupFrags...)), b[i:]...)...)
			default:
				b = b[:i]
			}
		}
		return b
	default: // token-level assembly
		var b strings.Builder
		for k := 1 + r.Intn(10); k > 0; k-- {
			b.WriteString(r.Pick(markupFrags...))
		}
		return []byte(b.String())
	}
}

func init() {
	Register("markup", func(profile string, r *prng.R, id string, i int) *sexp.S {
		c := sexp.L(sexp.A("case"), sexp.A("markup"), sexp.A(id), sexp.A(profile))
		switch profile {
		case "chunks":
			cs := MarkupChunks(r)
			if r.Chance(1, 5) {
				cs = mTight(r)
			}
			l := sexp.L(sexp.A("chunks"))
			for _, ch := range cs {
				l.Add(ch.sexp())
			}
			return c.Add(l, sexp.Bytes([]byte(renderChunks(cs))))
		case "history":
			h := sexp.L(sexp.A("hist"))
			if r.Chance(1, 3) {
				// short lines in which neighbourhoods matter, after histories that end in every way (blank, escape, marker, failure)
				for k := r.Intn(4); k > 0; k-- {
					hl := renderChunks(mTight(r))
					if r.Chance(1, 2) {
						hl += r.Pick(" ", " ", "x ", "[", "\\", "[a", " [")
					}
					h.Add(sexp.Bytes([]byte(hl)))
				}
				last := mTight(r)
				if r.Chance(1, 2) {
					// the first chunk is an escaped bracket: text is written before any character was looked at
					last = append([]*mchunk{{kind: r.Pick("escOpen", "escClose")}}, last...)
				}
				return c.Add(h, sexp.Bytes([]byte(renderChunks(last))))
			}
			if r.Chance(1, 40) {
				// a long evening: one line, then dozens of different ones, then the first again (whatever a parser remembers
				// about lines it has seen is bounded somewhere)
				first := renderChunks(MarkupChunks(r))
				h.Add(sexp.Bytes([]byte(first)))
				for k, n := 0, 30+r.Intn(40); k < n; k++ {
					h.Add(sexp.Bytes([]byte(fmt.Sprintf("Villager %d: nothing [b]ever[/b] happens at door %d", k, k))))
				}
				return c.Add(h, sexp.Bytes([]byte(first)))
			}
			if r.Chance(1, 6) {
				// a conversation: lines of few speakers, written with every spacing after the colon (none, one blank, several,
				// a tab), sometimes with a marker right after it; what a parser remembers about the previous speaker must not matter
				speaker := func() string {
					return r.Pick("Mae", "Mae", "Bea", "M", "名") + ":" + r.Pick("", " ", " ", "  ", "   ", "\t", " \t ") +
						r.Pick("Hi!", "Well", "[wave]Hi![/wave]", "[b/] x", "", "a: b")
				}
				for k := 1 + r.Intn(3); k > 0; k-- {
					h.Add(sexp.Bytes([]byte(speaker())))
				}
				return c.Add(h, sexp.Bytes([]byte(speaker())))
			}
			for k := r.Intn(6); k > 0; k-- {
				if r.Chance(1, 2) {
					h.Add(sexp.Bytes(fuzzLine(r)))
				} else {
					h.Add(sexp.Bytes([]byte(renderChunks(MarkupChunks(r)))))
				}
			}
			line := []byte(renderChunks(MarkupChunks(r)))
			if r.Chance(1, 4) {
				line = fuzzLine(r)
			}
			return c.Add(h, sexp.Bytes(line))
		case "fuzz":
			return c.Add(sexp.Bytes(fuzzLine(r)))
		case "utf8":
			// bytes biased to UTF-8 lead and continuation bytes at the borders of the accept ranges
			pool := []byte{0x00, 0x41, 0x7f, 0x80, 0x8f, 0x90, 0x9f, 0xa0, 0xbf, 0xc0, 0xc1, 0xc2, 0xdf, 0xe0, 0xe1, 0xec, 0xed, 0xee, 0xef, 0xf0, 0xf1, 0xf3, 0xf4, 0xf5, 0xff}
			b := make([]byte, r.Intn(12))
			for k := range b {
				if r.Chance(1, 4) {
					b[k] = byte(r.Intn(256))
				} else {
					b[k] = pool[r.Intn(len(pool))]
				}
			}
			return c.Add(sexp.Bytes(b))
		case "unicode":
			// case i covers the code points [1024 i, 1024 (i+1)); 1088 cases cover U+0000..U+10FFFF
			lo := (i % 1088) * 1024
			return c.Add(sexp.N(lo), sexp.N(lo+1024))
		}
		return nil
	})
}
