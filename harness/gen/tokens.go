package gen

import (
	"strconv"
	"strings"

	"verifharness/prng"
	"verifharness/sexp"
)

// Stream "tokens": the indentation-aware lexer (properties C20 balance, C08 layout, C01.4 body nesting).
//
// Profile layout: a generated script (1-2 nodes; lines, single-line commands, nested shortcut options, if/elseif/else)
// written in a random layout. The case carries
//
//	(text (s ...))                         the script
//	(infos (w m n) ...)                    per line break: width of the indentation behind it (space 1, tab 8), 1 if it
//	                                       mixes tabs and spaces, 1 if the line behind it is blank / comment-only
//	(nodes (node (noise w) (line w id) (arrow w id) (single w id) (if w) (elseif w) (else w) (endif w) (end w) ...) ...)
//	                                       the physical lines of every body, from the line after --- to === inclusive
//	(class nested|ragged) (wf 0|1)         how widths were chosen; whether the trees satisfy NoAdjacentOpts/OptsNonEmpty
//
// Profile bytes: arbitrary byte strings, token soups and mutated scripts: (b n ...).

type tokStmt struct {
	kind    string // line single opts if
	id      int
	opts    []*tokOpt
	clauses [][]*tokStmt // if: first clause, elseif clauses..., else clause if hasElse
	hasElse bool
}

type tokOpt struct {
	id   int
	body []*tokStmt
}

type tokTreeGen struct {
	r        *prng.R
	nextID   int
	adjacent bool // allow adjacent option groups (ill-formed for the round trip; fine for the lexer)
	wf       bool
}

func (g *tokTreeGen) id() int { g.nextID++; return g.nextID }

func (g *tokTreeGen) body(depth int, max int) []*tokStmt {
	n := g.r.Intn(max + 1)
	var out []*tokStmt
	for i := 0; i < n; i++ {
		k := g.r.Intn(13)
		if depth >= 4 && k >= 8 {
			k = g.r.Intn(8)
		}
		switch {
		case k < 5:
			out = append(out, &tokStmt{kind: "line", id: g.id()})
		case k < 8:
			out = append(out, &tokStmt{kind: "single", id: g.id()})
		case k < 11:
			if len(out) > 0 && out[len(out)-1].kind == "opts" {
				if !g.adjacent {
					out = append(out, &tokStmt{kind: "line", id: g.id()})
					continue
				}
				g.wf = false
			}
			s := &tokStmt{kind: "opts"}
			for m := 1 + g.r.Intn(3); m > 0; m-- {
				o := &tokOpt{id: g.id()}
				if g.r.Intn(3) > 0 {
					o.body = g.body(depth+1, 3)
				}
				s.opts = append(s.opts, o)
			}
			out = append(out, s)
		default:
			s := &tokStmt{kind: "if"}
			s.clauses = append(s.clauses, g.body(depth+1, 3))
			for m := g.r.Intn(3); m > 0; m-- {
				s.clauses = append(s.clauses, g.body(depth+1, 2))
			}
			if g.r.Intn(2) == 0 {
				s.hasElse = true
				s.clauses = append(s.clauses, g.body(depth+1, 2))
			}
			out = append(out, s)
		}
	}
	return out
}

// one physical line of the file
type tokLine struct {
	indent  string // [ \t]*
	content string // does not start with a space or a tab, contains no line break
	eol     string
	kind    string // noise line arrow single if elseif else endif end hdr
	id      int
	depth   int
}

type tokLayoutGen struct {
	r        *prng.R
	class    string
	widths   []int // width at depth d
	ifIndent int   // 0 no, 1 yes, 2 per statement
	unit     int   // 0 spaces, 1 tabs (widths multiples of 8), 2 tab-or-spaces per line when the width allows, 3 mixed allowed
	noise    int   // chance in 16 of a noise line before any line
	trailing int   // chance in 16 of a trailing comment
	lines    []*tokLine
}

func (l *tokLayoutGen) indentString(w int) string {
	switch l.unit {
	case 1:
		return strings.Repeat("\t", w/8) + strings.Repeat(" ", w%8)
	case 2:
		if w%8 == 0 && l.r.Intn(2) == 0 {
			return strings.Repeat("\t", w/8)
		}
	case 3:
		if w >= 8 && l.r.Intn(2) == 0 {
			t := 1 + l.r.Intn(w/8)
			s := w - 8*t
			if l.r.Intn(2) == 0 {
				return strings.Repeat(" ", s) + strings.Repeat("\t", t)
			}
			a := l.r.Intn(s + 1)
			return strings.Repeat(" ", a) + strings.Repeat("\t", t) + strings.Repeat(" ", s-a)
		}
	}
	return strings.Repeat(" ", w)
}

func (l *tokLayoutGen) randomBlank() string {
	n := l.r.Intn(10)
	if l.r.Intn(4) == 0 {
		var b strings.Builder
		for ; n > 0; n-- {
			b.WriteString(l.r.Pick(" ", " ", "\t"))
		}
		return b.String()
	}
	if l.unit == 1 {
		return strings.Repeat("\t", n%3)
	}
	return strings.Repeat(" ", n)
}

func (l *tokLayoutGen) noiseLines() {
	for l.noise > 0 && l.r.Intn(16) < l.noise {
		switch l.r.Intn(5) {
		case 0:
			l.lines = append(l.lines, &tokLine{kind: "noise"})
		case 1:
			l.lines = append(l.lines, &tokLine{kind: "noise", indent: l.randomBlank()})
		case 2:
			l.lines = append(l.lines, &tokLine{kind: "noise", content: "// a comment at column zero"})
		case 3:
			l.lines = append(l.lines, &tokLine{kind: "noise", indent: l.randomBlank(), content: "//"})
		default:
			l.lines = append(l.lines, &tokLine{kind: "noise", indent: l.randomBlank(), content: "// indented -> <<if>> comment"})
		}
	}
}

func (l *tokLayoutGen) width(depth int) int {
	for len(l.widths) <= depth {
		last := l.widths[len(l.widths)-1]
		step := 1 + l.r.Intn(8)
		if l.unit == 1 || (l.unit == 2 && l.r.Intn(2) == 0) {
			step = 8 * (1 + l.r.Intn(2))
		}
		l.widths = append(l.widths, last+step)
	}
	w := l.widths[depth]
	if l.class == "ragged" {
		switch l.r.Intn(6) {
		case 0:
			w += l.r.Intn(4)
		case 1:
			if d := l.r.Intn(4); d <= w {
				w -= d
			}
		case 2:
			w = l.r.Intn(13)
		}
	}
	return w
}

func (l *tokLayoutGen) emit(depth int, kind string, id int, content string) {
	l.noiseLines()
	if l.trailing > 0 && l.r.Intn(16) < l.trailing {
		if strings.Contains(content, "#") {
			content += " // trailing comment" // a hashtag text would swallow a comment that follows it directly
		} else {
			content += l.r.Pick(" // trailing comment", "// c", " //")
		}
	}
	l.lines = append(l.lines, &tokLine{indent: l.indentString(l.width(depth)), content: content, kind: kind, id: id, depth: depth})
}

func (l *tokLayoutGen) cond() string {
	return l.r.Pick("true", "false", "$x > 1", "$a and $b", "visited(\"N1\")", "1 + 2 == 3")
}

func (l *tokLayoutGen) body(depth int, stmts []*tokStmt) {
	for _, s := range stmts {
		n := strconv.Itoa(s.id)
		switch s.kind {
		case "line":
			text := "L" + n
			switch l.r.Intn(12) {
			case 0:
				text = "{1} L" + n
			case 1:
				text = "L" + n + " #tag" + n
			case 2:
				text = "L" + n + " <<if " + l.cond() + ">>"
			case 3:
				text = "L" + n + ": some text, with <b>markup</b> [a]x[/a] and a / slash"
			case 4:
				text = "\\{L" + n + "\\}"
			}
			l.emit(depth, "line", s.id, text)
		case "single":
			var text string
			switch s.id % 6 {
			case 0:
				text = "<<set $v" + n + " = " + l.r.Pick("1", "$v + 1", "\"s\"", "true") + ">>"
			case 1:
				text = "<<jump N" + n + ">>"
			case 2:
				text = "<<declare $d" + n + " = " + l.r.Pick("1", "\"s\"", "true") + ">>"
			case 3:
				text = "<<call f" + n + "(" + l.r.Pick("", "1", "1, 2") + ")>>"
			case 4:
				text = "<<c" + n + l.r.Pick("", " a", " a {1} b") + ">>"
			default:
				text = "<<stop" + n + ">>"
			}
			l.emit(depth, "single", s.id, text)
		case "opts":
			for _, o := range s.opts {
				text := "-> O" + strconv.Itoa(o.id)
				switch l.r.Intn(8) {
				case 0:
					text = "->O" + strconv.Itoa(o.id)
				case 1:
					text += " <<if " + l.cond() + ">>"
				case 2:
					text += " #t"
				}
				l.emit(depth, "arrow", o.id, text)
				l.body(depth+1, o.body)
			}
		case "if":
			bd := depth
			if l.ifIndent == 1 || (l.ifIndent == 2 && l.r.Intn(2) == 0) {
				bd = depth + 1
			}
			for i, c := range s.clauses {
				switch {
				case i == 0:
					l.emit(depth, "if", 0, "<<if "+l.cond()+">>")
				case s.hasElse && i == len(s.clauses)-1:
					l.emit(depth, "else", 0, "<<else>>")
				default:
					l.emit(depth, "elseif", 0, "<<elseif "+l.cond()+">>")
				}
				l.body(bd, c)
			}
			l.emit(depth, "endif", 0, "<<endif>>")
		}
	}
}

func tokSpaceWidth(indent string) (w int, mixed bool) {
	var sp, tb bool
	for _, c := range indent {
		if c == ' ' {
			w++
			sp = true
		} else {
			w += 8
			tb = true
		}
	}
	return w, sp && tb
}

func tokIsNoise(content string) bool { return content == "" || strings.HasPrefix(content, "//") }

// TokensLayoutCase generates one case of profile layout.
func TokensLayoutCase(r *prng.R, id string) *sexp.S {
	tg := &tokTreeGen{r: r, adjacent: r.Intn(8) == 0, wf: true}
	lg := &tokLayoutGen{r: r, class: "nested", widths: []int{0}}
	if r.Intn(5) == 0 {
		lg.class = "ragged"
	}
	if r.Intn(4) == 0 { // indented top level
		lg.widths[0] = 1 + r.Intn(8)
	}
	lg.ifIndent = r.Intn(3)
	if lg.class == "nested" && lg.ifIndent == 2 && r.Intn(2) == 0 {
		lg.ifIndent = 1
	}
	lg.unit = []int{0, 0, 0, 1, 2, 3}[r.Intn(6)]
	if lg.unit == 1 {
		lg.widths[0] = lg.widths[0] / 8 * 8
	}
	lg.noise = []int{0, 2, 5, 9}[r.Intn(4)]
	lg.trailing = []int{0, 0, 3}[r.Intn(3)]

	type nodeRange struct{ from, to int }
	var ranges []nodeRange
	nodes := 1 + r.Intn(2)
	if r.Intn(4) == 0 {
		lg.noiseLines() // noise before the first header
	}
	for k := 1; k <= nodes; k++ {
		lg.lines = append(lg.lines, &tokLine{kind: "hdr", content: "title: N" + strconv.Itoa(k)})
		if r.Intn(4) == 0 {
			lg.lines = append(lg.lines, &tokLine{kind: "hdr", content: "tags: a b"})
		}
		lg.lines = append(lg.lines, &tokLine{kind: "hdr", content: "---"})
		from := len(lg.lines)
		lg.body(0, tg.body(0, 5))
		lg.noiseLines()
		endIndent := ""
		if lg.class == "ragged" && r.Intn(6) == 0 {
			endIndent = lg.indentString(r.Intn(9))
		}
		lg.lines = append(lg.lines, &tokLine{kind: "end", indent: endIndent, content: "==="})
		ranges = append(ranges, nodeRange{from, len(lg.lines)})
		if r.Intn(4) == 0 {
			lg.noiseLines()
		}
	}
	// line ends
	eols := []string{"\n", "\r\n", "\r"}
	eol := eols[[]int{0, 0, 1, 2}[r.Intn(4)]]
	perLine := r.Intn(10) == 0
	for i, ln := range lg.lines {
		ln.eol = eol
		if perLine {
			ln.eol = eols[r.Intn(3)]
		}
		// "\r" followed by a completely empty line that ends in "\n" would read as one "\r\n"
		if i > 0 && lg.lines[i-1].eol == "\r" && ln.indent == "" && ln.content == "" && ln.eol == "\n" {
			ln.eol = "\r"
		}
	}
	last := lg.lines[len(lg.lines)-1]
	if r.Intn(4) == 0 {
		last.eol = "" // no line break at the end of the file
	} else {
		tail := &tokLine{kind: "noise"} // the (empty) line behind the last line break
		if r.Intn(6) == 0 {
			tail.indent = lg.randomBlank()
		}
		lg.lines = append(lg.lines, tail)
	}

	var text strings.Builder
	infos := sexp.L(sexp.A("infos"))
	for i, ln := range lg.lines {
		text.WriteString(ln.indent + ln.content + ln.eol)
		if i > 0 {
			w, mixed := tokSpaceWidth(ln.indent)
			m, n := 0, 0
			if mixed {
				m = 1
			}
			if tokIsNoise(ln.content) {
				n = 1
			}
			infos.Add(sexp.L(sexp.N(w), sexp.N(m), sexp.N(n)))
		}
	}
	nodesS := sexp.L(sexp.A("nodes"))
	for _, rg := range ranges {
		node := sexp.L(sexp.A("node"))
		for _, ln := range lg.lines[rg.from:rg.to] {
			w, _ := tokSpaceWidth(ln.indent)
			switch ln.kind {
			case "line", "arrow", "single":
				node.Add(sexp.L(sexp.A(ln.kind), sexp.N(w), sexp.N(ln.id)))
			default:
				node.Add(sexp.L(sexp.A(ln.kind), sexp.N(w)))
			}
		}
		nodesS.Add(node)
	}
	wf := 0
	if tg.wf {
		wf = 1
	}
	return sexp.L(sexp.A("case"), sexp.A("tokens"), sexp.A(id), sexp.A("layout"),
		sexp.L(sexp.A("class"), sexp.A(lg.class)), sexp.L(sexp.A("wf"), sexp.N(wf)),
		sexp.L(sexp.A("text"), sexp.Str(text.String())), infos, nodesS)
}

var tokSoup = []string{"\n", "\n", "\r\n", "\r", " ", "  ", "    ", "\t", "->", "-> ", "<<", ">>", "<<if ", "<<elseif ", "<<else>>", "<<endif>>",
	"<<set ", "<<jump ", "<<declare ", "<<call ", "{", "}", "#", "//", "/", "\\", "---", "===", "title:", "title: N\n---\n", "a", "b c", "$x", "1", "\"", "(", ")", ",",
	"=", "true", "é", "日本", " ", "\x00", "\f", "\v", "[b]", "[/b]", ":", "<", ">"}

// TokensBytesCase generates one case of profile bytes.
func TokensBytesCase(r *prng.R, id string) *sexp.S {
	var data []byte
	switch r.Intn(4) {
	case 0: // arbitrary bytes
		n := r.Intn(64)
		if r.Intn(8) == 0 {
			n = r.Intn(600)
		}
		data = make([]byte, n)
		for i := range data {
			switch r.Intn(4) {
			case 0:
				data[i] = byte(r.Intn(256))
			case 1:
				data[i] = "\n\r \t"[r.Intn(4)]
			default:
				data[i] = byte(0x20 + r.Intn(0x5f))
			}
		}
	case 1: // token soup
		var b strings.Builder
		if r.Intn(2) == 0 {
			b.WriteString("title: N\n---\n")
		}
		for n := r.Intn(60); n > 0; n-- {
			b.WriteString(tokSoup[r.Intn(len(tokSoup))])
		}
		data = []byte(b.String())
	default: // mutated script
		c := TokensLayoutCase(r, id)
		data = []byte(c.Find("text").List[1].GoString())
		for m := 1 + r.Intn(6); m > 0 && len(data) > 0; m-- {
			p := r.Intn(len(data))
			switch r.Intn(6) {
			case 0: // delete a chunk
				q := p + r.Intn(12)
				if q > len(data) {
					q = len(data)
				}
				data = append(append([]byte{}, data[:p]...), data[q:]...)
			case 1: // insert soup
				s := tokSoup[r.Intn(len(tokSoup))]
				data = append(append(append([]byte{}, data[:p]...), s...), data[p:]...)
			case 2: // replace a byte
				data[p] = byte(r.Intn(256))
			case 3: // duplicate a chunk
				q := p + r.Intn(40)
				if q > len(data) {
					q = len(data)
				}
				data = append(append(append([]byte{}, data[:q]...), data[p:q]...), data[q:]...)
			case 4: // truncate
				data = data[:p]
			default: // change indentation characters
				if data[p] == ' ' {
					data[p] = '\t'
				} else if data[p] == '\n' {
					data[p] = ' '
				}
			}
		}
	}
	return sexp.L(sexp.A("case"), sexp.A("tokens"), sexp.A(id), sexp.A("bytes"), sexp.Bytes(data))
}

func init() {
	Register("tokens", func(profile string, r *prng.R, id string, i int) *sexp.S {
		switch profile {
		case "layout":
			return TokensLayoutCase(r, id)
		case "bytes":
			return TokensBytesCase(r, id)
		}
		return nil
	})
}
