package gen

import (
	"verifharness/prng"
	"verifharness/sexp"
)

// Stream "containers": operation sequences for internal/container.Queue and Stack (property C20).
//
//	(case containers <id> queue (ops (enq 5) (deq) (peek) (size) ...))
//	(case containers <id> stack (ops (push 1) (pushall 1 2 3) (pop) (peek) (size) (clear) ...))
//
// Profiles: queue, stack (random sequences in phases so that the ring buffer grows and wraps), queue-exh (systematic
// enumeration by case index, see QueueExhaustive).

func containerOp(name string, vals ...int) *sexp.S {
	l := sexp.L(sexp.A(name))
	for _, v := range vals {
		l.Add(sexp.N(v))
	}
	return l
}

// containersQueueRandom: phases of mostly-enqueue / mostly-dequeue / mixed operations; values are a running counter with
// random jumps so that a misplaced element is visible.
func containersQueueRandom(r *prng.R) *sexp.S {
	ops := sexp.L(sexp.A("ops"))
	next := r.Intn(1000) - 500
	phases := 1 + r.Intn(6)
	for p := 0; p < phases; p++ {
		n := r.Intn(40)
		if r.Intn(8) == 0 {
			n = r.Intn(150)
		}
		enqBias := []int{9, 1, 5, 7, 3}[r.Intn(5)] // chance in 10 of an enqueue among enq/deq
		for k := 0; k < n; k++ {
			switch x := r.Intn(20); {
			case x == 0:
				ops.Add(containerOp("peek"))
			case x == 1:
				ops.Add(containerOp("size"))
			case r.Intn(10) < enqBias:
				ops.Add(containerOp("enq", next))
				next++
				if r.Intn(16) == 0 {
					next = r.Intn(2000000) - 1000000
				}
			default:
				ops.Add(containerOp("deq"))
			}
		}
	}
	return ops
}

func containersStackRandom(r *prng.R) *sexp.S {
	ops := sexp.L(sexp.A("ops"))
	next := r.Intn(1000) - 500
	phases := 1 + r.Intn(5)
	for p := 0; p < phases; p++ {
		n := r.Intn(30)
		pushBias := []int{9, 1, 5, 7, 3}[r.Intn(5)]
		for k := 0; k < n; k++ {
			switch x := r.Intn(24); {
			case x == 0:
				ops.Add(containerOp("peek"))
			case x == 1:
				ops.Add(containerOp("size"))
			case x == 2:
				if r.Intn(3) == 0 {
					ops.Add(containerOp("clear"))
				} else {
					ops.Add(containerOp("peek"))
				}
			case x == 3:
				m := r.Intn(6) // pushall with 0..5 values
				vals := make([]int, m)
				for j := range vals {
					vals[j] = next
					next++
				}
				ops.Add(containerOp("pushall", vals...))
			case r.Intn(10) < pushBias:
				ops.Add(containerOp("push", next))
				next++
			default:
				ops.Add(containerOp("pop"))
			}
		}
	}
	return ops
}

// QueuePhased builds the phase-structured sequence number j (0 <= j < 16384):
// reach head index f1 with k1 elements in the 8-slot buffer, fill it and enqueue once more (growth 8 -> 16 from a
// buffer whose head is at f1), rotate the head to f2, bring the size to k2, fill and grow again (16 -> 32 from a
// wrapped buffer whenever f2+... > 0), rotate to f3 with k3 elements, fill and grow a third time (32 -> 64), then drain
// completely, dequeue and peek once more (both panic) and enqueue again (re-use after drain).
// j enumerates all (f1, k1, f2, k2) in 8 x 8 x 16 x 16, and (f3, k3) = all of 32 x 32 (16 times).
func QueuePhased(j int) *sexp.S {
	f1, k1 := j%8, (j/8)%8+1
	f2, k2 := (j/64)%16, (j/1024)%16+1
	f3, k3 := j%32, (j/32)%32+1
	ops := sexp.L(sexp.A("ops"))
	next, size := 1, 0
	enq := func(n int) {
		for ; n > 0; n-- {
			ops.Add(containerOp("enq", next))
			next++
			size++
		}
	}
	deq := func(n int) {
		for ; n > 0; n-- {
			ops.Add(containerOp("deq"))
			size--
		}
	}
	stage := func(capacity, f, k int) {
		// the buffer has just been (re)created with its head at index 0 and `size` elements
		if size == 0 {
			enq(1)
		}
		for i := 0; i < f; i++ { // rotate: the head index advances by one, the size stays
			enq(1)
			deq(1)
		}
		if k < size {
			deq(size - k) // moves the head further: more wrapped states
		} else {
			enq(k - size)
		}
		ops.Add(containerOp("peek"))
		enq(capacity - size) // full: next == first
		ops.Add(containerOp("size"))
		enq(1) // growth
		ops.Add(containerOp("peek"))
	}
	stage(8, f1, k1)
	stage(16, f2, k2)
	stage(32, f3, k3)
	deq(size)
	ops.Add(containerOp("deq"), containerOp("peek"), containerOp("size"))
	enq(2)
	deq(1)
	ops.Add(containerOp("peek"), containerOp("size"))
	return ops
}

// QueueWord builds sequence number j of the enumeration of all words over {enq, deq, peek} by increasing length
// (length 0 first, then 3 words of length 1, 9 of length 2, ...): exhaustive up to length L after (3^(L+1)-1)/2 cases.
func QueueWord(j int) *sexp.S {
	length, block := 0, 1
	for j >= block {
		j -= block
		block *= 3
		length++
	}
	ops := sexp.L(sexp.A("ops"))
	next := 1
	digits := make([]int, length)
	for i := length - 1; i >= 0; i-- {
		digits[i] = j % 3
		j /= 3
	}
	for _, d := range digits {
		switch d {
		case 0:
			ops.Add(containerOp("enq", next))
			next++
		case 1:
			ops.Add(containerOp("deq"))
		default:
			ops.Add(containerOp("peek"))
		}
	}
	return ops
}

// QueuePhasedCount is the number of phase-structured cases at the start of profile queue-exh.
const QueuePhasedCount = 16384

// QueueDrainCount is the number of drain-at-capacity cases that follow them.
const QueueDrainCount = 8

// QueueDrain builds sequence number j (0 <= j < 8) that drains the queue completely while the capacity is 16 or 32
// (the phase-structured sequences only drain at capacity 64, the words only at capacity 8): grow once or twice, with
// the head rotated by 0, 1, 5 or capacity-1 first, drain, panic, re-use.
func QueueDrain(j int) *sexp.S {
	ops := sexp.L(sexp.A("ops"))
	next, size := 1, 0
	enq := func(n int) {
		for ; n > 0; n-- {
			ops.Add(containerOp("enq", next))
			next++
			size++
		}
	}
	deq := func(n int) {
		for ; n > 0; n-- {
			ops.Add(containerOp("deq"))
			size--
		}
	}
	growths := 1 + j%2
	capacity := 8
	for g := 0; g < growths; g++ {
		enq(1)
		for i := []int{0, 1, 5, capacity - 1}[j/2]; i > 0; i-- {
			enq(1)
			deq(1)
		}
		enq(capacity - size + 1)
		capacity *= 2
	}
	deq(size)
	ops.Add(containerOp("deq"), containerOp("peek"), containerOp("size"))
	enq(3)
	deq(1)
	ops.Add(containerOp("peek"), containerOp("size"))
	deq(2)
	ops.Add(containerOp("size"))
	return ops
}

// QueueExhaustive is case number i of profile queue-exh: first the 16384 phase-structured sequences (three growths, the
// second and third from wrapped buffers, every (cap, first, next) with cap <= 32 reachable in a queue is visited), then
// 8 sequences that drain the queue at capacity 16 and 32, then all words over {enq, deq, peek} by increasing length
// (complete up to length 10 after 16392+88573 cases, up to length 11 after 16392+265720 = 282112 cases).
func QueueExhaustive(i int) *sexp.S {
	if i < QueuePhasedCount {
		return QueuePhased(i)
	}
	if i < QueuePhasedCount+QueueDrainCount {
		return QueueDrain(i - QueuePhasedCount)
	}
	return QueueWord(i - QueuePhasedCount - QueueDrainCount)
}

func init() {
	Register("containers", func(profile string, r *prng.R, id string, i int) *sexp.S {
		c := sexp.L(sexp.A("case"), sexp.A("containers"), sexp.A(id))
		switch profile {
		case "queue":
			return c.Add(sexp.A("queue"), containersQueueRandom(r))
		case "queue-exh":
			return c.Add(sexp.A("queue"), QueueExhaustive(i))
		case "stack":
			return c.Add(sexp.A("stack"), containersStackRandom(r))
		}
		return nil
	})
}
