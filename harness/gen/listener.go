package gen

// Generator of the `listener` stream: Yarn texts whose parse trees exercise every handler of the AST builder.
//
// Profiles:
//
//	mixed   every statement kind, option groups and if chains nested up to depth 3, expressions of depth 0-6 with every
//	        operator in every spelling and random redundant parentheses, conditions and tags on lines and options,
//	        commands with inline expressions, 1-4 nodes with extra headers, file tags, `declare … as <type>`;
//	        random layouts (indent unit, line ends, noise lines, comments)
//	expr    lines, assignments, conditions and calls around deep expressions (depth 4-6)
//	nest    option groups and if chains only, bodies inside bodies, short leaves
//	cmds    generic commands: words of every class, inline expressions, odd spacing
//	mutate  a valid script damaged at 1-3 places (mostly LOADERR; the share that still parses is compared like the rest)

import (
	"regexp"
	"strconv"
	"strings"

	"verifharness/ast"
	"verifharness/prng"
	"verifharness/sexp"
)

var listenerProfiles = map[string]*Profile{
	"mixed": {Name: "mixed", MaxNodes: 4, Weights: map[string]int{"line": 7, "opts": 3, "if": 3, "set": 4, "declare": 2, "jump": 2, "cmd": 3, "call": 2, "stop": 1},
		ExprDepth: 3, Faults: 1, Numeric: true, Random: true, Tags: true, Multibyte: true, Escapes: true, Markup: true, Ctl: true, NumberForms: true},
	"expr": {Name: "expr", MaxNodes: 2, Weights: map[string]int{"line": 6, "opts": 1, "if": 3, "set": 5, "declare": 1, "jump": 2, "cmd": 1, "call": 3, "stop": 0},
		ExprDepth: 6, Faults: 2, Numeric: true, Random: true, Tags: true},
	"nest": {Name: "nest", MaxNodes: 2, Weights: map[string]int{"line": 4, "opts": 6, "if": 6, "set": 1, "declare": 1, "jump": 1, "cmd": 1, "call": 1, "stop": 1},
		ExprDepth: 1, Faults: 0, Tags: true},
	"cmds": {Name: "cmds", MaxNodes: 2, Weights: map[string]int{"line": 3, "opts": 1, "if": 1, "set": 1, "declare": 0, "jump": 0, "cmd": 12, "call": 1, "stop": 2},
		ExprDepth: 2, Faults: 1, Ctl: true, Numeric: true},
}

var declareEnd = regexp.MustCompile(`(<<declare[^\n>]*)>>`)

// oddCommand writes a generic command the run generator never produces: words of every class, several inline
// expressions, texts glued to expressions, odd spacing.
func oddCommand(g *G) *ast.Stmt {
	r := g.R
	s := &ast.Stmt{Kind: "cmd", Cmd: []ast.CmdEl{{Word: r.Pick("cmd", "walk", "x", "é", "set_it", "iffy", "jumper", "wait")}}}
	for k := r.Intn(6); k > 0; k-- {
		if r.Intn(3) == 0 {
			s.Cmd = append(s.Cmd, ast.CmdEl{E: g.expr(r.Intn(3), "")})
		} else {
			s.Cmd = append(s.Cmd, ast.CmdEl{Word: r.Pick("word", "12", "-3.5", "true", "false", "x1", "é", "0", "007", "1.", ".5", "-", "1e3", "Inf", "NaN", "TRUE",
				"a.b", "-0", "-0.0", "99999999999999999999", "\"q\"", "a,b", "$v", "(", "#", "名前", "3.25", "-12.50")})
		}
	}
	return s
}

func listenerScript(r *prng.R, p *Profile) string {
	q := *p
	if q.Name == "mixed" {
		q.ExprDepth = r.Intn(7)
	}
	if q.Name == "expr" {
		q.ExprDepth = 4 + r.Intn(3)
	}
	g := &G{R: r, P: &q}
	nn := 1 + r.Intn(q.MaxNodes)
	g.titles = []string{"Start", "A", "B", "C_1"}[:nn]
	var nodes []*ast.Node
	for i, t := range g.titles {
		n := &ast.Node{Title: t}
		if i > 0 && r.Intn(3) == 0 {
			n.Tracking = r.Pick("never", "always")
		}
		if r.Intn(4) == 0 {
			n.Headers = map[string]string{r.Pick("tags", "colorID", "position", "é"): r.Pick("a b", "1", "x:y", "#t")}
		}
		if r.Intn(8) != 0 {
			n.Body = append(n.Body, &ast.Stmt{Kind: "line", Line: &ast.Line{Els: []ast.El{{Text: "enter " + t}}}})
		}
		count := r.Intn(7)
		if q.Name == "nest" {
			count = 1 + r.Intn(4)
		}
		body := g.body(0, count)
		if q.Name == "cmds" || r.Intn(4) == 0 {
			for k := r.Intn(3); k > 0; k-- {
				body = append(body, oddCommand(g))
			}
		}
		n.Body = append(n.Body, body...)
		nodes = append(nodes, n)
	}
	var layout *ast.Layout
	if r.Intn(4) == 0 {
		layout = &ast.Layout{R: r.Fork(), IfIndent: r.Intn(2) == 0}
	} else {
		layout = RandomLayout(r)
	}
	text := layout.Render(nodes)
	// `<<declare $x = v as type>>`
	if r.Intn(3) == 0 {
		ty := r.Pick("number", "string", "bool", "whatever")
		text = declareEnd.ReplaceAllString(text, "${1} as "+ty+">>")
	}
	// file tags in front of the first node
	if r.Intn(6) == 0 {
		tags := ""
		for k := 1 + r.Intn(2); k > 0; k-- {
			tags += "#" + r.Pick("file", "t:1", "é") + strconv.Itoa(r.Intn(10)) + r.Pick("\n", " ", "\n\n")
		}
		if !strings.HasSuffix(tags, "\n") {
			tags += "\n"
		}
		text = tags + text
	}
	return text
}

func init() {
	Register("listener", func(profile string, r *prng.R, id string, i int) *sexp.S {
		var text string
		switch profile {
		case "mutate":
			text = listenerScript(r, listenerProfiles[r.Pick("mixed", "nest", "cmds")])
			if r.Intn(8) != 0 {
				text = mutate(r, text)
			}
		default:
			p := listenerProfiles[profile]
			if p == nil {
				return nil
			}
			text = listenerScript(r, p)
		}
		return sexp.L(sexp.A("case"), sexp.A("listener"), sexp.A(id), sexp.L(sexp.A("src"), sexp.Bytes([]byte(text))))
	})
}
