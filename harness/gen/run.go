// Package gen holds the case generators. Every choice derives from one prng.R.
package gen

import (
	"fmt"
	"strconv"
	"strings"

	"verifharness/ast"
	"verifharness/prng"
	"verifharness/sexp"
)

// Profile steers the run-stream generator towards what one property talks about.
type Profile struct {
	Name        string
	MaxNodes    int
	Weights     map[string]int // statement kinds: line opts if set declare jump cmd call stop
	ExprDepth   int
	Faults      int // chance in 16 that an expression position receives a faulty expression
	Random      bool
	Numeric     bool
	Markup      bool // markup in line texts
	Multibyte   bool
	Escapes     bool
	Tags        bool
	Ops         int // number of operations
	SnapOps     int // chance in 16 of snapshot / restore operations
	Runners     int
	HostWrites  int // chance in 16
	Ctl         bool
	PostEnd     int // extra next calls after an end
	Layout      func(r *prng.R) *ast.Layout
	Untracked   bool
	ManyCmds    bool
	RandomHeavy bool
	Visits      bool
	IllTyped    bool
	NumberForms bool
	Crash       bool // call statements of a host function that panics
	LateCmds    bool // commands registered late on single runners (operation addcmd)
	LongRuns    bool // longer node bodies, and half of the nodes end with a jump: runs use all their operations
}

type G struct {
	R      *prng.R
	P      *Profile
	titles []string
	lineID int
	vars   []string
	// the host registers handlers named wait and stop (commands named wait are only generated then: the built-in sleeps)
	hostWait bool
}

func (g *G) numLit() *ast.Expr {
	r := g.R
	if g.P.Faults > 0 && r.Intn(24) == 0 {
		// more digits than a double holds: the literal is +Inf
		return ast.Num("1" + strings.Repeat("0", 309+r.Intn(30)))
	}
	if g.P.NumberForms && r.Intn(4) == 0 {
		// literals at the edges of the display forms: integers up to and beyond int64 and 2^53, the switch to exponent
		// notation at 1e21 and below 1e-4, digits that do not survive 15 places, leading and trailing zeros
		return ast.Num(r.Pick("100000000000000000000", "1000000000000000000000", "123456789012345680000", "999999999999999999999",
			"0.0001", "0.00001", "0.0000001", "0.000123456789", "2.50", "007", "0.5", "9007199254740992", "9007199254740993",
			"9223372036854775807", "9223372036854775808", "18446744073709551616", "0.30000000000000004", "0.1", "1.0", "4.35",
			"1000000", "999999.9999999999", "123456789.123456789", "0.000001", "1e"[:1]+"0000000000000000000000000000000"))
	}
	switch r.Intn(10) {
	case 0:
		return ast.Num("0")
	case 1:
		return ast.Num(strconv.Itoa(r.Intn(100)) + "." + strconv.Itoa(r.Intn(100)))
	case 2:
		return ast.Num(strconv.Itoa(r.Intn(1000000)))
	case 3:
		return ast.Num("0." + strings.Repeat("0", r.Intn(4)) + strconv.Itoa(1+r.Intn(9)))
	default:
		return ast.Num(strconv.Itoa(r.Intn(8)))
	}
}

func (g *G) strLit() *ast.Expr {
	return ast.Str(g.R.Pick("a", "b", "x", "", "hello", "A", "B", "Start", "1", "true", "2.5", "a\\\"", "\\\"q\\\" b", "x\\\\", "{z}", "é #t"))
}

// boundary returns calls whose arguments sit on the edges of the guards of the built-ins: spans of exactly MaxInt64,
// bounds at +-2^63 and their float64 neighbours, powers of ten beyond the table.
func (g *G) boundary() *ast.Expr {
	r := g.R
	k := 1 + r.Intn(3)
	hi := strconv.FormatUint(9223372036854775808-uint64(1024*k), 10) // 2^63 - 1024k: a float64, an int64
	neg := func(n int) *ast.Expr { return ast.Neg(ast.Num(strconv.Itoa(n))) }
	switch r.Intn(12) {
	case 0:
		return ast.Fn("random_range", neg(1024*k-1), ast.Num(hi)) // span exactly MaxInt64
	case 1:
		return ast.Fn("random_range", neg(1024*k-1+r.Intn(3)-1), ast.Num(hi)) // its neighbours
	case 2:
		return ast.Fn("random_range", ast.Neg(ast.Num("9223372036854775808")), ast.Num(hi)) // the span overflows
	case 3:
		return ast.Fn("random_range", ast.Num("0"), ast.Num(hi)) // huge but valid
	case 4:
		return ast.Fn("dice", ast.Num(r.Pick(hi, "9223372036854775808", "9223372036854775807", "18446744073709551616", "4294967296", "2147483648", "2147483647")))
	case 5:
		return ast.Fn("dice", ast.Bin("mul", ast.Num("1000000000000000000000"), ast.Num("1000000000000000000000")))
	case 6:
		return ast.Fn("round_places", ast.Num("1.5"), ast.Num(r.Pick("400", "309", "308", "22", "23", "32", "33")))
	case 7:
		return ast.Fn("round_places", ast.Num("1.5"), ast.Neg(ast.Num(r.Pick("400", "324", "323", "1", "32"))))
	case 8:
		return ast.Fn("round_places", ast.Num("1.5"), ast.Bin("div", ast.Num(r.Pick("0", "1")), ast.Num("0")))
	case 9:
		return ast.Fn("random_range", ast.Num(hi), ast.Num("9223372036854775808"))
	case 10:
		return ast.Fn("random_range", ast.Neg(ast.Num("9223372036854775808")), ast.Neg(ast.Num(hi)))
	default:
		return ast.Fn("dice", ast.Neg(ast.Num(r.Pick("1", "0.5", "9223372036854775808"))))
	}
}

func (g *G) faulty() *ast.Expr {
	r := g.R
	if g.P.Numeric && r.Intn(5) == 0 {
		return g.boundary()
	}
	switch r.Intn(14) {
	case 0:
		return ast.Var("nope")
	case 1:
		return ast.Bin("add", ast.Num("1"), ast.Bool(true))
	case 2:
		return ast.Fn("nofunc", ast.Num("1"))
	case 3:
		return ast.Null()
	case 4:
		return ast.Fn("nr")
	case 5:
		return ast.Fn("boom")
	case 6:
		return ast.Fn("dice", ast.Num("0"))
	case 7:
		return ast.Fn("random_range", ast.Num("5"), ast.Num("1"))
	case 8:
		return ast.Fn("dice", ast.Bin("div", ast.Num(g.R.Pick("0", "1")), ast.Num("0")))
	case 9:
		return ast.Neg(ast.Str("s"))
	case 10:
		return ast.Not(ast.Num("1"))
	case 11:
		return ast.Fn("floor", ast.Str("x"))
	case 12:
		return ast.Fn("floor")
	default:
		return ast.Fn("number", ast.Str("zz"))
	}
}

// expr generates an expression; want is "num", "bool", "str" or "" (any)
func (g *G) expr(d int, want string) *ast.Expr {
	r := g.R
	if g.P.Faults > 0 && r.Intn(16*(d+1)) < g.P.Faults {
		return g.faulty()
	}
	if want == "" {
		want = r.Pick("num", "num", "bool", "str")
	}
	if d <= 0 || r.Intn(3) == 0 {
		switch want {
		case "num":
			switch r.Intn(6) {
			case 0:
				return ast.Var("n")
			case 1:
				return ast.Var("m")
			case 2:
				return ast.Fn("visited_count", ast.Str(g.titles[r.Intn(len(g.titles))]))
			}
			return g.numLit()
		case "bool":
			switch r.Intn(5) {
			case 0:
				return ast.Var("b")
			case 1:
				return ast.Fn("visited", ast.Str(g.titles[r.Intn(len(g.titles))]))
			}
			return ast.Bool(r.Intn(2) == 0)
		default:
			if r.Intn(3) == 0 {
				return ast.Var("s")
			}
			return g.strLit()
		}
	}
	switch want {
	case "num":
		switch r.Intn(12) {
		case 0:
			return ast.Neg(g.expr(d-1, "num"))
		case 1:
			return ast.Fn("probe", g.expr(d-1, "num"))
		case 2:
			if g.P.Numeric {
				f := r.Pick("floor", "ceil", "round", "inc", "dec", "decimal", "integer")
				return ast.Fn(f, g.expr(d-1, "num"))
			}
		case 3:
			if g.P.Numeric {
				return ast.Fn("round_places", g.expr(d-1, "num"), ast.Num(strconv.Itoa(r.Intn(4))))
			}
		case 4:
			if g.P.Random {
				switch r.Intn(3) {
				case 0:
					return ast.Fn("dice", ast.Num(strconv.Itoa(1+r.Intn(20))))
				case 1:
					return ast.Fn("random")
				default:
					a := r.Intn(10)
					return ast.Fn("random_range", ast.Num(strconv.Itoa(a)), ast.Num(strconv.Itoa(a+r.Intn(10))))
				}
			}
		case 5:
			if g.P.Numeric {
				return ast.Fn("number", g.expr(d-1, ""))
			}
		case 6:
			return ast.Fn("two", g.expr(d-1, "num"), g.expr(d-1, ""))
		case 7:
			if d >= 2 {
				// grouping matters for doubles: a + (b + c) is not (a + b) + c for these
				v := func() *ast.Expr {
					return ast.Num(r.Pick("0.1", "0.2", "0.3", "0.7", "10000000000000000", "1", "9007199254740992", "0.0000001", "1.1", "3"))
				}
				op := r.Pick("add", "add", "mul", "sub")
				a, b, c := v(), v(), v()
				if r.Intn(3) == 0 {
					a = ast.Var(r.Pick("n", "m"))
				}
				if r.Intn(2) == 0 {
					return ast.Bin(op, a, ast.Bin(op, b, c))
				}
				return ast.Bin(op, ast.Bin(op, a, b), c)
			}
		}
		op := r.Pick("mul", "div", "mod", "add", "sub", "add", "sub", "mul")
		return ast.Bin(op, g.expr(d-1, "num"), g.expr(d-1, "num"))
	case "bool":
		switch r.Intn(8) {
		case 0:
			return ast.Not(g.expr(d-1, "bool"))
		case 1, 2:
			op := r.Pick("le", "ge", "lt", "gt", "eq", "ne")
			return ast.Bin(op, g.expr(d-1, "num"), g.expr(d-1, "num"))
		case 3:
			t := r.Pick("num", "bool", "str")
			return ast.Bin(r.Pick("eq", "ne"), g.expr(d-1, t), g.expr(d-1, t))
		case 4:
			return ast.Fn("probe", g.expr(d-1, "bool"))
		case 5:
			if g.P.Numeric {
				return ast.Fn("bool", g.expr(d-1, ""))
			}
		}
		return ast.Bin(r.Pick("and", "or", "xor", "and", "or"), g.expr(d-1, "bool"), g.expr(d-1, "bool"))
	default:
		switch r.Intn(4) {
		case 0:
			return ast.Bin("add", g.expr(d-1, "str"), g.expr(d-1, "str"))
		case 1:
			return ast.Fn("string", g.expr(d-1, ""))
		case 2:
			return ast.Fn("probe", g.expr(d-1, "str"))
		}
		return g.strLit()
	}
}

func (g *G) text() string {
	g.lineID++
	t := fmt.Sprintf("l%d", g.lineID)
	r := g.R
	if g.lineID > 1 && r.Intn(6) == 0 {
		// the same words as an earlier line (other tags, another place in the script): lines are not identified by their text
		t = fmt.Sprintf("l%d", 1+r.Intn(g.lineID-1))
	}
	if r.Intn(14) == 0 {
		// a text that ends with its first colon: the implicit character attribute covers all of it
		t = r.Pick("Alice:", "Ask Bob:", "l:")
	}
	if g.P.Multibyte && r.Intn(3) == 0 {
		t += r.Pick(" é", " 名前", " 😀", "ü")
	}
	if g.P.Multibyte && r.Intn(6) == 0 {
		// white space of more than one byte around the text: stripped by the markup pass, counted in characters
		t = r.Pick("\u3000", "\u00a0", "\u2003\u2003", "\u3000 \u00a0") + t
		if r.Intn(2) == 0 {
			t += r.Pick("\u3000", "\u00a0 ", " \u2003")
		}
	}
	if r.Intn(12) == 0 {
		// a line that begins with a single slash is text, not a comment
		t = r.Pick("/me ", "/", "/ ") + t
	}
	if g.P.Faults >= 4 && r.Intn(10) == 0 {
		// markup the line parser refuses: the line is an error every time it is reached, and nothing else
		t += r.Pick(" [b", " [/b] there", " [nomarkup]Oops", " [a=]", " [/]")
	}
	if g.P.Escapes && r.Intn(3) == 0 {
		// (escaped brackets alone and together: the lexer passes them through, the markup pass resolves them)
		t += r.Pick(" a#b", " {x}", " a\\b", " <<c", " x//y", " a<b", " a/b", " >}", " \\[z\\]", " x\\]y", " p\\[q", " \\] \\]", " e\\]")
	}
	return t
}

func (g *G) line(withCond bool) *ast.Line {
	r := g.R
	ln := &ast.Line{}
	t := g.text()
	if g.P.Markup && r.Intn(3) == 0 {
		t += r.Pick(" [b]bold[/b]", " [a k=1]x[/a] y", " [wave/] z", " [i]a [b]c[/b][/] d", " [b]é[/b]",
			" [nomarkup][b]raw[/b][/nomarkup] n", " [select value=f m=he f=she]x[/select] s", " [plural value=2 one=\"% apple\" other=\"% apples\"/] p",
			" [ordinal value=3 one=%st two=%nd few=%rd other=%th]x[/ordinal] o", " [nomarkup]é [x][/] w")
	}
	ln.Els = append(ln.Els, ast.El{Text: t})
	if r.Intn(14) == 0 {
		// a line that is nothing but one inline expression: its value is the whole text, and it is text like any other
		// (stripped, markup resolved, a speaker prefix recognised)
		var e *ast.Expr
		switch r.Intn(4) {
		case 0:
			e = ast.Var("s")
		case 1:
			e = ast.Str(r.Pick("Guide: [b]welcome[/b] aboard", "[a]x[/a]", " padded ", "plain", "N: hi"))
		default:
			e = g.expr(1, "")
		}
		ln.Els = []ast.El{{E: e}}
		if withCond && r.Intn(3) == 0 {
			ln.Cond = g.expr(1, "bool")
		}
		return ln
	}
	for k := r.Intn(3); k > 0; k-- {
		ln.Els[len(ln.Els)-1].Text += " "
		if r.Intn(10) == 0 {
			// a whole inline expression that is a call of the recycling host function (never nested: the value must be used
			// before the next call for the written order to be the observable one)
			ln.Els = append(ln.Els, ast.El{E: ast.Fn("tick")})
		} else {
			ln.Els = append(ln.Els, ast.El{E: g.expr(g.P.ExprDepth, "")})
		}
		ln.Els = append(ln.Els, ast.El{Text: " w"})
	}
	if withCond && r.Intn(3) == 0 {
		ln.Cond = g.expr(1, "bool")
	}
	if g.P.Tags && r.Intn(3) == 0 {
		for k := 1 + r.Intn(2); k > 0; k-- {
			ln.Tags = append(ln.Tags, r.Pick("tag", "t:1", "line:ab12", "é"))
		}
	}
	if (ln.Cond != nil || len(ln.Tags) > 0) && r.Intn(8) != 0 {
		last := &ln.Els[len(ln.Els)-1]
		if last.E == nil {
			last.Text += " "
		} else {
			ln.Els = append(ln.Els, ast.El{Text: " "})
		}
	}
	return ln
}

func (g *G) pickKind(depth int, lastOpts bool) string {
	total := 0
	for _, w := range g.P.Weights {
		total += w
	}
	for {
		x := g.R.Intn(total)
		for _, k := range []string{"line", "opts", "if", "set", "declare", "jump", "cmd", "call", "stop"} {
			w := g.P.Weights[k]
			if x < w {
				if (k == "opts" || k == "if") && depth >= 3 {
					return "line"
				}
				if k == "opts" && lastOpts {
					return "line"
				}
				return k
			}
			x -= w
		}
	}
}

func (g *G) body(depth, n int) []*ast.Stmt {
	r := g.R
	var out []*ast.Stmt
	lastOpts := false
	for i := 0; i < n; i++ {
		k := g.pickKind(depth, lastOpts)
		lastOpts = false
		switch k {
		case "line":
			// (a condition on a plain line is parsed and ignored by the runner)
			out = append(out, &ast.Stmt{Kind: "line", Line: g.line(r.Intn(8) == 0)})
		case "opts":
			s := &ast.Stmt{Kind: "opts"}
			for j := 1 + r.Intn(3); j > 0; j-- {
				s.Opts = append(s.Opts, ast.Opt{Line: g.line(true), Body: g.body(depth+1, r.Intn(3))})
			}
			out = append(out, s)
			lastOpts = true
		case "if":
			s := &ast.Stmt{Kind: "if"}
			for j, nc := 0, 1+r.Intn(3); j < nc; j++ {
				s.Clauses = append(s.Clauses, ast.Clause{Cond: g.expr(g.P.ExprDepth, "bool"), Body: g.body(depth+1, r.Intn(3))})
			}
			if r.Intn(2) == 0 {
				s.Clauses = append(s.Clauses, ast.Clause{IsElse: true, Body: g.body(depth+1, r.Intn(3))})
			}
			out = append(out, s)
		case "set":
			v := r.Pick("n", "n", "m", "b", "s", "q")
			op := r.Pick("set", "set", "set", "add", "sub", "mul", "div", "mod")
			want := map[string]string{"n": "num", "m": "num", "b": "bool", "s": "str", "q": ""}[v]
			if v == "s" {
				op = r.Pick("set", "add", "add", "add", "mul") // strings are mostly built by appending
			}
			if r.Intn(8) == 0 {
				want = ""
			}
			if r.Intn(6) == 0 {
				// $t holds the destination of computed jumps: the same <<jump {$t}>> goes to different nodes over time
				out = append(out, &ast.Stmt{Kind: "set", Var: "t", Op: "set", E: ast.Str(g.titles[r.Intn(len(g.titles))])})
				break
			}
			out = append(out, &ast.Stmt{Kind: "set", Var: v, Op: op, E: g.expr(g.P.ExprDepth, want)})
		case "declare":
			var e *ast.Expr
			switch r.Intn(4) {
			case 0:
				e = g.numLit()
			case 1:
				e = ast.Bool(r.Intn(2) == 0)
			case 2:
				e = g.strLit()
			default:
				e = ast.Var(r.Pick("n", "s", "nope"))
			}
			out = append(out, &ast.Stmt{Kind: "declare", Var: r.Pick("n", "d", "b", "s"), E: e})
		case "jump":
			t := g.titles[r.Intn(len(g.titles))]
			if g.P.Faults > 0 && r.Intn(6) == 0 {
				t = "Nowhere"
			}
			if r.Intn(2) == 0 {
				out = append(out, &ast.Stmt{Kind: "jump", JumpID: true, E: ast.Str(t)})
			} else {
				var e *ast.Expr = ast.Str(t)
				if r.Intn(3) == 0 {
					e = ast.Bin("add", ast.Str(t), ast.Str(""))
				}
				if r.Intn(3) == 0 {
					e = ast.Var("t")
				}
				if g.P.Faults > 0 && r.Intn(8) == 0 {
					e = g.expr(1, "")
				}
				out = append(out, &ast.Stmt{Kind: "jump", E: e})
			}
		case "cmd":
			name := r.Pick("cmd", "cmd", "cmd", "failing", "unknowncmd")
			if g.hostWait && r.Intn(4) == 0 {
				name = "wait"
			}
			if g.P.Ctl && r.Intn(2) == 0 {
				name = "ctl"
			}
			if g.P.LateCmds && r.Intn(4) == 0 {
				name = "late" // registered (if at all) by an addcmd operation, on one runner, while the run is under way
			}
			s := &ast.Stmt{Kind: "cmd", Cmd: []ast.CmdEl{{Word: name}}}
			if r.Intn(12) == 0 {
				// statement keywords of other Yarn Spinner versions: here they are commands nobody registered, and nothing else
				name = r.Pick("detour", "detour", "return", "once", "endonce", "returning")
				s.Cmd[0].Word = name
				if name == "detour" {
					s.Cmd = append(s.Cmd, ast.CmdEl{Word: g.titles[r.Intn(len(g.titles))]})
					out = append(out, s)
					break
				}
			}
			if r.Intn(6) == 0 {
				// computed command name
				switch r.Intn(3) {
				case 0:
					s.Cmd[0] = ast.CmdEl{E: ast.Str(name)}
				case 1:
					s.Cmd[0] = ast.CmdEl{E: ast.Var(r.Pick("s", "t"))}
				default:
					s.Cmd[0] = ast.CmdEl{E: g.expr(1, "")}
				}
			} else if g.P.Faults > 0 && r.Intn(16) == 0 {
				// no element at all
				out = append(out, &ast.Stmt{Kind: "cmd"})
				break
			}
			for k := r.Intn(3); k > 0; k-- {
				if r.Intn(2) == 0 {
					s.Cmd = append(s.Cmd, ast.CmdEl{E: g.expr(1, "")})
				} else {
					s.Cmd = append(s.Cmd, ast.CmdEl{Word: r.Pick("word", "12", "-3.5", "true", "false", "x1", "é")})
				}
			}
			out = append(out, s)
		case "call":
			f := r.Pick("probe", "probe", "nr", "boom", "two")
			if g.P.Crash && r.Intn(3) == 0 {
				f = "crash" // a host function that panics: the panic passes through Next; it is not the end of the dialogue
			}
			if g.P.Faults > 0 && r.Intn(4) == 0 {
				f = "nofunc"
			}
			s := &ast.Stmt{Kind: "call", Fn: f}
			switch f {
			case "probe", "nofunc":
				s.Args = []*ast.Expr{g.expr(1, "")}
			case "two":
				s.Args = []*ast.Expr{g.expr(1, ""), g.expr(1, "")}
			}
			out = append(out, s)
		case "stop":
			st := &ast.Stmt{Kind: "cmd", Cmd: []ast.CmdEl{{Word: "stop"}}}
			switch r.Intn(6) {
			case 0:
				st.Cmd = append(st.Cmd, ast.CmdEl{Word: "now"})
			case 1:
				st.Cmd = append(st.Cmd, ast.CmdEl{E: g.expr(1, "")})
			}
			out = append(out, st)
		}
	}
	return out
}

func value(r *prng.R, ty string) *sexp.S {
	switch ty {
	case "num":
		return ast.Num(strconv.Itoa(r.Intn(10))).Sexp()
	case "bool":
		return ast.Bool(r.Intn(2) == 0).Sexp()
	}
	return ast.Str(r.Pick("a", "zz", "")).Sexp()
}

// RunCase generates one case of the run stream.
func RunCase(r *prng.R, p *Profile, id string) *sexp.S {
	g := &G{R: r, P: p}
	g.hostWait = p.Weights["cmd"] > 0 && r.Intn(3) == 0
	// a host that registers no handler before the run starts (no commands named wait then: the built-in would sleep)
	bare := p.LateCmds && r.Intn(4) == 0
	if bare {
		g.hostWait = false
	}
	nn := 1 + r.Intn(p.MaxNodes)
	g.titles = []string{"Start", "A", "B", "C_1"}[:nn]
	if p.Untracked && nn >= 3 && r.Intn(10) == 0 {
		// two nodes of the same title: jumps find the first one
		g.titles = append([]string{}, g.titles...)
		g.titles[nn-1] = g.titles[r.Intn(nn-1)]
	}
	prog := &ast.Program{}
	for i, t := range g.titles {
		n := &ast.Node{Title: t}
		if p.Untracked && r.Intn(3) == 0 && (i > 0 || r.Intn(2) == 0) {
			n.Tracking = r.Pick("never", "always", "never", "always", "Never", "on", "always1", "NEVER") // only the exact word never switches counting off
		}
		if p.Untracked && r.Intn(4) == 0 {
			// headers that mean nothing to the runner, an overridden title, a tracking header that is overridden
			for k := 1 + r.Intn(2); k > 0; k-- {
				switch r.Intn(5) {
				case 0:
					n.Pre = append(n.Pre, [2]string{"title", r.Pick("Ghost", "Start", "A")})
				case 1:
					n.Pre = append(n.Pre, [2]string{"tags", r.Pick("a b", "", "#x")})
				case 2:
					n.Post = append(n.Post, [2]string{"position", "12,-3"})
				case 3:
					n.Post = append(n.Post, [2]string{r.Pick("colorID", "note", "Title", "tracking2"), r.Pick("0", "never", "é: x")})
				default:
					if n.Tracking != "" {
						n.Pre = append(n.Pre, [2]string{"tracking", r.Pick("never", "always", "sometimes")})
					}
				}
			}
		}
		if p.Untracked && i > 0 && r.Intn(12) == 0 {
			// a node with nothing in it: entering it ends the dialogue
			prog.Nodes = append(prog.Nodes, n)
			continue
		}
		// statements that present nothing before the node's first line (the node is then not Productive, see Props/C01Ranked):
		// a loop that re-enters the node until its own visit counter says enough (tracked nodes only: it terminates because
		// every round counts), or a conditional jump to a LATER node (no cycle without something presented in between)
		dupTitles := false
		for a := range g.titles {
			for b := range g.titles {
				dupTitles = dupTitles || (a != b && g.titles[a] == g.titles[b])
			}
		}
		plainTracking := n.Tracking != "never"
		for _, h := range n.Pre {
			plainTracking = plainTracking && h[0] != "tracking"
		}
		if p.LongRuns && !dupTitles && r.Intn(8) == 0 {
			if plainTracking && r.Intn(2) == 0 {
				k := strconv.Itoa(1 + r.Intn(3))
				n.Body = append(n.Body, &ast.Stmt{Kind: "if", Clauses: []ast.Clause{{Cond: ast.Bin("lt", ast.Fn("visited_count", ast.Str(t)), ast.Num(k)),
					Body: []*ast.Stmt{{Kind: "jump", JumpID: r.Intn(2) == 0, E: ast.Str(t)}}}}})
			} else if i+1 < len(g.titles) {
				n.Body = append(n.Body, &ast.Stmt{Kind: "set", Var: "n", Op: "set", E: ast.Num(strconv.Itoa(r.Intn(5)))})
				n.Body = append(n.Body, &ast.Stmt{Kind: "if", Clauses: []ast.Clause{{Cond: ast.Bin("lt", ast.Var("n"), ast.Num("2")),
					Body: []*ast.Stmt{{Kind: "jump", JumpID: r.Intn(2) == 0, E: ast.Str(g.titles[i+1+r.Intn(len(g.titles)-i-1)])}}}}})
			}
		}
		n.Body = append(n.Body, &ast.Stmt{Kind: "line", Line: &ast.Line{Els: []ast.El{{Text: "enter " + t}}}})
		if p.LongRuns {
			n.Body = append(n.Body, g.body(0, 3+r.Intn(8))...)
			switch r.Intn(4) {
			case 0, 1:
				// keep the dialogue going: the node hands over to another one (every node starts with a line, so this stays Productive)
				n.Body = append(n.Body, &ast.Stmt{Kind: "jump", JumpID: r.Intn(2) == 0, E: ast.Str(g.titles[r.Intn(len(g.titles))])})
			case 2:
				// hub pattern: the destination is whatever $t says now
				n.Body = append(n.Body, &ast.Stmt{Kind: "jump", E: ast.Var("t")})
			}
		} else {
			n.Body = append(n.Body, g.body(0, 1+r.Intn(6))...)
		}
		if i == 0 && p.Weights["cmd"] >= 8 && r.Intn(20) == 0 {
			// a long run of statements that present nothing: every one of them is executed, in order, by one Next call
			var chain []*ast.Stmt
			for k, m := 0, 110+r.Intn(90); k < m; k++ {
				chain = append(chain, &ast.Stmt{Kind: "cmd", Cmd: []ast.CmdEl{{Word: "cmd"}, {Word: strconv.Itoa(k)}}})
			}
			n.Body = append(append([]*ast.Stmt{}, chain...), n.Body...)
		}
		prog.Nodes = append(prog.Nodes, n)
	}
	var layout *ast.Layout
	if p.Layout != nil {
		layout = p.Layout(r)
	} else {
		layout = &ast.Layout{R: r.Fork(), IfIndent: r.Intn(2) == 0}
	}
	srcs := sexp.L(sexp.A("srcs"))
	// split the nodes across 1-3 readers
	cut := 0
	altFrom, nReaders := 0, 0
	for cut < len(prog.Nodes) {
		k := len(prog.Nodes) - cut
		if r.Intn(3) == 0 && k > 1 {
			k = 1 + r.Intn(k-1)
		}
		srcs.Add(sexp.Str(layout.ReaderEnd(layout.Render(prog.Nodes[cut : cut+k]))))
		altFrom = cut
		nReaders++
		cut += k
	}
	vars := sexp.L(sexp.A("vars"))
	// the variables the expressions read are usually there (an unknown variable is an error: wanted, but not in every line)
	have := func() bool {
		if p.Faults >= 4 {
			return r.Intn(2) == 0
		}
		return r.Intn(8) != 0
	}
	if have() {
		vars.Add(sexp.L(sexp.Str("n"), value(r, "num")))
	}
	if have() {
		vars.Add(sexp.L(sexp.Str("b"), value(r, "bool")))
	}
	if have() {
		vars.Add(sexp.L(sexp.Str("s"), value(r, "str")))
	}
	if have() {
		vars.Add(sexp.L(sexp.Str("m"), value(r, "num")))
	}
	if have() {
		vars.Add(sexp.L(sexp.Str("t"), ast.Str(g.titles[r.Intn(len(g.titles))]).Sexp()))
	}
	ops := sexp.L(sexp.A("ops"))
	nr := 1
	nsnaps := 0
	// a further runner is either one of the same script or, when the script comes in several readers, one whose LAST reader
	// is another version of that file (its nodes greet with ENTER instead of enter): runners that share their first files
	// only must not share anything else
	newOp := func() string {
		if nReaders >= 2 && r.Intn(2) == 0 {
			return "newalt"
		}
		return "new"
	}
	for i := 0; i < p.Ops; i++ {
		j := r.Intn(nr)
		x := r.Intn(16)
		if p.SnapOps == 0 && nr < p.Runners && r.Intn(5) == 0 {
			// a further runner of the same script, created while the others are under way
			ops.Add(sexp.L(sexp.A(newOp()), sexp.N(nr)))
			nr++
			continue
		}
		switch {
		case x < p.SnapOps:
			switch r.Intn(6) {
			case 0:
				if nr < p.Runners {
					ops.Add(sexp.L(sexp.A(newOp()), sexp.N(nr)))
					nr++
					continue
				}
				fallthrough
			case 1, 2:
				ops.Add(sexp.L(sexp.A("snap"), sexp.N(j)))
				nsnaps++
			case 3, 4:
				if nsnaps > 0 {
					ops.Add(sexp.L(sexp.A("restore"), sexp.N(j), sexp.N(r.Intn(nsnaps))))
					if r.Intn(2) == 0 {
						ops.Add(sexp.L(sexp.A("snap"), sexp.N(j)))
						nsnaps++
					}
				}
			default:
				if r.Intn(3) == 0 {
					ops.Add(sexp.L(sexp.A("restorebad"), sexp.N(j), sexp.Str("Nowhere")))
				} else if r.Intn(4) == 0 {
					ops.Add(sexp.L(sexp.A("restorenil"), sexp.N(j), sexp.Str(g.titles[r.Intn(len(g.titles))])))
				} else if nsnaps > 0 && r.Intn(3) == 0 {
					ops.Add(sexp.L(sexp.A("mutsnap"), sexp.N(r.Intn(nsnaps))))
					ops.Add(sexp.L(sexp.A("snap"), sexp.N(j)))
					nsnaps++
				} else if nsnaps > 0 {
					ops.Add(sexp.L(sexp.A("resnap"), sexp.N(r.Intn(nsnaps))))
				}
			}
		case x < p.SnapOps+p.HostWrites:
			v := r.Pick("n", "m", "b", "s", "q")
			ty := map[string]string{"n": "num", "m": "num", "b": "bool", "s": "str", "q": r.Pick("num", "bool", "str")}[v]
			if r.Intn(8) == 0 {
				ty = r.Pick("num", "bool", "str")
			}
			if r.Intn(10) == 0 {
				ops.Add(sexp.L(sexp.A("hclear"), sexp.N(j))) // the host empties its storer
			} else if r.Intn(4) == 0 {
				// another string of exactly the same length
				ops.Add(sexp.L(sexp.A("hrev"), sexp.N(j), sexp.Str(r.Pick("s", "s", "q", "t"))))
			} else {
				ops.Add(sexp.L(sexp.A("hset"), sexp.N(j), sexp.Str(v), value(r, ty)))
			}
		default:
			if p.LateCmds && r.Intn(10) == 0 {
				ops.Add(sexp.L(sexp.A("addcmd"), sexp.N(j), sexp.Str(r.Pick("late", "late", "cmd"))))
			}
			if p.Ctl && r.Intn(4) == 0 {
				ops.Add(sexp.L(sexp.A("complete"), sexp.N(j), sexp.A(r.Pick("ok", "ok", "err"))))
			}
			ops.Add(sexp.L(sexp.A("next"), sexp.N(j), sexp.N(r.Intn(7))))
		}
	}
	if nsnaps > 0 {
		for k := 0; k < nsnaps && k < 4; k++ {
			ops.Add(sexp.L(sexp.A("resnap"), sexp.N(k)))
		}
	}
	c := sexp.L(sexp.A("case"), sexp.A("run"), sexp.A(id), srcs, prog.Sexp(), sexp.L(sexp.A("seed"), sexp.Str(r.Pick("seed", "abc", "0", "z9", "verif1", "savegame00042", "zzzzzzzzzzzzzz", "chapter1scene2take3000", "1y2p0ij32e8e8"))), vars)
	defer c.Add(ops) // the operations come last (the shrinker of the check cuts them from the end of the line)
	if bare {
		c.Add(sexp.L(sexp.A("bare")))
	}
	if nReaders >= 2 {
		c.Add(sexp.L(sexp.A("altfrom"), sexp.N(altFrom)))
	}
	if g.hostWait {
		// the host has handlers of its own under the names of the two built-ins: "wait" is replaced by it, "stop" never reaches it
		c.Add(sexp.L(sexp.A("cmds"), sexp.Str("wait"), sexp.Str("stop")))
	}
	return c
}

var baseWeights = map[string]int{"line": 8, "opts": 3, "if": 3, "set": 4, "declare": 1, "jump": 2, "cmd": 2, "call": 2, "stop": 1}

// Profiles of the run stream, by name.
var Profiles = map[string]*Profile{
	"flow": {Name: "flow", LongRuns: true, MaxNodes: 4, Weights: baseWeights, ExprDepth: 2, Faults: 1, Ops: 40, Untracked: true, Tags: true, SnapOps: 1}, // SnapOps 1: now and then a snapshot, a restore (also after the end)
	// biased to reach an end: short bodies, many stops, few jumps; the trailing next calls probe the ended state
	"end": {Name: "end", MaxNodes: 2, Weights: map[string]int{"line": 6, "opts": 4, "if": 3, "set": 3, "declare": 1, "jump": 1, "cmd": 2, "call": 2, "stop": 3},
		ExprDepth: 1, Faults: 0, Ops: 24, HostWrites: 1, Ctl: true, Crash: true}, // Ctl: commands that complete while the host polls
	// assignments of every operator over every pair of types, interleaved with host writes
	"vars": {Name: "vars", MaxNodes: 2, Weights: map[string]int{"line": 4, "opts": 1, "if": 1, "set": 12, "declare": 3, "jump": 3, "cmd": 0, "call": 1, "stop": 0},
		ExprDepth: 2, Faults: 2, Ops: 26, HostWrites: 4, Numeric: true},
	// every statement position may hold a faulty expression; out-of-domain arguments
	"faults": {Name: "faults", MaxNodes: 3, Weights: baseWeights, ExprDepth: 2, Faults: 8, Ops: 30, Numeric: true, Random: true, Ctl: true}, // Ctl: commands that fail after having been pending
	// snapshots and restores into several runners of the same script
	"snap": {Name: "snap", LongRuns: true, MaxNodes: 4, Weights: map[string]int{"line": 8, "opts": 3, "if": 2, "set": 5, "declare": 1, "jump": 5, "cmd": 2, "call": 1, "stop": 1},
		ExprDepth: 1, Faults: 1, Ops: 40, SnapOps: 5, Runners: 3, HostWrites: 1, Ctl: true, Untracked: true}, // Faults 1: failing statements (jumps to nowhere among them) between snapshots
	// random built-ins in lines, conditions and assignments
	// (two runners of the same script and seed, stepped alternately: each has its own random stream)
	"rand": {Name: "rand", LongRuns: true, MaxNodes: 3, Weights: baseWeights, ExprDepth: 2, Faults: 0, Ops: 30, Random: true, RandomHeavy: true, Runners: 2},
	// commands with controlled completion
	"cmds": {Name: "cmds", LongRuns: true, MaxNodes: 2, Weights: map[string]int{"line": 6, "opts": 1, "if": 1, "set": 2, "declare": 0, "jump": 1, "cmd": 8, "call": 1, "stop": 1},
		ExprDepth: 1, Faults: 0, Ops: 36, Ctl: true, SnapOps: 1, Runners: 2, LateCmds: true},
	// jump graphs with tracked and untracked nodes; visit counters rendered in lines
	"visits": {Name: "visits", LongRuns: true, MaxNodes: 4, Weights: map[string]int{"line": 6, "opts": 3, "if": 2, "set": 1, "declare": 0, "jump": 7, "cmd": 0, "call": 0, "stop": 1},
		ExprDepth: 1, Faults: 1, Ops: 40, Untracked: true, SnapOps: 2, Runners: 2, Visits: true},
	// deep expressions of every type with probes
	// (statements are re-evaluated: nodes are re-entered by jumps and runners rewound by restores, so an evaluation that
	// damages the parsed tree shows on the second evaluation)
	"expr": {Name: "expr", MaxNodes: 2, Weights: map[string]int{"line": 10, "opts": 0, "if": 2, "set": 3, "declare": 0, "jump": 2, "cmd": 0, "call": 3, "stop": 0},
		ExprDepth: 5, Faults: 2, Ops: 22, Numeric: true, IllTyped: true, SnapOps: 2, Runners: 1},
	// line texts with escapes, multi-byte characters, tags, option conditions
	"lines": {Name: "lines", LongRuns: true, MaxNodes: 2, Weights: map[string]int{"line": 10, "opts": 5, "if": 1, "set": 2, "declare": 0, "jump": 1, "cmd": 0, "call": 0, "stop": 0},
		ExprDepth: 2, Faults: 0, Ops: 24, Multibyte: true, Escapes: true, Tags: true, Numeric: true, NumberForms: true},
	// the same as flow, rendered in random layouts (indent unit, noise lines, line ends, spellings, parentheses, spacing)
	"layout": {Name: "layout", LongRuns: true, MaxNodes: 4, Weights: baseWeights, ExprDepth: 3, Faults: 0, Ops: 24, Untracked: true, Tags: true, Layout: RandomLayout},
	// markup in lines shown after different prefixes
	"markuprun": {Name: "markuprun", LongRuns: true, MaxNodes: 2, Weights: map[string]int{"line": 12, "opts": 3, "if": 1, "set": 1, "declare": 0, "jump": 2, "cmd": 0, "call": 0, "stop": 0},
		ExprDepth: 1, Faults: 0, Ops: 30, Markup: true, Multibyte: true},
}

// RandomLayout draws a layout: indent unit 1-8 spaces or 1-2 tabs, line ends, noise lines, spellings, parentheses, spacing.
func RandomLayout(r *prng.R) *ast.Layout {
	l := &ast.Layout{R: r.Fork(), IfIndent: r.Intn(2) == 0}
	if r.Intn(3) == 0 {
		l.Unit = strings.Repeat("\t", 1+r.Intn(2))
	} else {
		l.Unit = strings.Repeat(" ", 1+r.Intn(8))
	}
	l.EOL = r.Pick("\n", "\n", "\r\n", "\r")
	l.Noise = r.Intn(5)
	l.Trailing = r.Intn(4)
	l.Spell = r.Intn(2) == 0
	l.Parens = r.Intn(3)
	l.CmdSpaces = r.Intn(2) == 0
	l.ReaderNoise = r.Intn(2) == 0
	l.HeaderSpace = r.Intn(2) == 0
	return l
}
