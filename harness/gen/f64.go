package gen

import (
	"math"
	"strconv"
	"strings"

	"verifharness/prng"
	"verifharness/sexp"
)

// Double returns an "interesting" double: random bit patterns, small integers, halves, neighbours of integers and of
// powers of two, subnormals, signed zeros, infinities, NaN, decimal fractions.
func Double(r *prng.R) float64 {
	switch r.Intn(16) {
	case 0:
		return math.Float64frombits(r.U64())
	case 1:
		return float64(r.Intn(2001) - 1000)
	case 2:
		return float64(r.Intn(2001)-1000) + 0.5
	case 3:
		x := float64(int64(r.U64()>>uint(11+r.Intn(53))) - int64(r.Intn(2)))
		if r.Intn(2) == 0 {
			x = -x
		}
		return x
	case 4:
		x := float64(r.Intn(1 << 20))
		if r.Intn(2) == 0 {
			return math.Nextafter(x, math.Inf(1))
		}
		return math.Nextafter(x, math.Inf(-1))
	case 5:
		return math.Float64frombits(r.U64() & 0x800FFFFFFFFFFFFF) // subnormals and zeros
	case 6:
		return []float64{0, math.Copysign(0, -1), math.Inf(1), math.Inf(-1), math.NaN(), 1, -1, 0.5, 0.1, 1e300, -1e300, 5e-324, math.MaxFloat64, 9007199254740992, 9007199254740993, 9223372036854775808, -9223372036854775808, 4503599627370496, 4503599627370495.5, 2147483648, -2147483649}[r.Intn(21)]
	case 7:
		x := math.Ldexp(1, r.Intn(2100)-1075)
		switch r.Intn(3) {
		case 0:
			return math.Nextafter(x, 0)
		case 1:
			return math.Nextafter(x, math.Inf(1))
		}
		return x
	case 8:
		return float64(r.Intn(100000)) / []float64{10, 100, 1000, 10000, 8, 3, 7}[r.Intn(7)]
	case 9:
		f, _ := strconv.ParseFloat(strconv.Itoa(1+r.Intn(9))+"e"+strconv.Itoa(r.Intn(640)-330), 64)
		return f
	case 10:
		// less than 2^52 in magnitude, random mantissa
		return math.Ldexp(float64(r.U64()>>11), r.Intn(106)-106+52-52) * float64(1-2*r.Intn(2))
	case 11:
		return math.Ldexp(float64(r.U64()>>11), -53-r.Intn(10))
	case 12:
		k := float64(r.Intn(1 << 30))
		return k + []float64{0.25, 0.5, 0.75, 0.49999999999999994, 0.5000000000000001}[r.Intn(5)]
	default:
		return math.Ldexp(float64(r.U64()>>11)*float64(1-2*r.Intn(2)), r.Intn(140)-100)
	}
}

func decimalText(r *prng.R) string {
	switch r.Intn(8) {
	case 0:
		return strconv.FormatFloat(Double(r), 'g', -1, 64)
	case 1:
		return strconv.Itoa(r.Intn(1000000)) + "." + strings.Repeat("0", r.Intn(4)) + strconv.Itoa(r.Intn(100000))
	case 2:
		return r.Pick("", "-", "+") + strconv.Itoa(r.Intn(1000)) + r.Pick("", ".", ".5", ".25", "e3", "e-3", "E+2", "e400", "e-400")
	case 3:
		return r.Pick("inf", "-Inf", "+infinity", "NaN", "nan", "Infinity", "abc", "", "1x", " 1", "1 ", "--1", "1e", ".", "e5", ".5", "5.", "0x10", "1_000", "0x1p4")
	case 4:
		return strconv.FormatFloat(Double(r), 'f', r.Intn(20), 64)
	case 5:
		return strconv.FormatFloat(Double(r), 'e', r.Intn(20), 64)
	case 6:
		// many digits
		var b strings.Builder
		for k := 1 + r.Intn(40); k > 0; k-- {
			b.WriteString(strconv.Itoa(r.Intn(10)))
		}
		b.WriteString(".")
		for k := r.Intn(40); k > 0; k-- {
			b.WriteString(strconv.Itoa(r.Intn(10)))
		}
		return b.String()
	default:
		return strconv.Itoa(r.Intn(100))
	}
}

func init() {
	Register("f64", func(profile string, r *prng.R, id string, i int) *sexp.S {
		ops := []string{"add", "sub", "mul", "div", "mod", "neg", "lt", "le", "eq", "floor", "ceil", "trunc", "round", "toint", "toint32", "toint16", "toint8", "ofint", "pow10", "f32", "fmt", "display", "parse"}
		if profile == "fmt" {
			ops = []string{"fmt", "display", "parse"}
		} else if profile == "arith" {
			ops = ops[:20]
		} else if profile != "all" {
			return nil
		}
		op := ops[i%len(ops)]
		c := sexp.L(sexp.A("case"), sexp.A("f64"), sexp.A(id), sexp.A(op))
		switch op {
		case "parse":
			c.Add(sexp.Str(decimalText(r)))
		case "ofint":
			x := r.U64() >> uint(r.Intn(64))
			if r.Intn(2) == 0 {
				x = -x
			}
			c.Add(sexp.U(x))
		case "pow10":
			c.Add(sexp.U(uint64(int64(r.Intn(700) - 350))))
		default:
			a := Double(r)
			b := Double(r)
			if r.Intn(4) == 0 {
				b = a * []float64{1, -1, 2, 0.5, 3}[r.Intn(5)]
			}
			if r.Intn(8) == 0 {
				b = math.Nextafter(a, math.Inf(1-2*r.Intn(2)))
			}
			c.Add(sexp.U(math.Float64bits(a)), sexp.U(math.Float64bits(b)))
		}
		return c
	})
}
