package gen

// Generator of the `cmdargs` stream (C17): command statements made of a name and 0-5 arguments — identifier-like and
// multi-byte words, every CommandMode keyword exact and as a prefix of a longer name, numeric and boolean look-alikes,
// inline expressions of each type — with random spacing (blanks, tabs and other Unicode white space, also before the
// name and before >>), chunked arbitrarily into text pieces; a share of degenerate commands (empty, only white space,
// expression first, boolean or number as the name, stop) and, every tenth case, a direct call of the rearrangement hook.

import (
	"math"
	"strconv"
	"strings"

	"verifharness/prng"
	"verifharness/sexp"
)

var (
	cmdKeywords = []string{"if", "elseif", "else", "set", "endif", "call", "declare", "jump", "enum", "case", "endenum", "local"}
	cmdPrefixed = []string{"iffy", "settings", "jumpy", "elsewhere", "callous", "declared", "stopper", "localize", "enumerate", "cases",
		"wait2", "elseifx", "endiff", "endenums", "else1", "endif2", "setter", "caller", "ifs", "if2", "set_x", "jump-to", "elsa", "els",
		"endi", "enumx", "casein", "locale", "declare2", "else_", "endif.", "endenum:", "elseéa", "if名", "elseiffy", "endifelse"}
	cmdOrdinary = []string{"cmd", "p", "é", "名前", "x.y", "a:b", "do!", "Stop", "stopp", "trueish", "walk", "emote", "fade_in", "cmd2", "ZZ",
		"a​b", "q᠎", "n°1", "#tag", "-x", "<", "}"}
	cmdOddNames = []string{"stop", "true", "false", "1", "-3.5", "007", "Inf", "NaN"}
	cmdWords    = []string{"a", "abc", "true", "false", "True", "TRUE", "False", "1", "-1", "0", "-0", "1.5", "-0.25", "-3.5", "007", "1.50", "1.", ".5", "5.",
		"+1", "1e3", "1E3", "Inf", "inf", "-Inf", "NaN", "nan", "Infinity", "0x10", "0x1p4", "1_000", "--1", "-", "-.5", "1.2.3", "1..2", "١٢", "１２",
		"é", "名", "a=b", "x,y", "(z)", "\"q\"", "'s'", "$v", "a:b", "#h", "<", "}", "//", "-1.", "1-", "1a", "a1", "if", "set", "stop", "jump", "else", "endif",
		"9007199254740993", "0.1000000000000000055511151231257827", "123456789012345678901234567890", "179769313486231570000", "4.9406564584124654e-324",
		"0.30000000000000004", "-00012.5000", "1.7976931348623157", "a​b", "᠎", "tru", "truee", "falsee"}
	cmdSeps  = []string{" ", " ", " ", " ", "  ", "   ", "\t", " \t ", "\t\t", " ", " ", "　", "\u000b", "\u000c", "\u0085", " ", " ", "   ", " ", " ", " ", " ", " "}
	cmdLeads = []string{"", "", "", "", "", " ", "  ", "\t", " \t", " ", "　", "  "}
	// all 25 code points of unicode.IsSpace, and look-alikes that are NOT white space for Go (used by the rearrange cases)
	cmdAllSpaces = []string{"\t", "\n", "\u000b", "\u000c", "\r", " ", "\u0085", "\u00a0", "\u1680", "\u2000", "\u2001", "\u2002", "\u2003", "\u2004",
		"\u2005", "\u2006", "\u2007", "\u2008", "\u2009", "\u200a", "\u2028", "\u2029", "\u202f", "\u205f", "\u3000"}
	cmdNonSpaces = []string{"\u0008", "\u001c", "\u001d", "\u001e", "\u001f", "\u007f", "\u180e", "\u200b", "\u200c", "\u200d", "\u2060", "\ufeff", "\u00ad", "\u0000", "\u000e", "\u2027", "\u202a", "\u2030", "\u3001", "\u167f", "\u1681", "\u1fff", "\u200e"}
	cmdTrail     = []string{"", "", "", " ", "  ", "\t", " "}
)

type cmdExpr struct {
	src string
	val *sexp.S
}

func cmdNum(f float64) *sexp.S { return sexp.L(sexp.A("num"), sexp.U(math.Float64bits(f))) }
func cmdStr(s string) *sexp.S  { return sexp.L(sexp.A("str"), sexp.Str(s)) }
func cmdBool(b bool) *sexp.S   { return sexp.L(sexp.A("bool"), sexp.A(strconv.FormatBool(b))) }

var cmdExprs = []cmdExpr{
	{"1+2", cmdNum(3)}, {"\"s t\"", cmdStr("s t")}, {"true", cmdBool(true)}, {"false", cmdBool(false)}, {"$v", cmdNum(7)}, {"\"\"", cmdStr("")},
	{"$s", cmdStr("vs")}, {"$b", cmdBool(true)}, {"-2.5", cmdNum(-2.5)}, {"\"stop\"", cmdStr("stop")}, {"1 == 1", cmdBool(true)}, {" 3 ", cmdNum(3)},
	{"\"true\"", cmdStr("true")}, {"\"1\"", cmdStr("1")}, {"$v * 2", cmdNum(14)}, {"\"名 前\"", cmdStr("名 前")}, {"0.1", cmdNum(0.1)}, {"\"cmd\"", cmdStr("cmd")},
}

func cmdBigWord(r *prng.R) string {
	switch r.Intn(4) {
	case 0:
		return "1" + strings.Repeat("0", 300+r.Intn(20)) // around the overflow threshold of ParseFloat
	case 1:
		return "0." + strings.Repeat("0", 320+r.Intn(10)) + "1"
	case 2:
		var b strings.Builder
		if r.Intn(2) == 0 {
			b.WriteString("-")
		}
		for k := 1 + r.Intn(25); k > 0; k-- {
			b.WriteString(strconv.Itoa(r.Intn(10)))
		}
		if r.Intn(2) == 0 {
			b.WriteString(".")
			for k := 1 + r.Intn(25); k > 0; k-- {
				b.WriteString(strconv.Itoa(r.Intn(10)))
			}
		}
		return b.String()
	}
	return strconv.FormatFloat(Double(r), 'f', -1, 64)
}

func cmdPick(r *prng.R, xs []string) string { return xs[r.Intn(len(xs))] }

func init() {
	Register("cmdargs", func(profile string, r *prng.R, id string, i int) *sexp.S {
		if profile != "all" && profile != "sample" {
			return nil
		}
		c := sexp.L(sexp.A("case"), sexp.A("cmdargs"), sexp.A(id))
		if i%10 == 9 {
			re := sexp.L(sexp.A("rearrange"))
			for k := r.Intn(7); k > 0; k-- {
				if r.Intn(4) == 0 {
					re.Add(sexp.Str(""))
					continue
				}
				var b strings.Builder
				if r.Intn(3) == 0 {
					b.WriteString(cmdPick(r, cmdAllSpaces))
				}
				for w := r.Intn(4); w > 0; w-- {
					switch r.Intn(12) {
					case 0:
						b.WriteString(cmdBigWord(r))
					case 1:
						b.WriteString(cmdPick(r, cmdWords) + cmdPick(r, cmdNonSpaces) + cmdPick(r, cmdWords))
					case 2:
						b.WriteString(cmdPick(r, cmdNonSpaces))
					default:
						b.WriteString(cmdPick(r, cmdWords))
					}
					if r.Intn(5) != 0 {
						b.WriteString(cmdPick(r, cmdAllSpaces))
						if r.Intn(4) == 0 {
							b.WriteString(cmdPick(r, cmdAllSpaces))
						}
					}
				}
				if b.Len() == 0 {
					b.WriteString(cmdPick(r, cmdWords))
				}
				re.Add(sexp.Str(b.String()))
			}
			return c.Add(re)
		}
		pieces := sexp.L(sexp.A("pieces"))
		var pending strings.Builder // text not yet emitted as a piece
		flush := func() {
			if pending.Len() > 0 {
				pieces.Add(sexp.L(sexp.A("t"), sexp.Str(pending.String())))
				pending.Reset()
			}
		}
		text := func(s string) {
			pending.WriteString(s)
			if r.Intn(3) == 0 {
				flush()
			}
		}
		var name string
		kind := r.Intn(100)
		switch {
		case kind < 30:
			name = cmdPick(r, cmdOrdinary)
		case kind < 55:
			name = cmdPick(r, cmdPrefixed)
		case kind < 75:
			name = cmdKeywords[i%len(cmdKeywords)]
		case kind < 83:
			name = cmdPick(r, cmdOddNames)
		case kind < 88:
			name = cmdKeywords[r.Intn(len(cmdKeywords))] + cmdPick(r, []string{"x", "2", "_", "é", "s", "if", "-", "."})
		case kind < 91:
			name = "" // starts with an expression or is empty
		default:
			name = cmdPick(r, cmdWords)
		}
		text(cmdPick(r, cmdLeads))
		nargs := r.Intn(6)
		if name != "" {
			text(name)
		} else if r.Intn(3) == 0 {
			nargs = 0
		}
		first := name == ""
		for k := 0; k < nargs; k++ {
			isExpr := r.Intn(4) == 0 || (first && r.Intn(2) == 0)
			sep := cmdPick(r, cmdSeps)
			if first {
				sep = ""
			} else if isExpr && r.Intn(3) == 0 {
				sep = "" // an expression glued to the preceding word
			} else if r.Intn(40) == 0 {
				sep = "" // two words glued: they are one word
			}
			first = false
			text(sep)
			if isExpr {
				flush()
				e := cmdExprs[r.Intn(len(cmdExprs))]
				pieces.Add(sexp.L(sexp.A("e"), sexp.Str(e.src), e.val))
				if r.Intn(4) == 0 && k+1 < nargs {
					// the next word glued to the expression
					text(cmdPick(r, cmdWords))
					k++
				}
			} else if r.Intn(15) == 0 {
				text(cmdBigWord(r))
			} else {
				text(cmdPick(r, cmdWords))
			}
		}
		text(cmdPick(r, cmdTrail))
		if r.Intn(60) == 0 {
			text(cmdPick(r, []string{">", "a>b", "{", "\n", "x\ny"})) // malformed share: outside the modelled domain
		}
		flush()
		reg := sexp.L(sexp.A("reg"))
		if name != "" && r.Intn(100) < 85 {
			reg.Add(sexp.Str(name))
		}
		for k := r.Intn(3); k > 0; k-- {
			reg.Add(sexp.Str(cmdPick(r, append(append(append([]string{}, cmdOrdinary...), cmdPrefixed...), cmdKeywords...))))
		}
		if r.Intn(8) == 0 {
			reg.Add(sexp.Str("stop"))
		}
		if r.Intn(20) == 0 {
			reg.Add(sexp.Str("{1+2}"), sexp.Str("{\"cmd\"}"), sexp.Str("{$v}"), sexp.Str("{true}"))
		}
		return c.Add(pieces, reg)
	})
}
