package gen

import (
	"strconv"
	"strings"

	"verifharness/ast"
	"verifharness/prng"
	"verifharness/sexp"
)

// Generator of the exprsyn stream: expression texts for the syntactic half of C02 / C08.
//
//	(case exprsyn <id> (kind <k>) (text (s ...)) (expect <expr sexp> | (none)))
//
// kinds: table (case 0 of every profile: the operator / keyword spelling table, see streams.spellingTable), min full red (ast.Layout with Parens 0/1/2, random spellings), tight (own printer: random spellings,
// random redundant parentheses, no or odd whitespace where the lexer does not need any), mut (a printed tree with
// one token dropped / doubled / replaced: mostly malformed), soup (random token spellings and near-misses).
// expect is the tree the text was printed from when the printer guarantees the reading, (none) otherwise.

var esOps = []string{"mul", "div", "mod", "add", "sub", "le", "ge", "lt", "gt", "eq", "ne", "and", "or", "xor"}

var esSpell = map[string][]string{
	"le": {"<=", "lte"}, "ge": {">=", "gte"}, "eq": {"==", "is", "eq"}, "lt": {"<", "lt"}, "gt": {">", "gt"},
	"ne": {"!=", "neq"}, "and": {"and", "&&"}, "or": {"or", "||"}, "xor": {"xor", "^"}, "not": {"not", "!"},
	"mul": {"*"}, "div": {"/"}, "mod": {"%"}, "add": {"+"}, "sub": {"-"},
}

func esLevel(op string) int {
	switch op {
	case "mul", "div", "mod":
		return 5
	case "add", "sub":
		return 4
	case "le", "ge", "lt", "gt":
		return 3
	case "eq", "ne":
		return 2
	}
	return 1
}

func esNum(r *prng.R) string {
	switch r.Intn(8) {
	case 0:
		return r.Pick("0", "1", "2", "10", "007", "00", "0.0", "1.0", "1.50", "0.1", "3.14159", "2.5")
	case 1:
		return strconv.Itoa(r.Intn(1000))
	case 2:
		return strconv.Itoa(r.Intn(1000)) + "." + strconv.Itoa(r.Intn(1000))
	case 3:
		return strconv.FormatUint(r.U64(), 10)
	case 4:
		var b strings.Builder
		for k := 1 + r.Intn(45); k > 0; k-- {
			b.WriteString(strconv.Itoa(r.Intn(10)))
		}
		if r.Intn(2) == 0 {
			b.WriteString(".")
			for k := 1 + r.Intn(30); k > 0; k-- {
				b.WriteString(strconv.Itoa(r.Intn(10)))
			}
		}
		return b.String()
	case 5:
		return "0." + strings.Repeat("0", r.Intn(330)) + strconv.Itoa(1+r.Intn(99))
	case 6:
		return strconv.Itoa(1+r.Intn(9)) + strings.Repeat("0", r.Intn(320))
	}
	return strconv.Itoa(r.Intn(10))
}

func esStr(r *prng.R) string {
	var b strings.Builder
	for k := r.Intn(5); k > 0; k-- {
		b.WriteString(r.Pick("a", "b", " ", "x y", "\\\"", "\\\\", "}", "{", ">>", "<<", "//", "#", "é", "日", "'", "$v", "1", "(", ")", ",", "\t", "not", "=="))
	}
	return b.String()
}

var esIdents = []string{"a", "b", "f", "g", "foo", "visited", "string", "number", "bool", "ltex", "nota", "trueish", "to_s", "isa", "orx",
	"and1", "_x", "x_", "é", "日本", "T", "True", "nul", "nulll", "asx", "tox", "eqq", "l", "x1", "á", "neqs", "gtee", "xorr", "falsey", "i", "o", "Is"}

func esIdent(r *prng.R) string { return esIdents[r.Intn(len(esIdents))] }

// esExpr builds a random untyped expression tree.
func esExpr(r *prng.R, d int) *ast.Expr {
	if d <= 0 || r.Intn(5) == 0 {
		switch r.Intn(8) {
		case 0, 1:
			return ast.Num(esNum(r))
		case 2:
			return ast.Bool(r.Intn(2) == 0)
		case 3:
			return ast.Str(esStr(r))
		case 4, 5:
			return ast.Var(esIdent(r))
		case 6:
			if r.Intn(4) == 0 {
				return ast.Null()
			}
			return ast.Fn(esIdent(r))
		}
		return ast.Num(esNum(r))
	}
	switch r.Intn(10) {
	case 0:
		return ast.Neg(esExpr(r, d-1))
	case 1:
		return ast.Not(esExpr(r, d-1))
	case 2:
		n := r.Intn(4)
		args := make([]*ast.Expr, n)
		for i := range args {
			args[i] = esExpr(r, d-1)
		}
		return ast.Fn(esIdent(r), args...)
	}
	return ast.Bin(esOps[r.Intn(len(esOps))], esExpr(r, d-1), esExpr(r, d-1))
}

// esToks prints the tree as spelled tokens: minimal parentheses, random spellings, extra pairs with chance extra/8.
func esToks(r *prng.R, e *ast.Expr, min, extra int, out *[]string) {
	lvl := 9
	switch e.Kind {
	case "neg", "not":
		lvl = 6
	case "bin":
		lvl = esLevel(e.Op)
	}
	pairs := 0
	if lvl < min {
		pairs = 1
	}
	for extra > 0 && r.Intn(8) < extra && pairs < 4 {
		pairs++
	}
	for i := 0; i < pairs; i++ {
		*out = append(*out, "(")
	}
	switch e.Kind {
	case "num":
		*out = append(*out, e.NumText)
	case "bool":
		*out = append(*out, strconv.FormatBool(e.B))
	case "str":
		*out = append(*out, "\""+e.S+"\"")
	case "var":
		*out = append(*out, "$"+e.S)
	case "null":
		*out = append(*out, "null")
	case "fn":
		*out = append(*out, e.S, "(")
		for i, a := range e.Args {
			if i > 0 {
				*out = append(*out, ",")
			}
			esToks(r, a, 0, extra, out)
		}
		*out = append(*out, ")")
	case "neg":
		*out = append(*out, "-")
		esToks(r, e.Args[0], 6, extra, out)
	case "not":
		*out = append(*out, r.Pick(esSpell["not"]...))
		esToks(r, e.Args[0], 6, extra, out)
	case "bin":
		lv := esLevel(e.Op)
		esToks(r, e.Args[0], lv, extra, out)
		*out = append(*out, r.Pick(esSpell[e.Op]...))
		esToks(r, e.Args[1], lv+1, extra, out)
	}
	for i := 0; i < pairs; i++ {
		*out = append(*out, ")")
	}
}

func esWordy(c rune) bool {
	return c == '_' || c == '$' || c == '.' || c >= '0' && c <= '9' || c >= 'a' && c <= 'z' || c >= 'A' && c <= 'Z' || c >= 0x80
}

// esGlue reports whether two spelled tokens written without a space could be read differently.
func esGlue(a, b string) bool {
	ra, rb := []rune(a), []rune(b)
	if len(ra) == 0 || len(rb) == 0 {
		return false
	}
	x, y := ra[len(ra)-1], rb[0]
	if esWordy(x) && esWordy(y) {
		return true
	}
	if strings.ContainsRune("<>=!+-*/%&|", x) && strings.ContainsRune("=>&|", y) {
		return true
	}
	return false
}

// esJoin writes the tokens with random whitespace; safe = never glue two tokens that need a separator.
func esJoin(r *prng.R, toks []string, safe bool) string {
	var b strings.Builder
	if r.Intn(6) == 0 {
		b.WriteString(r.Pick(" ", "  ", "\t"))
	}
	for i, t := range toks {
		if i > 0 {
			sep := r.Pick("", "", " ", " ", "  ", "\t", " \t ")
			if sep == "" && safe && esGlue(toks[i-1], t) {
				sep = " "
			}
			b.WriteString(sep)
		}
		b.WriteString(t)
	}
	if r.Intn(6) == 0 {
		b.WriteString(r.Pick(" ", "  ", "\t"))
	}
	return b.String()
}

var esSoup = []string{"(", ")", ",", ".", "*", "/", "%", "+", "-", "<=", "lte", ">=", "gte", "<", "lt", ">", "gt", "==", "is", "eq", "!=", "neq",
	"and", "&&", "or", "||", "xor", "^", "not", "!", "=", "to", "+=", "-=", "*=", "/=", "%=", "as", "true", "false", "null",
	"string", "number", "bool", "ltex", "nota", "an", "iss", "tru", "truee", "nulls", "f", "g", "f(", "g()", "$a", "$b1", "$", "$1", "$a.b", "$é",
	"1", "2", "1.5", "1.", ".5", "007", "1.5.2", "1e3", "\"a\"", "\"\"", "\"a\\\"b\"", "\"a\\\\\"", "\"a\\qb\"", "\"open", "\"}\"", "&", "|", "&&&", "===", "'", "#", ":", ";",
	"?", "@", "[", "]", "~", "\\", "{", "<<", "é", "日本", "á", "́", "_", "__x", "<>", "=>", "=<", "!!", "--", "++", "//", "<-", " ", "　"}

func esCase(kind, id, text string, expect *ast.Expr) *sexp.S {
	exp := sexp.L(sexp.A("none"))
	if expect != nil {
		exp = expect.Sexp()
	}
	return sexp.L(sexp.A("case"), sexp.A("exprsyn"), sexp.A(id), sexp.L(sexp.A("kind"), sexp.A(kind)),
		sexp.L(sexp.A("text"), sexp.Str(text)), sexp.L(sexp.A("expect"), exp))
}

func init() {
	Register("exprsyn", func(profile string, r *prng.R, id string, i int) *sexp.S {
		kinds := []string{"min", "full", "red", "red", "tight", "tight", "tight", "mut", "mut", "soup"}
		switch profile {
		case "all":
		case "valid":
			kinds = []string{"min", "full", "red", "tight"}
		case "bad":
			kinds = []string{"mut", "soup"}
		default:
			return nil
		}
		if i == 0 {
			// the finite spelling table, checked entry by entry against the running lexer
			return esCase("table", id, "", nil)
		}
		kind := kinds[r.Intn(len(kinds))]
		e := esExpr(r, r.Intn(7))
		switch kind {
		case "min", "full", "red":
			l := &ast.Layout{Spell: true, R: r, Parens: map[string]int{"min": 0, "full": 1, "red": 2}[kind], CmdSpaces: r.Intn(2) == 0}
			return esCase(kind, id, l.Expr(e), e)
		case "tight":
			var toks []string
			esToks(r, e, 0, r.Intn(4), &toks)
			return esCase(kind, id, esJoin(r, toks, true), e)
		case "mut":
			var toks []string
			esToks(r, e, 0, r.Intn(3), &toks)
			for k := 1 + r.Intn(2); k > 0 && len(toks) > 0; k-- {
				p := r.Intn(len(toks))
				switch r.Intn(5) {
				case 0: // drop
					toks = append(toks[:p:p], toks[p+1:]...)
				case 1: // double
					toks = append(toks[:p+1:p+1], toks[p:]...)
				case 2: // replace
					toks[p] = esSoup[r.Intn(len(esSoup))]
				case 3: // insert
					toks = append(toks[:p:p], append([]string{esSoup[r.Intn(len(esSoup))]}, toks[p:]...)...)
				default: // cut the tail
					toks = toks[:p]
				}
			}
			return esCase(kind, id, esJoin(r, toks, r.Intn(2) == 0), nil)
		default:
			n := 1 + r.Intn(7)
			toks := make([]string, n)
			for k := range toks {
				toks[k] = esSoup[r.Intn(len(esSoup))]
			}
			return esCase(kind, id, esJoin(r, toks, r.Intn(2) == 0), nil)
		}
	})
}
