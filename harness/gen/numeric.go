package gen

import (
	"math"
	"strconv"

	"verifharness/ast"
	"verifharness/prng"
	"verifharness/sexp"
)

// doubleLt52 returns a finite double of magnitude below 2^52: random bit patterns, integers, half-way cases, values next
// to integers, signed zeros, subnormals.
func doubleLt52(r *prng.R) float64 {
	for {
		var x float64
		switch r.Intn(10) {
		case 0:
			x = math.Float64frombits(r.U64())
		case 1:
			x = float64(r.Intn(2001) - 1000)
		case 2:
			x = float64(r.Intn(2001)-1000) + 0.5
		case 3:
			k := float64(int64(r.U64() >> uint(12+r.Intn(52))))
			x = math.Nextafter(k, math.Inf(1-2*r.Intn(2)))
		case 4:
			x = []float64{0, math.Copysign(0, -1), 5e-324, -5e-324, 0.5, -0.5, 0.49999999999999994, 4503599627370495.5, -4503599627370495.5, 2.5, -2.5, 0.125, 1.005, 2.675}[r.Intn(14)]
		case 5:
			x = float64(int64(r.U64()>>uint(12+r.Intn(52)))) + []float64{0.25, 0.5, 0.75}[r.Intn(3)]
		case 6:
			x = float64(r.Intn(1000000)) / []float64{10, 100, 1000, 8, 3, 7}[r.Intn(6)]
		default:
			x = math.Ldexp(float64(r.U64()>>11), r.Intn(106)-106) * float64(1-2*r.Intn(2))
		}
		if r.Intn(2) == 0 {
			x = -x
		}
		if !math.IsNaN(x) && !math.IsInf(x, 0) && math.Abs(x) < 4503599627370496 {
			return x
		}
	}
}

// NumericCase: the numeric and conversion built-ins applied to values supplied through the storer, captured by `probe`.
func NumericCase(r *prng.R, id string) *sexp.S {
	node := &ast.Node{Title: "Start"}
	vars := sexp.L(sexp.A("vars"))
	expect := sexp.L(sexp.A("expect")) // one entry per probe call, in order: what was applied to which double
	nvars := 1 + r.Intn(3)
	for i := 0; i < nvars; i++ {
		name := "x" + strconv.Itoa(i)
		x := doubleLt52(r)
		if r.Intn(12) == 0 {
			x = Double(r) // occasionally anything: NaN, Inf, huge (outside the contract's domain, still compared with the model)
		}
		vars.Add(sexp.L(sexp.Str(name), sexp.L(sexp.A("num"), sexp.U(math.Float64bits(x)))))
		v := ast.Var(name)
		bits := sexp.U(math.Float64bits(x))
		for _, f := range []string{"floor", "ceil", "inc", "dec", "integer", "decimal", "round"} {
			if r.Intn(3) != 0 {
				node.Body = append(node.Body, &ast.Stmt{Kind: "call", Fn: "probe", Args: []*ast.Expr{ast.Fn(f, v)}})
				expect.Add(sexp.L(sexp.A(f), bits))
			}
		}
		places := r.Intn(9)
		node.Body = append(node.Body, &ast.Stmt{Kind: "call", Fn: "probe", Args: []*ast.Expr{ast.Fn("round_places", v, ast.Num(strconv.Itoa(places)))}})
		expect.Add(sexp.L(sexp.A("round_places"), bits, sexp.N(places)))
		// the number of places computed by a call of its own (a call nested in the second argument of another call)
		node.Body = append(node.Body, &ast.Stmt{Kind: "call", Fn: "probe", Args: []*ast.Expr{ast.Fn("round_places", v, ast.Fn(r.Pick("integer", "floor", "number"), ast.Num(strconv.Itoa(places))))}})
		expect.Add(sexp.L(sexp.A("round_places"), bits, sexp.N(places)))
		node.Body = append(node.Body, &ast.Stmt{Kind: "call", Fn: "probe", Args: []*ast.Expr{ast.Fn("string", v)}})
		expect.Add(sexp.L(sexp.A("string"), bits))
		node.Body = append(node.Body, &ast.Stmt{Kind: "call", Fn: "probe", Args: []*ast.Expr{ast.Fn("number", ast.Fn("string", v))}})
		expect.Add(sexp.L(sexp.A("numstr"), bits))
		node.Body = append(node.Body, &ast.Stmt{Kind: "call", Fn: "probe", Args: []*ast.Expr{ast.Fn("number", v)}})
		expect.Add(sexp.L(sexp.A("number"), bits))
		if r.Intn(2) == 0 {
			node.Body = append(node.Body, &ast.Stmt{Kind: "call", Fn: "probe", Args: []*ast.Expr{ast.Fn("bool", v)}})
			expect.Add(sexp.L(sexp.A("bool"), bits))
			node.Body = append(node.Body, &ast.Stmt{Kind: "call", Fn: "probe", Args: []*ast.Expr{ast.Bin("add", ast.Fn("integer", v), ast.Fn("decimal", v))}})
			expect.Add(sexp.L(sexp.A("intplusdec"), bits))
		}
	}
	b := r.Intn(2) == 0
	vars.Add(sexp.L(sexp.Str("b"), ast.Bool(b).Sexp()))
	vars.Add(sexp.L(sexp.Str("s"), sexp.L(sexp.A("str"), sexp.Str(r.Pick("abc", "", "1.5x", "yes", "12", "-0.5", "true", "False", "T", "1e3", " 1", "inf", "NaN", "0.1", "123456789012345678901234567890",
		// digits that are not ASCII digits, signs, separators and prefixes: none of these is a number except where strconv says so
		"٤٢", "４２", "१२३", "4٢", "1２3", "𝟜𝟚", "٣", "+5", "5.", ".5", "1e", "--1", "1,5", "Infinity", "-inf", "+Inf", "nan", "1 ", "\t1", "TRUE", "t", "0", "-0", "00012", "1e400", "1e-400")))))
	for _, e := range []*ast.Expr{
		ast.Fn("bool", ast.Fn("string", ast.Var("b"))), ast.Fn("string", ast.Var("b")), ast.Fn("bool", ast.Var("b")), ast.Fn("number", ast.Var("b")),
		ast.Fn("string", ast.Var("s")), ast.Fn("number", ast.Var("s")), ast.Fn("bool", ast.Var("s")),
		// two results of one built-in alive in one expression
		ast.Bin("add", ast.Fn("floor", ast.Var("x0")), ast.Fn("floor", ast.Bin("mul", ast.Var("x0"), ast.Num("2")))),
		ast.Bin("eq", ast.Fn("string", ast.Var("x0")), ast.Fn("string", ast.Neg(ast.Var("x0")))),
		ast.Fn("two", ast.Fn("inc", ast.Var("x0")), ast.Fn("inc", ast.Fn("inc", ast.Var("x0")))),
	} {
		node.Body = append(node.Body, &ast.Stmt{Kind: "call", Fn: "probe", Args: []*ast.Expr{e}})
	}
	node.Body = append(node.Body, &ast.Stmt{Kind: "line", Line: &ast.Line{Els: []ast.El{{Text: "done"}}}})
	// a second node applies the conversions to LITERALS and is run three times by the same runner: converting a value that
	// already has the wanted type must hand it back unchanged every time, not only the first
	lit := &ast.Node{Title: "Lit"}
	num := ast.Num(r.Pick("2.5", "7", "0.1", "1000000", "0"))
	for _, e := range []*ast.Expr{
		ast.Fn("number", num), ast.Neg(ast.Fn("number", num)), ast.Fn("floor", ast.Neg(ast.Fn("number", num))), ast.Fn("string", ast.Str("x")),
		ast.Fn("bool", ast.Bool(true)), ast.Not(ast.Fn("bool", ast.Bool(true))), ast.Fn("number", ast.Str("3")), ast.Fn("string", num), ast.Fn("number", num),
	} {
		lit.Body = append(lit.Body, &ast.Stmt{Kind: "call", Fn: "probe", Args: []*ast.Expr{e}})
	}
	lit.Body = append(lit.Body, &ast.Stmt{Kind: "line", Line: &ast.Line{Els: []ast.El{{Text: "lit"}}}})
	lit.Body = append(lit.Body, &ast.Stmt{Kind: "if", Clauses: []ast.Clause{{Cond: ast.Bin("lt", ast.Fn("visited_count", ast.Str("Lit")), ast.Num("2")),
		Body: []*ast.Stmt{{Kind: "jump", JumpID: true, E: ast.Str("Lit")}}}}})
	node.Body = append(node.Body, &ast.Stmt{Kind: "jump", JumpID: true, E: ast.Str("Lit")})
	prog := &ast.Program{Nodes: []*ast.Node{node, lit}}
	layout := &ast.Layout{}
	ops := sexp.L(sexp.A("ops"))
	for i := 0; i < 12; i++ {
		ops.Add(sexp.L(sexp.A("next"), sexp.N(0), sexp.N(0)))
	}
	return sexp.L(sexp.A("case"), sexp.A("run"), sexp.A(id), sexp.L(sexp.A("srcs"), sexp.Str(layout.Render(prog.Nodes))), prog.Sexp(),
		sexp.L(sexp.A("seed"), sexp.Str("num")), vars, expect, ops)
}
