package gen

import (
	"verifharness/prng"
	"verifharness/sexp"
)

// Generator produces case number i of a stream for a profile; nil means unknown profile.
type Generator func(profile string, r *prng.R, id string, i int) *sexp.S

var registry = map[string]Generator{}

// Register adds the generator of a stream; called from init functions.
func Register(stream string, g Generator) { registry[stream] = g }

// Case generates case number i of a stream/profile.
func Case(stream, profile string, r *prng.R, id string, i int) *sexp.S {
	if g, ok := registry[stream]; ok {
		return g(profile, r, id, i)
	}
	return nil
}

func init() {
	Register("run", func(profile string, r *prng.R, id string, i int) *sexp.S {
		if profile == "numeric" {
			return NumericCase(r, id)
		}
		if profile == "long" {
			return LongCase(r, id)
		}
		p := Profiles[profile]
		if p == nil {
			return nil
		}
		return RunCase(r, p, id)
	})
}
