package gen

import (
	"verifharness/prng"
	"verifharness/sexp"
)

// Case generates case number i of a stream/profile.
func Case(stream, profile string, r *prng.R, id string, i int) *sexp.S {
	switch stream {
	case "run":
		p := Profiles[profile]
		if p == nil {
			return nil
		}
		return RunCase(r, p, id)
	}
	return nil
}
