package gen

// Generator of the `bridge` stream (property C16).
//
// The quantifier's space is a finite product that is ENUMERATED by case index:
//
//	kind      fn | cmd                                                                                          (2)
//	params    [] | [a] a∈T | [a,b] a∈T, b∈{int,Nstring,float32,bool,struct} | [a,b,c] a∈{int8,Nfloat64,string,uint}, b,c∈{Nint,bool,string}   (253)
//	variadic  none | one of {int,Nint8,float64,string,Nbool,errstr,error,struct,uint}                            (10)
//	results   [] | [a] a∈T | [a,e] a∈{int,Nfloat32,string,bool,errstr,uint,error,chan}, e∈{error,Nerror,errstr,errptr,int,rchan}   (85)
//	args      12 type shapes of length 0-4 over {number, boolean, string}                                       (12)
//
// with T the 36 types of bridgeTypes: 5 161 200 elements, preceded by the special values (nil interface,
// non-function values, typed nil functions). Profile `all`: case i is element number i of this enumeration, taken in the
// order of a fixed full-cycle permutation (i·(2^31-1) mod N) so that every prefix is spread over the whole product; n ≥
// BridgeSpace() cases cover it completely. The VALUES (numbers, strings, what the probe returns) are drawn from the case's
// PRNG. Profile `sample`: a seeded slice — half of the cases are random elements of the enumeration, half are drawn from
// the unrestricted product (0-3 parameters from T, optional variadic tail from T, 0-2 results from T, 0-4 arguments)
// with a bias towards signatures that are accepted and argument lists that match them.

import (
	"math"

	"verifharness/prng"
	"verifharness/sexp"
)

var bridgeTypes = []string{
	"int", "int8", "int16", "int32", "int64", "uint", "float32", "float64", "bool", "string",
	"Nint", "Nint8", "Nint16", "Nint32", "Nint64", "Nuint", "Nfloat32", "Nfloat64", "Nbool", "Nstring",
	"error", "Nerror", "errstr", "errptr",
	"chan", "rchan", "schan", "Nchan", "Nrchan", "chanX",
	"struct", "slice", "ptr", "any", "func", "map",
}

var (
	bridgeP2   = []string{"int", "Nstring", "float32", "bool", "struct"}
	bridgeP3a  = []string{"int8", "Nfloat64", "string", "uint"}
	bridgeP3b  = []string{"Nint", "bool", "string"}
	bridgeVar  = []string{"none", "int", "Nint8", "float64", "string", "Nbool", "errstr", "error", "struct", "uint"}
	bridgeR2a  = []string{"int", "Nfloat32", "string", "bool", "errstr", "uint", "error", "chan"}
	bridgeR2e  = []string{"error", "Nerror", "errstr", "errptr", "int", "rchan"}
	bridgeArgs = []string{"", "n", "b", "s", "nn", "ns", "sb", "nnn", "nsb", "sss", "nnnn", "nbsn"}
)

func bridgeParamLists() [][]string {
	out := [][]string{{}}
	for _, a := range bridgeTypes {
		out = append(out, []string{a})
	}
	for _, a := range bridgeTypes {
		for _, b := range bridgeP2 {
			out = append(out, []string{a, b})
		}
	}
	for _, a := range bridgeP3a {
		for _, b := range bridgeP3b {
			for _, c := range bridgeP3b {
				out = append(out, []string{a, b, c})
			}
		}
	}
	return out
}

func bridgeResultLists() [][]string {
	out := [][]string{{}}
	for _, a := range bridgeTypes {
		out = append(out, []string{a})
	}
	for _, a := range bridgeR2a {
		for _, e := range bridgeR2e {
			out = append(out, []string{a, e})
		}
	}
	return out
}

var (
	bridgePL = bridgeParamLists()
	bridgeRL = bridgeResultLists()
)

type bridgeSpecial struct {
	kind, val string
	params    []string
	variadic  string
	results   []string
	args      string
}

func bridgeSpecials() []bridgeSpecial {
	var out []bridgeSpecial
	for _, k := range []string{"fn", "cmd"} {
		out = append(out, bridgeSpecial{kind: k, val: "nil", variadic: "none"})
		for _, nf := range []string{"int", "string", "struct", "slice", "nilptr", "funcptr", "chan", "nilerror", "nilmap", "bool"} {
			out = append(out, bridgeSpecial{kind: k, val: "nonfunc:" + nf, variadic: "none"})
		}
		for _, args := range []string{"", "n"} {
			out = append(out,
				bridgeSpecial{kind: k, val: "nilfunc", variadic: "none", args: args},
				bridgeSpecial{kind: k, val: "nilfunc", params: []string{"int"}, variadic: "none", results: []string{"int"}, args: args},
				bridgeSpecial{kind: k, val: "nilfunc", variadic: "none", results: []string{"error"}, args: args},
				bridgeSpecial{kind: k, val: "nilfunc", variadic: "none", results: []string{"rchan"}, args: args},
				bridgeSpecial{kind: k, val: "nilfunc", variadic: "string", args: args},
				bridgeSpecial{kind: k, val: "nilfunc", params: []string{"float64"}, variadic: "none", results: []string{"chan"}, args: args},
			)
		}
	}
	return out
}

var bridgeSp = bridgeSpecials()

// BridgeSpace is the number of elements of the enumeration (specials included).
func BridgeSpace() int {
	return len(bridgeSp) + 2*len(bridgePL)*len(bridgeVar)*len(bridgeRL)*len(bridgeArgs)
}

var bridgeNumbers = []float64{3, -2, 0, 1, 1.5, -0.25, 0.999, 127, 128, 300, -129, 32768, 40000, 2147483647, 2147483648, -2147483649,
	1e10, 9007199254740993, 9223372036854775807, -9223372036854775808, 1.8446744073709552e19, 1e30, -1e30, math.NaN(), math.Inf(1), math.Inf(-1),
	math.Copysign(0, -1), 16777217, 1e-50, 3.4e38, 3.5e38, -7.9, 255.5, 65535.99, 4294967296, -4294967297}

func bridgeNumber(r *prng.R) float64 {
	if r.Intn(4) == 0 {
		return Double(r)
	}
	return bridgeNumbers[r.Intn(len(bridgeNumbers))]
}

func bridgeString(r *prng.R) string {
	return r.Pick("", "s", "3", "true", "héllo", "a b", "1.5", "名前", "x;y|z")
}

func bridgeArg(r *prng.R, ty byte) *sexp.S {
	switch ty {
	case 'n':
		return sexp.L(sexp.A("num"), sexp.U(math.Float64bits(bridgeNumber(r))))
	case 'b':
		return sexp.L(sexp.A("bool"), sexp.A(r.Pick("true", "false")))
	}
	return sexp.L(sexp.A("str"), sexp.Str(bridgeString(r)))
}

func bridgeRet(r *prng.R, ty string) *sexp.S {
	i := func(vals ...int64) *sexp.S {
		v := vals[r.Intn(len(vals))]
		return sexp.L(sexp.A("i"), sexp.A(formatInt(v)))
	}
	switch ty {
	case "int", "int64", "Nint", "Nint64":
		return i(0, 1, -7, 42, math.MaxInt64, math.MinInt64, 9007199254740993, -9007199254740995, 1<<62+1)
	case "int8", "Nint8":
		return i(0, 1, -7, 42, 127, -128)
	case "int16", "Nint16":
		return i(0, 1, -7, 42, 32767, -32768)
	case "int32", "Nint32":
		return i(0, 1, -7, 42, 2147483647, -2147483648)
	case "uint", "Nuint":
		return i(0, 5)
	case "float64", "Nfloat64":
		return sexp.L(sexp.A("f"), sexp.U(math.Float64bits(bridgeNumber(r))))
	case "float32", "Nfloat32":
		return sexp.L(sexp.A("f"), sexp.U(math.Float64bits(float64(float32(bridgeNumber(r))))))
	case "bool", "Nbool":
		return sexp.L(sexp.A("b"), sexp.A(r.Pick("true", "false")))
	case "string", "Nstring", "errstr":
		return sexp.L(sexp.A("s"), sexp.Str(bridgeString(r)))
	case "error", "Nerror", "errptr":
		return sexp.A(r.Pick("nil", "err"))
	case "chan", "rchan", "schan", "Nchan", "Nrchan", "chanX":
		return sexp.L(sexp.A("ch"), sexp.A(r.Pick("nil", "ok", "ok", "err", "err", "empty")))
	}
	return sexp.A("zero")
}

func formatInt(v int64) string {
	neg := v < 0
	u := uint64(v)
	if neg {
		u = -u
	}
	s := sexp.U(u).Atom
	if neg {
		return "-" + s
	}
	return s
}

func bridgeCase(r *prng.R, id, kind, val string, params []string, variadic string, results []string, args string) *sexp.S {
	c := sexp.L(sexp.A("case"), sexp.A("bridge"), sexp.A(id), sexp.L(sexp.A("kind"), sexp.A(kind)))
	if len(val) > 8 && val[:8] == "nonfunc:" {
		c.Add(sexp.L(sexp.A("val"), sexp.L(sexp.A("nonfunc"), sexp.A(val[8:]))))
	} else {
		c.Add(sexp.L(sexp.A("val"), sexp.A(val)))
	}
	ps := sexp.L(sexp.A("params"))
	for _, p := range params {
		ps.Add(sexp.A(p))
	}
	rs := sexp.L(sexp.A("results"))
	ret := sexp.L(sexp.A("ret"))
	for _, t := range results {
		rs.Add(sexp.A(t))
		ret.Add(bridgeRet(r, t))
	}
	c.Add(sexp.L(sexp.A("sig"), ps, sexp.L(sexp.A("variadic"), sexp.A(variadic)), rs), ret)
	as := sexp.L(sexp.A("args"))
	for k := 0; k < len(args); k++ {
		as.Add(bridgeArg(r, args[k]))
	}
	c.Add(as)
	return c
}

// bridgeElement builds element number e of the enumeration.
func bridgeElement(r *prng.R, id string, e int) *sexp.S {
	if e < len(bridgeSp) {
		s := bridgeSp[e]
		return bridgeCase(r, id, s.kind, s.val, s.params, s.variadic, s.results, s.args)
	}
	n := BridgeSpace() - len(bridgeSp)
	x := int((int64(e-len(bridgeSp)) * 2147483647) % int64(n))
	kind := []string{"fn", "cmd"}[x%2]
	x /= 2
	args := bridgeArgs[x%len(bridgeArgs)]
	x /= len(bridgeArgs)
	results := bridgeRL[x%len(bridgeRL)]
	x /= len(bridgeRL)
	variadic := bridgeVar[x%len(bridgeVar)]
	x /= len(bridgeVar)
	params := bridgePL[x%len(bridgePL)]
	return bridgeCase(r, id, kind, "func", params, variadic, results, args)
}

func bridgeSupported(t string) bool {
	switch t {
	case "int", "int8", "int16", "int32", "int64", "float32", "float64", "bool", "string",
		"Nint", "Nint8", "Nint16", "Nint32", "Nint64", "Nfloat32", "Nfloat64", "Nbool", "Nstring", "errstr":
		return true
	}
	return false
}

func bridgeArgTypeFor(t string) byte {
	switch t {
	case "bool", "Nbool":
		return 'b'
	case "string", "Nstring", "errstr":
		return 's'
	}
	return 'n'
}

// bridgeWide draws a case from the unrestricted product, biased towards accepted signatures and matching arguments.
func bridgeWide(r *prng.R, id string) *sexp.S {
	pick := func() string {
		if r.Intn(10) < 7 {
			for {
				t := bridgeTypes[r.Intn(len(bridgeTypes))]
				if bridgeSupported(t) {
					return t
				}
			}
		}
		return bridgeTypes[r.Intn(len(bridgeTypes))]
	}
	kind := r.Pick("fn", "cmd")
	var params []string
	for k := r.Intn(4); k > 0; k-- {
		params = append(params, pick())
	}
	variadic := "none"
	if r.Intn(10) < 3 {
		variadic = pick()
	}
	var results []string
	switch r.Intn(10) {
	case 0, 1:
	case 2:
		for k := r.Intn(3); k > 0; k-- {
			results = append(results, bridgeTypes[r.Intn(len(bridgeTypes))])
		}
	default:
		if kind == "fn" {
			switch r.Intn(3) {
			case 0:
				results = []string{pick()}
			case 1:
				results = []string{r.Pick("error", "Nerror", "errptr", "errstr")}
			default:
				results = []string{pick(), r.Pick("error", "Nerror", "errptr", "errstr", "error", "error")}
			}
		} else {
			results = []string{r.Pick("error", "Nerror", "errptr", "errstr", "chan", "rchan", "Nchan", "Nrchan", "schan", "chanX", "chan", "rchan")}
		}
	}
	var args []byte
	if r.Intn(10) < 6 {
		for _, p := range params {
			args = append(args, bridgeArgTypeFor(p))
		}
		if variadic != "none" {
			for k := r.Intn(3); k > 0 && len(args) < 4; k-- {
				args = append(args, bridgeArgTypeFor(variadic))
			}
		}
		if r.Intn(8) == 0 && len(args) > 0 {
			args[r.Intn(len(args))] = "nbs"[r.Intn(3)]
		}
		if r.Intn(10) == 0 {
			if r.Intn(2) == 0 && len(args) > 0 {
				args = args[:len(args)-1]
			} else if len(args) < 4 {
				args = append(args, "nbs"[r.Intn(3)])
			}
		}
	} else {
		for k := r.Intn(5); k > 0; k-- {
			args = append(args, "nbs"[r.Intn(3)])
		}
	}
	return bridgeCase(r, id, kind, "func", params, variadic, results, string(args))
}

func init() {
	Register("bridge", func(profile string, r *prng.R, id string, i int) *sexp.S {
		switch profile {
		case "all":
			return bridgeElement(r, id, i%BridgeSpace())
		case "sample":
			switch {
			case r.Intn(25) == 0:
				return bridgeElement(r, id, r.Intn(len(bridgeSp)))
			case r.Intn(2) == 0:
				return bridgeElement(r, id, r.Intn(BridgeSpace()))
			}
			return bridgeWide(r, id)
		}
		return nil
	})
}
