package gen

// Long sessions of the run stream (profile `long`): histories of more than ten thousand operations over tiny scripts —
// a host that keeps polling after the end (at 60 calls a second that is three minutes), and a game's idle loop paced by a
// command (one round per completion). Anything in the runner that counts across Next calls shows only here.

import (
	"verifharness/ast"
	"verifharness/prng"
	"verifharness/sexp"
)

func LongCase(r *prng.R, id string) *sexp.S {
	line := func(t string) *ast.Stmt {
		return &ast.Stmt{Kind: "line", Line: &ast.Line{Els: []ast.El{{Text: t}}}}
	}
	ops := sexp.L(sexp.A("ops"))
	next := func(k int) { ops.Add(sexp.L(sexp.A("next"), sexp.N(0), sexp.N(k))) }
	prog := &ast.Program{}
	c := sexp.L(sexp.A("case"), sexp.A("run"), sexp.A(id))
	n := 10100 + r.Intn(2500)
	switch r.Intn(3) {
	case 0:
		// the end, by running off the node or by <<stop>> in a block, then thousands of further calls with any argument
		body := []*ast.Stmt{line("a")}
		if r.Intn(2) == 0 {
			body = append(body, &ast.Stmt{Kind: "if", Clauses: []ast.Clause{{Cond: ast.Bool(true),
				Body: []*ast.Stmt{{Kind: "cmd", Cmd: []ast.CmdEl{{Word: "stop"}}}, line("never")}}}}, line("never"))
		}
		prog.Nodes = []*ast.Node{{Title: "Start", Body: body}}
		next(0)
		for i := 0; i < n; i++ {
			next(r.Intn(3))
		}
	case 1:
		// idle loop: every round starts a command that stays pending, the completion lets the loop jump back
		prog.Nodes = []*ast.Node{
			{Title: "Start", Body: []*ast.Stmt{line("a"), {Kind: "jump", JumpID: true, E: ast.Str("Idle")}}},
			{Title: "Idle", Body: []*ast.Stmt{{Kind: "cmd", Cmd: []ast.CmdEl{{Word: "ctl"}, {Word: "tick"}}},
				{Kind: "if", Clauses: []ast.Clause{{Cond: ast.Bool(true), Body: []*ast.Stmt{{Kind: "jump", JumpID: r.Intn(2) == 0, E: ast.Str("Idle")}}}}},
				line("never")}},
		}
		next(0)
		next(0)
		for i := 0; i < n; i++ {
			if i%97 == 0 {
				next(0) // a poll while the command is still running
			}
			ops.Add(sexp.L(sexp.A("complete"), sexp.N(0), sexp.A("ok")))
			next(0)
		}
	default:
		// a loop that presents one line per round, with a counter kept in a variable
		prog.Nodes = []*ast.Node{
			{Title: "Start", Body: []*ast.Stmt{{Kind: "declare", Var: "k", E: ast.Num("0")}, {Kind: "jump", JumpID: true, E: ast.Str("Loop")}}},
			{Title: "Loop", Body: []*ast.Stmt{{Kind: "set", Var: "k", Op: "add", E: ast.Num("1")}, line("round"),
				{Kind: "jump", E: ast.Str("Loop")}}},
		}
		for i := 0; i < n; i++ {
			next(0)
		}
	}
	layout := &ast.Layout{}
	c.Add(sexp.L(sexp.A("srcs"), sexp.Str(layout.Render(prog.Nodes))))
	c.Add(prog.Sexp())
	c.Add(sexp.L(sexp.A("seed"), sexp.Str("long")))
	c.Add(sexp.L(sexp.A("vars")))
	c.Add(sexp.L(sexp.A("noskip"))) // the rule "no further next after three ends" is switched off: polling the end IS the point
	c.Add(ops)
	return c
}
