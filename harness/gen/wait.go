package gen

import (
	"math"

	"verifharness/prng"
	"verifharness/sexp"
)

func init() {
	Register("wait", func(profile string, r *prng.R, id string, i int) *sexp.S {
		c := sexp.L(sexp.A("case"), sexp.A("wait"), sexp.A(id))
		switch profile {
		case "duration":
			var x float64
			switch r.Intn(8) {
			case 0:
				x = float64(r.Intn(100000)) / []float64{1, 10, 100, 1000, 8, 3}[r.Intn(6)]
			case 1:
				x = []float64{0, 0.5, 0.05, 0.02, 0.25, 1, 2, 1e9, 9223372036, 9223372037, 9223372036.854775, 9223372036.854776, 1e10, 12345678901.5, 1e12, 1e18, 9.2e18, 9.3e18, 1e19, 1e300, -1, -0.5, math.Inf(1), 5e-324, 1e-9, 1e-10, 0.1, 0.3}[r.Intn(28)]
			case 2:
				x = math.Ldexp(float64(r.U64()>>11), r.Intn(140)-100)
			case 3:
				x = 9223372036.854775807 * (1 + float64(r.Intn(2001)-1000)*1e-12)
			case 4:
				x = math.Nextafter(9223372036.854775807, math.Inf(1-2*r.Intn(2)))
			default:
				x = Double(r)
			}
			if x != x {
				x = 1.5 // NaN converts in an implementation-defined way: not part of the property
			}
			return c.Add(sexp.A("duration"), sexp.U(math.Float64bits(x)))
		case "timing":
			x := []float64{0, 0.02, 0.05, 0.1, 0.03, 0.075, 0.5, 2, 1e10, 12345678901.5, 1e12, -1, 0.001, 1e-9, 0.0009, 0.0005, 0.00099, 0.0021}[r.Intn(18)]
			return c.Add(sexp.A("timing"), sexp.U(math.Float64bits(x)))
		case "shape":
			shape := []string{"noret", "err", "chan", "recvchan", "namedchan", "nilchan", "raw"}[r.Intn(7)]
			delay := []int{0, 0, 1, 5, 20, 40, 60, 100}[r.Intn(8)]
			res := r.Pick("ok", "ok", "err")
			return c.Add(sexp.A("shape"), sexp.A(shape), sexp.N(delay), sexp.A(res))
		case "crowd":
			// many runners at once, each inside a command of its own that returns only when all of them have been invoked
			return c.Add(sexp.A("crowd"), sexp.N([]int{3, 17, 24, 40, 70}[r.Intn(5)]), sexp.A(r.Pick("noret", "err", "chan", "raw")))
		case "cross":
			// two runners: what one of them does to its own pending command (restore, completion, error) while the other sits in
			// a built-in wait
			return c.Add(sexp.A("cross"), sexp.A(r.Pick("restore", "restore", "complete", "fail", "new")), sexp.N([]int{30, 60, 120}[r.Intn(3)]))
		case "abandon":
			return c.Add(sexp.A("abandon"), sexp.A(r.Pick("noret", "err", "err", "chan", "raw")), sexp.A(r.Pick("ok", "err")), sexp.A(r.Pick("ok", "err")))
		}
		return nil
	})
}
