package gen

import (
	"strings"

	"verifharness/ast"
	"verifharness/prng"
	"verifharness/sexp"
)

var loadFragments = []string{"title: A\n", "title:", "---\n", "===\n", "-> ", "<<", ">>", "<<if ", "<<elseif ", "<<else>>", "<<endif>>", "<<set $x = ", "<<jump ", "<<call f(",
	"<<declare $y = ", "{", "}", "$x", "1", "2.5", "\"s\"", " + ", " == ", "(", ")", ",", "#tag", "// c\n", "\n", "\n    ", "\n\t", "\n \t", "\\", "\\[", "[b]", "[/b]", "text ", "x", "é",
	"\r\n", "\r", "true", "null", "not ", "-", " and ", "stop", "wait 1", "\x00", "\xff", "\xc3", "===", "---", ": ", "tracking: never\n",
	";", "@", "?", "%", "$ ", "^", "~", "`", "|", "&"}

// the same few scripts come back again and again, cut across readers in another way each time: what a loader remembers
// about bytes it has seen must not decide whether a reader on its own is a script
var recurringScripts = []string{
	"title: Start\n---\nhello\n<<jump Two>>\n===\ntitle: Two\n---\n-> a\n    x\n-> b\nbye\n===\n",
	"title: A\n---\n<<set $n = 1>>\n{$n} apples\n===\n",
	"title: StartCut\ntags: x\n---\nline one\nline two\n===\ntitle: Other\n---\nz\n===\n",
}

func validScript(r *prng.R) string {
	if r.Intn(8) == 0 {
		return recurringScripts[r.Intn(len(recurringScripts))]
	}
	g := &G{R: r, P: Profiles["flow"]}
	nn := 1 + r.Intn(3)
	g.titles = []string{"Start", "A", "B"}[:nn]
	var nodes []*ast.Node
	for _, t := range g.titles {
		n := &ast.Node{Title: t}
		n.Body = append(n.Body, &ast.Stmt{Kind: "line", Line: &ast.Line{Els: []ast.El{{Text: "enter " + t}}}})
		n.Body = append(n.Body, g.body(0, 1+r.Intn(5))...)
		nodes = append(nodes, n)
	}
	text := RandomLayout(r).Render(nodes)
	if r.Intn(8) == 0 {
		// something indented after the last node that the grammar lets pass (the parser stops after the last ===): whatever a
		// lexer remembers about it must not reach the next script
		text += r.Pick("    #end-of-file\n", "\t#x\n", "        #a\n    #b\n", "  #t")
	}
	return text
}

func mutate(r *prng.R, s string) string {
	b := []byte(s)
	for k := 1 + r.Intn(3); k > 0 && len(b) > 2; k-- {
		i := r.Intn(len(b))
		switch r.Intn(9) {
		case 0:
			b = append(b[:i], b[i+1:]...)
		case 1:
			b[i] = byte(r.Intn(256))
		case 2:
			j := r.Intn(len(b))
			b[i], b[j] = b[j], b[i]
		case 3:
			b = b[:i]
		case 4:
			f := loadFragments[r.Intn(len(loadFragments))]
			b = append(b[:i], append([]byte(f), b[i:]...)...)
		case 5: // delete a whole line
			j := i
			for j < len(b) && b[j] != '\n' {
				j++
			}
			b = append(b[:i], b[j:]...)
		case 6: // duplicate a chunk
			j := i + r.Intn(12)
			if j > len(b) {
				j = len(b)
			}
			chunk := append([]byte{}, b[i:j]...)
			b = append(b[:j], append(chunk, b[j:]...)...)
		case 7: // mixed indentation
			if r.Intn(2) == 0 {
				b = append(b[:i], append([]byte("\n \t"), b[i:]...)...)
			} else {
				b = []byte(mixIndent(r, string(b)))
			}
		default:
			s2 := strings.Replace(string(b), "<<endif>>", "", 1)
			b = []byte(s2)
		}
	}
	return string(b)
}

// extremeNumber replaces one run of digits of a script by a literal at the edge of what a double holds (the grammar's
// number token is digits of any length): the script stays valid.
func extremeNumber(r *prng.R, s string) string {
	var runs [][2]int
	for i := 0; i < len(s); {
		if s[i] >= '0' && s[i] <= '9' {
			j := i
			for j < len(s) && s[j] >= '0' && s[j] <= '9' {
				j++
			}
			runs = append(runs, [2]int{i, j})
			i = j
		} else {
			i++
		}
	}
	if len(runs) == 0 {
		return s
	}
	k := runs[r.Intn(len(runs))]
	var lit string
	switch r.Intn(6) {
	case 0:
		lit = "1" + strings.Repeat("0", 308) // largest power of ten that is finite
	case 1:
		lit = "1" + strings.Repeat("0", 309+r.Intn(40)) // overflows to +Inf
	case 2:
		lit = strings.Repeat("9", 310+r.Intn(200))
	case 3:
		lit = "0." + strings.Repeat("0", 330+r.Intn(100)) + "1" // underflows to 0
	case 4:
		lit = strings.Repeat("0", 40) + "7"
	default:
		lit = "179769313486231580793728971405303415079934132710037826936173778980444968292764750946649017977587207096330286416692887910946555547851940402630657488671505820681908902000708383676273854845817711531764475730270069855571366959622842914819860834936475292719074168444365510704342711559699508093042880177904174497792" // 2^1024 rounded: the first value that is not finite
	}
	return s[:k[0]] + lit + s[k[1]:]
}

// mixIndent replaces the indentation of one indented content line by a mix of tabs and spaces of the same, a smaller or a
// larger width (a tab counts 8 columns): mixed indentation must be refused wherever it occurs, also on a line that merely
// continues or closes a level.
func mixIndent(r *prng.R, s string) string {
	lines := strings.SplitAfter(s, "\n")
	var candidates []int
	for i, l := range lines {
		t := strings.TrimLeft(l, " \t")
		if len(t) < len(l) && strings.TrimSpace(t) != "" && !strings.HasPrefix(t, "//") {
			candidates = append(candidates, i)
		}
	}
	if len(candidates) == 0 {
		return s
	}
	i := candidates[r.Intn(len(candidates))]
	t := strings.TrimLeft(lines[i], " \t")
	width := 0
	for _, c := range lines[i][:len(lines[i])-len(t)] {
		if c == '\t' {
			width += 8
		} else {
			width++
		}
	}
	mixes := []string{" \t", "\t ", "  \t", " \t ", "        \t", "\t        ", "\t\t "}
	widths := []int{9, 9, 10, 10, 16, 16, 17}
	// prefer a mix that is not wider than the line was: it continues or closes a level instead of opening one
	var fitting []string
	for k, m := range mixes {
		if widths[k] <= width {
			fitting = append(fitting, m)
		}
	}
	if len(fitting) > 0 && r.Intn(4) != 0 {
		lines[i] = fitting[r.Intn(len(fitting))] + t
	} else {
		lines[i] = mixes[r.Intn(len(mixes))] + t
	}
	return strings.Join(lines, "")
}

func seedString(r *prng.R) string {
	switch r.Intn(8) {
	case 0:
		return ""
	case 1:
		return r.Pick("seed", "abc", "0", "zzzzzzzzzzzzzz", "1y2p0ij32e8e7", "1y2p0ij32e8e8", "3w5e11264sgsf", "zzzzzzzzzzzzzzzzzzzzzzzz")
	case 2:
		return r.Pick("Seed", "a b", "a-b", "é", "A", "_", "a\n", "\x00", "1.5", "-1", "dialogue{1}", "a|b", "x}", "~", "seed\x7f", "a`b", "[a]", "a@b", "a/b", "a:b", "\x80", "ab\xff")
	default:
		var b strings.Builder
		alphabet := "0123456789abcdefghijklmnopqrstuvwxyz"
		if r.Intn(4) == 0 {
			alphabet += "ABC _-é!{|}~\x7f`[@/:"
		}
		rs := []rune(alphabet)
		for k := r.Intn(20); k > 0; k-- {
			b.WriteRune(rs[r.Intn(len(rs))])
		}
		return b.String()
	}
}

func init() {
	Register("load", func(profile string, r *prng.R, id string, i int) *sexp.S {
		var text string
		switch profile {
		case "bytes":
			var b strings.Builder
			for k := r.Intn(40); k > 0; k-- {
				if r.Intn(6) == 0 {
					b.WriteByte(byte(r.Intn(256)))
				} else {
					b.WriteString(loadFragments[r.Intn(len(loadFragments))])
				}
			}
			text = b.String()
		case "mutate":
			text = validScript(r)
			switch r.Intn(8) {
			case 0:
			case 1:
				text = extremeNumber(r, text)
			default:
				text = mutate(r, text)
			}
		case "mixed":
			switch r.Intn(4) {
			case 3:
				// an otherwise valid script with exactly one line indented with both tabs and spaces
				text = mixIndent(r, validScript(r))
			case 0:
				text = validScript(r)
				if r.Intn(3) == 0 {
					text = extremeNumber(r, text)
				}
			case 1:
				text = mutate(r, validScript(r))
			default:
				var b strings.Builder
				for k := r.Intn(30); k > 0; k-- {
					b.WriteString(loadFragments[r.Intn(len(loadFragments))])
				}
				text = b.String()
			}
		default:
			return nil
		}
		srcs := sexp.L(sexp.A("srcs"))
		// every way of splitting across readers: none, at node boundaries, anywhere
		switch r.Intn(6) {
		case 0:
			// no reader at all
		case 1:
			parts := strings.SplitAfter(text, "===\n")
			for _, p := range parts {
				if p != "" || len(parts) == 1 {
					srcs.Add(sexp.Bytes([]byte(p)))
				}
			}
		case 2:
			if len(text) > 1 {
				k := r.Intn(len(text))
				srcs.Add(sexp.Bytes([]byte(text[:k])), sexp.Bytes([]byte(text[k:])))
			} else {
				srcs.Add(sexp.Bytes([]byte(text)))
			}
		case 3:
			srcs.Add(sexp.Bytes([]byte(text)), sexp.Bytes([]byte(validScript(r))))
		default:
			srcs.Add(sexp.Bytes([]byte(text)))
		}
		return sexp.L(sexp.A("case"), sexp.A("load"), sexp.A(id), srcs, sexp.L(sexp.A("seed"), sexp.Str(seedString(r))))
	})
}
