package gen

import (
	"verifharness/prng"
	"verifharness/sexp"
)

// chansched: a script of 1-3 command statements (handler shapes and results) with lines in between, and a schedule of
// events (next / restore / a goroutine's step / the clock). The schedule is drawn by a rough simulation so that
// completions, polls and restores mostly hit a pending command; a share is pure noise. Profiles: "mixed" (all shapes),
// "wrap" (converted handlers returning nothing or an error, <<wait>>), "host" (handlers returning their own channel).
func init() {
	Register("chansched", func(profile string, r *prng.R, id string, i int) *sexp.S {
		if profile != "mixed" && profile != "wrap" && profile != "host" {
			return nil
		}
		okBad := func() *sexp.S {
			if r.Intn(8) == 0 {
				return sexp.A("bad")
			}
			return sexp.A("ok")
		}
		res := func() *sexp.S { return sexp.A(r.Pick("ok", "ok", "fail")) }
		hostRet := func() *sexp.S {
			if r.Intn(9) == 0 {
				return sexp.A("nil")
			}
			capacity := []int{0, 0, 1, 1, 1, 2, 3}[r.Intn(7)]
			pre := sexp.L(sexp.A("pre"))
			if r.Intn(4) == 0 {
				for k := r.Intn(3) + 1; k > 0; k-- {
					pre.Add(res())
				}
			}
			state := "open"
			if r.Intn(10) == 0 {
				state = "closed"
			}
			hc := sexp.L(sexp.A("hc"), sexp.N(capacity), pre, sexp.A(state))
			for p := []int{0, 1, 1, 1, 2, 2, 3}[r.Intn(7)]; p > 0; p-- {
				proc := sexp.L(sexp.A("proc"))
				for a := []int{1, 1, 1, 2, 2, 3}[r.Intn(6)]; a > 0; a-- {
					if r.Intn(5) == 0 {
						proc.Add(sexp.L(sexp.A("close")))
					} else {
						proc.Add(sexp.L(sexp.A("send"), res()))
					}
				}
				hc.Add(proc)
			}
			return hc
		}
		shape := func() *sexp.S {
			var kinds []string
			switch profile {
			case "wrap":
				kinds = []string{"noret", "err", "err", "wait", "unknown"}
			case "host":
				kinds = []string{"chan", "chan", "raw", "raw", "err"}
			default:
				kinds = []string{"noret", "err", "err", "chan", "chan", "raw", "raw", "wait", "unknown"}
			}
			switch kinds[r.Intn(len(kinds))] {
			case "noret":
				return sexp.L(sexp.A("noret"), okBad())
			case "err":
				return sexp.L(sexp.A("err"), okBad(), res())
			case "chan":
				return sexp.L(sexp.A("chan"), okBad(), hostRet())
			case "raw":
				return sexp.L(sexp.A("raw"), hostRet())
			case "wait":
				return sexp.L(sexp.A("wait"), okBad())
			}
			return sexp.L(sexp.A("unknown"))
		}

		script := sexp.L(sexp.A("script"))
		var stmts []*sexp.S
		if r.Intn(4) == 0 {
			stmts = append(stmts, sexp.L(sexp.A("line")))
		}
		for n := r.Intn(3) + 1; n > 0; n-- {
			stmts = append(stmts, shape())
			if r.Intn(5) < 3 {
				stmts = append(stmts, sexp.L(sexp.A("line")))
			}
		}
		script.Add(stmts...)

		// the rough simulation
		sched := sexp.L(sexp.A("sched"))
		count := make([]int, len(stmts)) // dispatches of each statement so far
		pc, pend, completed := 0, -1, false
		var cmds []int
		for k, st := range stmts {
			if st.Head() != "line" {
				cmds = append(cmds, k)
			}
		}
		goEv := func(st, k, j int) *sexp.S {
			if stmts[st].Head() == "wait" {
				return sexp.A("tick")
			}
			return sexp.L(sexp.A("go"), sexp.N(st), sexp.N(k), sexp.N(j))
		}
		noise := func() *sexp.S {
			st := cmds[r.Intn(len(cmds))]
			return goEv(st, []int{0, 0, 0, 1, 1, 2}[r.Intn(6)], []int{0, 0, 0, 1, 2}[r.Intn(5)])
		}
		immediate := func(st *sexp.S) (imm bool, fails bool) {
			switch st.Head() {
			case "unknown":
				return true, true
			case "noret", "err", "wait":
				return st.List[1].Atom == "bad", true
			case "chan":
				if st.List[1].Atom == "bad" || !st.List[2].IsList {
					return true, true
				}
				return false, false
			case "raw":
				return !st.List[1].IsList, false
			}
			return false, false
		}
		doNext := func() {
			sched.Add(sexp.A("next"))
			if pend >= 0 {
				if !completed {
					return
				}
				pend = -1
				if r.Intn(3) == 0 {
					return // an error was surfaced (roughly)
				}
			}
			for pc < len(stmts) {
				st := stmts[pc]
				pc++
				if st.Head() == "line" {
					return
				}
				count[pc-1]++
				imm, fails := immediate(st)
				if imm && fails {
					return
				}
				if !imm {
					pend, completed = pc-1, false
					return
				}
			}
		}
		doRestore := func() {
			sched.Add(sexp.A("restore"))
			pc, pend, completed = 0, -1, false
		}
		for n := r.Intn(12) + 3; n > 0; n-- {
			x := r.Intn(100)
			switch {
			case pend >= 0 && !completed && x < 35:
				doNext()
			case pend >= 0 && !completed && x < 72:
				st := stmts[pend]
				j := 0
				if (st.Head() == "chan" || st.Head() == "raw") && r.Intn(3) == 0 {
					j = r.Intn(3)
				}
				sched.Add(goEv(pend, count[pend]-1, j))
				completed = r.Intn(6) != 0
			case pend >= 0 && !completed && x < 84:
				doRestore()
			case pend >= 0 && !completed:
				sched.Add(noise())
			case x < 72:
				doNext()
			case x < 82:
				doRestore()
			default:
				sched.Add(noise())
			}
		}
		for n := r.Intn(3); n > 0; n-- {
			sched.Add(sexp.A("next"))
		}
		return sexp.L(sexp.A("case"), sexp.A("chansched"), sexp.A(id), script, sched)
	})
}
