package gen

import (
	"strings"

	"verifharness/prng"
	"verifharness/sexp"
)

var hostileStmts = []string{
	"<<set $n = wipe()>>", "<<set $n += wipe()>>", "<<set $n = $n + wipe()>>", "<<set $s = retype(\"s\")>>", "<<set $s += string(retype(\"s\"))>>",
	"<<set $n -= retype(\"n\")>>", "<<set $b = retype(\"b\") > 0>>", "<<set $n *= drop(\"n\")>>", "<<set $n = drop(\"m\")>>", "<<set $m = snapf()>>",
	"<<declare $d = wipe()>>", "<<declare $n = retype(\"n\")>>", "<<call wipe()>>", "<<call retype(\"b\")>>", "<<call drop(\"s\")>>",
	"line {$n} and {wipe()} and {$n}", "line {retype(\"n\")} {$n + 1}", "line {$s}{drop(\"s\")}{$s}", "line {snapf()} {$m}",
	"<<cmd {wipe()} {$n}>>", "<<cmd {$n} {drop(\"n\")}>>", "<<jump {string(wipe()) + \"\"}>>", "<<jump A>>", "<<jump Start>>",
	"<<set $n = rewind()>>", "line {rewind()} {$n}", "<<if rewind() > 0>>\n    inside\n<<endif>>", "-> r {rewind()}\n    body\n-> s\n    <<set $n = rewind()>>",
	"<<set $n = 1>>", "<<set $s = \"a\">>", "<<set $b = true>>", "<<set $m = 2>>", "plain line", "<<stop>>",
	"<<if wipe() > 0 and $b>>\n    inside {$n}\n<<endif>>", "<<if $b>>\n    <<set $n += drop(\"n\")>>\n<<elseif retype(\"b\") > 0>>\n    other\n<<else>>\n    {$b}\n<<endif>>",
	"-> one {wipe()} <<if $b>>\n    <<set $n += 1>>\n-> two {$n} <<if retype(\"b\") > 0>>\n    picked {$s}\n-> three <<if $b>>",
	"-> a\n    <<set $s += retype(\"s\")>>\n    {$s}\n-> b {drop(\"b\")} <<if $b>>\n    <<jump A>>",
	"-> x\n    inner {$n}\n    <<set $n = wipe()>>\n-> y <<if true>>\n    <<set $n += drop(\"n\")>>\n    <<jump Start>>", "-> only\n    {retype(\"n\")} {$n}",
	"<<set $n = visited_count(\"A\") + wipe()>>", "<<set $n = dice(6) * wipe()>>", "<<set $q = number(string(retype(\"q\")))>>",
}

func init() {
	Register("hostile", func(profile string, r *prng.R, id string, i int) *sexp.S {
		var b strings.Builder
		for _, title := range []string{"Start", "A"} {
			b.WriteString("title: " + title + "\n---\nenter " + title + "\n")
			for k := 2 + r.Intn(9); k > 0; k-- {
				b.WriteString(hostileStmts[r.Intn(len(hostileStmts))] + "\n")
			}
			b.WriteString("===\n")
		}
		vars := sexp.L(sexp.A("vars"))
		if r.Intn(4) != 0 {
			vars.Add(sexp.L(sexp.Str("n"), value(r, "num")))
		}
		if r.Intn(4) != 0 {
			vars.Add(sexp.L(sexp.Str("b"), value(r, "bool")))
		}
		if r.Intn(4) != 0 {
			vars.Add(sexp.L(sexp.Str("s"), value(r, "str")))
		}
		if r.Intn(2) != 0 {
			vars.Add(sexp.L(sexp.Str("m"), value(r, "num")))
		}
		ops := sexp.L(sexp.A("ops"))
		for k := 0; k < 24; k++ {
			ops.Add(sexp.L(sexp.A("next"), sexp.N(0), sexp.N(r.Intn(4))))
		}
		return sexp.L(sexp.A("case"), sexp.A("hostile"), sexp.A(id), sexp.L(sexp.A("srcs"), sexp.Str(b.String())),
			sexp.L(sexp.A("seed"), sexp.Str("abc")), vars, ops)
	})
}
