package gen

import (
	"strings"

	"verifharness/ast"
	"verifharness/prng"
	"verifharness/sexp"
)

// Generator of the linelex stream: one physical body line for the lexical half of C04.
//
//	(case linelex <id> (kind <k>) (line (s ...)) (expect (line <line sexp>) | (opt <line sexp>) | (none)))
//
// kind desc: a line description (literal characters each escaped or not where that is legal, \[ \], inline
// expressions, an optional condition, tags, an optional trailing comment, optionally behind `->`) rendered to text,
// with the line statement it must be read as; kind soup: random fragments glued together (mostly odd or malformed),
// no expectation.

var llAlphabet = []string{"a", "b", "Z", "0", " ", " ", "\t", "\\", "<", ">", "{", "}", "#", "/", "[", "]", "-", "=", "\"", "$", ":", "!", ".", ",", "(", ")", "é", "日", "😀", "~", "'", "|", "*", "+", "_", "%", "&", "?", "@", "^", "`", ";"}

func llEscapable(c string) bool { return strings.Contains("\\<>{}#/", c) && len(c) == 1 }

// llDesc builds the rendered text and the expected elements of a description.
func llDesc(r *prng.R) (text string, line *ast.Line, arrow bool) {
	line = &ast.Line{}
	var b strings.Builder
	arrow = r.Intn(5) == 0
	if r.Intn(6) == 0 {
		b.WriteString(r.Pick(" ", "  ", "    "))
	}
	if arrow {
		b.WriteString("->" + r.Pick("", " ", "  ", "\t"))
	}
	type item struct {
		c    string // literal character
		esc  bool
		br   bool // \[ or \]
		e    *ast.Expr
		etxt string
	}
	n := 1 + r.Intn(10)
	items := make([]item, 0, n)
	for i := 0; i < n; i++ {
		switch r.Intn(12) {
		case 0:
			e := esExpr(r, r.Intn(4))
			var toks []string
			esToks(r, e, 0, r.Intn(3), &toks)
			items = append(items, item{e: e, etxt: esJoin(r, toks, true)})
		case 1:
			items = append(items, item{c: r.Pick("[", "]"), br: true})
		default:
			c := llAlphabet[r.Intn(len(llAlphabet))]
			items = append(items, item{c: c, esc: llEscapable(c) && r.Intn(2) == 0})
		}
	}
	// make the description legal: escape what would not be literal text at its position
	lit := func(i int, c string) bool { // item i is the unescaped literal character c
		return i < len(items) && items[i].e == nil && !items[i].br && !items[i].esc && items[i].c == c
	}
	for i := range items {
		it := &items[i]
		if it.e != nil || it.esc {
			continue
		}
		if it.br {
			if i == 0 {
				it.br = false // a line cannot start with \[ : write the bracket itself
			}
			continue
		}
		switch it.c {
		case "\\", "{", "#":
			it.esc = true
		case "<":
			if lit(i+1, "<") {
				it.esc = true
			}
		case "/":
			if lit(i+1, "/") {
				it.esc = true
			}
		}
	}
	if items[0].e == nil && !items[0].esc {
		switch {
		case items[0].c == " " || items[0].c == "\t":
			items[0].c = "a"
		case items[0].c == "-" && lit(1, ">"):
			items[1].esc = true
		case items[0].c == "=" && lit(1, "=") && lit(2, "="):
			items[0].c = "x"
		}
	}
	hasCond := r.Intn(3) == 0
	nTags := r.Intn(4)
	hasComment := r.Intn(4) == 0
	commentSpace := ""
	if hasComment && nTags == 0 && !hasCond && r.Intn(2) == 0 {
		commentSpace = r.Pick(" ", "  ")
	}
	if last := len(items) - 1; items[last].e == nil && !items[last].br && !items[last].esc {
		// `<<<if` is `<<` `<if`, `///` is a comment from the first slash on
		if items[last].c == "<" && hasCond {
			items[last].esc = true
		}
		if items[last].c == "/" && !hasCond && nTags == 0 && hasComment && commentSpace == "" {
			items[last].esc = true
		}
	}
	for _, it := range items {
		switch {
		case it.e != nil:
			b.WriteString("{" + it.etxt + "}")
			line.Els = append(line.Els, ast.El{E: it.e})
		default:
			w, t := it.c, it.c
			if it.br {
				w, t = "\\"+it.c, "\\"+it.c
			} else if it.esc {
				w = "\\" + it.c
			}
			b.WriteString(w)
			if k := len(line.Els); k > 0 && line.Els[k-1].E == nil {
				line.Els[k-1].Text += t
			} else {
				line.Els = append(line.Els, ast.El{Text: t})
			}
		}
	}
	if hasCond {
		e := esExpr(r, r.Intn(4))
		var toks []string
		esToks(r, e, 0, r.Intn(3), &toks)
		et := esJoin(r, toks, true)
		if strings.HasSuffix(et, ">") || strings.HasSuffix(et, "-") || strings.HasSuffix(et, "=") {
			et += " "
		}
		b.WriteString("<<" + r.Pick("", " ") + "if" + r.Pick(" ", "  ", "\t", "\u00a0", "\u3000") + et + ">>")
		line.Cond = e
	}
	for k := nTags; k > 0; k-- {
		tag := r.Pick("t", "line:1", "a/b", "é", "x}y", "//x", "{z}", "\\", "a>b", "-", "tag_2", "日本")
		if line.Cond != nil || len(line.Tags) > 0 {
			b.WriteString(r.Pick("", " ", "  ", "\t"))
		}
		b.WriteString("#" + r.Pick("", "", " ") + tag)
		line.Tags = append(line.Tags, tag)
	}
	if hasComment {
		if len(line.Tags) > 0 {
			b.WriteString(" ") // directly after a tag `//` would be part of the tag
		} else if commentSpace != "" {
			// white space before a comment after text belongs to the text
			b.WriteString(commentSpace)
			if k := len(line.Els); line.Els[k-1].E == nil {
				line.Els[k-1].Text += commentSpace
			} else {
				line.Els = append(line.Els, ast.El{Text: commentSpace})
			}
		}
		b.WriteString("//" + r.Pick("", " c", " #x", " {", " <<if", "\\", "// more"))
	}
	return b.String(), line, arrow
}

var llFrags = []string{"a", "b", " ", "  ", "\t", "\\", "<", ">", "}", "#", "/", "[", "]", "\"", "-", "->", "=", "===", "$", "é", ":", "1", "\\#", "\\{", "\\}", "\\<", "\\>", "\\/", "\\\\", "\\[", "\\]", "\\a", "\\ ",
	"{1}", "{\"a}b\"}", "{$x + 1}", "{f(\"}\", 2)}", "{1 +}", "{", "{}", "{1 >> 2}", "{ 1 }", "{1}{2}", "<<if true>>", "<<if $a == \"x>>y\">>", "<<if 1 }>>", "<<", ">>", "//c", "// c #x", "#t", "#line:1", " #a #b", "#a#b", "# t", "#", "#a$b", "#a<b",
	"<<if", "<< if 1 >>", "<<if\u00a01>>", "<<iffy>>", "<<if(1)>>", "<<cmd>>", "<<else>>", "<<set $x = 1>>", "<<if 1>> x", "<<if 1>><<if 2>>", "#t <<if 1>>"}

func llCase(kind, id, text string, expect *sexp.S) *sexp.S {
	if expect == nil {
		expect = sexp.L(sexp.A("none"))
	}
	return sexp.L(sexp.A("case"), sexp.A("linelex"), sexp.A(id), sexp.L(sexp.A("kind"), sexp.A(kind)),
		sexp.L(sexp.A("line"), sexp.Str(text)), sexp.L(sexp.A("expect"), expect))
}

func init() {
	Register("linelex", func(profile string, r *prng.R, id string, i int) *sexp.S {
		kind := "desc"
		switch profile {
		case "all":
			if r.Intn(3) == 0 {
				kind = "soup"
			}
		case "desc":
		case "soup":
			kind = "soup"
		default:
			return nil
		}
		if kind == "desc" {
			text, line, arrow := llDesc(r)
			head := "line"
			if arrow {
				head = "opt"
			}
			return llCase(kind, id, text, sexp.L(sexp.A(head), line.Sexp()))
		}
		var b strings.Builder
		for k := 1 + r.Intn(7); k > 0; k-- {
			b.WriteString(llFrags[r.Intn(len(llFrags))])
		}
		return llCase(kind, id, b.String(), nil)
	})
}
