package gen

import (
	"verifharness/prng"
	"verifharness/sexp"
)

// Stream nexttoken re-uses the layout cases of stream tokens (structured scripts with nested options and if blocks, ragged
// and mixed indentation, noise lines); only the stream name differs.
func init() {
	Register("nexttoken", func(profile string, r *prng.R, id string, i int) *sexp.S {
		if profile != "layout" {
			return nil
		}
		c := TokensLayoutCase(r, id)
		c.List[1] = sexp.A("nexttoken")
		return c
	})
}
