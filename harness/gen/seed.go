package gen

// Generator of the `seed` stream: seed strings as BYTES, lengths 0-20 (a few longer), over all byte values: valid
// seeds over [0-9a-z] (13 or more digits wrap around int64), valid seeds with one foreign character, arbitrary bytes,
// and the boundary values around 2^63 and 2^64 in base 36.

import (
	"verifharness/prng"
	"verifharness/sexp"
)

const seedAlphabet = "0123456789abcdefghijklmnopqrstuvwxyz"

var seedBoundary = []string{
	"", "0", "1", "z", "10", "00000000000000000001", "zzzzzzzzzzzz", "zzzzzzzzzzzzz", "zzzzzzzzzzzzzzzzzzzz",
	"1y2p0ij32e8e6", "1y2p0ij32e8e7", "1y2p0ij32e8e8", "1y2p0ij32e8e9", // 2^63-2 … 2^63+1
	"3w5e11264sgsf", "3w5e11264sgsg", "3w5e11264sgsh", // 2^64-1, 2^64, 2^64+1
	"seed", "a", "A", " ", "a b", "-1", "+1", "0x10", "1e3", "é", "seed\n", "\x00", "abc\xff", "ABC", "a_b", "１２", "ſ", "K",
}

var seedForeign = []string{"A", "Z", " ", "-", "_", "+", ".", "/", ":", "@", "[", "`", "{", "\x00", "\n", "\x7f", "\x80", "\xff", "é", "名", "\xc3", "０", "ａ"}

func seedValid(r *prng.R, n int) []byte {
	b := make([]byte, n)
	for i := range b {
		b[i] = seedAlphabet[r.Intn(36)]
	}
	return b
}

func init() {
	Register("seed", func(profile string, r *prng.R, id string, i int) *sexp.S {
		if profile != "all" && profile != "sample" {
			return nil
		}
		var b []byte
		switch k := r.Intn(10); {
		case k < 4:
			b = seedValid(r, r.Intn(21))
		case k < 5:
			b = seedValid(r, 12+r.Intn(4)) // around the wrap-around length
		case k < 7:
			b = seedValid(r, r.Intn(20))
			f := seedForeign[r.Intn(len(seedForeign))]
			at := r.Intn(len(b) + 1)
			b = append(append(append([]byte{}, b[:at]...), f...), b[at:]...)
		case k < 9:
			b = make([]byte, r.Intn(21))
			for j := range b {
				b[j] = byte(r.Intn(256))
			}
		default:
			if r.Intn(8) == 0 {
				b = seedValid(r, 21+r.Intn(60))
			} else {
				b = []byte(seedBoundary[r.Intn(len(seedBoundary))])
			}
		}
		return sexp.L(sexp.A("case"), sexp.A("seed"), sexp.A(id), sexp.Bytes(b))
	})
}
