/-!
# S-expressions: the case format shared with the Go harness

Atoms contain no whitespace and no parentheses; strings are lists `(s cp cp ...)` of code points, byte strings
`(b n n ...)`. The reader is total: malformed input yields whatever prefix could be read.
-/
namespace Ysgo

inductive S where
  | atom (a : String)
  | list (l : List S)
deriving Repr, Inhabited

namespace S

def tokenize (s : String) : Array String := Id.run do
  let mut out : Array String := #[]
  let mut cur : String := ""
  for c in s.toList do
    if c = '(' || c = ')' then
      if cur ≠ "" then
        out := out.push cur
        cur := ""
      out := out.push (String.singleton c)
    else if c = ' ' || c = '\n' || c = '\t' || c = '\r' then
      if cur ≠ "" then
        out := out.push cur
        cur := ""
    else cur := cur.push c
  if cur ≠ "" then out := out.push cur
  return out

/-- parse the items of a list starting at token `i` (just after an opening parenthesis or at top level);
returns the items and the index after the closing parenthesis -/
partial def parseItems (toks : Array String) (i : Nat) (acc : Array S) : Array S × Nat :=
  if h : i < toks.size then
    let t := toks[i]
    if t = ")" then (acc, i + 1)
    else if t = "(" then
      let (items, j) := parseItems toks (i + 1) #[]
      parseItems toks j (acc.push (.list items.toList))
    else parseItems toks (i + 1) (acc.push (.atom t))
  else (acc, i)

def parse (s : String) : S :=
  match (parseItems (tokenize s) 0 #[]).1.toList with
  | [x] => x
  | l => .list l

def head : S → String
  | .list (.atom a :: _) => a
  | _ => ""

def args : S → List S
  | .list (_ :: r) => r
  | _ => []

def items : S → List S
  | .list l => l
  | _ => []

def find (s : S) (h : String) : Option S := s.args.find? (fun x => x.head == h)

def atomStr : S → String
  | .atom a => a
  | _ => ""

def toNat (s : S) : Nat := s.atomStr.toNat?.getD 0
def toInt (s : S) : Int := s.atomStr.toInt?.getD 0

/-- decode `(s cp ...)` -/
def str (s : S) : String :=
  String.ofList (s.args.map fun x => Char.ofNat x.toNat)

/-- decode `(s cp ...)` to the list of code points as characters -/
def chars (s : S) : List Char := s.args.map fun x => Char.ofNat x.toNat

/-- decode `(b n ...)` -/
def bytes (s : S) : List Nat := s.args.map toNat

end S
end Ysgo
