import Ysgo.Model.Runner
import Ysgo.Model.CmdArgs
/-!
# The AST builder (mirror of /repo/internal/tree/parser_listener.go)

`parserListener` is an ANTLR parse-tree listener. `antlr.ParseTreeWalkerDefault.Walk` visits the parse tree depth
first: `Enter<Rule>` on the way down, `VisitTerminal` at the leaves, `Exit<Rule>` on the way up (`EnterEveryRule`,
`ExitEveryRule`, `VisitErrorNode` and every handler the listener does not define are the no-ops of the base listener).
The handlers communicate through stacks of closures ("callbacks") and a few single-slot closures.

The model is event-level and literal:

* `PT` is the parse tree exactly as `verifhook.DumpParseTree` prints it (context type, token type, token text).
* every Go closure is ONE constructor of a callback type (`StmtCb`, `LineCb`, `ExprCb`, `ClauseCb`, `VarCb`, `FnCb`)
  that says where its argument goes. A closure that captured a pointer to a Go object carries the *identity* (`id : Nat`,
  allocated from `State.next`) of that object; the two pairs of closures that share a captured local variable
  (`leftOperand` in `enterBinaryOperatorExpression`, `variableID` in `EnterSet_statement`) share an id, and the variable
  itself is kept in the constructor of the closure that reads it (`binR … left`, `setE … v`).
* the AST under construction (`PNode`, `PStmt`, `POpt`, `PClause`, `PLine`, `PText`, `PExpr`) is plain data in which every
  Go object that some closure points to carries its id. A write through a captured pointer is `State.modify id mutation`:
  it rewrites *every* occurrence of the object, wherever it currently lives (node under construction, finished nodes, the
  line statement register, the option-group stack, a pending left operand). Occurrences of one id are exactly Go's
  aliases of one pointer, so this is exact also for stale closures and on malformed trees.
* Go partiality is explicit: `Outcome.panic` wherever the Go code would panic (Pop/Peek on an empty stack, a nil stack
  or nil `dialogue` before `EnterDialogue`, calling a nil callback, nil `node`/`lineStatement`/`protoCommandStatement`,
  `GetText()[1:]` on an empty text, `text[1:len-1]` on a short text, a nil `FUNC_ID()`, an unknown operator token).
* `Outcome.unmodelled` marks the few inputs on which the dump does not determine what Go does: a labelled token field
  (`op`, `header_key`, `destination`) of a context whose children do not have the grammar's shape, the text of an error
  node, slicing a text by *bytes* through a multi-byte character, a header written into a node that was already copied
  into the dialogue, a number text outside the NUMBER token's shape, and an AST with a nil expression where the
  `Program` types have none. None of them can occur on an error-free parse (`Props/C01Listener.lean`).

Stacks are lists with the TOP FIRST (`push = cons`); `container.Stack` itself is modelled and proved in `Model/Stack.lean`.
-/
namespace Ysgo.Listener
open Ysgo

/-! ## the parse tree -/

/-- rule context types (`%T` of the context without the `Context` suffix); labelled alternatives have their own type -/
inductive Ctx
  | dialogue | fileHashtag | node | header | body | statement | lineStatement | lineFormattedText | hashtag | lineCondition
  | expParens | expNegative | expNot | expMultDivMod | expAddSub | expComparison | expEquality | expAndOrXor | expValue
  | valueNumber | valueTrue | valueFalse | valueVar | valueString | valueNull | valueFunc
  | variable | functionCall | ifStatement | ifClause | elseIfClause | elseClause | setStatement | callStatement
  | commandStatement | commandFormattedText | shortcutOptionStatement | shortcutOption | declareStatement
  | jumpToNodeName | jumpToExpression | other
deriving DecidableEq, Repr, Inhabited

def Ctx.ofName : String → Ctx
  | "Dialogue" => .dialogue | "File_hashtag" => .fileHashtag | "Node" => .node | "Header" => .header | "Body" => .body
  | "Statement" => .statement | "Line_statement" => .lineStatement | "Line_formatted_text" => .lineFormattedText
  | "Hashtag" => .hashtag | "Line_condition" => .lineCondition | "ExpParens" => .expParens
  | "ExpNegative" => .expNegative | "ExpNot" => .expNot | "ExpMultDivMod" => .expMultDivMod | "ExpAddSub" => .expAddSub
  | "ExpComparison" => .expComparison | "ExpEquality" => .expEquality | "ExpAndOrXor" => .expAndOrXor
  | "ExpValue" => .expValue | "ValueNumber" => .valueNumber | "ValueTrue" => .valueTrue | "ValueFalse" => .valueFalse
  | "ValueVar" => .valueVar | "ValueString" => .valueString | "ValueNull" => .valueNull | "ValueFunc" => .valueFunc
  | "Variable" => .variable | "Function_call" => .functionCall | "If_statement" => .ifStatement
  | "If_clause" => .ifClause | "Else_if_clause" => .elseIfClause | "Else_clause" => .elseClause
  | "Set_statement" => .setStatement | "Call_statement" => .callStatement | "Command_statement" => .commandStatement
  | "Command_formatted_text" => .commandFormattedText | "Shortcut_option_statement" => .shortcutOptionStatement
  | "Shortcut_option" => .shortcutOption | "Declare_statement" => .declareStatement
  | "JumpToNodeName" => .jumpToNodeName | "JumpToExpression" => .jumpToExpression
  | _ => .other

/-- token types (symbolic names of the lexer) that occur in the parser grammar -/
inductive Tk
  | indent | dedent | blankLineFollowingOption | newline | id | bodyStart | headerDelimiter | hashtag | restOfLine
  | bodyEnd | shortcutArrow | commandStart | expressionStart | text | hashtagText
  | keywordTrue | keywordFalse | keywordNull | opAssign
  | opLe | opGe | opEq | opLt | opGt | opNe | opAnd | opOr | opXor | opNot
  | opAddEq | opSubEq | opMulEq | opModEq | opDivEq | opAdd | opSub | opMul | opDiv | opMod
  | lparen | rparen | comma | expressionAs | string | funcId | expressionEnd | varId | number
  | commandIf | commandElseif | commandElse | commandSet | commandEndif | commandCall | commandDeclare | commandJump
  | commandEnd | commandTextEnd | commandExpressionStart | commandText | other
deriving DecidableEq, Repr, Inhabited

def Tk.ofName : String → Tk
  | "INDENT" => .indent | "DEDENT" => .dedent | "BLANK_LINE_FOLLOWING_OPTION" => .blankLineFollowingOption
  | "NEWLINE" => .newline | "ID" => .id | "BODY_START" => .bodyStart | "HEADER_DELIMITER" => .headerDelimiter
  | "HASHTAG" => .hashtag | "REST_OF_LINE" => .restOfLine | "BODY_END" => .bodyEnd | "SHORTCUT_ARROW" => .shortcutArrow
  | "COMMAND_START" => .commandStart | "EXPRESSION_START" => .expressionStart | "TEXT" => .text
  | "HASHTAG_TEXT" => .hashtagText | "KEYWORD_TRUE" => .keywordTrue | "KEYWORD_FALSE" => .keywordFalse
  | "KEYWORD_NULL" => .keywordNull | "OPERATOR_ASSIGNMENT" => .opAssign
  | "OPERATOR_LOGICAL_LESS_THAN_EQUALS" => .opLe | "OPERATOR_LOGICAL_GREATER_THAN_EQUALS" => .opGe
  | "OPERATOR_LOGICAL_EQUALS" => .opEq | "OPERATOR_LOGICAL_LESS" => .opLt | "OPERATOR_LOGICAL_GREATER" => .opGt
  | "OPERATOR_LOGICAL_NOT_EQUALS" => .opNe | "OPERATOR_LOGICAL_AND" => .opAnd | "OPERATOR_LOGICAL_OR" => .opOr
  | "OPERATOR_LOGICAL_XOR" => .opXor | "OPERATOR_LOGICAL_NOT" => .opNot
  | "OPERATOR_MATHS_ADDITION_EQUALS" => .opAddEq | "OPERATOR_MATHS_SUBTRACTION_EQUALS" => .opSubEq
  | "OPERATOR_MATHS_MULTIPLICATION_EQUALS" => .opMulEq | "OPERATOR_MATHS_MODULUS_EQUALS" => .opModEq
  | "OPERATOR_MATHS_DIVISION_EQUALS" => .opDivEq | "OPERATOR_MATHS_ADDITION" => .opAdd
  | "OPERATOR_MATHS_SUBTRACTION" => .opSub | "OPERATOR_MATHS_MULTIPLICATION" => .opMul
  | "OPERATOR_MATHS_DIVISION" => .opDiv | "OPERATOR_MATHS_MODULUS" => .opMod
  | "LPAREN" => .lparen | "RPAREN" => .rparen | "COMMA" => .comma | "EXPRESSION_AS" => .expressionAs
  | "STRING" => .string | "FUNC_ID" => .funcId | "EXPRESSION_END" => .expressionEnd | "VAR_ID" => .varId
  | "NUMBER" => .number | "COMMAND_IF" => .commandIf | "COMMAND_ELSEIF" => .commandElseif
  | "COMMAND_ELSE" => .commandElse | "COMMAND_SET" => .commandSet | "COMMAND_ENDIF" => .commandEndif
  | "COMMAND_CALL" => .commandCall | "COMMAND_DECLARE" => .commandDeclare | "COMMAND_JUMP" => .commandJump
  | "COMMAND_END" => .commandEnd | "COMMAND_TEXT_END" => .commandTextEnd
  | "COMMAND_EXPRESSION_START" => .commandExpressionStart | "COMMAND_TEXT" => .commandText
  | _ => .other

/-- the parse tree the listener walks -/
inductive PT where
  | rule (c : Ctx) (children : List PT)
  | tok (ty : Tk) (text : String)
  | err
deriving Repr, Inhabited

/-! ## outcomes -/

inductive Outcome (α : Type) where
  | ok (a : α)
  | panic
  | unmodelled
deriving Repr

@[inline] def Outcome.bind {α β} (x : Outcome α) (f : α → Outcome β) : Outcome β :=
  match x with
  | .ok a => f a
  | .panic => .panic
  | .unmodelled => .unmodelled

instance : Monad Outcome where
  pure := .ok
  bind := Outcome.bind

/-! ## the AST under construction -/

/-- `*Expression`; `hole` is the nil pointer, `null` the expression with no field set (`&Expression{}`), `call` carries the
identity of its `*FunctionCall` (arguments are appended to it after the expression has been handed on) -/
inductive PExpr where
  | lit (v : Value) | null | hole | var (n : String)
  | call (id : Nat) (f : String) (args : List PExpr)
  | neg (e : PExpr) | not (e : PExpr) | bin (op : BinOp) (l r : PExpr)
deriving Inhabited

/-- `*LineFormattedTextElement`: `Text` or `Expression` -/
inductive PElem where
  | text (s : String)
  | expr (e : PExpr)

/-- `*LineFormattedText`, captured by the text callback and the element callback -/
structure PText where
  id : Nat
  elems : List PElem

/-- `*LineStatement` -/
structure PLine where
  text : Option PText := none
  cond : Option PExpr := none
  tags : List String := []

/-- `*CommandStatementElement`: `text` (unexported, dumped as a nil expression) or `Expression` -/
inductive PCmdEl where
  | text (s : String)
  | expr (e : PExpr)

mutual
/-- `*Statement` with the one field that is set -/
inductive PStmt where
  | line (l : Option PLine)                               -- `LineStatement` (nil: a statement with no field set)
  | opts (os : List POpt)
  | set (v : String) (op : AssignOp) (e : PExpr)
  | jump (e : PExpr)
  | ifs (id : Nat) (cs : List PClause)
  | cmd (id : Nat) (els : List PCmdEl)
  | call (id : Nat) (f : String) (args : List PExpr)      -- `CallStatement{FunctionCall}`: the id of the `*FunctionCall`
  | declare (id : Nat) (v : String) (e : PExpr)
/-- `*ShortcutOption` -/
inductive POpt where
  | mk (id : Nat) (line : Option PLine) (body : List PStmt)
/-- `*Clause`; `cond = hole` until the condition callback has run -/
inductive PClause where
  | mk (id : Nat) (cond : PExpr) (body : List PStmt)
end

instance : Inhabited PStmt := ⟨.line none⟩

/-- `*Node`; `shared` = the struct has been copied into `dialogue.Nodes`, so its `Headers` map has a second owner -/
structure PNode where
  headers : List (String × String) := []
  stmts : List PStmt := []
  shared : Bool := false

/-! ## writes through captured pointers -/

/-- one write to the Go object with a given identity -/
inductive Mut where
  | textText (s : String)          -- textCallback of EnterLine_formatted_text
  | textExpr (e : PExpr)           -- its expression callback
  | optLine (l : Option PLine)     -- line statement callback of EnterShortcut_option
  | optStmt (s : PStmt)            -- its statement callback
  | ifClause (c : PClause)         -- clause callback of EnterIf_statement
  | clauseCond (e : PExpr)         -- expression callback of EnterIf_clause / EnterElse_if_clause
  | clauseStmt (s : PStmt)         -- statement / line statement callback of the three clause kinds
  | cmdText (s : String)           -- commandTextCallback
  | cmdExpr (e : PExpr)            -- expression callback of EnterCommand_statement
  | cmdRearrange                   -- protoCommandStatement.rearrange()
  | callArg (e : PExpr)            -- expression callback of EnterFunction_call
  | declVar (v : String)           -- variableCallback of EnterDeclare_statement
  | declValue (e : PExpr)          -- its expression callback

/-- the text callback: merged into the last element when that one is a non-empty text, a new element otherwise -/
def appendText (els : List PElem) (t : String) : List PElem :=
  match els.getLast? with
  | some (.text s) => if s ≠ "" then els.dropLast ++ [.text (s ++ t)] else els ++ [.text t]
  | _ => els ++ [.text t]

/-- a command element as `rearrange` reads it: `isText := element.text != ""` on the characters of the text -/
def PCmdEl.toElem : PCmdEl → CmdArgs.Elem PExpr
  | .text s => .text s.toList
  | .expr e => .expr e

/-- an element of the rearranged list: a classified word is a literal expression; an element with neither text nor
expression stays as it is -/
def PCmdEl.ofArg : CmdArgs.Arg PExpr → PCmdEl
  | .word v => .expr (.lit v)
  | .expr e => .expr e
  | .hole => .text ""

/-- `CommandStatement.rearrange` on the elements -/
def rearrangeEls (els : List PCmdEl) : List PCmdEl :=
  (CmdArgs.rearrange (els.map PCmdEl.toElem)).map PCmdEl.ofArg

mutual
def PExpr.modify (k : Nat) (m : Mut) : PExpr → PExpr
  | .call id f args =>
    let args := PExpr.modifyList k m args
    match m with
    | .callArg e => if id = k then .call id f (args ++ [e]) else .call id f args
    | _ => .call id f args
  | .neg e => .neg (PExpr.modify k m e)
  | .not e => .not (PExpr.modify k m e)
  | .bin op l r => .bin op (PExpr.modify k m l) (PExpr.modify k m r)
  | e => e
def PExpr.modifyList (k : Nat) (m : Mut) : List PExpr → List PExpr
  | [] => []
  | e :: es => PExpr.modify k m e :: PExpr.modifyList k m es
end

def PElem.modify (k : Nat) (m : Mut) : PElem → PElem
  | .text s => .text s
  | .expr e => .expr (e.modify k m)

def PText.modify (k : Nat) (m : Mut) (t : PText) : PText :=
  let els := t.elems.map (PElem.modify k m)
  match m with
  | .textText s => if t.id = k then { t with elems := appendText els s } else { t with elems := els }
  | .textExpr e => if t.id = k then { t with elems := els ++ [.expr e] } else { t with elems := els }
  | _ => { t with elems := els }

def PLine.modify (k : Nat) (m : Mut) (l : PLine) : PLine :=
  { l with text := l.text.map (PText.modify k m), cond := l.cond.map (PExpr.modify k m) }

def PCmdEl.modify (k : Nat) (m : Mut) : PCmdEl → PCmdEl
  | .text s => .text s
  | .expr e => .expr (e.modify k m)

mutual
def PStmt.modify (k : Nat) (m : Mut) : PStmt → PStmt
  | .line l => .line (l.map (PLine.modify k m))
  | .opts os => .opts (POpt.modifyList k m os)
  | .set v op e => .set v op (e.modify k m)
  | .jump e => .jump (e.modify k m)
  | .ifs id cs =>
    let cs := PClause.modifyList k m cs
    match m with
    | .ifClause c => if id = k then .ifs id (cs ++ [c]) else .ifs id cs
    | _ => .ifs id cs
  | .cmd id els =>
    let els := els.map (PCmdEl.modify k m)
    match m with
    | .cmdText s => if id = k then .cmd id (els ++ [.text s]) else .cmd id els
    | .cmdExpr e => if id = k then .cmd id (els ++ [.expr e]) else .cmd id els
    | .cmdRearrange => if id = k then .cmd id (rearrangeEls els) else .cmd id els
    | _ => .cmd id els
  | .call id f args =>
    let args := PExpr.modifyList k m args
    match m with
    | .callArg e => if id = k then .call id f (args ++ [e]) else .call id f args
    | _ => .call id f args
  | .declare id v e =>
    let e := e.modify k m
    match m with
    | .declVar v' => if id = k then .declare id v' e else .declare id v e
    | .declValue e' => if id = k then .declare id v e' else .declare id v e
    | _ => .declare id v e
def PStmt.modifyList (k : Nat) (m : Mut) : List PStmt → List PStmt
  | [] => []
  | s :: ss => PStmt.modify k m s :: PStmt.modifyList k m ss
def POpt.modify (k : Nat) (m : Mut) : POpt → POpt
  | .mk id line body =>
    let line := line.map (PLine.modify k m)
    let body := PStmt.modifyList k m body
    match m with
    | .optLine l =>
      if id = k then (match line with
        | none => .mk id l body                               -- `if shortcutOption.LineStatement == nil`
        | some _ => .mk id line (body ++ [.line l]))
      else .mk id line body
    | .optStmt s => if id = k then .mk id line (body ++ [s]) else .mk id line body
    | _ => .mk id line body
def POpt.modifyList (k : Nat) (m : Mut) : List POpt → List POpt
  | [] => []
  | o :: os => POpt.modify k m o :: POpt.modifyList k m os
def PClause.modify (k : Nat) (m : Mut) : PClause → PClause
  | .mk id cond body =>
    let cond := cond.modify k m
    let body := PStmt.modifyList k m body
    match m with
    | .clauseCond e => if id = k then .mk id e body else .mk id cond body
    | .clauseStmt s => if id = k then .mk id cond (body ++ [s]) else .mk id cond body
    | _ => .mk id cond body
def PClause.modifyList (k : Nat) (m : Mut) : List PClause → List PClause
  | [] => []
  | c :: cs => PClause.modify k m c :: PClause.modifyList k m cs
end

def PNode.modify (k : Nat) (m : Mut) (n : PNode) : PNode := { n with stmts := PStmt.modifyList k m n.stmts }

/-! ## the callbacks, one constructor per Go closure -/

/-- `func(*Statement)` -/
inductive StmtCb where
  | nodeStmt                 -- EnterNode: `s.node.Statements = append(s.node.Statements, statement)`
  | optStmt (k : Nat)        -- EnterShortcut_option: appended to the option's statements
  | clauseStmt (k : Nat)     -- EnterIf_clause / EnterElse_if_clause / EnterElse_clause
deriving DecidableEq, Repr

/-- `func(*LineStatement)` -/
inductive LineCb where
  | nodeLine
  | optLine (k : Nat)        -- the option's own line if it has none yet, a statement of its body otherwise
  | clauseLine (k : Nat)
deriving DecidableEq, Repr

/-- `func(*Expression)` -/
inductive ExprCb where
  | lineCond                                    -- EnterLine_statement: `s.lineStatement.Condition = e`
  | lineElem (k : Nat)                          -- EnterLine_formatted_text: a new expression element
  | fnArg (k : Nat)                             -- EnterFunction_call: a new argument
  | notE                                        -- EnterExpNot: pop, hand `not e` to the callback below
  | negE                                        -- EnterExpNegative
  | binR (op : BinOp) (c : Nat) (left : PExpr)  -- first closure of enterBinaryOperatorExpression; `left` is `leftOperand`
  | binL (c : Nat)                              -- second closure: pop, `leftOperand = e`
  | setE (op : AssignOp) (c : Nat) (v : String) -- EnterSet_statement; `v` is `variableID`
  | jumpE                                       -- EnterJumpToExpression
  | clauseCond (k : Nat)                        -- EnterIf_clause / EnterElse_if_clause: `clause.Condition = e`, pop
  | cmdElem (k : Nat)                           -- EnterCommand_statement: a new expression element
  | declValue (k : Nat)                         -- EnterDeclare_statement: `declareStatement.Value = e`

/-- `func(*Clause)` -/
inductive ClauseCb where
  | ifClause (k : Nat)
deriving DecidableEq, Repr

/-- `variableCallback` -/
inductive VarCb where
  | setVar (c : Nat)        -- EnterSet_statement: `variableID = id; s.variableCallback = nil`
  | declVar (k : Nat)       -- EnterDeclare_statement: `declareStatement.VariableID = id; s.variableCallback = nil`
deriving DecidableEq, Repr

/-- `functionCallCallback` -/
inductive FnCb where
  | valueFunc               -- EnterValueFunc: clears itself, hands the call expression to the expression callback
  | callStmt                -- EnterCall_statement: hands a call statement to the statement callback
deriving DecidableEq, Repr

def ExprCb.modify (k : Nat) (m : Mut) : ExprCb → ExprCb
  | .binR op c l => .binR op c (l.modify k m)
  | cb => cb

/-- `leftOperand = e` seen from the closure that reads it -/
def ExprCb.setLeft (c : Nat) (e : PExpr) : ExprCb → ExprCb
  | .binR op c' l => if c' = c then .binR op c' e else .binR op c' l
  | cb => cb

/-- `variableID = id` seen from the closure that reads it -/
def ExprCb.setVarName (c : Nat) (v : String) : ExprCb → ExprCb
  | .setE op c' v' => if c' = c then .setE op c' v else .setE op c' v'
  | cb => cb

/-! ## the listener state -/

structure State where
  /-- allocation counter for object identities (ghost) -/
  next : Nat := 0
  /-- `dialogue` and the six stack pointers are non-nil: they are assigned together, only in EnterDialogue -/
  alive : Bool := false
  /-- `dialogue.Nodes` -/
  nodes : List PNode := []
  node : Option PNode := none
  lineStatement : Option PLine := none
  /-- top first -/
  shortcutOptionStatements : List (List POpt) := []
  /-- allocated in EnterDialogue, never used by the listener -/
  shortcutOptions : List POpt := []
  statementCallbacks : List StmtCb := []
  textCallback : Option Nat := none              -- the id of the captured `*LineFormattedText`
  expressionCallbacks : List ExprCb := []
  lineStatementCallbacks : List LineCb := []
  variableCallback : Option VarCb := none
  clauseCallbacks : List ClauseCb := []
  functionCallCallback : Option FnCb := none
  commandTextCallback : Option Nat := none       -- the id of the captured `*CommandStatement`
  hashtagCallback : Bool := false                -- the one closure of EnterLine_statement, or nil
  protoCommandStatement : Option Nat := none

/-- a write through a captured pointer: every alias of the object sees it -/
def State.modify (σ : State) (k : Nat) (m : Mut) : State :=
  { σ with
    nodes := σ.nodes.map (PNode.modify k m)
    node := σ.node.map (PNode.modify k m)
    lineStatement := σ.lineStatement.map (PLine.modify k m)
    shortcutOptionStatements := σ.shortcutOptionStatements.map (POpt.modifyList k m)
    shortcutOptions := POpt.modifyList k m σ.shortcutOptions
    expressionCallbacks := σ.expressionCallbacks.map (ExprCb.modify k m) }

/-- a fresh identity -/
def State.alloc (σ : State) : Nat × State := (σ.next, { σ with next := σ.next + 1 })

/-! ### stack operations (a nil stack pointer panics in every method) -/

def pushS (cb : StmtCb) (σ : State) : Outcome State :=
  if σ.alive then .ok { σ with statementCallbacks := cb :: σ.statementCallbacks } else .panic
def pushL (cb : LineCb) (σ : State) : Outcome State :=
  if σ.alive then .ok { σ with lineStatementCallbacks := cb :: σ.lineStatementCallbacks } else .panic
def pushE (cb : ExprCb) (σ : State) : Outcome State :=
  if σ.alive then .ok { σ with expressionCallbacks := cb :: σ.expressionCallbacks } else .panic
def pushC (cb : ClauseCb) (σ : State) : Outcome State :=
  if σ.alive then .ok { σ with clauseCallbacks := cb :: σ.clauseCallbacks } else .panic

def popS (σ : State) : Outcome State :=
  if σ.alive then (match σ.statementCallbacks with
    | [] => .panic
    | _ :: r => .ok { σ with statementCallbacks := r }) else .panic
def popL (σ : State) : Outcome State :=
  if σ.alive then (match σ.lineStatementCallbacks with
    | [] => .panic
    | _ :: r => .ok { σ with lineStatementCallbacks := r }) else .panic
def popE (σ : State) : Outcome State :=
  if σ.alive then (match σ.expressionCallbacks with
    | [] => .panic
    | _ :: r => .ok { σ with expressionCallbacks := r }) else .panic
def popC (σ : State) : Outcome State :=
  if σ.alive then (match σ.clauseCallbacks with
    | [] => .panic
    | _ :: r => .ok { σ with clauseCallbacks := r }) else .panic

/-! ### invoking callbacks -/

/-- `s.node.Statements = append(s.node.Statements, st)` -/
def appendToNode (st : PStmt) (σ : State) : Outcome State :=
  match σ.node with
  | none => .panic
  | some n => .ok { σ with node := some { n with stmts := n.stmts ++ [st] } }

/-- `s.statementCallbacks.Peek()(st)` -/
def deliverS (st : PStmt) (σ : State) : Outcome State :=
  if σ.alive then (match σ.statementCallbacks with
    | [] => .panic
    | .nodeStmt :: _ => appendToNode st σ
    | .optStmt k :: _ => .ok (σ.modify k (.optStmt st))
    | .clauseStmt k :: _ => .ok (σ.modify k (.clauseStmt st))) else .panic

/-- `s.lineStatementCallbacks.Peek()(l)` -/
def deliverL (l : Option PLine) (σ : State) : Outcome State :=
  if σ.alive then (match σ.lineStatementCallbacks with
    | [] => .panic
    | .nodeLine :: _ => appendToNode (.line l) σ
    | .optLine k :: _ => .ok (σ.modify k (.optLine l))
    | .clauseLine k :: _ => .ok (σ.modify k (.clauseStmt (.line l)))) else .panic

/-- `s.clauseCallbacks.Peek()(c)` -/
def deliverC (c : PClause) (σ : State) : Outcome State :=
  if σ.alive then (match σ.clauseCallbacks with
    | [] => .panic
    | .ifClause k :: _ => .ok (σ.modify k (.ifClause c))) else .panic

/-- the expression callback on top of `stk` applied to `e`, where `stk` is the expression stack of `σ`. The unary and
binary closures pop themselves and call the closure below (recursion on the stack). -/
def callE : List ExprCb → PExpr → State → Outcome State
  | [], _, _ => .panic
  | .lineCond :: _, e, σ =>
    (match σ.lineStatement with
     | none => .panic
     | some l => .ok { σ with lineStatement := some { l with cond := some e } })
  | .lineElem k :: _, e, σ => .ok (σ.modify k (.textExpr e))
  | .fnArg k :: _, e, σ => .ok (σ.modify k (.callArg e))
  | .notE :: rest, e, σ => callE rest (.not e) { σ with expressionCallbacks := rest }
  | .negE :: rest, e, σ => callE rest (.neg e) { σ with expressionCallbacks := rest }
  | .binR op _ l :: rest, e, σ => callE rest (.bin op l e) { σ with expressionCallbacks := rest }
  | .binL c :: rest, e, σ => .ok { σ with expressionCallbacks := rest.map (ExprCb.setLeft c e) }
  | .setE op _ v :: _, e, σ => deliverS (.set v op e) σ
  | .jumpE :: _, e, σ => deliverS (.jump e) σ
  | .clauseCond k :: _, e, σ => popE (σ.modify k (.clauseCond e))
  | .cmdElem k :: _, e, σ => .ok (σ.modify k (.cmdExpr e))
  | .declValue k :: _, e, σ => .ok (σ.modify k (.declValue e))

/-- `s.expressionCallbacks.Peek()(e)` -/
def deliverE (e : PExpr) (σ : State) : Outcome State :=
  if σ.alive then callE σ.expressionCallbacks e σ else .panic

/-- `s.functionCallCallback(&FunctionCall{FunctionID: f})`, the new object having identity `k` -/
def deliverF (k : Nat) (f : String) (σ : State) : Outcome State :=
  match σ.functionCallCallback with
  | none => .panic
  | some .valueFunc => deliverE (.call k f []) { σ with functionCallCallback := none }
  | some .callStmt => deliverS (.call k f []) σ

/-! ## what the handlers read from a context -/

/-- `ctx.GetText()`: the texts of all tokens below, concatenated; `none` if an error node (whose token the dump does not
show) is among them -/
def getText : PT → Option String
  | .tok _ s => some s
  | .err => none
  | .rule _ cs => go cs
where
  go : List PT → Option String
    | [] => some ""
    | t :: ts => (match getText t, go ts with
        | some a, some b => some (a ++ b)
        | _, _ => none)

def ctxText (children : List PT) : Outcome String :=
  match getText.go children with
  | some s => .ok s
  | none => .unmodelled

/-- `text[1:]` (a BYTE slice): panics on the empty string; exact when the first character is one byte long -/
def dropFirstByte (s : String) : Outcome String :=
  match s.toList with
  | [] => .panic
  | c :: r => if c.toNat < 128 then .ok (String.ofList r) else .unmodelled

/-- `text[1:len(text)-1]` (a BYTE slice): panics when `len(text) < 2`; exact when the first and the last character are
one byte long -/
def stripQuotes (s : String) : Outcome String :=
  match s.toList with
  | [] => .panic
  | [c] => if c.toNat < 128 then .panic else .unmodelled          -- one byte: `text[1:0]` panics
  | c :: r =>
    (match r.getLast? with
     | none => .unmodelled
     | some d => if c.toNat < 128 ∧ d.toNat < 128 then .ok (String.ofList r.dropLast) else .unmodelled)

/-- `number, _ := strconv.ParseFloat(text, 64)` for a text of the NUMBER token's shape (digits, optionally a fraction):
a syntax error is impossible; on overflow ParseFloat returns +Inf together with the (ignored) range error -/
def numberOf (s : String) : Outcome F64 :=
  if CmdArgs.numberBody s.toList then
    (match F64.parseFloat s with
     | .val x => .ok x
     | .err => .ok (F64.inf false)
     | .unmodelled => .unmodelled)
  else .unmodelled

/-- `tokenToBinaryOperator` -/
def binaryOperator : Tk → Option BinOp
  | .opLe => some .le | .opGe => some .ge | .opEq => some .eq | .opLt => some .lt | .opGt => some .gt
  | .opNe => some .ne | .opAnd => some .and | .opOr => some .or | .opXor => some .xor | .opAdd => some .add
  | .opSub => some .sub | .opMul => some .mul | .opDiv => some .div | .opMod => some .mod
  | _ => none

/-- `tokenToInplaceOperator` -/
def inplaceOperator : Tk → Option AssignOp
  | .opAssign => some .set | .opMulEq => some .mul | .opDivEq => some .div | .opModEq => some .mod
  | .opAddEq => some .add | .opSubEq => some .sub
  | _ => none

/-- `ctx.FUNC_ID()` = `GetToken(FUNC_ID, 0)`: the first child that is a terminal of that type (error nodes are terminals
too) -/
def funcId : List PT → Outcome (Option String)
  | [] => .ok none
  | .tok .funcId s :: _ => .ok (some s)
  | .err :: _ => .unmodelled
  | _ :: r => funcId r

/-- `Headers[key] = value` -/
def setHeader (hs : List (String × String)) (k v : String) : List (String × String) :=
  if hs.any (fun p => p.1 == k) then hs.map (fun p => if p.1 == k then (k, v) else p) else hs ++ [(k, v)]

/-! ## the event handlers -/

/-- `VisitTerminal` -/
def visitTerminal (ty : Tk) (text : String) (σ : State) : Outcome State :=
  match ty with
  | .text => (match σ.textCallback with
      | none => .panic
      | some k => .ok (σ.modify k (.textText text)))
  | .commandText => (match σ.commandTextCallback with
      | none => .panic
      | some k => .ok (σ.modify k (.cmdText text)))
  | _ => .ok σ

/-- the three clause kinds; `cond = none` for if / elseif (condition callback pushed), `some true` for else -/
def enterClause (withCond : Bool) (σ : State) : Outcome State := do
  let (c, σ) := σ.alloc
  let σ ← if withCond then pushE (.clauseCond c) σ else pure σ
  let σ ← pushS (.clauseStmt c) σ
  let σ ← pushL (.clauseLine c) σ
  deliverC (.mk c (if withCond then .hole else .lit (.bool true)) []) σ

def exitClause (σ : State) : Outcome State := do
  let σ ← popS σ
  popL σ

/-- `enterBinaryOperatorExpression`; `ctx.GetOp()` is the token between the two operands -/
def enterBinary (children : List PT) (σ : State) : Outcome State :=
  match children with
  | [_, .tok t _, _] =>
    (match binaryOperator t with
     | none => .panic
     | some op => do
       let (c, σ) := σ.alloc
       let σ ← pushE (.binR op c .hole) σ
       pushE (.binL c) σ)
  | _ => .unmodelled

/-- `Enter<Rule>(ctx)`; `children` are the children of the context -/
def enter (c : Ctx) (children : List PT) (σ : State) : Outcome State :=
  match c with
  | .dialogue =>
    .ok { σ with alive := true, nodes := [], shortcutOptionStatements := [], shortcutOptions := [],
                 statementCallbacks := [], lineStatementCallbacks := [], expressionCallbacks := [], clauseCallbacks := [] }
  | .node => do
    let σ := { σ with node := some {} }
    let σ ← pushS .nodeStmt σ
    pushL .nodeLine σ
  | .header =>
    (match children with
     | [.tok .id k, .tok .headerDelimiter _] => hdr k "" σ
     | [.tok .id k, .tok .headerDelimiter _, .tok .restOfLine v] => hdr k v σ
     | _ => .unmodelled)
  | .lineStatement =>
    pushE .lineCond { σ with lineStatement := some {}, hashtagCallback := true }
  | .lineFormattedText =>
    let (k, σ) := σ.alloc
    (match σ.lineStatement with
     | none => .panic
     | some l =>
       pushE (.lineElem k) { σ with lineStatement := some { l with text := some ⟨k, []⟩ }, textCallback := some k })
  | .hashtag => do
    let t ← ctxText children
    let tag ← dropFirstByte t
    if σ.hashtagCallback then
      (match σ.lineStatement with
       | none => .panic
       | some l => .ok { σ with lineStatement := some { l with tags := l.tags ++ [tag] } })
    else .panic
  | .shortcutOptionStatement =>
    if σ.alive then .ok { σ with shortcutOptionStatements := [] :: σ.shortcutOptionStatements } else .panic
  | .shortcutOption =>
    let (k, σ) := σ.alloc
    if σ.alive then
      (match σ.shortcutOptionStatements with
       | [] => .panic
       | g :: gs => do
         let σ := { σ with shortcutOptionStatements := (g ++ [.mk k none []]) :: gs }
         let σ ← pushL (.optLine k) σ
         pushS (.optStmt k) σ)
    else .panic
  | .valueNumber => do
    let t ← ctxText children
    let x ← numberOf t
    deliverE (.lit (.num x)) σ
  | .valueTrue => deliverE (.lit (.bool true)) σ
  | .valueFalse => deliverE (.lit (.bool false)) σ
  | .valueVar => do
    let t ← ctxText children
    let v ← dropFirstByte t
    deliverE (.var v) σ
  | .valueString => do
    let t ← ctxText children
    let v ← stripQuotes t
    deliverE (.lit (.str v)) σ
  | .valueNull => deliverE .null σ
  | .valueFunc => .ok { σ with functionCallCallback := some .valueFunc }
  | .functionCall => do
    match ← funcId children with
    | none => .panic
    | some f =>
      let (k, σ) := σ.alloc
      let σ ← deliverF k f σ
      pushE (.fnArg k) σ
  | .expNot => pushE .notE σ
  | .expNegative => pushE .negE σ
  | .expMultDivMod => enterBinary children σ
  | .expComparison => enterBinary children σ
  | .expAndOrXor => enterBinary children σ
  | .expAddSub => enterBinary children σ
  | .expEquality => enterBinary children σ
  | .setStatement =>
    (match children with
     | _ :: _ :: _ :: .tok t _ :: _ =>
       (match inplaceOperator t with
        | none => .panic
        | some op =>
          let (c, σ) := σ.alloc
          pushE (.setE op c "") { σ with variableCallback := some (.setVar c) })
     | _ => .unmodelled)
  | .variable =>
    (match σ.variableCallback with
     | none => .ok σ
     | some cb => do
       let t ← ctxText children
       let v ← dropFirstByte t
       match cb with
       | .setVar c =>
         .ok { σ with expressionCallbacks := σ.expressionCallbacks.map (ExprCb.setVarName c v), variableCallback := none }
       | .declVar k => .ok { σ.modify k (.declVar v) with variableCallback := none })
  | .jumpToNodeName =>
    (match children with
     | _ :: _ :: .tok .id dest :: _ => deliverS (.jump (.lit (.str dest))) σ
     | _ => .unmodelled)
  | .jumpToExpression => pushE .jumpE σ
  | .ifStatement => do
    let (k, σ) := σ.alloc
    let σ ← deliverS (.ifs k []) σ
    pushC (.ifClause k) σ
  | .ifClause => enterClause true σ
  | .elseIfClause => enterClause true σ
  | .elseClause => enterClause false σ
  | .commandStatement => do
    let (k, σ) := σ.alloc
    let σ ← pushE (.cmdElem k) { σ with commandTextCallback := some k }
    let σ ← deliverS (.cmd k []) σ
    .ok { σ with protoCommandStatement := some k }
  | .callStatement => .ok { σ with functionCallCallback := some .callStmt }
  | .declareStatement => do
    let (k, σ) := σ.alloc
    let σ ← deliverS (.declare k "" .hole) σ
    let σ ← pushE (.declValue k) σ
    .ok { σ with variableCallback := some (.declVar k) }
  | _ => .ok σ
where
  /-- `s.node.Headers[headerKey] = headerValue` -/
  hdr (k v : String) (σ : State) : Outcome State :=
    match σ.node with
    | none => .panic
    | some n => if n.shared then .unmodelled else .ok { σ with node := some { n with headers := setHeader n.headers k v } }

/-- `Exit<Rule>(ctx)` -/
def exit (c : Ctx) (σ : State) : Outcome State :=
  match c with
  | .node =>
    if σ.alive then
      (match σ.node with
       | none => .panic
       | some n => do
         let σ := { σ with nodes := σ.nodes ++ [n], node := some { n with shared := true } }
         let σ ← popS σ
         popL σ)
    else .panic
  | .lineStatement => do
    let σ ← popE { σ with hashtagCallback := false }
    let σ ← deliverL σ.lineStatement σ
    .ok { σ with lineStatement := none }
  | .lineFormattedText => popE { σ with textCallback := none }
  | .shortcutOptionStatement =>
    if σ.alive then
      (match σ.shortcutOptionStatements with
       | [] => .panic
       | g :: gs => deliverS (.opts g) { σ with shortcutOptionStatements := gs })
    else .panic
  | .shortcutOption => do
    let σ ← popL σ
    popS σ
  | .functionCall => popE σ
  | .setStatement => popE σ
  | .jumpToExpression => popE σ
  | .ifStatement => popC σ
  | .ifClause => exitClause σ
  | .elseIfClause => exitClause σ
  | .elseClause => exitClause σ
  | .commandStatement => do
    let σ ← popE { σ with commandTextCallback := none }
    match σ.protoCommandStatement with
    | none => .panic
    | some k => .ok { σ.modify k .cmdRearrange with protoCommandStatement := none }
  | .callStatement => .ok { σ with functionCallCallback := none }
  | .declareStatement => popE σ
  | _ => .ok σ

/-! ## the walk (`antlr.ParseTreeWalkerDefault.Walk`) -/

mutual
def walk : PT → State → Outcome State
  | .tok ty s, σ => visitTerminal ty s σ
  | .err, σ => .ok σ
  | .rule c cs, σ =>
    match enter c cs σ with
    | .ok σ => (match walkList cs σ with
        | .ok σ => exit c σ
        | .panic => .panic
        | .unmodelled => .unmodelled)
    | .panic => .panic
    | .unmodelled => .unmodelled
def walkList : List PT → State → Outcome State
  | [], σ => .ok σ
  | t :: ts, σ =>
    match walk t σ with
    | .ok σ => walkList ts σ
    | .panic => .panic
    | .unmodelled => .unmodelled
end

/-! ## the result -/

/-- a statement of the finished tree: the statement type of `Model/Runner.lean` with `declare` kept apart (the runner
model treats it as an assignment) -/
inductive DStmt where
  | line (l : LineSpec)
  | opts (os : List (LineSpec × List DStmt))
  | set (v : String) (op : AssignOp) (e : Expr)
  | declare (v : String) (e : Expr)
  | jump (e : Expr)
  | ifs (cs : List (Expr × List DStmt))
  | cmd (elems : List Expr)
  | call (f : String) (args : List Expr)
  | empty
deriving Inhabited

/-- `tree.Node` as dumped: the `title` and `tracking` headers and the statements -/
structure DNode where
  title : String
  tracking : String
  body : List DStmt

abbrev Dialogue := List DNode

mutual
/-- an expression without nil pointers, identities erased -/
def PExpr.reify : PExpr → Option Expr
  | .lit v => some (.lit v)
  | .null => some .null
  | .hole => none
  | .var n => some (.var n)
  | .call _ f args => (PExpr.reifyList args).map (.call f)
  | .neg e => e.reify.map .neg
  | .not e => e.reify.map .not
  | .bin op l r => (match l.reify, r.reify with
      | some l, some r => some (.bin op l r)
      | _, _ => none)
def PExpr.reifyList : List PExpr → Option (List Expr)
  | [] => some []
  | e :: es => (match e.reify, PExpr.reifyList es with
      | some e, some es => some (e :: es)
      | _, _ => none)
end

def PElem.reify : PElem → Option (String ⊕ Expr)
  | .text s => some (.inl s)
  | .expr e => e.reify.map .inr

def reifyElems : List PElem → Option (List (String ⊕ Expr))
  | [] => some []
  | e :: es => (match e.reify, reifyElems es with
      | some e, some es => some (e :: es)
      | _, _ => none)

def PLine.reify (l : PLine) : Option LineSpec :=
  match reifyElems (match l.text with | some t => t.elems | none => []) with
  | none => none
  | some els =>
    (match l.cond with
     | none => some { elems := els, cond := none, tags := l.tags }
     | some c => c.reify.map fun c => { elems := els, cond := some c, tags := l.tags })

/-- the option's line; a nil line statement is dumped like an empty one -/
def reifyOptLine : Option PLine → Option LineSpec
  | none => some { elems := [] }
  | some l => l.reify

def reifyCmdEls : List PCmdEl → Option (List Expr)
  | [] => some []
  | .text _ :: _ => none                              -- a raw text element has a nil expression
  | .expr e :: es => (match e.reify, reifyCmdEls es with
      | some e, some es => some (e :: es)
      | _, _ => none)

mutual
def PStmt.reify : PStmt → Option DStmt
  | .line none => some .empty
  | .line (some l) => l.reify.map .line
  | .opts os => (POpt.reifyList os).map .opts
  | .set v op e => e.reify.map (.set v op)
  | .jump e => e.reify.map .jump
  | .ifs _ cs => (PClause.reifyList cs).map .ifs
  | .cmd _ els => (reifyCmdEls els).map .cmd
  | .call _ f args => (PExpr.reifyList args).map (.call f)
  | .declare _ v e => e.reify.map (.declare v)
def PStmt.reifyList : List PStmt → Option (List DStmt)
  | [] => some []
  | s :: ss => (match s.reify, PStmt.reifyList ss with
      | some s, some ss => some (s :: ss)
      | _, _ => none)
def POpt.reifyList : List POpt → Option (List (LineSpec × List DStmt))
  | [] => some []
  | .mk _ line body :: os => (match reifyOptLine line, PStmt.reifyList body, POpt.reifyList os with
      | some l, some b, some os => some ((l, b) :: os)
      | _, _, _ => none)
def PClause.reifyList : List PClause → Option (List (Expr × List DStmt))
  | [] => some []
  | .mk _ cond body :: cs => (match cond.reify, PStmt.reifyList body, PClause.reifyList cs with
      | some c, some b, some cs => some ((c, b) :: cs)
      | _, _, _ => none)
end

/-- `Headers[key]` (the zero value when absent) -/
def header (hs : List (String × String)) (k : String) : String :=
  match hs.find? (fun p => p.1 == k) with
  | some p => p.2
  | none => ""

def PNode.reify (n : PNode) : Option DNode :=
  (PStmt.reifyList n.stmts).map fun b => { title := header n.headers "title", tracking := header n.headers "tracking", body := b }

def reifyNodes : List PNode → Option (List DNode)
  | [] => some []
  | n :: ns => (match n.reify, reifyNodes ns with
      | some n, some ns => some (n :: ns)
      | _, _ => none)

/-- the listener as `FromReader` starts it: `&parserListener{}` -/
def State.init : State := {}

/-- `Walk(listener, tree); return listener.dialogue` (a nil dialogue makes every use of the result panic) -/
def build (t : PT) : Outcome Dialogue :=
  match walk t State.init with
  | .ok σ =>
    if σ.alive then (match reifyNodes σ.nodes with
      | some d => .ok d
      | none => .unmodelled)
    else .panic
  | .panic => .panic
  | .unmodelled => .unmodelled

/-! ## printing (the format of `verifhook.DumpDialogue`, the `(headers …)` element of every node removed) -/

def showStr (s : String) : String :=
  "(s" ++ String.join (s.toList.map fun c => " " ++ toString c.toNat) ++ ")"

def showBinOp : BinOp → String
  | .mul => "mul" | .div => "div" | .mod => "mod" | .add => "add" | .sub => "sub" | .le => "le" | .ge => "ge"
  | .lt => "lt" | .gt => "gt" | .eq => "eq" | .ne => "ne" | .and => "and" | .or => "or" | .xor => "xor"

def showAssignOp : AssignOp → String
  | .set => "set" | .mul => "mul" | .div => "div" | .mod => "mod" | .add => "add" | .sub => "sub"

def showValue : Value → String
  | .num x => "(num " ++ toString x.bits ++ ")"
  | .bool b => "(bool " ++ (if b then "true" else "false") ++ ")"
  | .str s => "(str " ++ showStr s ++ ")"

mutual
def showExpr : Expr → String
  | .lit v => showValue v
  | .null => "(null)"
  | .var n => "(var " ++ showStr n ++ ")"
  | .call f args => "(fn " ++ showStr f ++ showExprs args ++ ")"
  | .neg e => "(neg " ++ showExpr e ++ ")"
  | .not e => "(not " ++ showExpr e ++ ")"
  | .bin op l r => "(bin " ++ showBinOp op ++ " " ++ showExpr l ++ " " ++ showExpr r ++ ")"
/-- every expression preceded by a blank -/
def showExprs : List Expr → String
  | [] => ""
  | e :: es => " " ++ showExpr e ++ showExprs es
end

def showLine (l : LineSpec) : String :=
  "(line (els" ++ String.join (l.elems.map fun
      | .inl s => if s ≠ "" then " (t " ++ showStr s ++ ")" else " (empty)"
      | .inr e => " (e " ++ showExpr e ++ ")") ++
  ") (cond " ++ (match l.cond with | some c => showExpr c | none => "(none)") ++
  ") (tags" ++ String.join (l.tags.map fun t => " " ++ showStr t) ++ "))"

mutual
def showStmt : DStmt → String
  | .line l => showLine l
  | .opts os => "(opts" ++ showOpts os ++ ")"
  | .set v op e => "(set " ++ showStr v ++ " " ++ showAssignOp op ++ " " ++ showExpr e ++ ")"
  | .declare v e => "(declare " ++ showStr v ++ " " ++ showExpr e ++ ")"
  | .jump e => "(jump " ++ showExpr e ++ ")"
  | .ifs cs => "(if" ++ showClauses cs ++ ")"
  | .cmd es => "(cmd" ++ showExprs es ++ ")"
  | .call f args => "(call " ++ showStr f ++ showExprs args ++ ")"
  | .empty => "(empty)"
/-- `(stmts …)` without the closing parenthesis handling: every statement preceded by a blank -/
def showStmts : List DStmt → String
  | [] => ""
  | s :: ss => " " ++ showStmt s ++ showStmts ss
def showOpts : List (LineSpec × List DStmt) → String
  | [] => ""
  | (l, b) :: os => " (opt " ++ showLine l ++ " (stmts" ++ showStmts b ++ "))" ++ showOpts os
def showClauses : List (Expr × List DStmt) → String
  | [] => ""
  | (c, b) :: cs => " (clause " ++ showExpr c ++ " (stmts" ++ showStmts b ++ "))" ++ showClauses cs
end

def showNode (n : DNode) : String :=
  "(node " ++ showStr n.title ++ " " ++ showStr n.tracking ++ " (stmts" ++ showStmts n.body ++ "))"

def showDialogue (d : Dialogue) : String :=
  "(prog" ++ String.join (d.map fun n => " " ++ showNode n) ++ ")"

/-! ## into the types of the runner model (what `Driver/Decode.lean` produces from the same dump) -/

mutual
def DStmt.toStmt : DStmt → Stmt
  | .line l => .line l
  | .opts os => .opts (toOpts os)
  | .set v op e => .set v op e
  | .declare v e => .set v .set e
  | .jump e => .jump e
  | .ifs cs => .ifs (toClauses cs)
  | .cmd es => .cmd es
  | .call f args => .call f args
  | .empty => .empty
def toStmts : List DStmt → List Stmt
  | [] => []
  | s :: ss => s.toStmt :: toStmts ss
def toOpts : List (LineSpec × List DStmt) → List (LineSpec × List Stmt)
  | [] => []
  | (l, b) :: os => (l, toStmts b) :: toOpts os
def toClauses : List (Expr × List DStmt) → List (Expr × List Stmt)
  | [] => []
  | (c, b) :: cs => (c, toStmts b) :: toClauses cs
end

def Dialogue.toProgram (d : Dialogue) : Program :=
  d.map fun n => { title := n.title, tracking := n.tracking, body := toStmts n.body }

end Ysgo.Listener
