/-!
# The pending-command mailbox at the level of Go channels and goroutines

`runner.go` keeps the channel of a dispatched command in `dr.commandErrChan` and polls it with a `select`/`default`;
`command_storer.go` produces that channel: a fresh `make(chan error, 1)` per call written by a goroutine of the library
(converted handlers returning nothing or an error, `<<wait n>>`), a channel holding an immediate value (unknown command,
conversion errors, nil chan), or a channel owned by the host (chan-returning and raw handlers).

This file models exactly that, below the abstraction `pending : Option (Option Bool)` of `Ysgo.Model.Runner`:

* `Chan`: a Go channel of `error` values as far as the property can see them (`false` = nil, `true` = a non-nil error):
  capacity, buffered values, goroutines parked in a send with their value, closed flag; `send`, `close`, and the runner's
  non-blocking receive with Go's semantics (`chansend`/`chanrecv`/`closechan` of the runtime).
* `Sys`: a heap of channels, the goroutines, the runner's `commandErrChan`, the script position, and ghost logs.
* `Sys.step`: one event of a schedule: the host calls `Next`, the host calls `RestoreAt`, or goroutine `g` takes a step.

The model is parametric in the facts extracted from the source by `tools/chanfacts` (`Cfg`): whether the wrapper's channel
is made per call, the capacities, the shape of the two polls, and whether the two assignments of nil exist.

Modelling decisions (all named in `Props/C10Chan.lean`):
* the handler of a converted command is counted as invoked when its goroutine is created (the call is the first statement
  of the goroutine);
* a panic of any goroutine kills a Go process: `status := crashed`, after which nothing happens any more. Only actions of
  the host on its own channel can do that (send on / close of a closed channel, close under a parked sender);
* a chan-returning or raw handler returns a channel of its own making for each invocation (never one it returned before).
-/
namespace Ysgo.Chan

/-- an `error` value: `false` = nil (success), `true` = a non-nil error -/
abbrev Val := Bool

structure Chan where
  cap : Nat                          -- 0 = unbuffered
  buf : List Val := []               -- buffered values, oldest first
  sendq : List (Nat × Val) := []     -- goroutines parked in a send (goroutine, value), oldest first
  closed : Bool := false
deriving DecidableEq, Repr

namespace Chan

inductive SendRes where
  | sent (c : Chan)                  -- the value is in the buffer, the sender goes on
  | parked (c : Chan)                -- no room (and no receiver waiting: the runner never waits): the sender is parked
  | panic                            -- send on closed channel
deriving DecidableEq, Repr

/-- `ch <- v` executed by goroutine `g` -/
def send (c : Chan) (g : Nat) (v : Val) : SendRes :=
  if c.closed then .panic
  else if c.buf.length < c.cap then .sent { c with buf := c.buf ++ [v] }
  else .parked { c with sendq := c.sendq ++ [(g, v)] }

inductive CloseRes where
  | closed (c : Chan)
  | panic                            -- close of a closed channel, or senders are parked (they panic when woken)
deriving DecidableEq, Repr

/-- `close(ch)` -/
def close (c : Chan) : CloseRes :=
  if c.closed then .panic
  else match c.sendq with
    | [] => .closed { c with closed := true }
    | _ :: _ => .panic

structure RecvRes where
  val : Option Val                   -- `none`: the `default` branch was taken
  chan : Chan
  woken : Option Nat := none         -- the parked sender whose send this receive completed
deriving DecidableEq, Repr

/-- `select { case v := <-ch: ...; default: ... }`: the head of the buffer (a parked sender then moves into the buffer),
else the value of a parked sender (rendezvous on an unbuffered channel), else the zero value if closed, else `default` -/
def recvNB (c : Chan) : RecvRes :=
  match c.buf, c.sendq with
  | v :: rest, (g, w) :: q => { val := some v, chan := { c with buf := rest ++ [w], sendq := q }, woken := some g }
  | v :: rest, [] => { val := some v, chan := { c with buf := rest } }
  | [], (g, w) :: q => { val := some w, chan := { c with sendq := q }, woken := some g }
  | [], [] => if c.closed then { val := some false, chan := c } else { val := none, chan := c }

/-- the variant `if len(ch) == 0 { default } else { v := <-ch }` (not what the code does: see the counterexamples) -/
def recvLen (c : Chan) : RecvRes :=
  match c.buf with
  | [] => { val := none, chan := c }
  | _ :: _ => c.recvNB

/-- what a non-blocking receive would deliver now -/
def avail (c : Chan) : Option Val :=
  match c.buf, c.sendq with
  | v :: _, _ => some v
  | [], (_, w) :: _ => some w
  | [], [] => if c.closed then some false else none

end Chan

inductive Poll | selectDefault | lenCheck
deriving DecidableEq, Repr

def Chan.poll (p : Poll) (c : Chan) : Chan.RecvRes :=
  match p with
  | .selectDefault => c.recvNB
  | .lenCheck => c.recvLen

/-- the facts about the source the model depends on (regenerated: `Ysgo.Generated.ChanFacts`) -/
structure Cfg where
  perCall : Bool := true             -- `make(chan error, cap)` of newYarnSpinnerCommand is inside the per-call closure
  cap : Nat := 1
  waitCap : Nat := 1                 -- `make(chan error, n)` of waitCommand
  immCap : Nat := 1                  -- chanWithImmediateValue
  unknownCap : Nat := 1              -- commandStorer.call, unknown command
  pollNext : Poll := .selectDefault  -- the poll at the top of Next
  pollExec : Poll := .selectDefault  -- the poll in executeCommandStatement
  pollClears : Bool := true          -- the value branch of the poll at the top of Next sets commandErrChan = nil
  restoreClears : Bool := true       -- RestoreAt sets commandErrChan = nil
deriving DecidableEq, Repr

/-- the hypotheses of the theorems -/
def Cfg.Good (cfg : Cfg) : Prop :=
  cfg.perCall = true ∧ 1 ≤ cfg.cap ∧ 1 ≤ cfg.waitCap ∧ 1 ≤ cfg.immCap ∧ 1 ≤ cfg.unknownCap
  ∧ cfg.pollNext = .selectDefault ∧ cfg.pollExec = .selectDefault ∧ cfg.pollClears = true ∧ cfg.restoreClears = true

instance (cfg : Cfg) : Decidable cfg.Good := by unfold Cfg.Good; infer_instance

/-! ### goroutines -/

inductive HostAct | send (v : Val) | close
deriving DecidableEq, Repr

inductive G where
  | running (ch : Nat) (res : Val)           -- library: `reflect.ValueOf(command).Call(...)` is running; `res` = its result
  | sleeping (ch : Nat)                      -- library: the goroutine of `<<wait n>>` inside `time.Sleep`
  | atSend (ch : Nat) (v : Val)              -- library: about to execute its single `errChan <- v`
  | libParked (ch : Nat)                     -- library: parked in that send
  | libDone                                  -- library: returned
  | host (ch : Nat) (acts : List HostAct)    -- a goroutine of the host working on the channel its handler returned
  | hostParked (ch : Nat) (acts : List HostAct)   -- parked in a send; `acts` = what it does afterwards
deriving DecidableEq, Repr

namespace G
/-- the channel a goroutine may still touch -/
def chan : G → Option Nat
  | running ch _ | sleeping ch | atSend ch _ | libParked ch | host ch _ | hostParked ch _ => some ch
  | libDone => none
/-- a goroutine of the library that has not executed its send yet -/
def libActive : G → Option Nat
  | running ch _ | sleeping ch | atSend ch _ => some ch
  | _ => none
def isLib : G → Bool
  | host _ _ | hostParked _ _ => false
  | _ => true
/-- a receive completed the send this goroutine was parked in -/
def wake : G → G
  | libParked _ => libDone
  | hostParked ch acts => host ch acts
  | x => x
def isParked : G → Bool
  | libParked _ | hostParked _ _ => true
  | _ => false
end G

/-! ### the script: command statements by the shape of their handler, and lines -/

/-- the channel a chan-returning / raw handler hands back, and what the host does with it afterwards -/
structure HostChan where
  cap : Nat
  pre : List Val := []               -- values already in the buffer on return (at most `cap` of them)
  closed : Bool := false             -- closed before returning
  procs : List (List HostAct) := []  -- the host's goroutines holding the channel: any sends and closes, any number
deriving DecidableEq, Repr

def HostChan.chan (h : HostChan) : Chan := { cap := h.cap, buf := h.pre.take h.cap, closed := h.closed }

inductive Shape where
  | noRet (convOk : Bool)                              -- ConvertAndAddCommand(func(...)); `convOk`: the arguments convert
  | errRet (convOk : Bool) (res : Val)                 -- ConvertAndAddCommand(func(...) error)
  | chanRet (convOk : Bool) (ret : Option HostChan)    -- ConvertAndAddCommand(func(...) chan error); `none`: a nil chan
  | raw (ret : Option HostChan)                        -- AddCommand(func([]*variable.Value) <-chan error)
  | wait (argsOk : Bool)                               -- the built-in `<<wait n>>`
  | unknown                                            -- no such command
deriving DecidableEq, Repr

/-- does dispatching a statement of this shape call a handler of the host -/
def Shape.invokes : Shape → Bool
  | .noRet ok | .errRet ok _ | .chanRet ok _ => ok
  | .raw _ => true
  | .wait _ | .unknown => false

inductive Stmt | line | cmd (sh : Shape)
deriving DecidableEq, Repr

/-! ### the system -/

inductive Status | ok | blocked | crashed
deriving DecidableEq, Repr

/-- ghost record of a dispatch -/
structure Disp where
  stmt : Nat
  ch : Option Nat                    -- the channel handed to the runner (`none`: a nil channel)
  g0 : Nat                           -- the goroutines of this invocation are `g0 .. g0 + ng - 1`
  ng : Nat
deriving DecidableEq, Repr

structure Sys where
  heap : List Chan := []
  gs : List G := []
  errChan : Option Nat := none       -- dr.commandErrChan
  pc : Nat := 0                      -- index of the next statement of the script
  calls : List Nat := []             -- invocation log: the statements whose host handler was called, in order
  disp : List Disp := []             -- ghost: every dispatch
  recvLog : List (Nat × Val) := []   -- ghost: every value the runner received (channel, value)
  shared : List (Nat × Nat) := []    -- only when `¬ perCall`: statement ↦ the channel hoisted out of the closure
  status : Status := .ok             -- `blocked`: the runner's goroutine is parked for ever; `crashed`: a goroutine panicked
deriving DecidableEq, Repr

inductive Obs | waiting | err | line (i : Nat) | ended | blocked | crashed
deriving DecidableEq, Repr

namespace Sys

/-- `make(chan error, n)` -/
def alloc (s : Sys) (c : Chan) : Sys × Nat := ({ s with heap := s.heap ++ [c] }, s.heap.length)

/-- `go func() {...}()` -/
def spawn (s : Sys) (gs : List G) : Sys := { s with gs := s.gs ++ gs }

/-- `errChan <- err` executed by the runner's own goroutine inside the dispatch: with no room it blocks for ever, since
the only receiver is the runner itself -/
def runnerSend (s : Sys) (ch : Nat) (v : Val) : Sys :=
  match s.heap[ch]? with
  | none => s
  | some c =>
    match c.send 0 v with
    | .sent c' => { s with heap := s.heap.set ch c' }
    | .parked _ => { s with status := .blocked }
    | .panic => { s with status := .crashed }

/-- `errChan := make(chan error, cap)` of newYarnSpinnerCommand: first statement of the closure, or hoisted out of it -/
def libChan (cfg : Cfg) (s : Sys) (i : Nat) : Sys × Nat :=
  if cfg.perCall then s.alloc { cap := cfg.cap }
  else match s.shared.lookup i with
    | some ch => (s, ch)
    | none => ({ s with heap := s.heap ++ [{ cap := cfg.cap }], shared := (i, s.heap.length) :: s.shared }, s.heap.length)

/-- the handler's own channel and goroutines -/
def hostChan (s : Sys) (hc : HostChan) : Sys × Option Nat :=
  (({ s with heap := s.heap ++ [hc.chan] } : Sys).spawn (hc.procs.map (G.host s.heap.length)), some s.heap.length)

/-- `dr.commandStorer.call(commandName, args)` for statement `i`: the state afterwards and the channel returned -/
def dispatch (cfg : Cfg) (i : Nat) (sh : Shape) (s : Sys) : Sys × Option Nat :=
  match sh with
  | .unknown =>                                       -- commandStorer.call: make, send, return
    ((s.alloc { cap := cfg.unknownCap }).1.runnerSend s.heap.length true, some s.heap.length)
  | .wait false =>                                    -- chanWithImmediateValue(error)
    ((s.alloc { cap := cfg.immCap }).1.runnerSend s.heap.length true, some s.heap.length)
  | .wait true =>                                     -- ch := make(chan error, 1); go func() { time.Sleep(d); ch <- nil }()
    ((s.alloc { cap := cfg.waitCap }).1.spawn [.sleeping s.heap.length], some s.heap.length)
  | .noRet convOk =>
    match s.libChan cfg i with
    | (s, ch) =>
      if convOk then (({ s with calls := s.calls ++ [i] } : Sys).spawn [.running ch false], some ch)
      else (s.runnerSend ch true, some ch)
  | .errRet convOk res =>
    match s.libChan cfg i with
    | (s, ch) =>
      if convOk then (({ s with calls := s.calls ++ [i] } : Sys).spawn [.running ch res], some ch)
      else (s.runnerSend ch true, some ch)
  | .chanRet convOk ret =>
    match s.libChan cfg i with
    | (s, ch) =>
      if convOk then
        match ret with
        | none => (({ s with calls := s.calls ++ [i] } : Sys).runnerSend ch true, some ch)    -- "command returned a nil chan"
        | some hc => ({ s with calls := s.calls ++ [i] } : Sys).hostChan hc
      else (s.runnerSend ch true, some ch)
  | .raw ret =>
    match ret with
    | none => ({ s with calls := s.calls ++ [i] }, none)
    | some hc => ({ s with calls := s.calls ++ [i] } : Sys).hostChan hc

def wake (gs : List G) : Option Nat → List G
  | none => gs
  | some g => match gs[g]? with
    | some x => gs.set g x.wake
    | none => gs

/-- the runner's non-blocking receive on channel `ch`; `none` = `default`, and then nothing at all has changed -/
def recv (p : Poll) (s : Sys) (ch : Nat) : Sys × Option Val :=
  match s.heap[ch]? with
  | none => (s, none)
  | some c =>
    match (c.poll p).val with
    | none => (s, none)
    | some v => ({ s with heap := s.heap.set ch (c.poll p).chan, gs := wake s.gs (c.poll p).woken,
                          recvLog := s.recvLog ++ [(ch, v)] }, some v)

inductive ExecRes | ok | failed | stuck
deriving DecidableEq, Repr

/-- `executeCommandStatement` from the dispatch on: one poll; a value finishes the command now, `default` keeps the channel -/
def execCmd (cfg : Cfg) (i : Nat) (sh : Shape) (s : Sys) : Sys × ExecRes :=
  match s.dispatch cfg i sh with
  | (s', och) =>
    let s1 : Sys := { s' with disp := s'.disp ++ [{ stmt := i, ch := och, g0 := s.gs.length, ng := s'.gs.length - s.gs.length }] }
    match s1.status with
    | .blocked | .crashed => (s1, .stuck)
    | .ok =>
      match och with
      | none => ({ s1 with errChan := none }, .ok)     -- a nil channel: `default`, and `dr.commandErrChan = errChan` is nil
      | some ch =>
        match s1.recv cfg.pollExec ch with
        | (s2, some v) => (s2, if v then .failed else .ok)
        | (s2, none) => ({ s2 with errChan := some ch }, .ok)

/-- the statement loop of `Next` (the tail calls `return dr.Next(choice)` find `commandErrChan == nil`) -/
def runFrom (cfg : Cfg) : List Stmt → Sys → Sys × Obs
  | [], s => (s, .ended)
  | .line :: _, s => ({ s with pc := s.pc + 1 }, .line s.pc)
  | .cmd sh :: rest, s =>
    match ({ s with pc := s.pc + 1 } : Sys).execCmd cfg s.pc sh with
    | (s', .stuck) => (s', match s'.status with | .crashed => .crashed | _ => .blocked)
    | (s', .failed) => (s', .err)
    | (s', .ok) =>
      match s'.errChan with
      | some _ => (s', .waiting)                       -- `else if dr.commandErrChan != nil`
      | none => runFrom cfg rest s'

/-- the top of `Next`: `some o` = `Next` returns `o` at once -/
def pollTop (cfg : Cfg) (s : Sys) : Sys × Option Obs :=
  match s.errChan with
  | none => (s, none)
  | some ch =>
    match s.recv cfg.pollNext ch with
    | (_, none) => (s, some .waiting)
    | (s', some v) =>
      (if cfg.pollClears then { s' with errChan := none } else s', if v then some .err else none)

def next (cfg : Cfg) (script : List Stmt) (s : Sys) : Sys × Obs :=
  match s.status with
  | .blocked => (s, .blocked)
  | .crashed => (s, .crashed)
  | .ok =>
    match s.pollTop cfg with
    | (s', some o) => (s', o)
    | (s', none) => s'.runFrom cfg (script.drop s'.pc)

/-- `RestoreAt(snapshot taken before the first Next)`: back to the first statement; the channel of the abandoned
invocation stays in the heap and its goroutines keep running -/
def restore (cfg : Cfg) (s : Sys) : Sys :=
  match s.status with
  | .ok => { s with pc := 0, errChan := if cfg.restoreClears then none else s.errChan }
  | _ => s

/-- goroutine `g` takes its next step if it can -/
def goCore (heap : List Chan) (gs : List G) (g : Nat) : List Chan × List G × Bool :=
  match gs[g]? with
  | some (.running ch res) => (heap, gs.set g (.atSend ch res), false)      -- the handler returns
  | some (.sleeping ch) => (heap, gs.set g (.atSend ch false), false)       -- time.Sleep returns
  | some (.atSend ch v) =>
    (match heap[ch]? with
     | none => (heap, gs, false)
     | some c =>
       match c.send g v with
       | .sent c' => (heap.set ch c', gs.set g .libDone, false)
       | .parked c' => (heap.set ch c', gs.set g (.libParked ch), false)
       | .panic => (heap, gs, true))
  | some (.host ch (.send v :: acts)) =>
    (match heap[ch]? with
     | none => (heap, gs, false)
     | some c =>
       match c.send g v with
       | .sent c' => (heap.set ch c', gs.set g (.host ch acts), false)
       | .parked c' => (heap.set ch c', gs.set g (.hostParked ch acts), false)
       | .panic => (heap, gs, true))
  | some (.host ch (.close :: acts)) =>
    (match heap[ch]? with
     | none => (heap, gs, false)
     | some c =>
       match c.close with
       | .closed c' => (heap.set ch c', gs.set g (.host ch acts), false)
       | .panic => (heap, gs, true))
  | _ => (heap, gs, false)                                                 -- finished, parked, or no such goroutine

def goStep (s : Sys) (g : Nat) : Sys :=
  match s.status with
  | .crashed => s
  | _ =>
    match goCore s.heap s.gs g with
    | (h, gs, crash) => { s with heap := h, gs := gs, status := if crash then .crashed else s.status }

end Sys

inductive Ev | next | restore | go (g : Nat)
deriving DecidableEq, Repr

/-- one event of a schedule; `Next` produces an observation -/
def Sys.step (cfg : Cfg) (script : List Stmt) (s : Sys) : Ev → Sys × Option Obs
  | .next => ((s.next cfg script).1, some (s.next cfg script).2)
  | .restore => (s.restore cfg, none)
  | .go g => (s.goStep g, none)

/-- a whole schedule: the final state and what the calls of `Next` answered -/
def Sys.run (cfg : Cfg) (script : List Stmt) : Sys → List Ev → Sys × List Obs
  | s, [] => (s, [])
  | s, e :: es =>
    match s.step cfg script e with
    | (s', o) =>
      match Sys.run cfg script s' es with
      | (s'', os) => (s'', o.toList ++ os)

/-- the state after a schedule -/
def Sys.exec (cfg : Cfg) (script : List Stmt) (s : Sys) (es : List Ev) : Sys := (Sys.run cfg script s es).1

def Sys.init : Sys := {}

end Ysgo.Chan
