import Ysgo.Generated.Unicode
/-!
# Unicode facts the Go code relies on

`unicode.IsSpace`, `unicode.IsLetter`, `unicode.IsDigit`, `unicode.ToLower` as searches over the tables dumped from the Go
toolchain (`Ysgo/Generated/Unicode.lean`, regenerate with `go run /verif/tools/unicode/main.go`), Perl `\s` of Go's regexp
package, and Go's UTF-8 decoding (`utf8.DecodeRune`, which is what `strings.Reader.ReadRune`, `range`, `[]rune(s)`,
`utf8.RuneCountInString`, `strings.TrimSpace` and the regexp machines all use): every byte that does not start a
well-formed encoding is delivered as U+FFFD of width 1.
-/
namespace Ysgo.Unicode
open Ysgo.Generated.Unicode

/-- linear search: is `n` inside one of the inclusive ranges? (used for the ten white space ranges, convenient in proofs) -/
def inRangesLin (rs : List (Nat × Nat)) (n : Nat) : Bool := rs.any fun r => r.1 ≤ n && n ≤ r.2

/-- binary search over sorted disjoint inclusive ranges: the candidates are the indices in `[lo, hi)` -/
def searchRanges (rs : Array (Nat × Nat)) (n : Nat) : Nat → Nat → Nat → Bool
  | 0, _, _ => false
  | fuel + 1, lo, hi =>
    if lo ≥ hi then false else
    let mid := (lo + hi) / 2
    let r := rs.getD mid (1, 0)
    if n < r.1 then searchRanges rs n fuel lo mid
    else if r.2 < n then searchRanges rs n fuel (mid + 1) hi
    else true

/-- 64 halvings are enough for any table with fewer than 2^64 entries -/
def inRanges (rs : Array (Nat × Nat)) (n : Nat) : Bool := searchRanges rs n 64 0 rs.size

/-- Go `unicode.IsSpace` -/
def isSpace (c : Char) : Bool := inRangesLin spaceRanges.toList c.toNat
/-- Go `unicode.IsLetter` -/
def isLetter (c : Char) : Bool := inRanges letterRanges c.toNat
/-- Go `unicode.IsDigit` -/
def isDigit (c : Char) : Bool := inRanges digitRanges c.toNat

/-- the strided range containing `n`, if any (linear: 182 entries, and only consulted for the words that are compared
with `true` / `false`) -/
def findLower (rs : List (Nat × Nat × Nat × Nat)) (n : Nat) : Option Nat :=
  match rs with
  | [] => none
  | (lo, hi, stride, tlo) :: rest =>
    if lo ≤ n && n ≤ hi && (n - lo) % stride = 0 then some (tlo + (n - lo)) else findLower rest n

/-- Go `unicode.ToLower` -/
def toLower (c : Char) : Char :=
  match findLower lowerRanges.toList c.toNat with
  | some m => Char.ofNat m
  | none => c

/-- Perl `\s` of Go's regexp syntax: `[\t\n\f\r ]` (ASCII only, and without `\v`) -/
def isPerlSpace (c : Char) : Bool := c = '\t' || c = '\n' || c = '\x0c' || c = '\r' || c = ' '

/-- U+FFFD, `utf8.RuneError` -/
def runeError : Char := Char.ofNat 0xFFFD

def isCont (b : Nat) : Bool := 0x80 ≤ b && b ≤ 0xBF

/-- `utf8.DecodeRune` at the head of a byte list: the rune and its width (1 for an invalid byte); the list is non-empty.
Follows the `first`/`acceptRanges` tables of package utf8: lead bytes C2..DF (2 bytes), E0 (second byte A0..BF), E1..EC,
ED (second byte 80..9F: no surrogates), EE..EF, F0 (second byte 90..BF), F1..F3, F4 (second byte 80..8F); overlong forms,
surrogates, values above U+10FFFF, stray continuation bytes and truncated sequences are invalid. -/
def decodeRune (b0 : Nat) (rest : List Nat) : Char × Nat :=
  if b0 < 0x80 then (Char.ofNat b0, 1)
  else if 0xC2 ≤ b0 && b0 ≤ 0xDF then
    match rest with
    | b1 :: _ => if isCont b1 then (Char.ofNat ((b0 % 32) * 64 + b1 % 64), 2) else (runeError, 1)
    | _ => (runeError, 1)
  else if 0xE0 ≤ b0 && b0 ≤ 0xEF then
    let lo := if b0 = 0xE0 then 0xA0 else 0x80
    let hi := if b0 = 0xED then 0x9F else 0xBF
    match rest with
    | b1 :: b2 :: _ =>
      if lo ≤ b1 && b1 ≤ hi && isCont b2 then (Char.ofNat ((b0 % 16) * 4096 + (b1 % 64) * 64 + b2 % 64), 3) else (runeError, 1)
    | _ => (runeError, 1)
  else if 0xF0 ≤ b0 && b0 ≤ 0xF4 then
    let lo := if b0 = 0xF0 then 0x90 else 0x80
    let hi := if b0 = 0xF4 then 0x8F else 0xBF
    match rest with
    | b1 :: b2 :: b3 :: _ =>
      if lo ≤ b1 && b1 ≤ hi && isCont b2 && isCont b3 then
        (Char.ofNat ((b0 % 8) * 262144 + (b1 % 64) * 4096 + (b2 % 64) * 64 + b3 % 64), 4)
      else (runeError, 1)
    | _ => (runeError, 1)
  else (runeError, 1)

/-- skip `k` bytes then continue decoding (structural on the byte list) -/
def decodeUtf8Aux : List Nat → Nat → List Char
  | [], _ => []
  | _ :: bs, k + 1 => decodeUtf8Aux bs k
  | b :: bs, 0 =>
    let (c, w) := decodeRune b bs
    c :: decodeUtf8Aux bs (w - 1)

/-- the runes Go sees in a byte string: `for _, r := range string(bytes)` -/
def decodeUtf8 (bs : List Nat) : List Char := decodeUtf8Aux bs 0

end Ysgo.Unicode
