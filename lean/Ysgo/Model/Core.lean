import Ysgo.Model.Map
import Ysgo.Model.NumBuiltins
import Ysgo.Model.Rng
/-!
# Values, expressions and their evaluation (mirror of evaluator.go, base_functions.go and the built-in table)

Go partiality is explicit: every place where the Go code could panic is a `panic` outcome, so "never panics" is a
theorem with content. The host (functions and commands registered by the game) is a parameter `Env σ` acting on a host
state `σ`; built-in functions are concrete. Evaluation threads a world `W σ` = host state + RNG (the only things an
expression can change) and reads the variable store and the visit counters.
-/
namespace Ysgo

inductive Value where
  | num (x : F64) | bool (b : Bool) | str (s : String)
deriving Inhabited

inductive Ty | num | bool | str deriving DecidableEq, Repr
def Value.ty : Value → Ty | .num _ => .num | .bool _ => .bool | .str _ => .str

inductive BinOp | mul | div | mod | add | sub | le | ge | lt | gt | eq | ne | and | or | xor
deriving DecidableEq, Repr

inductive Expr where
  | lit (v : Value) | null | var (n : String) | call (f : String) (args : List Expr)
  | neg (e : Expr) | not (e : Expr) | bin (op : BinOp) (l r : Expr)
deriving Inhabited

inductive ErrKind
  | unknownVar | illTyped | callFailed | unknownFn | null | noValue | argCount | argType | domain
  | unknownNode | unknownCmd | cmdFailed | markup | unmodelled | other
deriving DecidableEq, Repr

inductive PanicSite | nilDeref | index | intn | emptyStack | nilMap | reflectCall | host
deriving DecidableEq, Repr

inductive Outcome (α : Type) where
  | ok (a : α) | err (k : ErrKind) | panic (p : PanicSite)

def Outcome.isPanic {α} : Outcome α → Bool | .panic _ => true | _ => false

abbrev Store := Map Value

/-- how a dispatched host command reports: completed, failed, or still running (completion arrives later) -/
inductive CmdOutcome | done | failed | pending | unknown | panicked
deriving DecidableEq, Repr

/-- the host: functions and commands registered by the game -/
structure Env (σ : Type) where
  call : String → List Value → σ → Outcome (Option Value) × σ
  knows : String → Bool                 -- is a host function registered under this name
  cmd : String → List Value → σ → CmdOutcome × σ

/-- what an expression evaluation can change -/
structure W (σ : Type) where
  host : σ
  rng : Rng.Src

/-! ### operators (evaluateBinaryOperation) -/

def numBin (f : F64 → F64 → F64) (a b : Value) : Outcome Value :=
  match a, b with | .num x, .num y => .ok (.num (f x y)) | _, _ => .err .illTyped
def numCmp (f : F64 → F64 → Bool) (a b : Value) : Outcome Value :=
  match a, b with | .num x, .num y => .ok (.bool (f x y)) | _, _ => .err .illTyped

/-- the operator switch, after both operands are evaluated and the same-type guard passed -/
def binSwitch (op : BinOp) (a b : Value) : Outcome Value :=
  match op with
  | .mul => numBin F64.mul a b | .div => numBin F64.div a b | .mod => numBin F64.fmod a b
  | .add => (match a, b with
      | .num x, .num y => .ok (.num (x.add y)) | .str x, .str y => .ok (.str (x ++ y)) | _, _ => .err .illTyped)
  | .sub => numBin F64.sub a b
  | .le => numCmp F64.le a b | .ge => numCmp F64.ge a b
  | .lt => numCmp F64.lt a b | .gt => numCmp F64.gt a b
  | .eq => (match a, b with
      | .num x, .num y => .ok (.bool (x.eq y)) | .bool x, .bool y => .ok (.bool (x == y))
      | .str x, .str y => .ok (.bool (x == y)) | _, _ => .err .other)
  | .ne => (match a, b with
      | .num x, .num y => .ok (.bool (x.ne y)) | .bool x, .bool y => .ok (.bool (x != y))
      | .str x, .str y => .ok (.bool (x != y)) | _, _ => .err .other)
  | .and => (match a, b with | .bool _, .bool y => .ok (.bool y) | _, _ => .err .illTyped)
  | .or => (match a, b with | .bool _, .bool y => .ok (.bool y) | _, _ => .err .illTyped)
  | .xor => (match a, b with | .bool x, .bool y => .ok (.bool ((x && !y) || (!x && y))) | _, _ => .err .illTyped)

/-- same-type guard then switch -/
def binAfter (op : BinOp) (a b : Value) : Outcome Value :=
  if a.ty ≠ b.ty then .err .illTyped else binSwitch op a b

/-- lazy test on the left value: `some r` = result decided without evaluating the right operand -/
def lazyTest (op : BinOp) (a : Value) : Option (Outcome Value) :=
  match op, a with
  | .and, .bool false => some (.ok a)
  | .and, .bool true => none
  | .and, _ => some (.err .illTyped)
  | .or, .bool true => some (.ok a)
  | .or, .bool false => none
  | .or, _ => some (.err .illTyped)
  | _, _ => none

/-! ### built-in functions (newFunctionStorer + the two closures added by NewDialogueRunner) -/

def builtinNames : List String :=
  ["string", "bool", "number", "dice", "random", "random_range", "round", "round_places", "floor", "ceil", "inc", "dec",
   "decimal", "integer", "visited", "visited_count"]

def maxInt : Int := 9223372036854775807

/-- a converted `func(float64) float64` -/
def conv1 (f : F64 → F64) (args : List Value) : Outcome (Option Value) :=
  match args with
  | [.num x] => .ok (some (.num (f x)))
  | [_] => .err .argType
  | _ => .err .argCount

def display : Value → String
  | .num x => x.display
  | .bool b => if b then "True" else "False"
  | .str s => s

/-- call of a built-in; reads the visit counters, may advance the RNG -/
def builtin (vis : Map Nat) (f : String) (args : List Value) (g : Rng.Src) : Outcome (Option Value) × Rng.Src :=
  match f with
  | "string" => (match args with
      | [v] => (.ok (some (.str (display v))), g)
      | _ => (.err .argCount, g))
  | "bool" => (match args with
      | [.num x] => (.ok (some (.bool (x.ne (F64.zero false)))), g)
      | [.bool b] => (.ok (some (.bool b)), g)
      | [.str s] => (match Num.parseBool s with
          | some b => (.ok (some (.bool b)), g)
          | none => (.err .domain, g))
      | _ => (.err .argCount, g))
  | "number" => (match args with
      | [.num x] => (.ok (some (.num x)), g)
      | [.bool b] => (.ok (some (.num (if b then F64.ofInt 1 else F64.zero false))), g)
      | [.str s] => (match F64.parseFloat s with
          | .val x => (.ok (some (.num x)), g)
          | .err => (.err .domain, g)
          | .unmodelled => (.err .unmodelled, g))
      | _ => (.err .argCount, g))
  | "dice" => (match args with
      | [.num x] =>
        let sides := x.toInt64
        if sides < 1 then (.err .domain, g)
        else (match Rng.intBetween g 1 sides with
          | .val v g => (.ok (some (.num (F64.ofInt v))), g)
          | .panic => (.panic .intn, g)
          | .fuel => (.err .unmodelled, g))
      | [_] => (.err .argType, g)
      | _ => (.err .argCount, g))
  | "random" => (match args with
      | [] => (match Rng.float64 g 100 with
          | some (x, g) => (.ok (some (.num x)), g)
          | none => (.err .unmodelled, g))
      | _ => (.err .argCount, g))
  | "random_range" => (match args with
      | [.num a, .num b] =>
        let lo := a.toInt64
        let hi := b.toInt64
        let span := Rng.wrap64 (hi - lo)
        if hi < lo ∨ span < 0 ∨ span = maxInt then (.err .domain, g)
        else (match Rng.intBetween g lo hi with
          | .val v g => (.ok (some (.num (F64.ofInt v))), g)
          | .panic => (.panic .intn, g)
          | .fuel => (.err .unmodelled, g))
      | [_, _] => (.err .argType, g)
      | _ => (.err .argCount, g))
  | "round" => (conv1 Num.round args, g)
  | "round_places" => (match args with
      | [.num x, .num p] => (.ok (some (.num (Num.roundPlaces x p.toInt64))), g)
      | [_, _] => (.err .argType, g)
      | _ => (.err .argCount, g))
  | "floor" => (conv1 Num.floor args, g)
  | "ceil" => (conv1 Num.ceil args, g)
  | "inc" => (conv1 Num.inc args, g)
  | "dec" => (conv1 Num.dec args, g)
  | "decimal" => (conv1 Num.decimal args, g)
  | "integer" => (conv1 Num.integer args, g)
  | "visited" => (match args with
      | [.str n] => (.ok (some (.bool (vis.contains n))), g)
      | [_] => (.err .argType, g)
      | _ => (.err .argCount, g))
  | "visited_count" => (match args with
      | [.str n] => (.ok (some (.num (F64.ofNat (count vis n)))), g)
      | [_] => (.err .argType, g)
      | _ => (.err .argCount, g))
  | _ => (.err .unknownFn, g)

/-- `functionStorer.call`: host registrations shadow built-ins of the same name; unknown names are errors -/
def callFn {σ} (env : Env σ) (vis : Map Nat) (f : String) (args : List Value) (w : W σ) : Outcome (Option Value) × W σ :=
  if env.knows f then
    match env.call f args w.host with
    | (r, h) => (r, { w with host := h })
  else if builtinNames.contains f then
    match builtin vis f args w.rng with
    | (r, g) => (r, { w with rng := g })
  else (.err .unknownFn, w)

/-! ### evaluation (evaluateExpression / evaluateFunctionCall) -/

mutual
def eval {σ} (env : Env σ) (st : Store) (vis : Map Nat) : Expr → W σ → Outcome Value × W σ
  | .lit v, w => (.ok v, w)
  | .null, w => (.err .null, w)
  | .var n, w => (match st.get n with | some v => (.ok v, w) | none => (.err .unknownVar, w))
  | .call f args, w =>
    match evalArgs env st vis args w with
    | (.ok vs, w) =>
      (match callFn env vis f vs w with
       | (.ok (some v), w) => (.ok v, w)
       | (.ok none, w) => (.err .noValue, w)
       | (.err k, w) => (.err k, w)
       | (.panic p, w) => (.panic p, w))
    | (.err k, w) => (.err k, w)
    | (.panic p, w) => (.panic p, w)
  | .neg e, w =>
    (match eval env st vis e w with
     | (.ok (.num x), w) => (.ok (.num x.neg), w)
     | (.ok _, w) => (.err .illTyped, w)
     | r => r)
  | .not e, w =>
    (match eval env st vis e w with
     | (.ok (.bool b), w) => (.ok (.bool (!b)), w)
     | (.ok _, w) => (.err .illTyped, w)
     | r => r)
  | .bin op l r, w =>
    match eval env st vis l w with
    | (.ok a, w) =>
      (match lazyTest op a with
       | some res => (res, w)
       | none =>
         match eval env st vis r w with
         | (.ok b, w) => (binAfter op a b, w)
         | res => res)
    | res => res
def evalArgs {σ} (env : Env σ) (st : Store) (vis : Map Nat) : List Expr → W σ → Outcome (List Value) × W σ
  | [], w => (.ok [], w)
  | e :: es, w =>
    match eval env st vis e w with
    | (.ok v, w) =>
      (match evalArgs env st vis es w with
       | (.ok vs, w) => (.ok (v :: vs), w)
       | r => r)
    | (.err k, w) => (.err k, w)
    | (.panic p, w) => (.panic p, w)
end

end Ysgo
