import Ysgo.Model.Core
/-!
# Command argument words (mirror of internal/tree/tree.go `rearrange`, `split`, `valueFromCommandText` and of the
# CommandMode keyword rules of YarnSpinnerLexer.g4)

A generic command `<<name word {expr} word …>>` reaches the tree builder as a sequence of `COMMAND_TEXT` tokens (raw
text, arbitrarily chunked: the lexer always delivers the first character on its own) and expressions. `rearrange`
concatenates consecutive texts, splits them with `strings.Fields` (any Unicode whitespace; repaired) and classifies every
word with `valueFromCommandText` (repaired: only words matching the grammar's NUMBER shape become numbers); expressions
stay where they are. Everything works on `List Char` (Go runes).
-/
namespace Ysgo.CmdArgs
open Ysgo

/-! ### strings.Fields -/

/-- Go `unicode.IsSpace`: the 25 code points with the Unicode property White_Space -/
def isSpaceGo (c : Char) : Bool :=
  let n := c.toNat
  (0x09 ≤ n && n ≤ 0x0D) || n = 0x20 || n = 0x85 || n = 0xA0 || n = 0x1680 || (0x2000 ≤ n && n ≤ 0x200A) ||
  n = 0x2028 || n = 0x2029 || n = 0x202F || n = 0x205F || n = 0x3000

/-- the scan of `strings.Fields` with the word being accumulated (reversed) -/
def fieldsAux : List Char → List Char → List (List Char)
  | [], acc => if acc.isEmpty then [] else [acc.reverse]
  | c :: cs, acc =>
    if isSpaceGo c then (if acc.isEmpty then fieldsAux cs [] else acc.reverse :: fieldsAux cs [])
    else fieldsAux cs (c :: acc)

/-- `strings.Fields`: the maximal runs of non-space characters, in order -/
def fields (s : List Char) : List (List Char) := fieldsAux s []

/-! ### valueFromCommandText -/

def isDigit (c : Char) : Bool := '0' ≤ c && c ≤ '9'

/-- the optional minus sign of `commandNumberRegexp` -/
def stripMinus : List Char → List Char
  | '-' :: r => r
  | r => r

/-- `[0-9]+(\.[0-9]+)?` anchored at both ends -/
def numberBody (r : List Char) : Bool :=
  let ip := r.takeWhile isDigit
  match r.dropWhile isDigit with
  | [] => !ip.isEmpty
  | '.' :: fp => !ip.isEmpty && !fp.isEmpty && fp.all isDigit
  | _ => false

/-- `commandNumberRegexp = ^-?[0-9]+(\.[0-9]+)?$` (the grammar's NUMBER token with an optional minus sign) -/
def isNumberWord (w : List Char) : Bool := numberBody (stripMinus w)

/-- a number word read with `strconv.ParseFloat`; a parse error — only overflow is possible for such a word — leaves
the word a string -/
def numberValue (w : List Char) : Value :=
  match F64.parseFloat (String.ofList w) with
  | .val x => .num x
  | _ => .str (String.ofList w)

/-- `valueFromCommandText`: `true`/`false` are booleans, number words are numbers, everything else is the string itself -/
def classify (w : List Char) : Value :=
  if w = "true".toList then .bool true
  else if w = "false".toList then .bool false
  else if !isNumberWord w then .str (String.ofList w)
  else numberValue w

/-! ### rearrange -/

/-- `CommandStatementElement` as the listener builds it: a COMMAND_TEXT token or an expression. Go tells them apart by
`text != ""`; the lexer never produces an empty COMMAND_TEXT. -/
inductive Elem (α : Type) where
  | text (s : List Char)
  | expr (e : α)

/-- an element after `rearrange`: a classified word (a literal expression), an expression kept in place, or — only for
an element that has neither text nor expression — the element itself with its nil expression -/
inductive Arg (α : Type) where
  | word (v : Value)
  | expr (e : α)
  | hole

/-- `CommandStatement.split` -/
def split {α} (s : List Char) : List (Arg α) := (fields s).map fun w => .word (classify w)

/-- the loop of `rearrange` with its string accumulator: a text is appended to the accumulator; anything else flushes the
accumulator (split into words) and is kept; the end of the list flushes -/
def rearrangeAux {α} : List (Elem α) → List Char → List (Arg α)
  | [], acc => split acc
  | .text s :: rest, acc =>
    if s.isEmpty then split acc ++ .hole :: rearrangeAux rest []      -- `isText` is false for an empty text
    else rearrangeAux rest (acc ++ s)
  | .expr e :: rest, acc => split acc ++ .expr e :: rearrangeAux rest []

/-- `CommandStatement.rearrange` -/
def rearrange {α} (els : List (Elem α)) : List (Arg α) := rearrangeAux els []

/-! ### the head of a command: which token the lexer produces first in CommandMode -/

inductive Keyword | if_ | elseif | else_ | set | endif | call | declare | jump | enum | case_ | endenum | local_
deriving DecidableEq, Repr

/-- does the keyword rule demand a following `[\p{White_Space}]`, allow one, or end with the keyword -/
inductive WsReq | required | optional | absent
deriving DecidableEq, Repr

/-- the keyword rules of `mode CommandMode` in grammar order -/
def keywordRules : List (Keyword × List Char × WsReq) :=
  [(.if_, "if".toList, .required), (.elseif, "elseif".toList, .required), (.else_, "else".toList, .optional),
   (.set, "set".toList, .required), (.endif, "endif".toList, .absent), (.call, "call".toList, .required),
   (.declare, "declare".toList, .required), (.jump, "jump".toList, .required), (.enum, "enum".toList, .required),
   (.case_, "case".toList, .required), (.endenum, "endenum".toList, .optional), (.local_, "local".toList, .required)]

/-- the first token on the default channel -/
inductive Head where
  | kw (k : Keyword)   -- a keyword token: the statement is not a generic command
  | cmdEnd             -- `>>` (COMMAND_END): an empty command
  | newline            -- COMMAND_NEWLINE
  | text               -- COMMAND_ARBITRARY, retyped COMMAND_TEXT: a generic command
  | eof
deriving DecidableEq, Repr

/-- `[\p{White_Space}]`: the same 25 code points as `unicode.IsSpace` -/
def isWhiteSpace (c : Char) : Bool := isSpaceGo c

/-- the part of a keyword rule after the spelling (of length `n`), given the next character if any -/
def afterKeyword (ws : WsReq) (n : Nat) (next : Option Char) : Option Nat :=
  match ws with
  | .required => (match next with
      | some c => if isWhiteSpace c then some (n + 1) else none
      | none => none)
  | .optional => (match next with
      | some c => if isWhiteSpace c then some (n + 1) else some n
      | none => some n)
  | .absent => some n

/-- length matched by one keyword rule at the start of `t` -/
def matchKeyword (spelling : List Char) (ws : WsReq) (t : List Char) : Option Nat :=
  if spelling.isPrefixOf t then afterKeyword ws spelling.length (t.drop spelling.length).head? else none

/-- ANTLR's choice among the keyword rules: the longest match, the earliest rule on a tie -/
def bestKeyword (t : List Char) : List (Keyword × List Char × WsReq) → Option (Keyword × Nat) → Option (Keyword × Nat)
  | [], best => best
  | (k, sp, ws) :: rules, best =>
    match matchKeyword sp ws t, best with
    | some n, none => bestKeyword t rules (some (k, n))
    | some n, some (k', n') => bestKeyword t rules (if n > n' then some (k, n) else some (k', n'))
    | none, _ => bestKeyword t rules best

/-- the token at the start of `t` in CommandMode, `t` not starting with a blank or a tab. COMMAND_NEWLINE precedes the
keyword rules, COMMAND_END (2 characters) and COMMAND_ARBITRARY (1 character) follow them; every keyword match is longer
than one character and no keyword starts with `>`, a newline or a carriage return. -/
def nextToken (t : List Char) : Head :=
  match t with
  | [] => .eof
  | c :: rest =>
    if c = '\n' || c = '\r' then .newline
    else match bestKeyword t keywordRules none with
      | some (k, _) => .kw k
      | none => (match c, rest with | '>', '>' :: _ => .cmdEnd | _, _ => .text)

/-- the first default-channel token of a command whose text (everything after `<<`) is `t`: COMMAND_WS (`[ \t]+`, hidden
channel) is skipped first -/
def cmdHead (t : List Char) : Head := nextToken (t.dropWhile fun c => c = ' ' || c = '\t')

/-! ### from the evaluated elements to the dispatch (the part of `executeCommandStatement` after evaluation) -/

inductive Dispatch where
  | missingName            -- no element at all: "missing command name"
  | nameNotString          -- "first element of command must be a string"
  | stop                   -- `<<stop>>`: handled inline, never dispatched
  | call (name : String) (args : List Value)

def dispatchOf : List Value → Dispatch
  | [] => .missingName
  | .str name :: args => if name = "stop" then .stop else .call name args
  | _ :: _ => .nameNotString

end Ysgo.CmdArgs
