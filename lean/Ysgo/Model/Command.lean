import Ysgo.Model.F64
/-!
# The duration arithmetic of the built-in `<<wait n>>` command (command_storer.go `secondsToDuration`)

`nanoseconds := seconds * float64(time.Second)`; saturated at `math.MaxInt64` when `nanoseconds >= float64(math.MaxInt64)`
(= 2^63), otherwise converted with Go's `int64(f)` (truncation). `time.Sleep(d)` sleeping at least `d` is the trusted
runtime contract.
-/
namespace Ysgo.Command
open Ysgo

def nanosPerSecond : F64 := F64.ofNat 1000000000
def maxInt64 : Int := 9223372036854775807

def waitNanos (seconds : F64) : Int :=
  let ns := seconds.mul nanosPerSecond
  if ns.ge (F64.ofNat P63) then maxInt64 else ns.toInt64

end Ysgo.Command
