import Ysgo.Model.Queue
/-!
# `container.Stack` — literal mirror of `/repo/internal/container/stack.go`

`type Stack[T any] []T`: the model keeps the elements in slice order (bottom first, top last), exactly like the Go
slice. `Pop` and `Peek` panic on the empty stack: explicit `Outcome.panic`, state unchanged.
-/
namespace Ysgo.Stack
open Ysgo.Container

/-- the Go slice, bottom first -/
abbrev Stack (α : Type) := List α

variable {α : Type} [Inhabited α]

def empty : Stack α := []

/-- `*s = append(*s, i)` -/
def push (s : Stack α) (x : α) : Stack α := s ++ [x]

/-- `*s = append(*s, i...)` -/
def pushAll (s : Stack α) (xs : List α) : Stack α := s ++ xs

/-- `len(*s)` -/
def size (s : Stack α) : Nat := s.length

/-- `l := len(*s); if l == 0 { panic }; i := (*s)[l-1]; *s = (*s)[:l-1]; return i` -/
def pop (s : Stack α) : Outcome (α × Stack α) :=
  let l := s.length
  if l = 0 then .panic else .ok (s.getD (l - 1) default, s.take (l - 1))

/-- `l := len(*s); if l == 0 { panic }; return (*s)[l-1]` -/
def peek (s : Stack α) : Outcome α :=
  let l := s.length
  if l = 0 then .panic else .ok (s.getD (l - 1) default)

/-- `*s = (*s)[:0]` -/
def clear (s : Stack α) : Stack α := s.take 0

/-! ## operation sequences (what the hook `verifhook.StackRun` drives) -/

inductive Op (α : Type) where
  | push (x : α)
  | pushAll (xs : List α)
  | pop
  | peek
  | size
  | clear
deriving Repr

inductive Obs (α : Type) where
  | done            -- Push / PushAll / Clear returned
  | val (x : α)     -- Pop / Peek returned x
  | size (n : Nat)  -- Size returned n
  | panic           -- Pop / Peek panicked (the state is unchanged)
deriving Repr, DecidableEq, BEq

def step (s : Stack α) : Op α → Obs α × Stack α
  | .push x => (.done, push s x)
  | .pushAll xs => (.done, pushAll s xs)
  | .pop => (match pop s with
      | .ok (r, s') => (.val r, s')
      | .panic => (.panic, s))
  | .peek => (match peek s with
      | .ok r => (.val r, s)
      | .panic => (.panic, s))
  | .size => (.size (size s), s)
  | .clear => (.done, clear s)

/-- per operation: its result and the size reported afterwards -/
def run : Stack α → List (Op α) → List (Obs α × Nat)
  | _, [] => []
  | s, op :: ops => let r := step s op; (r.1, size r.2) :: run r.2 ops

end Ysgo.Stack
