import Ysgo.Model.Fmt
/-!
# The numeric built-in functions of base_functions.go, on `F64`

`round`, `round_places`, `floor`, `ceil`, `inc`, `dec`, `decimal`, `integer` exactly as the Go code composes them
from `math.Round/Floor/Ceil/Trunc/Pow10` and float arithmetic, and `strconv.ParseBool`.
-/
namespace Ysgo.Num
open Ysgo

def one : F64 := F64.ofInt 1

def round (f : F64) : F64 := F64.round f
/-- `math.Round(f*math.Pow10(places)) / math.Pow10(places)` -/
def roundPlaces (f : F64) (places : Int) : F64 :=
  let t := F64.pow10 places
  F64.div (F64.round (F64.mul f t)) t
def floor (f : F64) : F64 := F64.floor f
def ceil (f : F64) : F64 := F64.ceil f
/-- `floor(f) + 1` -/
def inc (f : F64) : F64 := F64.add (F64.floor f) one
/-- `ceil(f) - 1` -/
def dec (f : F64) : F64 := F64.sub (F64.ceil f) one
def integer (f : F64) : F64 := F64.trunc f
/-- `f - integer(f)` -/
def decimal (f : F64) : F64 := F64.sub f (F64.trunc f)

/-- `strconv.ParseBool` -/
def parseBool (s : String) : Option Bool :=
  if s = "1" ∨ s = "t" ∨ s = "T" ∨ s = "TRUE" ∨ s = "true" ∨ s = "True" then some true
  else if s = "0" ∨ s = "f" ∨ s = "F" ∨ s = "FALSE" ∨ s = "false" ∨ s = "False" then some false
  else none

end Ysgo.Num
