import Ysgo.Generated.RngCooked
import Ysgo.Model.F64
/-!
# Go's `math/rand` seeded source (ALFG 607/273 + `seedrand` LCG) and the derivations used by ysgo

Reproduces `rand.New(rand.NewSource(seed))` bit for bit: `Uint64`, `Int63`, `Int31`, `Int31n`, `Int63n`, `Intn`,
`Float64`; `internal/rng`: `seedToInt64` (base 36 with int64 wrap-around), `IntBetween`, `Float`.
Rejection loops take fuel; running out of fuel is reported as `none` (the driver prints UNMODELLED).
-/
namespace Ysgo.Rng
open Ysgo

def int32max : Int := 2147483647

def seedrand (x : Int) : Int :=
  let hi := x.tdiv 44488
  let lo := x.tmod 44488
  let x := 48271 * lo - 3399 * hi
  if x < 0 then x + int32max else x

def toU64 (i : Int) : UInt64 := (i % (P64 : Int)).toNat.toUInt64

structure Src where
  vec : Array UInt64
  tap : Nat
  feed : Nat

instance : Inhabited Src := ⟨⟨#[], 0, 0⟩⟩

def seed (s : Int) : Src := Id.run do
  let mut sd := s.tmod int32max
  if sd < 0 then sd := sd + int32max
  if sd = 0 then sd := 89482311
  let mut x := sd
  for _ in [0:20] do x := seedrand x
  let mut vec : Array UInt64 := Array.mkEmpty 607
  for i in [0:607] do
    x := seedrand x
    let mut u : UInt64 := toU64 x <<< 40
    x := seedrand x
    u := u ^^^ (toU64 x <<< 20)
    x := seedrand x
    u := u ^^^ toU64 x
    u := u ^^^ toU64 (Generated.rngCooked[i]!)
    vec := vec.push u
  return { vec, tap := 0, feed := 607 - 273 }

def uint64 (g : Src) : UInt64 × Src :=
  let tap := if g.tap = 0 then 606 else g.tap - 1
  let feed := if g.feed = 0 then 606 else g.feed - 1
  let x := g.vec[feed]! + g.vec[tap]!
  (x, { vec := g.vec.set! feed x, tap, feed })

def int63 (g : Src) : Nat × Src :=
  let (x, g) := uint64 g
  (x.toNat % P63, g)

def int31 (g : Src) : Nat × Src :=
  let (x, g) := int63 g
  (x / 4294967296, g)

def isPow2 (n : Nat) : Bool := n &&& (n - 1) == 0

/-- draw until the value is ≤ max -/
def rejLoop (draw : Src → Nat × Src) (max : Nat) : Nat → Src → Option (Nat × Src)
  | 0, _ => none
  | fuel + 1, g =>
    let (v, g) := draw g
    if v > max then rejLoop draw max fuel g else some (v, g)

def int31n (g : Src) (n : Nat) : Option (Nat × Src) :=
  if isPow2 n then
    let (v, g) := int31 g
    some (v &&& (n - 1), g)
  else
    let max := 2147483647 - (2147483648 % n)
    (rejLoop int31 max 1000 g).map fun (v, g) => (v % n, g)

def int63n (g : Src) (n : Nat) : Option (Nat × Src) :=
  if isPow2 n then
    let (v, g) := int63 g
    some (v &&& (n - 1), g)
  else
    let max := P63 - 1 - (P63 % n)
    (rejLoop int63 max 1000 g).map fun (v, g) => (v % n, g)

inductive DrawRes (α : Type) where
  | panic                 -- Go: `invalid argument to Intn`
  | fuel                  -- rejection loop fuel exhausted (outside the model)
  | val (v : α) (g : Src)

/-- `Rand.Intn` for an `int` argument -/
def intn (g : Src) (n : Int) : DrawRes Nat :=
  if n ≤ 0 then .panic
  else
    let r := if n ≤ 2147483647 then int31n g n.toNat else int63n g n.toNat
    match r with
    | some (v, g) => .val v g
    | none => .fuel

/-- `Rand.Float64`: `float64(Int63()) / (1<<63)`, redrawn when it rounds to 1 -/
def float64 (g : Src) : Nat → Option (F64 × Src)
  | 0 => none
  | fuel + 1 =>
    let (v, g) := int63 g
    let f := (F64.ofNat v).div (F64.ofNat P63)
    if f.eq (F64.ofInt 1) then float64 g fuel else some (f, g)

/-- wrap an integer into int64 -/
def wrap64 (i : Int) : Int :=
  let r := i % (P64 : Int)
  if r ≥ (P63 : Int) then r - (P64 : Int) else r

/-- one step of `seedToInt64`: `result = radix*result + v` in int64 arithmetic, or failure on an invalid rune -/
def seedStep (acc : Option Int) (c : Char) : Option Int :=
  match acc with
  | none => none
  | some r =>
    if '0' ≤ c ∧ c ≤ '9' then some (wrap64 (36 * r + (c.toNat - 48)))
    else if 'a' ≤ c ∧ c ≤ 'z' then some (wrap64 (36 * r + (c.toNat - 97 + 10)))
    else none

/-- `internal/rng.seedToInt64`: base 36 over `[0-9a-z]`, int64 wrap-around; `none` = invalid rune -/
def seedToInt64 (s : String) : Option Int := s.toList.foldl seedStep (some 0)

/-- `RNG.IntBetween(lo, hi) = lo + Intn(hi-lo+1)` in int64 arithmetic -/
def intBetween (g : Src) (lo hi : Int) : DrawRes Int :=
  match intn g (wrap64 (hi - lo + 1)) with
  | .val v g => .val (wrap64 (lo + v)) g
  | .panic => .panic
  | .fuel => .fuel

end Ysgo.Rng
