import Ysgo.Model.Queue
import Ysgo.Model.Stack
import Ysgo.Model.Indent
/-!
# `IndentAwareLexer.NextToken` — the plumbing of `/repo/internal/parser/indent_aware_lexer.go`, call by call

`Ysgo/Model/Indent.lean` computes the ENQUEUE order of the token kinds (`Indent.lex`). This file models what sits
around it, literally, over the existing container models `Ysgo.Queue` (ring buffer) and `Ysgo.Stack` (slice):

```go
type IndentAwareLexer struct {
    *antlr.BaseLexer
    hitEOF        bool
    pendingTokens container.Queue[antlr.Token]
    indents       container.Stack[int]
}
```

* The embedded base lexer is a parameter: the list `base` of the tokens `BaseLexer.NextToken()` is still going to
  return. Only three things are read from a base token: whether its type is `NEWLINE` (then its `LineInfo`: what
  `getLengthOfNewlineToken` and `nextLineIsBlankOrComment` compute for it, exactly as in `Indent.lean`), whether it
  is `EOF`, or anything else (an opaque payload that is passed through). When the list is exhausted the base lexer
  returns `EOF`, again and again, as ANTLR's `BaseLexer.NextToken` does at the end of the input. The list may be
  arbitrary (it may even contain `EOF` in the middle — ANTLR never produces that, the theorems do not need it).
* `pendingTokens` is a `Queue (Option Tok)`: the element type of the Go queue is the interface `antlr.Token` whose
  zero value is `nil` = `none` (the value `make([]T, n)` fills unused slots with, `default` of the `Queue` model).
  Everything that is enqueued is `some _`.
* Go partiality is explicit: `Queue.dequeue`, `Stack.pop`, `Stack.peek` return `Outcome.panic` where Go panics and
  the functions below propagate it. The two `for` loops get the fuel `indents.Size() + 1` (they pop once per
  iteration); running out of it is reported as `panic` too. `Ysgo/Lemmas/NextToken.lean` shows that neither happens.
* `NextToken`'s `return nil` is the result `none`.

Second half of the file: the specification `expected` (what the parser is to receive, built from
`Indent.handleNewline`-style list functions that also carry the widths written into the synthetic tokens) and the
projections used to relate it to `Indent.lex`.
-/
namespace Ysgo.NextToken
open Ysgo.Container
open Ysgo.Indent (LineInfo)

/-- a token of the underlying ANTLR lexer, as far as `IndentAwareLexer` looks at it -/
inductive BaseTok where
  /-- type `NEWLINE`; `li` is what the indentation logic reads from it and from the characters behind it -/
  | nl (li : LineInfo)
  /-- type `antlr.TokenEOF` -/
  | eof
  /-- any other type (on any channel); the payload is opaque -/
  | other (payload : Nat)
deriving DecidableEq, Repr

/-- a token handed to the parser -/
inductive Tok where
  /-- the base `NEWLINE` token, passed on unchanged -/
  | nl (li : LineInfo)
  /-- synthetic `INDENT` with text `<indent to N>` -/
  | indent (to : Nat)
  /-- synthetic `DEDENT` with text `<dedent from N>` -/
  | dedent (frm : Nat)
  /-- the base `EOF` token, passed on unchanged -/
  | eof
  /-- any other base token, passed on unchanged -/
  | other (payload : Nat)
deriving DecidableEq, Repr

/-- the fields of `IndentAwareLexer` (the base lexer reduced to its future output) -/
structure State where
  pending : Queue.Queue (Option Tok)
  indents : Stack.Stack Nat
  hitEOF  : Bool
  base    : List BaseTok
deriving Repr

/-- `NewYarnSpinnerLexer(input)`: all fields are Go zero values -/
def init (base : List BaseTok) : State :=
  { pending := Queue.empty, indents := Stack.empty, hitEOF := false, base := base }

/-- `ial.BaseLexer.NextToken()`: the next base token and the rest; `EOF` for ever once the input is used up -/
def baseNext : List BaseTok → BaseTok × List BaseTok
  | [] => (.eof, [])
  | b :: bs => (b, bs)

/-- `ial.pendingTokens.Enqueue(token)` (also the last statement of `insertToken`, whose other statements only compute
the position and the text of the synthetic token) -/
def enqueue (s : State) (t : Tok) : State := { s with pending := Queue.enqueue s.pending (some t) }

/-- `insertToken("<indent to N>", INDENT)` / `insertToken("<dedent from N>", DEDENT)` -/
def insertToken (s : State) (t : Tok) : State := enqueue s t

/-- `previousIndent := 0; if ial.indents.Size() > 0 { previousIndent = ial.indents.Peek() }` -/
def peekOr0 (st : Stack.Stack Nat) : Outcome Nat :=
  if Stack.size st > 0 then Stack.peek st else .ok 0

/-- the loop of `handleNewLineToken`; arguments: fuel, `currentIndentationLength`, `previousIndent`
```go
for currentIndentationLength < previousIndent {
    previousIndent = ial.indents.Pop()
    ial.insertToken("<dedent from "+strconv.Itoa(previousIndent)+">", YarnSpinnerLexerDEDENT)
    if ial.indents.Size() > 0 { previousIndent = ial.indents.Peek() } else { previousIndent = 0 }
}
``` -/
def dedentLoop : Nat → Nat → Nat → State → Outcome State
  | 0, _, _, _ => .panic
  | fuel + 1, cur, prev, s =>
    if cur < prev then
      match Stack.pop s.indents with
      | .panic => .panic
      | .ok (popped, st') =>
        let s := insertToken { s with indents := st' } (.dedent popped)
        match peekOr0 s.indents with
        | .panic => .panic
        | .ok prev' => dedentLoop fuel cur prev' s
    else .ok s

/-- `handleNewLineToken(currentToken)`
```go
ial.pendingTokens.Enqueue(currentToken)
if ial.nextLineIsBlankOrComment() { return }
currentIndentationLength := ial.getLengthOfNewlineToken(currentToken)
previousIndent := 0
if ial.indents.Size() > 0 { previousIndent = ial.indents.Peek() }
if currentIndentationLength > previousIndent {
    ial.indents.Push(currentIndentationLength)
    ial.insertToken("<indent to "+strconv.Itoa(currentIndentationLength)+">", YarnSpinnerLexerINDENT)
} else if currentIndentationLength < previousIndent {
    for currentIndentationLength < previousIndent { ... }
}
``` -/
def handleNewLineToken (s : State) (li : LineInfo) : Outcome State :=
  let s := enqueue s (.nl li)
  if li.noise then .ok s
  else
    let cur := li.width
    match peekOr0 s.indents with
    | .panic => .panic
    | .ok prev =>
      if cur > prev then
        .ok (insertToken { s with indents := Stack.push s.indents cur } (.indent cur))
      else if cur < prev then dedentLoop (Stack.size s.indents + 1) cur prev s
      else .ok s

/-- the loop of `handleEndOfFileToken`
```go
for ial.indents.Size() > 0 {
    previousIndent := ial.indents.Pop()
    ial.insertToken("<dedent from "+strconv.Itoa(previousIndent)+">", YarnSpinnerLexerDEDENT)
}
``` -/
def eofLoop : Nat → State → Outcome State
  | 0, _ => .panic
  | fuel + 1, s =>
    if Stack.size s.indents > 0 then
      match Stack.pop s.indents with
      | .panic => .panic
      | .ok (popped, st') => eofLoop fuel (insertToken { s with indents := st' } (.dedent popped))
    else .ok s

/-- `handleEndOfFileToken(currentToken)`: the loop, then `ial.pendingTokens.Enqueue(currentToken)` -/
def handleEndOfFileToken (s : State) : Outcome State :=
  match eofLoop (Stack.size s.indents + 1) s with
  | .panic => .panic
  | .ok s => .ok (enqueue s .eof)

/-- `checkNextToken()`
```go
currentToken := ial.BaseLexer.NextToken()
switch currentToken.GetTokenType() {
case YarnSpinnerLexerNEWLINE: ial.handleNewLineToken(currentToken)
case antlr.TokenEOF:          ial.handleEndOfFileToken(currentToken)
default:                      ial.pendingTokens.Enqueue(currentToken)
}
``` -/
def checkNextToken (s : State) : Outcome State :=
  let r := baseNext s.base
  let s := { s with base := r.2 }
  match r.1 with
  | .nl li => handleNewLineToken s li
  | .eof => handleEndOfFileToken s
  | .other p => .ok (enqueue s (.other p))

/-- `return ial.pendingTokens.Dequeue()` -/
def deliver (s : State) : Outcome (Option Tok × State) :=
  match Queue.dequeue s.pending with
  | .panic => .panic
  | .ok (t, q) => .ok (t, { s with pending := q })

/-- `NextToken()`; the result `none` is Go's `nil` token
```go
if ial.hitEOF && ial.pendingTokens.Size() > 0 { return ial.pendingTokens.Dequeue() }
ial.checkNextToken()
if ial.pendingTokens.Size() > 0 { return ial.pendingTokens.Dequeue() }
return nil
``` -/
def nextToken (s : State) : Outcome (Option Tok × State) :=
  if s.hitEOF && Queue.size s.pending > 0 then deliver s
  else
    match checkNextToken s with
    | .panic => .panic
    | .ok s =>
      if Queue.size s.pending > 0 then deliver s
      else .ok (none, s)

/-- why a sequence of `NextToken` calls ended -/
inductive Stop where
  /-- the `EOF` token has been delivered: the parser stops asking -/
  | eof
  /-- `NextToken` returned `nil` (`CommonTokenStream.fetch` would dereference it) -/
  | nil
  /-- `NextToken` panicked -/
  | panic
  /-- the fuel of `pullGo` is used up (not an event of the Go program) -/
  | fuel
deriving DecidableEq, Repr

/-- What `antlr.CommonTokenStream` does with the lexer: call `NextToken` until a token of type `EOF` has been
returned. Result: the tokens received, in order, and why the calls ended. At most `fuel` calls. -/
def pullGo : Nat → State → List Tok × Stop
  | 0, _ => ([], .fuel)
  | fuel + 1, s =>
    match nextToken s with
    | .panic => ([], .panic)
    | .ok (none, _) => ([], .nil)
    | .ok (some t, s') =>
      if t = .eof then ([t], .eof)
      else let r := pullGo fuel s'; (t :: r.1, r.2)

/-- the tokens the parser receives -/
def pull (fuel : Nat) (s : State) : List Tok := (pullGo fuel s).1

/-- the states the lexer goes through in the course of `n` calls of `NextToken` (the initial one first; a panic ends
the list) -/
def states : Nat → State → List State
  | 0, s => [s]
  | n + 1, s => s :: (match nextToken s with
      | .ok (_, s') => states n s'
      | .panic => [])

/-! ## specification: what the parser is to receive -/

/-- `Indent.popWhile` with the widths: the popped levels become `DEDENT from <level>` -/
def popWhile (w : Nat) : List Nat → List Nat × List Tok
  | [] => ([], [])
  | top :: st =>
    if w < top then
      let r := popWhile w st
      (r.1, .dedent top :: r.2)
    else (top :: st, [])

/-- `Indent.handleNewline` with the widths and the NEWLINE token itself; the stack is a list, top first -/
def newlineToks (st : List Nat) (li : LineInfo) : List Nat × List Tok :=
  if li.noise then (st, [.nl li])
  else
    let prev := st.headD 0
    if li.width > prev then (li.width :: st, [.nl li, .indent li.width])
    else if li.width < prev then
      let r := popWhile li.width st
      (r.1, .nl li :: r.2)
    else (st, [.nl li])

/-- `Indent.handleEOF` with the widths -/
def eofToks (st : List Nat) : List Tok := st.map .dedent ++ [.eof]

/-- the tokens one `checkNextToken` call enqueues, the stack and the base tokens afterwards -/
def stepSpec (st : List Nat) : List BaseTok → List Tok × List Nat × List BaseTok
  | [] => (eofToks st, [], [])
  | .eof :: bs => (eofToks st, [], bs)
  | .other p :: bs => ([.other p], st, bs)
  | .nl li :: bs => ((newlineToks st li).2, (newlineToks st li).1, bs)

/-- The token sequence up to and including the first `EOF`, for the base tokens `bs` from the stack `st`: every
ordinary base token itself; every base NEWLINE itself, directly followed by the synthetic tokens it causes; for the
base `EOF` (or the end of the list) one `DEDENT` per open level and the `EOF`. -/
def expected : List Nat → List BaseTok → List Tok
  | st, [] => eofToks st
  | st, .eof :: _ => eofToks st
  | st, .other p :: bs => .other p :: expected st bs
  | st, .nl li :: bs => (newlineToks st li).2 ++ expected (newlineToks st li).1 bs

/-- the kind of a token in the vocabulary of `Indent.lex`; ordinary tokens have none -/
def kind : Tok → Option Indent.Tok
  | .nl _ => some .nl
  | .indent _ => some .indent
  | .dedent _ => some .dedent
  | .eof => some .eof
  | .other _ => none

/-- the payload of an ordinary token -/
def payload : Tok → Option Nat
  | .other p => some p
  | _ => none

/-- the `LineInfo`s of the base NEWLINE tokens before the first base `EOF`: the argument of `Indent.lex` -/
def infos : List BaseTok → List LineInfo
  | [] => []
  | .eof :: _ => []
  | .other _ :: bs => infos bs
  | .nl li :: bs => li :: infos bs

/-- the payloads of the ordinary base tokens before the first base `EOF` -/
def payloads : List BaseTok → List Nat
  | [] => []
  | .eof :: _ => []
  | .other p :: bs => p :: payloads bs
  | .nl _ :: bs => payloads bs

end Ysgo.NextToken
