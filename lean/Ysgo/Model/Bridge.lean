import Ysgo.Model.Core
/-!
# The reflect bridge for converted host functions and commands (mirror of function_storer.go / command_storer.go)

`ConvertAndAddFunction` / `ConvertAndAddCommand` inspect a Go value with `reflect`, refuse what cannot be bridged and
otherwise wrap it: count check, per-parameter conversion of the yarn values, `reflect.Value.Call`, conversion of the
results. The model follows the code as it is NOW (after the `fix:` commits):

* `reflect.TypeOf(f) == nil` (nil interface) and `Kind() != Func` are refused with an error;
* the converter of a parameter is chosen by `Kind` and its result is `Convert`ed to the declared parameter type
  (`convertingTo`), so that it is identical to it;
* a single command result is accepted when it is `ConvertibleTo(error)` or a channel `ConvertibleTo(<-chan error)`.

Go partiality is explicit. `reflectCall` is the model of `reflect.Value.Call`: it PANICS unless the argument count fits
and the type of every passed value is identical to the parameter type (for the parameter kinds the gate lets through —
all of them defined types — Go's assignability is type identity), and it panics on a nil function. The host function is
a parameter `Host`; a host that does not return values of its declared result types is a panic of site `host`
(`reflect.MakeFunc` panics in that case; a statically typed Go function cannot do it).
-/
namespace Ysgo.Bridge
open Ysgo

/-! ### Go types and values as `reflect` sees them -/

/-- the kinds with a predeclared type that matter to the bridge -/
inductive Kind | int | int8 | int16 | int32 | int64 | uint | float32 | float64 | bool | string
deriving DecidableEq, Repr

/-- kinds the bridge never supports, as parameter or as result -/
inductive Other | struct | slice | ptr | any | func | map
deriving DecidableEq, Repr

inductive ChanDir | both | recv | send
deriving DecidableEq, Repr

/-- a Go type up to identity. `named = true` is the defined type `type N <underlying>` (one per underlying type). -/
inductive GoType where
  | basic (k : Kind) (named : Bool)                        -- `int` / `type NInt int`
  | error (named : Bool)                                   -- interface `error` / `type NErr error`
  | errStr                                                 -- `type NErrStr string` with an `Error() string` method
  | errPtr                                                 -- `*NErrPtr` with an `Error() string` method
  | chanErr (dir : ChanDir) (named : Bool) (elemOk : Bool) -- channel; `elemOk`: the element type is identical to `error`
  | other (o : Other)
deriving DecidableEq, Repr

/-- state of a channel handed back by a command -/
inductive ChanSt | nil | ready (failed : Bool) | empty
deriving DecidableEq, Repr

/-- the payload of a Go value -/
inductive Payload where
  | int (i : Int) | float (x : F64) | bool (b : Bool) | str (s : String)
  | iface (nonNil : Bool)      -- a value of an interface type: nil or holding something
  | ptr (nonNil : Bool)
  | chan (st : ChanSt)
  | zero                       -- the zero value of a type the bridge never looks into
deriving DecidableEq, Repr

/-- a `reflect.Value`: dynamic type and payload -/
structure GoVal where
  ty : GoType
  payload : Payload
deriving DecidableEq, Repr

/-- a function type -/
structure Sig where
  params : List GoType               -- the fixed parameters
  variadic : Option GoType := none   -- element type of the variadic tail `...T`
  results : List GoType := []
deriving DecidableEq, Repr

/-- what the host hands to `ConvertAndAdd*` (an `any`) -/
inductive HostValue where
  | nilIface                   -- `nil`: `reflect.TypeOf` returns nil
  | notFunc (t : GoType)       -- a value whose kind is not `Func`
  | fn (s : Sig)               -- a function
  | nilFn (s : Sig)            -- a nil function VALUE of a function type (`var f func(); f`)
deriving DecidableEq, Repr

/-- the host function proper: from the values it receives to the payloads it returns (one per declared result) -/
abbrev Host := List GoVal → List Payload

/-! ### gates -/

/-- `argConverterByGoalKind[t.Kind()]` exists / `isTypeConvertibleToValue t`: the kind of `t` when it is one of
int, int8 … int64, float32, float64, bool, string (both gates use the same set of kinds) -/
def valueKind? : GoType → Option Kind
  | .basic .uint _ => none
  | .basic k _ => some k
  | .errStr => some .string
  | _ => none

/-- `t.ConvertibleTo(typeError)`: the type implements `error` -/
def convertibleToError : GoType → Bool
  | .error _ | .errStr | .errPtr => true
  | _ => false

/-- `isTypeErrChan`: kind `Chan` and `ConvertibleTo(<-chan error)` — a bidirectional or receive-only channel (named or
not: `<-chan error` itself is not a defined type) whose element type is identical to `error` -/
def isErrChan : GoType → Bool
  | .chanErr dir _ elemOk => elemOk && dir != .send
  | _ => false

inductive RetSig | noReturn | valueReturn | errorReturn | errorChanReturn | valueErrorReturn
deriving DecidableEq, Repr

/-- `checkFunctionOutputParameters` -/
def checkFunctionOutputs : List GoType → Option RetSig
  | [] => some .noReturn
  | [t] =>
    if (valueKind? t).isSome then some .valueReturn
    else if convertibleToError t then some .errorReturn
    else none
  | [t, e] =>
    if !(valueKind? t).isSome then none
    else if !convertibleToError e then none
    else some .valueErrorReturn
  | _ => none

/-- `checkCommandOutputParameters` -/
def checkCommandOutputs : List GoType → Option RetSig
  | [] => some .noReturn
  | [t] =>
    if convertibleToError t then some .errorReturn
    else if isErrChan t then some .errorChanReturn
    else none
  | _ => none

/-- `createInputConverter` / `createVariadicInputConverter` succeed: every fixed parameter and the element type of the
variadic tail have a converter -/
def inputsSupported (s : Sig) : Bool :=
  s.params.all (fun t => (valueKind? t).isSome) &&
  (match s.variadic with | some t => (valueKind? t).isSome | none => true)

structure FnBridge where
  sig : Sig
  ret : RetSig
  nilFn : Bool := false
deriving Repr

structure CmdBridge where
  sig : Sig
  ret : RetSig
  nilFn : Bool := false
deriving Repr

/-- `newYarnSpinnerFunction` (registration part). The unrepaired code evaluated `reflect.TypeOf(nil).Kind()` on
`nilIface`: a nil dereference (F22). -/
def registerFunction : HostValue → Outcome FnBridge
  | .nilIface => .err .other
  | .notFunc _ => .err .other
  | .fn s =>
    match checkFunctionOutputs s.results with
    | none => .err .other
    | some r => if inputsSupported s then .ok ⟨s, r, false⟩ else .err .other
  | .nilFn _ => .err .other       -- repaired: `reflect.ValueOf(function).IsNil()` is refused (it used to pass the gates)

/-- `newYarnSpinnerCommand` (registration part) -/
def registerCommand : HostValue → Outcome CmdBridge
  | .nilIface => .err .other
  | .notFunc _ => .err .other
  | .fn s =>
    match checkCommandOutputs s.results with
    | none => .err .other
    | some r => if inputsSupported s then .ok ⟨s, r, false⟩ else .err .other
  | .nilFn _ => .err .other

/-! ### argument converters -/

/-- Go `int32(f)` on amd64: truncation, `-2^31` when the truncated value does not fit (validated by the f64 stream) -/
def toInt32 (x : F64) : Int :=
  match F64.decode x with
  | .fin neg m e =>
    let i : Int := if e ≥ 0 then F64.numAt neg m e 0 else F64.truncInt neg m (-e).toNat
    if i ≥ 2147483648 ∨ i < -2147483648 then -2147483648 else i
  | _ => -2147483648

/-- the Go conversion `K(f)` of a float64 to the numeric kind `K` (amd64 semantics) -/
def convNum (k : Kind) (x : F64) : Option Payload :=
  match k with
  | .int | .int64 => some (.int x.toInt64)
  | .int32 => some (.int (toInt32 x))
  | .int16 => some (.int (F64.wrapInt 16 (toInt32 x)))
  | .int8 => some (.int (F64.wrapInt 8 (toInt32 x)))
  | .float32 => some (.float x.toF32)
  | .float64 => some (.float x)
  | _ => none

/-- `argConverterByGoalKind[k]`: a value of the PREDECLARED type of kind `k`, or a conversion error (`none`) -/
def convKind (k : Kind) (v : Value) : Option GoVal :=
  match v with
  | .num x => (convNum k x).map fun p => ⟨.basic k false, p⟩
  | .bool b => if k = .bool then some ⟨.basic .bool false, .bool b⟩ else none
  | .str s => if k = .string then some ⟨.basic .string false, .str s⟩ else none

/-- `convertingTo t conv`: the converter chosen by the kind of `t`, then `.Convert(t)` — same payload, declared type.
`none` = conversion error (or no converter for the kind: excluded by the gate). -/
def convTo (t : GoType) (v : Value) : Option GoVal :=
  match valueKind? t with
  | none => none
  | some k => (convKind k v).map fun g => { g with ty := t }

/-- the loop over the fixed parameters (lengths already compared) -/
def convFixed : List GoType → List Value → Option (List GoVal)
  | [], _ => some []
  | _ :: _, [] => none
  | t :: ts, v :: vs =>
    match convTo t v with
    | none => none
    | some g => (convFixed ts vs).map (g :: ·)

/-- the loop over the variadic tail -/
def convTail (t : GoType) : List Value → Option (List GoVal)
  | [] => some []
  | v :: vs =>
    match convTo t v with
    | none => none
    | some g => (convTail t vs).map (g :: ·)

/-- the closure returned by `createInputConverter` / `createVariadicInputConverter` -/
def convertInputs (s : Sig) (args : List Value) : Except ErrKind (List GoVal) :=
  match s.variadic with
  | none =>
    if args.length < s.params.length then .error .argCount
    else if args.length > s.params.length then .error .argCount
    else match convFixed s.params args with
      | some gs => .ok gs
      | none => .error .argType
  | some t =>
    if args.length < s.params.length then .error .argCount
    else match convFixed s.params (args.take s.params.length) with
      | none => .error .argType
      | some gs =>
        match convTail t (args.drop s.params.length) with
        | none => .error .argType
        | some ts => .ok (gs ++ ts)

/-! ### `reflect.Value.Call` -/

/-- does a payload have the shape of the values of a type -/
def fits : GoType → Payload → Bool
  | .basic .float32 _, .float _ | .basic .float64 _, .float _ => true
  | .basic .bool _, .bool _ => true
  | .basic .string _, .str _ => true
  | .basic .int _, .int _ | .basic .int8 _, .int _ | .basic .int16 _, .int _ | .basic .int32 _, .int _
  | .basic .int64 _, .int _ | .basic .uint _, .int _ => true
  | .error _, .iface _ => true
  | .errStr, .str _ => true
  | .errPtr, .ptr _ => true
  | .chanErr _ _ _, .chan _ => true
  | .other _, .zero => true
  | _, _ => false

def fitsAll : List GoType → List Payload → Bool
  | [], [] => true
  | t :: ts, p :: ps => fits t p && fitsAll ts ps
  | _, _ => false

def typesMatch : List GoType → List GoVal → Bool
  | [], [] => true
  | t :: ts, g :: gs => (g.ty == t) && typesMatch ts gs
  | _, _ => false

/-- model of `reflect.ValueOf(f).Call(ins)`: panics on a nil function, on a wrong number of arguments and on any
argument whose type is not the parameter's; then runs the host function -/
def reflectCall (s : Sig) (nilFn : Bool) (host : Host) (ins : List GoVal) : Except PanicSite (List GoVal) :=
  if nilFn then .error .nilDeref
  else
    let fixed := ins.take s.params.length
    let tail := ins.drop s.params.length
    if !typesMatch s.params fixed then .error .reflectCall
    else if !(match s.variadic with
              | none => tail.isEmpty
              | some t => tail.all (fun g => g.ty == t)) then .error .reflectCall
    else
      let outs := host ins
      if fitsAll s.results outs then .ok (List.zipWith GoVal.mk s.results outs) else .error .host

/-! ### result conversion -/

/-- `getTreeValue` -/
def getTreeValue (g : GoVal) : Option Value :=
  match valueKind? g.ty, g.payload with
  | some .float32, .float x | some .float64, .float x => some (.num x)
  | some .bool, .bool b => some (.bool b)
  | some .string, .str s => some (.str s)
  | some .int, .int i | some .int8, .int i | some .int16, .int i | some .int32, .int i | some .int64, .int i =>
    some (.num (F64.ofInt i))
  | _, _ => none

/-- `v.Interface() == nil`: only a nil value of an interface type; a nil pointer or an empty string in an interface is
not nil -/
def interfaceIsNil (g : GoVal) : Bool :=
  match g.ty, g.payload with
  | .error _, .iface false => true
  | _, _ => false

/-- the `switch returnSignature` of the function wrapper; `none` = an index or type assertion the gate excludes -/
def fnResult (r : RetSig) (outs : List GoVal) : Outcome (Option Value) :=
  match r, outs with
  | .noReturn, _ => .ok none
  | .valueReturn, g :: _ =>
    (match getTreeValue g with | some v => .ok (some v) | none => .err .callFailed)
  | .errorReturn, g :: _ =>
    if interfaceIsNil g then .ok none
    else if convertibleToError g.ty then .err .callFailed          -- the error returned by the host
    else .err .callFailed                                            -- "did not return an error value like expected"
  | .valueErrorReturn, g :: e :: _ =>
    if !interfaceIsNil e then .err .callFailed
    else (match getTreeValue g with | some v => .ok (some v) | none => .err .callFailed)
  | .errorChanReturn, _ => .ok none                                   -- the function switch has no such case
  | _, _ => .panic .index                                             -- `outputParameters[i]` out of range

/-- one script-side call of a converted function: what the host received (if it ran) and what the script sees -/
structure FnRun where
  received : Option (List GoVal)
  out : Outcome (Option Value)

/-- the `YarnSpinnerFunction` closure returned by `newYarnSpinnerFunction` -/
def invokeFn (b : FnBridge) (host : Host) (args : List Value) : FnRun :=
  match convertInputs b.sig args with
  | .error k => ⟨none, .err k⟩
  | .ok ins =>
    match reflectCall b.sig b.nilFn host ins with
    | .error p => ⟨none, .panic p⟩
    | .ok outs => ⟨some ins, fnResult b.ret outs⟩

/-- what the channel returned by the command wrapper eventually delivers (the moment of delivery is the business of the
pending-command model, C10): `done` = nil, `failed` = an error, `pending` = nothing ever -/
def cmdResult (r : RetSig) (outs : List GoVal) : CmdOutcome :=
  match r, outs with
  | .errorChanReturn, ⟨_, .chan .nil⟩ :: _ => .failed               -- "command returned a nil chan"
  | .errorChanReturn, ⟨_, .chan (.ready failed)⟩ :: _ => if failed then .failed else .done
  | .errorChanReturn, ⟨_, .chan .empty⟩ :: _ => .pending
  | .errorChanReturn, _ => .panicked                                  -- `IsNil` of a non-channel / index out of range
  | .noReturn, _ => .done
  | .errorReturn, g :: _ => if interfaceIsNil g then .done else .failed
  | .errorReturn, [] => .panicked
  | _, _ => .pending                                                  -- the goroutine's switch sends nothing

structure CmdRun where
  received : Option (List GoVal)
  out : CmdOutcome

/-- the `YarnSpinnerCommand` closure returned by `newYarnSpinnerCommand`: a conversion error is delivered through the
channel before the handler runs -/
def invokeCmd (b : CmdBridge) (host : Host) (args : List Value) : CmdRun :=
  match convertInputs b.sig args with
  | .error _ => ⟨none, .failed⟩
  | .ok ins =>
    match reflectCall b.sig b.nilFn host ins with
    | .error _ => ⟨none, .panicked⟩
    | .ok outs => ⟨some ins, cmdResult b.ret outs⟩

/-! ### the unrepaired converter (documentation of F23) -/

/-- before `fix: converted functions with named parameter types …`: the converter produced a value of the PREDECLARED
type of the parameter's kind -/
def convToOld (t : GoType) (v : Value) : Option GoVal :=
  match valueKind? t with
  | none => none
  | some k => convKind k v

def convFixedOld : List GoType → List Value → Option (List GoVal)
  | [], _ => some []
  | _ :: _, [] => none
  | t :: ts, v :: vs =>
    match convToOld t v with
    | none => none
    | some g => (convFixedOld ts vs).map (g :: ·)

def invokeFnOld (b : FnBridge) (host : Host) (args : List Value) : FnRun :=
  if args.length ≠ b.sig.params.length then ⟨none, .err .argCount⟩
  else match convFixedOld b.sig.params args with
    | none => ⟨none, .err .argType⟩
    | some ins =>
      match reflectCall b.sig b.nilFn host ins with
      | .error p => ⟨none, .panic p⟩
      | .ok outs => ⟨some ins, fnResult b.ret outs⟩

end Ysgo.Bridge
