import Ysgo.Model.Core
/-!
# The dialogue runner (mirror of runner.go) as a stack-of-queues machine

`exec` is the effect of one statement on the data part plus a control request; `micro` is one iteration of `Next`
with the tail call cut; `next` iterates `micro` until an element, the end, `waiting` or an error appears.
The line parser (markup) is a parameter: `Markup π μ` with its persistent state `π` and result type `μ`.
-/
namespace Ysgo

inductive AssignOp | set | mul | div | mod | add | sub deriving DecidableEq, Repr

structure LineSpec where
  elems : List (String ⊕ Expr)
  cond : Option Expr := none
  tags : List String := []

inductive Stmt where
  | line (l : LineSpec)
  | opts (os : List (LineSpec × List Stmt))
  | set (v : String) (op : AssignOp) (e : Expr)        -- declare is `set v .set e`
  | jump (e : Expr)
  | ifs (cs : List (Expr × List Stmt))
  | cmd (elems : List Expr)
  | call (f : String) (args : List Expr)
  | empty                                               -- a statement with no field set

instance : Inhabited Stmt := ⟨.empty⟩

structure Node where
  title : String
  tracking : String := ""
  body : List Stmt
abbrev Program := List Node
def Program.find (p : Program) (t : String) : Option Node := List.find? (fun n => n.title == t) p
def Node.tracked (n : Node) : Bool := n.tracking != "never"

/-- the markup pass over an interpolated line, with the parser's persistent state -/
structure Markup (π μ : Type) where
  parse : π → String → π × Outcome μ

inductive Elem (μ : Type) where
  | line (node : String) (res : μ) (tags : List String)
  | options (node : String) (os : List (μ × List String × Bool))     -- result, tags, disabled
  | ended | waiting

/-- the data part of the runner -/
structure Data (σ π : Type) where
  store : Store := []
  visited : Map Nat := []
  cur : String
  snapVars : Store := []
  pending : Option (Option Bool) := none     -- none: nothing; some none: running; some (some failed): completion arrived
  w : W σ
  ms : π
  jumpLog : List (String × String) := []     -- ghost: (source, target) of successful jumps

/-- what a statement asks the control part to do -/
inductive Ctl where
  | next | push (b : List Stmt) | goto (b : List Stmt) | halt

section exec
variable {σ π μ : Type}

/-- textElementsToMarkup, first half: the interpolated text -/
def renderElems (env : Env σ) (st : Store) (vis : Map Nat) : List (String ⊕ Expr) → W σ → Outcome String × W σ
  | [], w => (.ok "", w)
  | .inl s :: es, w => (match renderElems env st vis es w with | (.ok t, w) => (.ok (s ++ t), w) | r => r)
  | .inr e :: es, w =>
    match eval env st vis e w with
    | (.ok v, w) => (match renderElems env st vis es w with | (.ok t, w) => (.ok (display v ++ t), w) | r => r)
    | (.err k, w) => (.err k, w)
    | (.panic p, w) => (.panic p, w)

/-- textElementsToMarkup: interpolate, then the markup pass -/
def renderLine (env : Env σ) (mk : Markup π μ) (st : Store) (vis : Map Nat) (l : LineSpec) (w : W σ) (ms : π) :
    Outcome μ × W σ × π :=
  match renderElems env st vis l.elems w with
  | (.ok t, w) => (match mk.parse ms t with
      | (ms, .ok r) => (.ok r, w, ms)
      | (ms, .err _) => (.err .markup, w, ms)
      | (ms, .panic p) => (.panic p, w, ms))
  | (.err k, w) => (.err k, w, ms)
  | (.panic p, w) => (.panic p, w, ms)

def renderOptions (env : Env σ) (mk : Markup π μ) (st : Store) (vis : Map Nat) :
    List (LineSpec × List Stmt) → W σ → π → Outcome (List (μ × List String × Bool)) × W σ × π
  | [], w, ms => (.ok [], w, ms)
  | (l, _) :: os, w, ms =>
    match renderLine env mk st vis l w ms with
    | (.ok t, w, ms) =>
      let (dis, w) : Outcome Bool × W σ := match l.cond with
        | none => (.ok false, w)
        | some c => (match eval env st vis c w with
            | (.ok (.bool b), w) => (.ok (!b), w)
            | (.ok _, w) => (.err .illTyped, w)
            | (.err k, w) => (.err k, w)
            | (.panic p, w) => (.panic p, w))
      (match dis with
       | .ok d => (match renderOptions env mk st vis os w ms with
           | (.ok r, w, ms) => (.ok ((t, l.tags, d) :: r), w, ms)
           | r => r)
       | .err k => (.err k, w, ms)
       | .panic p => (.panic p, w, ms))
    | (.err k, w, ms) => (.err k, w, ms)
    | (.panic p, w, ms) => (.panic p, w, ms)

/-- executeSetStatement after evaluation: type check, operator switch -/
def applyAssign (op : AssignOp) (old : Option Value) (v : Value) : Outcome Value :=
  match old with
  | some o => if o.ty ≠ v.ty then .err .illTyped else
    (match op, o, v with
     | .set, _, _ => .ok v
     | .mul, .num a, .num b => .ok (.num (a.mul b)) | .div, .num a, .num b => .ok (.num (a.div b))
     | .mod, .num a, .num b => .ok (.num (a.fmod b)) | .add, .num a, .num b => .ok (.num (a.add b))
     | .sub, .num a, .num b => .ok (.num (a.sub b)) | .add, .str a, .str b => .ok (.str (a ++ b))
     | _, _, _ => .err .illTyped)
  | none => if op = .set then .ok v else .err .unknownVar

def firstTrue (env : Env σ) (st : Store) (vis : Map Nat) : List (Expr × List Stmt) → W σ → Outcome (Option (List Stmt)) × W σ
  | [], w => (.ok none, w)
  | (c, b) :: cs, w =>
    match eval env st vis c w with
    | (.ok (.bool true), w) => (.ok (some b), w)
    | (.ok (.bool false), w) => firstTrue env st vis cs w
    | (.ok _, w) => (.err .illTyped, w)
    | (.err k, w) => (.err k, w)
    | (.panic p, w) => (.panic p, w)

/-- effect of one statement on the data + the control request + the output of this `Next`, if any -/
def exec (env : Env σ) (mk : Markup π μ) (p : Program) (d : Data σ π) : Stmt → Data σ π × Ctl × Option (Outcome (Elem μ))
  | .line l =>
    (match renderLine env mk d.store d.visited l d.w d.ms with
     | (.ok t, w, ms) => ({ d with w := w, ms := ms }, .next, some (.ok (.line d.cur t l.tags)))
     | (.err k, w, ms) => ({ d with w := w, ms := ms }, .next, some (.err k))
     | (.panic q, w, ms) => ({ d with w := w, ms := ms }, .next, some (.panic q)))
  | .opts os =>
    (match renderOptions env mk d.store d.visited os d.w d.ms with
     | (.ok r, w, ms) => ({ d with w := w, ms := ms }, .next, some (.ok (.options d.cur r)))
     | (.err k, w, ms) => ({ d with w := w, ms := ms }, .next, some (.err k))
     | (.panic q, w, ms) => ({ d with w := w, ms := ms }, .next, some (.panic q)))
  | .set v op e =>
    (match eval env d.store d.visited e d.w with
     | (.ok x, w) =>
       (match applyAssign op (d.store.get v) x with
        | .ok nv => ({ d with w := w, store := d.store.set v nv }, .next, none)
        | .err k => ({ d with w := w }, .next, some (.err k))
        | .panic q => ({ d with w := w }, .next, some (.panic q)))
     | (.err k, w) => ({ d with w := w }, .next, some (.err k))
     | (.panic q, w) => ({ d with w := w }, .next, some (.panic q)))
  | .jump e =>
    (match eval env d.store d.visited e d.w with
     | (.ok (.str t), w) =>
       (match p.find t with
        | some n =>
          let tr := ((p.find d.cur).map Node.tracked).getD false
          ({ d with w := w, visited := if tr then bump d.visited d.cur else d.visited,
                    snapVars := d.store, cur := n.title, jumpLog := d.jumpLog ++ [(d.cur, n.title)] }, .goto n.body, none)
        | none => ({ d with w := w }, .next, some (.err .unknownNode)))
     | (.ok _, w) => ({ d with w := w }, .next, some (.err .illTyped))
     | (.err k, w) => ({ d with w := w }, .next, some (.err k))
     | (.panic q, w) => ({ d with w := w }, .next, some (.panic q)))
  | .ifs cs =>
    (match firstTrue env d.store d.visited cs d.w with
     | (.ok (some b), w) => ({ d with w := w }, .push b, none)
     | (.ok none, w) => ({ d with w := w }, .next, none)
     | (.err k, w) => ({ d with w := w }, .next, some (.err k))
     | (.panic q, w) => ({ d with w := w }, .next, some (.panic q)))
  | .cmd elems =>
    (match elems with
     | [] => (d, .next, some (.err .other))                       -- "missing command name"
     | _ =>
       match evalArgs env d.store d.visited elems d.w with
       | (.ok (.str name :: args), w) =>
         if name = "stop" then ({ d with w := w }, .halt, some (.ok .ended))
         else
           (match env.cmd name args w.host with
            | (.done, h) => ({ d with w := { w with host := h } }, .next, none)
            | (.failed, h) => ({ d with w := { w with host := h } }, .next, some (.err .cmdFailed))
            | (.unknown, h) => ({ d with w := { w with host := h } }, .next, some (.err .unknownCmd))
            | (.pending, h) => ({ d with w := { w with host := h }, pending := some none }, .next, some (.ok .waiting))
            | (.panicked, h) => ({ d with w := { w with host := h } }, .next, some (.panic .host)))
       | (.ok _, w) => ({ d with w := w }, .next, some (.err .illTyped))   -- first element must be a string
       | (.err k, w) => ({ d with w := w }, .next, some (.err k))
       | (.panic q, w) => ({ d with w := w }, .next, some (.panic q)))
  | .call f args =>
    (match evalArgs env d.store d.visited args d.w with
     | (.ok vs, w) =>
       (match callFn env d.visited f vs w with
        | (.ok _, w) => ({ d with w := w }, .next, none)
        | (.err k, w) => ({ d with w := w }, .next, some (.err k))
        | (.panic q, w) => ({ d with w := w }, .next, some (.panic q)))
     | (.err k, w) => ({ d with w := w }, .next, some (.err k))
     | (.panic q, w) => ({ d with w := w }, .next, some (.panic q)))
  | .empty => (d, .next, some (.err .other))                      -- "unsupported type of statement"

/-- the `select` with `default` at the top of `Next`: `some out` = `Next` returns immediately -/
def poll (d : Data σ π) : Data σ π × Option (Outcome (Elem μ)) :=
  match d.pending with
  | none => (d, none)
  | some none => (d, some (.ok .waiting))
  | some (some failed) =>
    if failed then ({ d with pending := none }, some (.err .cmdFailed))
    else ({ d with pending := none }, none)

end exec

def isOpts : Stmt → Option (List (List Stmt))
  | .opts os => some (os.map (·.2))
  | _ => none

/-! ### the machine -/
structure SQ where
  stmts : List Stmt
  ptr : Nat
def SQ.rest (q : SQ) : List Stmt := q.stmts.drop q.ptr

structure R (σ π : Type) where
  d : Data σ π
  stack : List SQ
  waiting : Option (List (List Stmt)) := none      -- bodies of the option group presented last, if a choice is expected

def applyCtlR (c : Ctl) (stack : List SQ) : List SQ :=
  match c with
  | .next => stack | .push b => ⟨b, 0⟩ :: stack | .goto b => [⟨b, 0⟩] | .halt => []

section machine
variable {σ π μ : Type}

/-- one iteration of `Next` -/
def R.micro (env : Env σ) (mk : Markup π μ) (p : Program) (r : R σ π) (c : Nat) : R σ π × Option (Outcome (Elem μ)) :=
  match poll (μ := μ) r.d with
  | (d, some out) => ({ r with d := d }, some out)
  | (d, none) =>
    let r := { r with d := d }
    match r.waiting with
    | some bodies =>
      (match bodies[c]? with
       | none => (r, some (.panic .index))
       | some b => if b.length ≠ 0 then ({ r with stack := ⟨b, 0⟩ :: r.stack, waiting := none }, none)
                   else ({ r with waiting := none }, none))
    | none =>
      match r.stack with
      | [] => (r, some (.ok .ended))
      | q :: rest =>
        match q.stmts[q.ptr]? with
        | none => ({ r with stack := rest }, none)
        | some st =>
          let q' : SQ := { q with ptr := q.ptr + 1 }
          match exec env mk p r.d st with
          | (d', ctl, out) =>
            let waiting := match out, isOpts st with
              | some (.ok _), some bodies => some bodies      -- options were presented
              | _, _ => none
            ({ d := d', stack := applyCtlR ctl (q' :: rest), waiting := waiting }, out)

inductive NextRes (μ : Type) where
  | out (o : Outcome (Elem μ))
  | fuel                                   -- out of fuel: a script that loops without ever yielding

/-- `Next(choice)`: iterate `micro` until an output appears -/
def R.next (env : Env σ) (mk : Markup π μ) (p : Program) : Nat → R σ π → Nat → R σ π × NextRes μ
  | 0, r, _ => (r, .fuel)
  | f + 1, r, c =>
    match r.micro env mk p c with
    | (r', some out) => (r', .out out)
    | (r', none) => R.next env mk p f r' c

end machine

/-! ### snapshots -/
structure Snapshot where
  vars : Store
  visited : Map Nat
  node : String

def R.snapshot {σ π} (r : R σ π) : Snapshot := ⟨r.d.snapVars, r.d.visited, r.d.cur⟩

/-- `RestoreAt`: `none` = the error "unknown node", state untouched -/
def R.restore {σ π} (p : Program) (r : R σ π) (s : Snapshot) : Option (R σ π) :=
  match p.find s.node with
  | none => none
  | some n => some
    { d := { store := s.vars, visited := s.visited, cur := n.title, snapVars := s.vars, pending := none,
             w := r.d.w, ms := r.d.ms, jumpLog := [] },
      stack := [⟨n.body, 0⟩], waiting := none }

/-- `NewDialogueRunner`: `none` when there is no node -/
def R.init {σ π} (p : Program) (store : Store) (w : W σ) (ms : π) : Option (R σ π) :=
  match p with
  | [] => none
  | n :: _ => some { d := { store := store, cur := n.title, snapVars := store, w := w, ms := ms }, stack := [⟨n.body, 0⟩] }

end Ysgo
