import Ysgo.Model.F64
/-!
# Number display and decimal parsing

`fmtG` is Go's `fmt.Sprint(float64)` (`%v` = shortest `%g`): the shortest decimal digit string that rounds back to
the same double, found by exact search with rationals, laid out in `%e` form when the decimal exponent is < -4 or ≥ 6
(strconv's rule for shortest `%g`: `eprec = 6`; the threshold 21 sometimes quoted is encoding/json's).
`parseFloat` is the modelled domain of `strconv.ParseFloat(s, 64)`.
`display` is `variable.Value.ToString` on numbers.
-/
namespace Ysgo
namespace F64

def pow2Rat (e : Int) : Rat := if e ≥ 0 then ((2 ^ e.toNat : Nat) : Rat) else 1 / ((2 ^ (-e).toNat : Nat) : Rat)
def pow10Rat (j : Int) : Rat := if j ≥ 0 then ((10 ^ j.toNat : Nat) : Rat) else 1 / ((10 ^ (-j).toNat : Nat) : Rat)
def magRat (m : Nat) (e : Int) : Rat := (m : Rat) * pow2Rat e

def toRat? (x : F64) : Option Rat :=
  match decode x with
  | .fin neg m e => some (if neg then - magRat m e else magRat m e)
  | _ => none

/-- floor(log10 q) for q > 0 -/
def ilog10 (q : Rat) : Int := Id.run do
  let n := q.num.toNat
  let d := q.den
  let mut k : Int := ((Nat.log2 n : Int) - (Nat.log2 d : Int)) * 30103 / 100000 - 1
  for _ in [0:6] do
    if pow10Rat (k + 1) ≤ q then k := k + 1
  for _ in [0:6] do
    if q < pow10Rat k then k := k - 1
  return k

/-- shortest digits `d` (an `nd`-digit number) and decimal exponent `k` with value ≈ d.ddd × 10^k -/
def shortest (x : F64) : Option (Nat × Nat × Int) :=
  match decode x with
  | .fin _ m e =>
    if m = 0 then none else
    let v : Rat := magRat m e
    let ulp : Rat := pow2Rat e
    let lowGap : Rat := if m = P52 ∧ expField x > 1 then pow2Rat (e - 1) else ulp
    let lo := v - lowGap / 2
    let hi := v + ulp / 2
    let incl := m % 2 = 0
    let inside (c : Rat) : Bool := if incl then lo ≤ c && c ≤ hi else lo < c && c < hi
    let k := ilog10 v
    Id.run do
      for nd in [1:18] do
        let scale := pow10Rat ((nd : Int) - 1 - k)
        let t := v * scale
        let dlo := t.floor.toNat
        let dhi := dlo + 1
        let clo : Rat := (dlo : Rat) / scale
        let chi : Rat := (dhi : Rat) / scale
        let okLo := dlo ≥ 10 ^ (nd - 1) && inside clo
        let okHi := inside chi
        if okLo || okHi then
          let pick :=
            if okLo && okHi then
              (if v - clo < chi - v then dlo else if chi - v < v - clo then dhi else (if dlo % 2 = 0 then dlo else dhi))
            else if okLo then dlo else dhi
          if pick = 10 ^ nd then return some (10 ^ (nd - 1), nd, k + 1) else return some (pick, nd, k)
      return none
  | _ => none

def stripZeros (ds : List Char) : List Char := (ds.reverse.dropWhile (· = '0')).reverse

/-- Go `fmt.Sprint(x)` -/
def fmtG (x : F64) : String :=
  match decode x with
  | .nan => "NaN"
  | .inf neg => if neg then "-Inf" else "+Inf"
  | .fin neg m _ =>
    let sign := if neg then "-" else ""
    if m = 0 then sign ++ "0" else
    match shortest x with
    | none => "?"
    | some (d, _, k) =>
      let ds := stripZeros (Nat.toDigits 10 d)
      let ds := if ds.isEmpty then ['0'] else ds
      let nd := ds.length
      if k < -4 || k ≥ 6 then
        let mant := match ds with | [a] => String.ofList [a] | a :: r => String.ofList (a :: '.' :: r) | [] => "0"
        let ea := k.natAbs
        let es := (if ea < 10 then "0" else "") ++ toString ea
        sign ++ mant ++ "e" ++ (if k < 0 then "-" else "+") ++ es
      else if k < 0 then
        sign ++ "0." ++ String.ofList (List.replicate (-k - 1).toNat '0') ++ String.ofList ds
      else
        let ip := (k + 1).toNat
        if nd ≤ ip then sign ++ String.ofList ds ++ String.ofList (List.replicate (ip - nd) '0')
        else sign ++ String.ofList (ds.take ip) ++ "." ++ String.ofList (ds.drop ip)

def itoa (i : Int) : String := if i < 0 then "-" ++ toString i.natAbs else toString i.natAbs

/-- `variable.Value.ToString` on a number: `if n == float64(int(n)) { Itoa(int(n)) } else { fmt.Sprint(n) }` -/
def display (x : F64) : String :=
  let i := toInt64 x
  if eq x (ofInt i) then itoa i else fmtG x

/-! ### strconv.ParseFloat (modelled domain) -/

inductive ParseRes where
  | val (x : F64)
  | err
  | unmodelled        -- hexadecimal floats, underscores: accepted by Go in some forms, not modelled
deriving Repr

def lowerAscii (c : Char) : Char := if 'A' ≤ c ∧ c ≤ 'Z' then Char.ofNat (c.toNat + 32) else c
def isDigitC (c : Char) : Bool := '0' ≤ c && c ≤ '9'
def digitsVal (ds : List Char) : Nat := ds.foldl (fun a c => a * 10 + (c.toNat - 48)) 0

def parseSpecial (cs : List Char) : Option F64 :=
  let low := cs.map lowerAscii
  match low with
  | '+' :: r => if r = "inf".toList ∨ r = "infinity".toList then some (inf false) else none
  | '-' :: r => if r = "inf".toList ∨ r = "infinity".toList then some (inf true) else none
  | _ =>
    if low = "inf".toList ∨ low = "infinity".toList then some (inf false)
    else if low = "nan".toList then some nan else none

def parseFloat (s : String) : ParseRes :=
  let cs := s.toList
  if cs.any (fun c => c = '_') then .unmodelled
  else match parseSpecial cs with
  | some x => .val x
  | none =>
    let (neg, r) : Bool × List Char := match cs with
      | '+' :: r => (false, r)
      | '-' :: r => (true, r)
      | r => (false, r)
    match r with
    | '0' :: x :: _ => if lowerAscii x = 'x' then .unmodelled else go neg r
    | _ => go neg r
where
  go (neg : Bool) (r : List Char) : ParseRes :=
    let ip := r.takeWhile isDigitC
    let r1 := r.dropWhile isDigitC
    let (fp, r2, sawDot) : List Char × List Char × Bool := match r1 with
      | '.' :: t => (t.takeWhile isDigitC, t.dropWhile isDigitC, true)
      | t => ([], t, false)
    let _ := sawDot
    if ip.isEmpty ∧ fp.isEmpty then .err else
    let expPart : Option Int := match r2 with
      | [] => some 0
      | c :: t =>
        if lowerAscii c = 'e' then
          let (eneg, t) : Bool × List Char := match t with
            | '+' :: t => (false, t)
            | '-' :: t => (true, t)
            | t => (false, t)
          if t.isEmpty ∨ !(t.all isDigitC) then none
          else
            let ev : Nat := if t.length > 6 then 1000000 else digitsVal t
            some (if eneg then -(ev : Int) else ev)
        else none
    match expPart with
    | none => .err
    | some ex =>
      let mant := digitsVal (ip ++ fp)
      let e10 : Int := ex - fp.length
      if mant = 0 then .val (zero neg)
      else
        -- magnitude estimate to avoid astronomically large powers: value < 10^(digits + e10)
        let nd : Int := (ip ++ fp).length
        if e10 + nd > 400 then .err                     -- overflows: Go reports ErrRange
        else if e10 + nd < -400 then .val (zero neg)
        else
          let x := if e10 ≥ 0 then roundDyadic neg (mant * 10 ^ e10.toNat) 0 else roundQuot neg mant (10 ^ (-e10).toNat)
          match decode x with
          | .inf _ => .err
          | _ => .val x

end F64
end Ysgo
