import Ysgo.Lemmas.FuelSize
/-!
# Ranked programs: the jumps that can be taken before anything is yielded are well-founded (core only, executable)

`Fuel.Productive` (every node body starts with a line or an option group) is much stronger than what `Next` of
`runner.go` needs in order to return: `A: <<jump B>>`, `B: a line` is fine in Go. What is needed is that the graph of
the jumps that can be executed *before the node has yielded anything* has no cycle.

* A statement of a body is **early** when it can be reached from the start of the body without first passing a line or
  an option group at the same or an enclosing level (and without passing a `jump`, which never falls through silently).
  The statements after an `if` block are early whatever the clauses contain (no clause may be true); the clause bodies
  of an early `if` are entered early.
* `safeStmts p rk k body`: every early `jump` of `body` has a *literal* target, and if the target is a node of `p` its
  rank is `< k`. A jump by computed expression has an unknown target: an early one is refused. (A literal that is not a
  string, or names no node, makes the jump fail with an error, i.e. `Next` returns: it is accepted.)
* `Ranked p rk`: for every node `n` of `p`, `safeStmts p rk (rk n.title) n.body`.
* `rankOf p`: a checker. Longest-path iteration over the early-jump graph, `|p|` rounds, then the result is *checked*
  with `Ranked` (so that soundness holds by construction); `none` on a cycle or an early computed jump.
* `rankedBound p rk = maxNode p + (maxRank rk p + 1) * maxEarly p + 1`: the fuel that is enough for one `Next` from
  every reachable state of a ranked program (`Props/C01Ranked.lean`); `maxEarly p` is the largest number of iterations
  a node can cost before it yields or jumps on. For a productive program this is `Fuel.progBound p`.
-/
namespace Ysgo.Ranked
open Ysgo Ysgo.Fuel

/-! ### the predicate -/

/-- may `<<jump e>>` be executed early in a node of rank `k`? only a literal target; a node of `p` must have rank `< k` -/
def jumpOk (p : Program) (rk : String → Nat) (k : Nat) : Expr → Bool
  | .lit (.str t) => (match p.find t with | some n => decide (rk n.title < k) | none => true)
  | .lit _ => true
  | _ => false

/-- nothing after this statement of a body is early: a line or an option group always yields, a jump is taken or fails -/
def stops : Stmt → Bool
  | .line _ => true
  | .opts _ => true
  | .jump _ => true
  | _ => false

mutual
/-- the early jumps inside the statement (itself, or in its clause bodies for an `if`) are admissible -/
def safeStmt (p : Program) (rk : String → Nat) (k : Nat) : Stmt → Bool
  | .jump e => jumpOk p rk k e
  | .ifs cs => safeClauses p rk k cs
  | _ => true
/-- every early jump of the body goes, by a literal target, to a node of rank `< k` -/
def safeStmts (p : Program) (rk : String → Nat) (k : Nat) : List Stmt → Bool
  | [] => true
  | s :: ss => safeStmt p rk k s && (stops s || safeStmts p rk k ss)
def safeClauses (p : Program) (rk : String → Nat) (k : Nat) : List (Expr × List Stmt) → Bool
  | [] => true
  | c :: cs => safeStmts p rk k c.2 && safeClauses p rk k cs
end

/-- `Ranked p rk`: `rk` (on node titles) strictly decreases along every jump that can be executed before the node has
yielded anything. Decidable (a `Bool`). -/
def Ranked (p : Program) (rk : String → Nat) : Bool := p.all (fun n => safeStmts p rk (rk n.title) n.body)

/-- the largest rank of a node -/
def maxRank (rk : String → Nat) : Program → Nat
  | [] => 0
  | n :: ns => Nat.max (rk n.title) (maxRank rk ns)

/-! ### the early size: how many iterations of `Next` a node can cost before it yields or jumps -/

mutual
/-- an early statement with the clause bodies it may enter: 1 + Σ over the clause bodies of (1 + early size) -/
def earlyStmt : Stmt → Nat
  | .ifs cs => 1 + earlyClauses cs
  | _ => 1
/-- the number of silent iterations of `Next` the body can cost: nothing is counted from the first line or option
group on (it yields), a jump counts 1 and nothing after it is counted -/
def earlyBody : List Stmt → Nat
  | [] => 0
  | s :: ss => if yields s then 0 else if stops s then 1 else earlyStmt s + earlyBody ss
def earlyClauses : List (Expr × List Stmt) → Nat
  | [] => 0
  | c :: cs => (1 + earlyBody c.2) + earlyClauses cs
end

/-- the early size of a stack of queues: every queue counts 1 (it has to be popped) + the early size of its unread part -/
def earlyStack : List SQ → Nat
  | [] => 0
  | q :: qs => (1 + earlyBody q.rest) + earlyStack qs

/-- the largest early size of a node, `1 + earlyBody` maximised over the nodes (1 for a productive program) -/
def maxEarly : Program → Nat
  | [] => 0
  | n :: ns => Nat.max (1 + earlyBody n.body) (maxEarly ns)

/-- the fuel bound for a call of `Next` from any state reachable from `R.init` / `R.restore` of a ranked program:
at most `maxNode p` iterations until the first jump, then at most `maxRank + 1` nodes are entered, each costing at most
`maxEarly p` iterations before it yields or jumps on. For a productive program (`maxRank = 0`, `maxEarly = 1`) this is
`Fuel.progBound p`. -/
def rankedBound (p : Program) (rk : String → Nat) : Nat := maxNode p + (maxRank rk p + 1) * maxEarly p + 1

/-- the fuel bound from an arbitrary state `r` (reachable or not); `Fuel.bound r` for a productive program -/
def boundFrom {σ π : Type} (p : Program) (rk : String → Nat) (r : R σ π) : Nat :=
  msr r + (maxRank rk p + 1) * maxEarly p + 1

/-! ### the checker -/

def omax : Option Nat → Option Nat → Option Nat
  | some a, some b => some (Nat.max a b)
  | _, _ => none

/-- the least `k` with `jumpOk p rk k e`; `none` for a computed target -/
def jumpNeed (p : Program) (rk : String → Nat) : Expr → Option Nat
  | .lit (.str t) => (match p.find t with | some n => some (rk n.title + 1) | none => some 0)
  | .lit _ => some 0
  | _ => none

mutual
/-- the least `k` with `safeStmt p rk k s`; `none` when an early jump in it has a computed target -/
def needStmt (p : Program) (rk : String → Nat) : Stmt → Option Nat
  | .jump e => jumpNeed p rk e
  | .ifs cs => needClauses p rk cs
  | _ => some 0
/-- the least `k` with `safeStmts p rk k body`; `none` when the body has an early computed jump -/
def needStmts (p : Program) (rk : String → Nat) : List Stmt → Option Nat
  | [] => some 0
  | s :: ss => if stops s then needStmt p rk s else omax (needStmt p rk s) (needStmts p rk ss)
def needClauses (p : Program) (rk : String → Nat) : List (Expr × List Stmt) → Option Nat
  | [] => some 0
  | c :: cs => omax (needStmts p rk c.2) (needClauses p rk cs)
end

/-- a rank table as a function: the first entry for the title, 0 when there is none -/
def tableFn (l : List (String × Nat)) (t : String) : Nat :=
  match l.find? (fun e => e.1 == t) with
  | some e => e.2
  | none => 0

/-- one round of the longest-path iteration: the rank every node needs, given the ranks of the previous round -/
def roundStep (p : Program) (l : List (String × Nat)) : Program → Option (List (String × Nat))
  | [] => some []
  | n :: ns =>
    match needStmts p (tableFn l) n.body, roundStep p l ns with
    | some k, some r => some ((n.title, k) :: r)
    | _, _ => none

def rounds (p : Program) : Nat → List (String × Nat) → Option (List (String × Nat))
  | 0, l => some l
  | i + 1, l => match roundStep p l p with
    | some l' => rounds p i l'
    | none => none

/-- the rank table: `|p|` rounds from the all-zero table, then checked; `none` when the early-jump graph has a cycle
or an early jump has a computed target -/
def rankTable (p : Program) : Option (List (String × Nat)) :=
  match rounds p p.length (p.map (fun n => (n.title, 0))) with
  | some l => if Ranked p (tableFn l) then some l else none
  | none => none

/-- the checker: a rank function when the program is ranked (longest early-jump path from each node) -/
def rankOf (p : Program) : Option (String → Nat) := (rankTable p).map tableFn

/-- the fuel the driver can use for one `Next`: the sharp `progBound` for a productive program, `rankedBound` for a
ranked one, `none` when the checker refuses the program (some `Next` may really never return) -/
def fuelFor (p : Program) : Option Nat :=
  if Productive p then some (progBound p)
  else match rankOf p with
    | some rk => some (rankedBound p rk)
    | none => none

/-! ### example programs (used by `Props/C01Ranked.lean`) -/

/-- a chain of three nodes A → B → C whose first two yield nothing before they jump: ranked (2, 1, 0), not productive;
C loops back to A after its line. One `Next` walks A, B and the line of C: 9 iterations, more than `progBound = 8`. -/
def chain3 : Program :=
  [ { title := "A", body := [.set "x" .set (.lit (.bool true)), .set "x" .set (.lit (.bool true)),
                             .set "x" .set (.lit (.bool true)), .set "x" .set (.lit (.bool true)), .jump (.lit (.str "B"))] },
    { title := "B", body := [.set "x" .set (.lit (.bool true)), .ifs [(.var "x", [.jump (.lit (.str "C"))])], .line { elems := [.inl "b"] }] },
    { title := "C", body := [.line { elems := [.inl "c"] }, .jump (.lit (.str "A"))] } ]

/-- two nodes that jump to each other without ever yielding: not ranked, `Next` never returns -/
def cycleJJ : Program :=
  [ { title := "A", body := [.jump (.lit (.str "B"))] },
    { title := "B", body := [.jump (.lit (.str "A"))] } ]

/-- an early jump by computed expression: refused by the checker -/
def computedEarly : Program :=
  [ { title := "A", body := [.jump (.var "target")] },
    { title := "B", body := [.line { elems := [.inl "b"] }] } ]

end Ysgo.Ranked
