/-!
# Indentation tracking — mirror of `/repo/internal/parser/indent_aware_lexer.go` (as repaired)

The ANTLR lexer delivers one `NEWLINE` token per line break; by the grammar rule
`NEWLINE: ( '\r'? '\n' | '\r' ) [ \t]*` its text is the line break plus the indentation of the line that follows.
`IndentAwareLexer` enqueues the token and — unless the following line is blank, whitespace-only or comment-only
(`nextLineIsBlankOrComment`: the next character is `\r`, `\n`, end of input, or the next two are `//`) — compares the
length of that indentation (`getLengthOfNewlineToken`: space = 1, tab = 8, a syntax error is reported when both kinds
occur, and the computed length is used all the same) with the top of the stack `indents`, emitting one `INDENT`
(push) or one `DEDENT` per popped level. At end of input `handleEndOfFileToken` pops everything, one `DEDENT`
each, then enqueues `EOF`.

A `LineInfo` is everything this logic reads from one `NEWLINE` token. `lex` maps the `LineInfo`s of an input to the
sequence of token *kinds* `NEWLINE / INDENT / DEDENT / EOF` in the order in which they are enqueued (all other
tokens are enqueued unchanged in between and play no role).

The stack is a `List Nat` with the top first; `Pop` is only reached under the loop guard `cur < prev` where `prev`
is the top of a non-empty stack, so the pattern match on `top :: st` is the Go `Pop()` and no panic outcome exists on
this path (`Ysgo/Lemmas/IndentLit.lean`, `handleNewlineLit_eq`, replays the same code over the `Stack` model with
its explicit panic outcome and shows the two agree).
-/
namespace Ysgo.Indent

/-- kinds of the tokens the indentation logic is concerned with -/
inductive Tok where
  | nl      -- a NEWLINE token of the underlying lexer
  | indent  -- synthetic INDENT
  | dedent  -- synthetic DEDENT
  | eof     -- the EOF token of the underlying lexer
deriving DecidableEq, Repr

/-- what the indentation logic reads from one NEWLINE token and the character stream behind it -/
structure LineInfo where
  /-- `getLengthOfNewlineToken`: 1 per space, 8 per tab -/
  width : Nat
  /-- both spaces and tabs occur in the token: a syntax error is reported (and `width` is used regardless) -/
  mixed : Bool := false
  /-- `nextLineIsBlankOrComment()`: the line that follows is blank, whitespace-only or comment-only -/
  noise : Bool := false
deriving DecidableEq, Repr

/-! ## reading a `LineInfo` off the characters -/

/-- `getLengthOfNewlineToken` over the whole token text (the line-break characters count for nothing):
returns the length and whether the error "indentation contains tabs and spaces" is reported.
```go
for _, c := range currentToken.GetText() {
    switch c { case ' ': length++; sawSpaces = true; case '\t': length += 8; sawTabs = true }
}
if sawSpaces && sawTabs { ...SyntaxError(...) }
return length
``` -/
def newlineWidthAux : Nat → Bool → Bool → List Char → Nat × Bool
  | length, sawSpaces, sawTabs, [] => (length, sawSpaces && sawTabs)
  | length, sawSpaces, sawTabs, c :: cs =>
    if c = ' ' then newlineWidthAux (length + 1) true sawTabs cs
    else if c = '\t' then newlineWidthAux (length + 8) sawSpaces true cs
    else newlineWidthAux length sawSpaces sawTabs cs

def newlineWidth (text : List Char) : Nat × Bool := newlineWidthAux 0 false false text

/-- `nextLineIsBlankOrComment` on the characters that follow the NEWLINE token
```go
switch input.LA(1) { case '\r', '\n', antlr.TokenEOF: return true; case '/': return input.LA(2) == '/' }
return false
``` -/
def nextLineIsBlankOrComment : List Char → Bool
  | [] => true
  | '\r' :: _ => true
  | '\n' :: _ => true
  | '/' :: '/' :: _ => true
  | _ => false

/-- the `LineInfo` of a NEWLINE token with text `text` followed by the characters `rest` -/
def infoOf (text rest : List Char) : LineInfo :=
  { width := (newlineWidth text).1, mixed := (newlineWidth text).2, noise := nextLineIsBlankOrComment rest }

def isBlank (c : Char) : Bool := c = ' ' || c = '\t'

/-- start of a NEWLINE token at character `c`? The flag says that a `\n` may still join (`'\r'? '\n'`). -/
def scanStart (c : Char) : Option (List Char × Bool) :=
  if c = '\n' then some (['\n'], false) else if c = '\r' then some (['\r'], true) else none

/-- Scanner for the rule `NEWLINE: ( '\r'? '\n' | '\r' ) [ \t]*` (longest match) on inputs in which every line
break is lexed by that rule (true of all modes of the grammar except inside `<<…>>`, `{…}` and directly behind a
`#`): the `LineInfo` of every NEWLINE token, in order. The state is the text of the token being matched, if any. -/
def scanGo : Option (List Char × Bool) → List Char → List LineInfo
  | none, [] => []
  | some (t, _), [] => [infoOf t []]
  | none, c :: cs => scanGo (scanStart c) cs
  | some (t, lf), c :: cs =>
    if lf && c = '\n' then scanGo (some (t ++ [c], false)) cs
    else if isBlank c then scanGo (some (t ++ [c], false)) cs
    else infoOf t (c :: cs) :: scanGo (scanStart c) cs

def scan (text : List Char) : List LineInfo := scanGo none text

/-! ## the token logic -/

/-- the `for currentIndentationLength < previousIndent` loop of `handleNewLineToken`: pop and emit DEDENT while
the width is smaller than the top of the stack (`previousIndent` is the top, or 0 for the empty stack, and
`w < 0` is false) -/
def popWhile (w : Nat) : List Nat → List Nat × List Tok
  | [] => ([], [])
  | top :: st =>
    if w < top then
      let r := popWhile w st
      (r.1, .dedent :: r.2)
    else (top :: st, [])

/-- `handleNewLineToken`: new stack and the tokens enqueued.
```go
ial.pendingTokens.Enqueue(currentToken)
if ial.nextLineIsBlankOrComment() { return }
currentIndentationLength := ial.getLengthOfNewlineToken(currentToken)
previousIndent := 0
if ial.indents.Size() > 0 { previousIndent = ial.indents.Peek() }
if currentIndentationLength > previousIndent {
    ial.indents.Push(currentIndentationLength); ial.insertToken(..., INDENT)
} else if currentIndentationLength < previousIndent {
    for currentIndentationLength < previousIndent {
        previousIndent = ial.indents.Pop(); ial.insertToken(..., DEDENT)
        if ial.indents.Size() > 0 { previousIndent = ial.indents.Peek() } else { previousIndent = 0 }
    }
}
``` -/
def handleNewline (st : List Nat) (li : LineInfo) : List Nat × List Tok :=
  if li.noise then (st, [.nl])
  else
    let prev := st.headD 0
    if li.width > prev then (li.width :: st, [.nl, .indent])
    else if li.width < prev then
      let r := popWhile li.width st
      (r.1, .nl :: r.2)
    else (st, [.nl])

/-- `handleEndOfFileToken`: one DEDENT per open level, then EOF -/
def handleEOF (st : List Nat) : List Tok := st.map (fun _ => .dedent) ++ [.eof]

/-- the token kinds enqueued for the NEWLINE tokens `ls` and the end of input, starting with stack `st` -/
def lexFrom : List Nat → List LineInfo → List Tok
  | st, [] => handleEOF st
  | st, li :: ls => let r := handleNewline st li; r.2 ++ lexFrom r.1 ls

/-- the token kinds of a whole input (the lexer starts with an empty stack) -/
def lex (ls : List LineInfo) : List Tok := lexFrom [] ls

/-- the stack after the NEWLINE tokens `ls` -/
def stackAfter : List Nat → List LineInfo → List Nat
  | st, [] => st
  | st, li :: ls => stackAfter (handleNewline st li).1 ls

/-- number of "indentation contains tabs and spaces" errors reported: the length is only computed for lines that
take part in indentation tracking -/
def lexErrors (ls : List LineInfo) : Nat := (ls.filter fun li => !li.noise && li.mixed).length

/-- the balance predicate of C20, executable: never more DEDENT than INDENT in a prefix, equal totals, exactly one
EOF and it is the last token -/
def balancedAux : Nat → List Tok → Bool
  | _, [] => false
  | depth, .eof :: ts => ts.isEmpty && depth == 0
  | depth, .indent :: ts => balancedAux (depth + 1) ts
  | depth, .dedent :: ts => depth > 0 && balancedAux (depth - 1) ts
  | depth, .nl :: ts => balancedAux depth ts

def balanced (ts : List Tok) : Bool := balancedAux 0 ts

end Ysgo.Indent
