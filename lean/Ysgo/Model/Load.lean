import Ysgo.Model.Rng
/-!
# Loading: the decision logic of `NewDialogueRunner` / `tree.FromReaders` / `rng.NewRNG`

The ANTLR lexer/parser is an ORACLE of this model, not a model: for each reader the harness reports what an independent
error listener attached to a fresh lexer+parser of the same grammar counted, and how many nodes a clean parse yields.
`load` is what the code does with that: no reader ⇒ error; the first reader with a syntax error (mixed tab/space
indentation is reported as one) ⇒ error; `dialogue.Nodes[0]` ⇒ panic when there is no node (unreachable for clean parses
because the grammar demands `node+` — the oracle contract); invalid seed ⇒ error; otherwise a runner.
-/
namespace Ysgo.Load
open Ysgo

structure ReaderOracle where
  syntaxErrors : Nat
  nodes : Nat

inductive LoadRes | runner | err | panic
deriving DecidableEq, Repr

def validSeed (seed : String) : Bool := seed = "" || (Rng.seedToInt64 seed).isSome

def load (rs : List ReaderOracle) (seed : String) : LoadRes :=
  if rs.isEmpty then .err
  else if rs.any (fun r => r.syntaxErrors > 0) then .err
  else if (rs.map (·.nodes)).sum = 0 then .panic
  else if validSeed seed then .runner else .err

/-- the grammar's contract: a reader that parses without a syntax error contains at least one node -/
def OracleContract (rs : List ReaderOracle) : Prop := ∀ r ∈ rs, r.syntaxErrors = 0 → 1 ≤ r.nodes

end Ysgo.Load
