import Ysgo.Model.Unicode
import Ysgo.Model.Fmt
import Ysgo.Obs
/-!
# Model of `markup.LineParser` (markup/line_parser.go, parse_result.go, processors.go) over runes

The input is the list of runes `strings.Reader.ReadRune` delivers (each invalid UTF-8 byte arrives as U+FFFD; Go's regexp
machines, `strings.TrimSpace`, `utf8.RuneCountInString` and `[]rune(s)` see such a byte as one U+FFFD as well, so byte
offsets of the Go code correspond to rune offsets here). The two counters that persist in the Go struct are threaded as
`ParserState`; a `Res` carries the reader and the counters on every path (the Go fields are mutated up to the point of
failure). `peekRune`'s "EOF is rune 0, nil" quirk is kept (`peekRune`). Go loops are structural recursions over the
unread input (scanners) or carry explicit fuel (`propsLoop`, `mainLoop`); running out of fuel is the outcome `oof`.
Every Go operation that can panic (slice expressions at computed indices, `slices.Delete`, the explicit `panic` of
`TextForAttribute`) has an explicit `panic` outcome. `utf16.IsSurrogate` branches of `parseID` are omitted: `ReadRune`
never delivers a surrogate and a Lean `Char` cannot be one.
-/
namespace Ysgo.Markup
open Ysgo.Unicode

/-- `markup.Value` -/
inductive PVal where
  | int (i : Int)
  | float (f : F64)
  | str (s : String)
  | bool (b : Bool)
deriving DecidableEq, Repr, Inhabited

inductive Tag where
  | opn | close | selfClose | closeAll
deriving DecidableEq, Repr, Inhabited

/-- `attributeMarker` -/
structure Marker where
  name : String := ""
  position : Nat
  sourcePosition : Nat
  props : List (String × PVal) := []
  tag : Tag
deriving Repr, Inhabited

/-- `markup.Attribute`; `props` represents the Go map: keys are distinct (see `toPropertyMap`) -/
structure Attr where
  name : String
  position : Int
  length : Int
  sourcePosition : Int
  props : List (String × PVal)
deriving DecidableEq, Repr, Inhabited

/-- `markup.ParseResult` -/
structure ParseResult where
  text : String
  attrs : List Attr
deriving DecidableEq, Repr, Inhabited

/-- the fields of `LineParser` that persist from one `ParseMarkup` call to the next (`input` and `reader` are overwritten
on entry before any use) -/
structure ParserState where
  sourcePosition : Nat := 0
  position : Nat := 0
deriving DecidableEq, Repr, Inhabited

inductive Outcome (α : Type) where
  | ok (a : α)
  | err
  | panic
deriving DecidableEq, Repr, Inhabited

/-! ## The scanning monad -/

/-- the unread part of `lineParser.reader` and the two counters -/
structure PS where
  rest : List Char
  src : Nat
  pos : Nat
deriving DecidableEq, Repr, Inhabited

inductive Res (α : Type) where
  | ok (a : α) (s : PS)
  | err (s : PS)
  | panic (s : PS)
  | oof (s : PS)
deriving Repr

def P (α : Type) : Type := PS → Res α

def P.pure {α} (a : α) : P α := fun s => .ok a s
def P.bind {α β} (p : P α) (f : α → P β) : P β := fun s =>
  match p s with
  | .ok a s' => f a s'
  | .err s' => .err s'
  | .panic s' => .panic s'
  | .oof s' => .oof s'
instance : Monad P where
  pure := P.pure
  bind := P.bind

/-- return an error (the Go code returns a non-nil `error`; messages are not modelled) -/
def fail {α} : P α := fun s => .err s
def panicP {α} : P α := fun s => .panic s
def oofP {α} : P α := fun s => .oof s
/-- `reader.ReadRune()`: `none` is `io.EOF` -/
def readRune : P (Option Char) := fun s =>
  match s.rest with
  | [] => .ok none s
  | c :: cs => .ok (some c) { s with rest := cs }
/-- `peekRune(reader)`: at the end of the input it returns rune 0 and a nil error -/
def peekRune : P Char := fun s => .ok (s.rest.headD (Char.ofNat 0)) s
def incSrc : P Unit := fun s => .ok () { s with src := s.src + 1 }
def setPos (n : Nat) : P Unit := fun s => .ok () { s with pos := n }
def getPos : P Nat := fun s => .ok s.pos s
def getSrc : P Nat := fun s => .ok s.src s
/-- `io.ReadAll(reader)` -/
def readAll : P (List Char) := fun s => .ok s.rest { s with rest := [] }
/-- `lineParser.reader = strings.NewReader(...)` -/
def setReader (l : List Char) : P Unit := fun s => .ok () { s with rest := l }

/-! ## Scanners -/

def isIdChar (c : Char) : Bool := isLetter c || isDigit c || c = '_'

def skipWsAux : List Char → Nat → List Char × Nat
  | c :: cs, n => if isSpace c then skipWsAux cs (n + 1) else (c :: cs, n)
  | [], n => ([], n)

/-- `consumeWhitespace`: never fails (`peekRune` hides EOF, so `allowEndOfLine` is irrelevant) -/
def consumeWhitespace : P Unit := fun s =>
  let r := skipWsAux s.rest s.src
  .ok () { s with rest := r.1, src := r.2 }

/-- `parseRune(r)` -/
def parseRune (r : Char) : P Unit := do
  consumeWhitespace
  match ← readRune with
  | none => fail
  | some c => if c ≠ r then fail else incSrc

/-- `expectPeek(r)`: at EOF `peekRune` gives rune 0, which no caller expects -/
def expectPeek (r : Char) : P Bool := do
  consumeWhitespace
  let c ← peekRune
  pure (c == r)

def takeIdAux : List Char → List Char → Nat → List Char × List Char × Nat
  | c :: cs, acc, n => if isIdChar c then takeIdAux cs (acc ++ [c]) (n + 1) else (acc, c :: cs, n)
  | [], acc, n => (acc, [], n)

/-- the loop of `parseID` after the first rune -/
def takeId : P (List Char) := fun s =>
  let r := takeIdAux s.rest [] s.src
  .ok r.1 { s with rest := r.2.1, src := r.2.2 }

/-- `parseID` -/
def parseID : P String := do
  consumeWhitespace
  match ← readRune with
  | none => fail
  | some c =>
    incSrc
    if isIdChar c then
      let more ← takeId
      pure (String.ofList (c :: more))
    else fail

def takeDigitsAux : List Char → List Char → Nat → List Char × List Char × Nat
  | c :: cs, acc, n => if isDigit c then takeDigitsAux cs (acc ++ [c]) (n + 1) else (acc, c :: cs, n)
  | [], acc, n => (acc, [], n)

/-- `parseDigits`: Unicode decimal digits; at EOF the digits read so far are returned -/
def parseDigits : P (List Char) := do
  consumeWhitespace
  fun s =>
    let r := takeDigitsAux s.rest [] s.src
    .ok r.1 { s with rest := r.2.1, src := r.2.2 }

/-- `strconv.Atoi` on a string of Unicode digits: only ASCII digits are accepted, the value must fit an int64 -/
def atoi (ds : List Char) : Option Nat :=
  if ds.isEmpty || !ds.all F64.isDigitC then none
  else
    let n := F64.digitsVal ds
    if n < P63 then some n else none

/-- `parseInteger` -/
def parseInteger : P Nat := do
  let ds ← parseDigits
  match atoi ds with
  | some n => pure n
  | none => fail

/-- body of a quoted string after the opening quote: result, unread input, source position -/
def strBody : List Char → List Char → Nat → Option (List Char × List Char × Nat)
  | [], _, _ => none
  | c :: cs, acc, n =>
    if c = '"' then some (acc, cs, n + 1)
    else if c = '\\' then
      match cs with
      | [] => none
      | d :: cs' => strBody cs' (acc ++ [d]) (n + 2)
    else strBody cs (acc ++ [c]) (n + 1)

/-- `parseString` -/
def parseString : P String := do
  consumeWhitespace
  match ← readRune with
  | none => fail
  | some c =>
    if c ≠ '"' then fail else
    incSrc
    fun s =>
      match strBody s.rest [] s.src with
      | none => .err { s with rest := [], src := s.src + s.rest.length }
      | some (body, rest, n) => .ok (String.ofList body) { s with rest := rest, src := n }

/-- `strings.ToLower` -/
def lowerStr (s : String) : String := String.ofList (s.toList.map toLower)

/-- `parseValue` -/
def parseValue : P PVal := do
  consumeWhitespace                                   -- peekNumeric
  let c ← peekRune
  if isDigit c then
    let i ← parseInteger
    if ← expectPeek '.' then
      parseRune '.'
      let fr ← parseDigits
      if fr.isEmpty then fail else
      match F64.parseFloat (F64.itoa i ++ "." ++ String.ofList fr) with
      | .val x => pure (.float x)
      | _ => fail                                    -- `.unmodelled` cannot arise: no `_`, no `0x`
    else pure (.int i)
  else if ← expectPeek '"' then
    let s ← parseString
    pure (.str s)
  else
    let w ← parseID
    let lw := lowerStr w
    if lw == "true" then pure (.bool true)
    else if lw == "false" then pure (.bool false)
    else pure (.str w)

/-- the property loop of `parseAttributeMarker` -/
def propsLoop (name : String) (src0 : Nat) : Nat → List (String × PVal) → P Marker
  | 0, _ => oofP
  | fuel + 1, props => do
    consumeWhitespace
    let c ← peekRune
    if c = ']' then
      parseRune ']'
      pure { name, position := ← getPos, sourcePosition := src0, props, tag := .opn }
    else if c = '/' then
      parseRune '/'
      parseRune ']'
      pure { name, position := ← getPos, sourcePosition := src0, props, tag := .selfClose }
    else
      let pn ← parseID
      parseRune '='
      let pv ← parseValue
      propsLoop name src0 fuel (props ++ [(pn, pv)])

/-- `parseAttributeMarker`; the `[` has been read. `fuel` bounds the property loop -/
def parseAttributeMarker (fuel : Nat) : P Marker := do
  let src0 ← getSrc
  incSrc
  if ← expectPeek '/' then
    parseRune '/'
    if ← expectPeek ']' then
      parseRune ']'
      pure { position := ← getPos, sourcePosition := src0, tag := .closeAll }
    else
      let nm ← parseID
      parseRune ']'
      pure { name := nm, position := ← getPos, sourcePosition := src0, tag := .close }
  else
    let nm ← parseID
    if ← expectPeek '=' then
      parseRune '='
      let v ← parseValue
      propsLoop nm src0 fuel [(nm, v)]
    else
      propsLoop nm src0 fuel []

/-! ## Replacement markers (processors.go) -/

/-- `attributeMarker.GetProperty`: the first property of that name -/
def getProp (ps : List (String × PVal)) (n : String) : Option PVal := (ps.find? (·.1 == n)).map (·.2)

/-- `Value.toString` -/
def PVal.toStr : PVal → String
  | .int i => F64.itoa i
  | .float f => F64.display f
  | .str s => s
  | .bool b => if b then "True" else "False"

/-- `strings.ReplaceAll(s, old, new)` for non-empty `old`; the counter skips the rest of a match -/
def replaceAllAux (old new : List Char) : List Char → Nat → List Char
  | [], _ => []
  | _ :: cs, k + 1 => replaceAllAux old new cs k
  | c :: cs, 0 =>
    if old.isPrefixOf (c :: cs) then new ++ replaceAllAux old new cs (old.length - 1)
    else c :: replaceAllAux old new cs 0
def replaceAll (s old new : List Char) : List Char := replaceAllAux old new s 0

/-- `replacePlaceholders` -/
def replacePlaceholders (r v : String) : String :=
  if !(r.toList.contains '%') then r
  else String.ofList (replaceAll (replaceAll r.toList ['%'] v.toList) ('\\' :: v.toList) ['%'])

/-- `getProcessor(name) != nil` -/
def isReplacement (n : String) : Bool := n == "nomarkup" || n == "select" || n == "plural" || n == "ordinal"

/-- the plural case of `processOrdinal` -/
def ordinalCase (n : Int) : String :=
  if n % 10 = 1 && n % 100 ≠ 11 then "one" else if n % 10 = 2 && n % 100 ≠ 12 then "two"
  else if n % 10 = 3 && n % 100 ≠ 13 then "few" else "other"

/-- the processors: `none` is an error -/
def process (name : String) (props : List (String × PVal)) : Option String :=
  if name == "nomarkup" then
    match getProp props "contents" with
    | none => some ""
    | some c => some c.toStr
  else if name == "select" then
    match getProp props "value" with
    | none => none
    | some v =>
      match getProp props v.toStr with
      | none => none
      | some r => some (replacePlaceholders r.toStr v.toStr)
  else if name == "plural" then
    match getProp props "value" with
    | none => none
    | some v =>
      let c : Option String := match v with
        | .float _ => some "other"
        | .int i => some (if i = 1 then "one" else "other")
        | _ => none
      match c with
      | none => none
      | some c =>
        match getProp props c with
        | none => none
        | some r => some (replacePlaceholders r.toStr v.toStr)
  else if name == "ordinal" then
    match getProp props "value" with
    | some (.int n) =>
      match getProp props (ordinalCase n) with
      | none => none
      | some r => some (replacePlaceholders r.toStr (PVal.int n).toStr)
    | _ => none
  else some ""

def skipPerlWs : List Char → List Char
  | c :: cs => if isPerlSpace c then skipPerlWs cs else c :: cs
  | [] => []

/-- does the regexp `\[\s*\/\s*(NAME)?\s*\]` (NAME quoted) match at the head? -/
def closeMatchesHere (name : List Char) (l : List Char) : Bool :=
  match l with
  | '[' :: l =>
    match skipPerlWs l with
    | '/' :: l =>
      let l := skipPerlWs l
      (match l with | ']' :: _ => true | _ => false) ||
      (name.isPrefixOf l && (match skipPerlWs (l.drop name.length) with | ']' :: _ => true | _ => false))
    | _ => false
  | _ => false

/-- `closeTagMarkerRegexp.FindStringIndex(remainder)[0]`: start of the leftmost match -/
def findCloseIdx (name : List Char) : List Char → Nat → Option Nat
  | [], _ => none
  | c :: cs, i => if closeMatchesHere name (c :: cs) then some i else findCloseIdx name cs (i + 1)

/-- a Go slice expression `s[lo:hi]` on a string seen as runes: panics unless `lo ≤ hi ≤ len` -/
def sliceP (l : List Char) (lo hi : Nat) : P (List Char) :=
  if lo ≤ hi ∧ hi ≤ l.length then pure ((l.drop lo).take (hi - lo)) else panicP

/-- `parseRawTextUpToAttributeClose` -/
def parseRawTextUpToAttributeClose (name : String) : P (List Char) := do
  let remainder ← readAll
  match findCloseIdx name.toList remainder 0 with
  | none => fail
  | some i =>
    let raw ← sliceP remainder 0 i
    let after ← sliceP remainder i remainder.length
    setReader after
    pure raw

/-- `processReplacementMarker` -/
def processReplacementMarker (m : Marker) : P String := do
  if m.tag ≠ .opn ∧ m.tag ≠ .selfClose then pure "" else
  let props ← (if m.tag = .opn then do
      let raw ← parseRawTextUpToAttributeClose m.name
      pure (m.props ++ [("contents", PVal.str (String.ofList raw))])
    else pure m.props : P (List (String × PVal)))
  match process m.name props with
  | none => fail
  | some t => pure t

/-! ## The main loop -/

structure LoopSt where
  out : List Char := []          -- `builder`
  markers : List Marker := []
  last : Char := Char.ofNat 0    -- `lastRune`
deriving Repr, Inhabited

/-- `trimWhitespaceIfAble`: self-closing markers that are not replacement markers trim by default; a `trimwhitespace`
property overrides and has to be a boolean; nothing is trimmed unless the marker is at the start of the text or preceded
by white space -/
def decideTrim (hadWs isRepl : Bool) (m : Marker) : P Bool :=
  if hadWs then
    match getProp m.props "trimwhitespace" with
    | some (.bool b) => pure b
    | some _ => fail
    | none => pure (m.tag == .selfClose && !isRepl)
  else pure false

/-- `if trimWhitespaceIfAble { if peekWhitespace() { ReadRune(); sourcePosition++ } }` -/
def trimOne (trim : Bool) : P Unit := do
  if trim && isSpace (← peekRune) then
    match ← readRune with
    | none => pure ()            -- EOF: `peekWhitespace` reports no match (rune 0 is not a space)
    | some _ => incSrc

/-- the body of `if nextRune == '['` after `lineParser.position = len([]rune(builder.String()))`: parse the marker, run its
processor, decide about the white space after it; `lastRune` becomes `[` -/
def markerStep (pfuel : Nat) (st : LoopSt) : P LoopSt := do
  let m ← parseAttributeMarker pfuel
  let hadWs := (← getPos) == 0 || isSpace st.last
  let isRepl := isReplacement m.name
  let replText ← (if isRepl then processReplacementMarker m else pure "" : P String)
  let trim ← decideTrim hadWs isRepl m
  trimOne trim
  pure { out := st.out ++ replText.toList, markers := st.markers ++ [m], last := '[' }

def mainLoop (pfuel : Nat) : Nat → LoopSt → P LoopSt
  | 0, _ => oofP
  | fuel + 1, st => do
    match ← readRune with
    | none => pure st
    | some c =>
      let nxt ← peekRune
      if c = '\\' ∧ (nxt = '[' ∨ nxt = ']') then
        match ← readRune with
        | none => fail
        | some b =>
          incSrc
          mainLoop pfuel fuel { st with out := st.out ++ [b] }
      else if c = '[' then
        setPos st.out.length
        let st' ← markerStep pfuel st
        mainLoop pfuel fuel st'
      else
        incSrc
        mainLoop pfuel fuel { st with out := st.out ++ [c], last := c }

/-! ## Attributes -/

/-- insert into the association list that represents a Go map: a later value replaces an earlier one -/
def mapInsert (k : String) (v : PVal) : List (String × PVal) → List (String × PVal)
  | [] => [(k, v)]
  | (k', v') :: r => if k' == k then (k, v) :: r else (k', v') :: mapInsert k v r

/-- `toPropertyMap` -/
def toPropertyMap (ps : List (String × PVal)) : List (String × PVal) := ps.foldl (fun m p => mapInsert p.1 p.2 m) []

/-- index of the last marker with that name (`for i := len-1; i >= 0; i--`) -/
def lastIndexNamed (name : String) : List Marker → Nat → Option Nat
  | [], _ => none
  | m :: ms, i =>
    match lastIndexNamed name ms (i + 1) with
    | some j => some j
    | none => if m.name == name then some i else none

def attrOf (o : Marker) (name : String) (closePos : Nat) : Attr :=
  { name, position := o.position, length := (closePos : Int) - (o.position : Int),
    sourcePosition := o.sourcePosition, props := toPropertyMap o.props }

/-- the loop of `buildAttributesFromMarkers` -/
def buildAttrs : List Marker → List Marker → List Attr → Outcome (List Attr)
  | [], _, acc => .ok acc
  | m :: ms, unclosed, acc =>
    match m.tag with
    | .opn => buildAttrs ms (unclosed ++ [m]) acc
    | .close =>
      match lastIndexNamed m.name unclosed 0 with
      | none => .err
      | some i =>
        match unclosed[i]? with
        | none => .panic                              -- `unclosedMarkers[i]` / `slices.Delete` out of range
        | some o => buildAttrs ms (unclosed.eraseIdx i) (acc ++ [attrOf o m.name m.position])
    | .selfClose =>
      buildAttrs ms unclosed (acc ++ [{ name := m.name, position := m.position, length := 0,
                                        sourcePosition := m.sourcePosition, props := toPropertyMap m.props }])
    | .closeAll => buildAttrs ms [] (acc ++ unclosed.map fun o => attrOf o o.name m.position)

/-- stable insertion: after every element whose position is not greater -/
def insertSorted (a : Attr) : List Attr → List Attr
  | [] => [a]
  | b :: bs => if a.position < b.position then a :: b :: bs else b :: insertSorted a bs
/-- `slices.SortStableFunc(attributes, by Position)` -/
def sortStable (l : List Attr) : List Attr := l.foldl (fun acc a => insertSorted a acc) []

/-- `endOfCharacterMarker.FindStringIndex(input)` for the regexp `:\s*` (Perl `\s`): start and end of the leftmost match -/
def findColon : List Char → Nat → Option (Nat × Nat)
  | [], _ => none
  | c :: cs, i => if c = ':' then some (i, i + 1 + (cs.takeWhile isPerlSpace).length) else findColon cs (i + 1)

def trimLeftLen (text : List Char) : Nat := (text.takeWhile isSpace).length
/-- `strings.TrimSpace` -/
def trimSpace (text : List Char) : List Char := ((text.dropWhile isSpace).reverse.dropWhile isSpace).reverse

/-- the final adjustment of an attribute to the trimmed text (Go `min`/`max` on ints) -/
def clipAttr (lead n : Int) (a : Attr) : Attr :=
  let start := min (max (a.position - lead) 0) n
  let stop := min (max (a.position + a.length - lead) 0) n
  { a with position := start, length := stop - start }

/-- the implicit `character` attribute: unless an attribute of that name exists, a match of `:\s*` in the input adds one -/
def addCharacter (input : List Char) (attrs : List Attr) : P (List Attr) :=
  if attrs.any (·.name == "character") then pure attrs else
  match findColon input 0 with
  | some (i, e) => do
    let nm ← sliceP input 0 i                   -- lineParser.input[:match[0]]
    let upTo ← sliceP input 0 e                 -- lineParser.input[:match[1]]
    pure (attrs ++ [{ name := "character", position := 0, length := upTo.length, sourcePosition := 0,
                      props := [("name", PVal.str (String.ofList nm))] }])
  | none => pure attrs

/-- everything after the main loop of `parseMarkup` -/
def finish (input : List Char) (st : LoopSt) : P ParseResult := do
  match buildAttrs st.markers [] [] with
  | .err => fail
  | .panic => panicP
  | .ok attrs =>
    let attrs ← addCharacter input (sortStable attrs)
    let text := st.out
    let kept := trimSpace text
    pure { text := String.ofList kept, attrs := attrs.map (clipAttr (trimLeftLen text) kept.length) }

/-- `parseMarkup` with explicit fuel: `fuel` for the main loop, `pfuel` for each property loop. The first lines of the Go
function overwrite the reader and both counters; the incoming state is taken and overwritten in the same way. -/
def parseCore (fuel pfuel : Nat) (st : ParserState) (input : List Char) : Res ParseResult :=
  let s0 : PS := { rest := [], src := st.sourcePosition, pos := st.position }
  let s1 : PS := { s0 with rest := input }      -- lineParser.reader = strings.NewReader(lineParser.input)
  let s2 : PS := { s1 with src := 0 }           -- lineParser.sourcePosition = 0
  let s3 : PS := { s2 with pos := 0 }           -- lineParser.position = 0
  (do let st ← mainLoop pfuel fuel {}
      finish input st : P ParseResult) s3

def stateOf (s : PS) : ParserState := { sourcePosition := s.src, position := s.pos }

/-- `LineParser.ParseMarkup` on runes, with fuel = length + 1. Running out of fuel is reported as `panic`
(`Props/C15.lean`: it does not happen). -/
def parseRunes (st : ParserState) (input : List Char) : ParserState × Outcome ParseResult :=
  match parseCore (input.length + 1) (input.length + 1) st input with
  | .ok r s => (stateOf s, .ok r)
  | .err s => (stateOf s, .err)
  | .panic s => (stateOf s, .panic)
  | .oof s => (stateOf s, .panic)

/-- `LineParser.ParseMarkup` on a (valid UTF-8) string -/
def parseLine (st : ParserState) (input : String) : ParserState × Outcome ParseResult := parseRunes st input.toList

/-- a Go slice expression `runes[lo:hi]` with `int` bounds: `none` is a run-time panic -/
def sliceRunes (l : List Char) (lo hi : Int) : Option (List Char) :=
  if 0 ≤ lo ∧ lo ≤ hi ∧ hi ≤ (l.length : Int) then some ((l.drop lo.toNat).take (hi.toNat - lo.toNat)) else none

/-- `ParseResult.TextForAttribute` -/
def textForAttribute (res : ParseResult) (a : Attr) : Outcome String :=
  if a.length = 0 then .ok "" else
  let runes := res.text.toList
  if a.position < 0 ∨ a.length < 0 ∨ (runes.length : Int) < a.position + a.length then .panic
  else match sliceRunes runes a.position (a.position + a.length) with
    | some r => .ok (String.ofList r)
    | none => .panic

/-! ## Canonical printing (same format as `Attrs` in harness/streams/run.go) -/

def showVal : PVal → String
  | .int i => "i:" ++ F64.itoa i
  | .float f => "f:N:" ++ (if f.isNaN then "nan" else toString f.bits)
  | .str s => "s:" ++ Obs.esc s
  | .bool b => "b:" ++ (if b then "true" else "false")

def showAttr (a : Attr) : String :=
  let ps := Obs.sortBy (fun (x y : String × PVal) => Obs.strLt x.1 y.1) (toPropertyMap a.props)
  Obs.esc a.name ++ "@" ++ F64.itoa a.position ++ "+" ++ F64.itoa a.length ++ "@" ++ F64.itoa a.sourcePosition ++
    "{" ++ ",".intercalate (ps.map fun p => Obs.esc p.1 ++ "=" ++ showVal p.2) ++ "}"

def showAttrs (as : List Attr) : String := ";".intercalate (as.map showAttr)

end Ysgo.Markup
