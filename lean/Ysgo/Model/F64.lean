/-!
# F64 — IEEE-754 binary64 as bit patterns over `Nat`, with exact arithmetic and one rounding function

Stand-in for the doubles of the Go compiler / CPU (`+ - * /`, comparisons, `math.Mod/Floor/Ceil/Trunc/Round`,
`float64(int)`, `int(float64)` on amd64). Fields are extracted with `/` and `%` on named constants so that
pack/unpack facts are `omega` goals. Every operation is "decode, compute exactly on integers, round once".
The model is validated against the hardware by the `f64` correspondence stream.
-/
namespace Ysgo

def P52 : Nat := 4503599627370496        -- 2^52
def P53 : Nat := 9007199254740992        -- 2^53
def P63 : Nat := 9223372036854775808     -- 2^63
def P64 : Nat := 18446744073709551616    -- 2^64

structure F64 where
  bits : Nat
deriving DecidableEq, Repr, Inhabited

namespace F64

def pack (neg : Bool) (expF frac : Nat) : F64 := ⟨(if neg then P63 else 0) + expF * P52 + frac⟩
def signBit (x : F64) : Bool := x.bits / P63 % 2 = 1
def expField (x : F64) : Nat := x.bits / P52 % 2048
def fracField (x : F64) : Nat := x.bits % P52

/-- decoded form: a finite double is (-1)^neg · m · 2^e -/
inductive Cls where
  | nan | inf (neg : Bool) | fin (neg : Bool) (m : Nat) (e : Int)
deriving DecidableEq, Repr

def decode (x : F64) : Cls :=
  if expField x = 2047 then (if fracField x = 0 then .inf (signBit x) else .nan)
  else if expField x = 0 then .fin (signBit x) (fracField x) (-1074)
  else .fin (signBit x) (fracField x + P52) ((expField x : Int) - 1075)

def nan : F64 := ⟨9221120237041090561⟩          -- 0x7FF8000000000001, Go's math.NaN()
def inf (neg : Bool) : F64 := pack neg 2047 0
def zero (neg : Bool) : F64 := pack neg 0 0
def isNaN (x : F64) : Bool := match decode x with | .nan => true | _ => false
def isZero (x : F64) : Bool := match decode x with | .fin _ 0 _ => true | _ => false

/-- round-half-even of N / D -/
def rne (N D : Nat) : Nat :=
  let q := N / D
  let r := N % D
  if 2 * r < D then q else if 2 * r > D then q + 1 else (if q % 2 = 0 then q else q + 1)

/-- nearest double to (-1)^neg · N · 2^e, for N > 0: the single rounding function on dyadics -/
def roundDyadic (neg : Bool) (N : Nat) (e : Int) : F64 :=
  let k : Int := Nat.log2 N
  let e' : Int := max (e + k - 52) (-1074)
  let m := if e ≥ e' then N * 2 ^ (e - e').toNat else rne N (2 ^ (e' - e).toNat)
  let m' := if m = P53 then P52 else m
  let e'' := if m = P53 then e' + 1 else e'
  if m' < P52 then pack neg 0 m'
  else if e'' + 1075 ≥ 2047 then inf neg else pack neg (e'' + 1075).toNat (m' - P52)

/-- floor (log2 (n/d)) for n, d > 0 -/
def ilog2q (n d : Nat) : Int :=
  let k : Int := (Nat.log2 n : Int) - (Nat.log2 d : Int)
  let ge (j : Int) : Bool := if j ≥ 0 then n ≥ d * 2 ^ j.toNat else n * 2 ^ (-j).toNat ≥ d
  if ge k then k else k - 1

/-- nearest double to (-1)^neg · n / d, for n, d > 0 (used where a quotient is unavoidable) -/
def roundQuot (neg : Bool) (n d : Nat) : F64 :=
  let e0 := ilog2q n d - 52
  let e := if e0 < -1074 then -1074 else e0
  let m := if e ≥ 0 then rne n (d * 2 ^ e.toNat) else rne (n * 2 ^ (-e).toNat) d
  let m' := if m = P53 then P52 else m
  let e' := if m = P53 then e + 1 else e
  if m' < P52 then pack neg 0 m'
  else if e' + 1075 ≥ 2047 then inf neg else pack neg (e' + 1075).toNat (m' - P52)

def ofNat (n : Nat) : F64 := if n = 0 then zero false else roundDyadic false n 0
def ofInt (i : Int) : F64 := if i = 0 then zero false else roundDyadic (i < 0) i.natAbs 0

def neg (x : F64) : F64 := if x.bits ≥ P63 then ⟨x.bits - P63⟩ else ⟨x.bits + P63⟩

/-- signed integer numerator of a finite double at a common exponent `e ≤ ex` -/
def numAt (neg : Bool) (m : Nat) (ex e : Int) : Int :=
  let n : Int := (m * 2 ^ (ex - e).toNat : Nat)
  if neg then -n else n

def add (x y : F64) : F64 :=
  match decode x, decode y with
  | .nan, _ | _, .nan => nan
  | .inf a, .inf b => if a == b then inf a else nan
  | .inf a, _ => inf a
  | _, .inf b => inf b
  | .fin a m1 e1, .fin b m2 e2 =>
    let e := min e1 e2
    let s := numAt a m1 e1 e + numAt b m2 e2 e
    if s = 0 then zero (a && b) else roundDyadic (s < 0) s.natAbs e

def sub (x y : F64) : F64 := add x (neg y)

def mul (x y : F64) : F64 :=
  match decode x, decode y with
  | .nan, _ | _, .nan => nan
  | .inf a, .inf b => inf (a != b)
  | .inf a, .fin b m _ => if m = 0 then nan else inf (a != b)
  | .fin a m _, .inf b => if m = 0 then nan else inf (a != b)
  | .fin a m1 e1, .fin b m2 e2 =>
    if m1 * m2 = 0 then zero (a != b) else roundDyadic (a != b) (m1 * m2) (e1 + e2)

def div (x y : F64) : F64 :=
  match decode x, decode y with
  | .nan, _ | _, .nan => nan
  | .inf _, .inf _ => nan
  | .inf a, .fin b _ _ => inf (a != b)
  | .fin a _ _, .inf b => zero (a != b)
  | .fin a m1 e1, .fin b m2 e2 =>
    if m2 = 0 then (if m1 = 0 then nan else inf (a != b))
    else if m1 = 0 then zero (a != b)
    else
      -- (m1·2^e1) / (m2·2^e2) = (m1·2^(e1-e)) / (m2·2^(e2-e)) with e = min e1 e2
      let e := min e1 e2
      roundQuot (a != b) (m1 * 2 ^ (e1 - e).toNat) (m2 * 2 ^ (e2 - e).toNat)

/-- Go math.Mod: result has the sign of x, magnitude |x| mod |y| (exact) -/
def fmod (x y : F64) : F64 :=
  match decode x, decode y with
  | .nan, _ | _, .nan => nan
  | .inf _, _ => nan
  | .fin _ _ _, .inf _ => x
  | .fin a m1 e1, .fin _ m2 e2 =>
    if m2 = 0 then nan else
    let e := min e1 e2
    let r := (m1 * 2 ^ (e1 - e).toNat) % (m2 * 2 ^ (e2 - e).toNat)
    if r = 0 then zero a else roundDyadic a r e

/-- integer part functions on ±m / 2^k (k > 0) -/
def floorInt (neg : Bool) (m k : Nat) : Int :=
  let q := m / 2 ^ k
  let r := m % 2 ^ k
  if neg then (if r = 0 then -(q : Int) else -((q : Int) + 1)) else q
def ceilInt (neg : Bool) (m k : Nat) : Int :=
  let q := m / 2 ^ k
  let r := m % 2 ^ k
  if neg then -(q : Int) else (if r = 0 then (q : Int) else (q : Int) + 1)
def truncInt (neg : Bool) (m k : Nat) : Int :=
  let q := m / 2 ^ k
  if neg then -(q : Int) else q
/-- round half away from zero (Go math.Round) -/
def roundInt (neg : Bool) (m k : Nat) : Int :=
  let q := m / 2 ^ k
  let r := m % 2 ^ k
  let q' := if 2 * r ≥ 2 ^ k then q + 1 else q
  if neg then -(q' : Int) else q'

def integral (f : Bool → Nat → Nat → Int) (x : F64) : F64 :=
  match decode x with
  | .fin neg m e =>
    if e ≥ 0 then x
    else
      let i := f neg m (-e).toNat
      if i = 0 then zero neg else ofInt i
  | _ => x

def floor := integral floorInt
def ceil := integral ceilInt
def trunc := integral truncInt
def round := integral roundInt

/-- three-way comparison of finite values: sign of x - y -/
def cmpFin (a : Bool) (m1 : Nat) (e1 : Int) (b : Bool) (m2 : Nat) (e2 : Int) : Int :=
  let e := min e1 e2
  numAt a m1 e1 e - numAt b m2 e2 e

def lt (x y : F64) : Bool :=
  match decode x, decode y with
  | .nan, _ | _, .nan => false
  | .inf a, .inf b => a && !b
  | .inf a, .fin _ _ _ => a
  | .fin _ _ _, .inf b => !b
  | .fin a m1 e1, .fin b m2 e2 => cmpFin a m1 e1 b m2 e2 < 0

def eq (x y : F64) : Bool :=
  match decode x, decode y with
  | .nan, _ | _, .nan => false
  | .inf a, .inf b => a == b
  | .inf _, .fin _ _ _ => false
  | .fin _ _ _, .inf _ => false
  | .fin a m1 e1, .fin b m2 e2 => cmpFin a m1 e1 b m2 e2 = 0

def le (x y : F64) : Bool := lt x y || eq x y
def gt (x y : F64) : Bool := lt y x
def ge (x y : F64) : Bool := lt y x || eq x y
def ne (x y : F64) : Bool := !eq x y

/-- Go `int64(f)` / `int(f)` on amd64 (CVTTSD2SQ): truncation; NaN, ±Inf and out-of-range give -2^63 -/
def toInt64 (x : F64) : Int :=
  match decode x with
  | .fin neg m e =>
    let i : Int := if e ≥ 0 then numAt neg m e 0 else truncInt neg m (-e).toNat
    if i ≥ (P63 : Int) ∨ i < -(P63 : Int) then -(P63 : Int) else i
  | _ => -(P63 : Int)

/-- wrap an integer into the two's complement range of `bits` bits (Go int8/16/32 conversions of an int64) -/
def wrapInt (bits : Nat) (i : Int) : Int :=
  let m : Int := (2 ^ bits : Nat)
  let r := i % m
  if r ≥ m / 2 then r - m else r

/-- correctly rounded 10^n (the entries of Go's pow10 tables are correctly rounded constants) -/
def pow10c (n : Int) : F64 :=
  if n ≥ 0 then ofNat (10 ^ n.toNat) else roundQuot false 1 (10 ^ (-n).toNat)

/-- Go math.Pow10: table look-ups combined by one multiplication / division -/
def pow10 (n : Int) : F64 :=
  if n < -323 then zero false
  else if n > 308 then inf false
  else if n ≥ 0 then mul (pow10c (n / 32 * 32)) (pow10c (n % 32))
  else div (pow10c (-((-n) / 32 * 32))) (pow10c ((-n) % 32))

/-- float32 round trip: float64(float32(x)) — nearest binary32, ties to even -/
def toF32 (x : F64) : F64 :=
  match decode x with
  | .fin neg m e =>
    if m = 0 then x else
    -- round m·2^e to 24 significant bits, minimum exponent -149
    let k : Int := Nat.log2 m
    let e' : Int := max (e + k - 23) (-149)
    let mm := if e ≥ e' then m * 2 ^ (e - e').toNat else rne m (2 ^ (e' - e).toNat)
    -- overflow threshold of binary32
    if mm = 0 then zero neg
    else
      let r := roundDyadic neg mm e'
      -- values ≥ 2^128 overflow to infinity in binary32
      if lt (roundDyadic false mm e') (roundDyadic false 1 128) then r else inf neg
  | _ => x

end F64
end Ysgo
