import Ysgo.Model.Core
/-!
# `variable.InMemoryStorer`: three maps with the Go lookup order, and its abstraction to one typed map

The runner model talks to a single map `Store = Map Value` (the `variable.Storer` interface as a typed map);
this module mirrors the concrete in-memory storer literally — `Set*` evicts the name from the two other maps —
and `abs` is the map it represents. `Props/C03.lean` proves that the concrete storer refines the abstract map and
never reports one name under two types.
-/
namespace Ysgo

structure Storer3 where
  numbers : Map F64 := []
  booleans : Map Bool := []
  strings : Map String := []

namespace Storer3

/-- `GetValue`: numbers, then booleans, then strings -/
def getValue (s : Storer3) (n : String) : Option Value :=
  match s.numbers.get n with
  | some x => some (.num x)
  | none =>
    match s.booleans.get n with
    | some b => some (.bool b)
    | none =>
      match s.strings.get n with
      | some t => some (.str t)
      | none => none

def setNumber (s : Storer3) (n : String) (x : F64) : Storer3 :=
  { numbers := s.numbers.set n x, booleans := s.booleans.erase n, strings := s.strings.erase n }
def setBoolean (s : Storer3) (n : String) (b : Bool) : Storer3 :=
  { numbers := s.numbers.erase n, booleans := s.booleans.set n b, strings := s.strings.erase n }
def setString (s : Storer3) (n : String) (t : String) : Storer3 :=
  { numbers := s.numbers.erase n, booleans := s.booleans.erase n, strings := s.strings.set n t }
def clear (_ : Storer3) : Storer3 := {}

def setValue (s : Storer3) (n : String) : Value → Storer3
  | .num x => s.setNumber n x
  | .bool b => s.setBoolean n b
  | .str t => s.setString n t

/-- `GetValues` looked up by name: booleans are written first, then numbers, then strings (later writes win) -/
def getValuesAt (s : Storer3) (n : String) : Option Value :=
  match s.strings.get n with
  | some t => some (.str t)
  | none =>
    match s.numbers.get n with
    | some x => some (.num x)
    | none =>
      match s.booleans.get n with
      | some b => some (.bool b)
      | none => none

/-- a name is in at most one of the three maps -/
def Inv (s : Storer3) : Prop :=
  ∀ n, (s.numbers.contains n → ¬ s.booleans.contains n ∧ ¬ s.strings.contains n) ∧
       (s.booleans.contains n → ¬ s.strings.contains n)

end Storer3
end Ysgo
