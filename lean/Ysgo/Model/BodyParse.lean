import Ysgo.Model.Indent
/-!
# Body layout and body parsing (stand-in for ANTLR on the statement structure of a node body)

What the properties C01.4 / C08.6 quantify over is the *nesting* of a body: which statements are in which option
body and which if-clause. This module models exactly that part of the pipeline text → tree:

* `Stmt`: a body tree. `line n` is a line statement, `single n` any other statement that occupies one line and has
  no body (`<<set>>`, `<<declare>>`, `<<jump>>`, `<<call>>`, `<<stop>>`, custom commands; the payload identifies
  it), `opts` a shortcut option group (each option: its line and its body), `ifs` an if statement (first clause,
  elseif clauses, optional else clause).
* `LTok`: what one logical line contributes to the parser, as a unit (`arrow n` = `->` + the option's line
  statement including its NEWLINE; `ifT` = `<<if …>>`; `bodyEnd` = `===`).
* `Layout` / `layoutBody`: writing a tree down as lines with indentation widths: the width at nesting depth `d` is
  `L.w d`; option bodies are one level deeper than their option; if-clause bodies are one level deeper than the
  `<<if>>` or at the same level (`ifIndent`); the whole body may be indented (`topIndent`); `===` is at column 0.
* `PLine` / `lexBody`: the physical lines (noise lines = blank, whitespace-only, comment-only lines of any width,
  and real lines) go through the indentation logic of `Ysgo.Indent` (`handleNewline`, `handleEOF` — the mirror of
  `indent_aware_lexer.go`); the result is the token sequence the parser sees (`NEWLINE`s of the hidden channel and
  comments are invisible to it, the `NEWLINE` that ends a line statement is part of the `LTok`).
* `qStmts / qOpts / qElifs`: recursive descent with fuel for the grammar rules
  `statement*`, `shortcut_option_statement: shortcut_option+`, `shortcut_option: '->' line_statement (INDENT statement* DEDENT)?`,
  `if_statement: if_clause else_if_clause* else_clause? <<endif>>`, and `statement: … | INDENT statement* DEDENT`,
  whose statements the listener (`parser_listener.go`, no callback for that alternative) appends to the enclosing
  list, i.e. flattens. Option bodies and the option loop are greedy, as ANTLR resolves these ambiguities.
  Written in explicit `match` style so that the equation lemmas are usable in proofs.
-/
namespace Ysgo.BodyParse

inductive Stmt where
  | line (n : Nat)
  | single (n : Nat)
  | opts (os : List (Nat × List Stmt))
  | ifs (first : List Stmt) (elifs : List (List Stmt)) (els : Option (List Stmt))
deriving Repr, BEq

inductive LTok where
  | line (n : Nat) | arrow (n : Nat) | single (n : Nat)
  | ifT | elseifT | elseT | endifT | bodyEnd
deriving Repr, BEq, DecidableEq

inductive Tok where
  | t (l : LTok) | indent | dedent
deriving Repr, BEq, DecidableEq

/-! ## layout: tree → lines -/

structure Layout where
  /-- width at nesting depth `d` (depth 0 is column 0) -/
  w : Nat → Nat
  /-- if-clause bodies are one level deeper than `<<if>>` -/
  ifIndent : Bool
  /-- the statements of the body start at depth 1 instead of depth 0 -/
  topIndent : Bool

mutual
def layoutStmt (L : Layout) (d : Nat) : Stmt → List (Nat × LTok)
  | .line n => [(L.w d, .line n)]
  | .single n => [(L.w d, .single n)]
  | .opts os => layoutOpts L d os
  | .ifs f es el =>
    let d' := if L.ifIndent then d + 1 else d
    (L.w d, .ifT) :: layoutStmts L d' f ++ layoutElifs L d d' es ++
      (match el with | some b => (L.w d, .elseT) :: layoutStmts L d' b | none => []) ++ [(L.w d, .endifT)]
def layoutStmts (L : Layout) (d : Nat) : List Stmt → List (Nat × LTok)
  | [] => []
  | s :: ss => layoutStmt L d s ++ layoutStmts L d ss
def layoutOpts (L : Layout) (d : Nat) : List (Nat × List Stmt) → List (Nat × LTok)
  | [] => []
  | (n, b) :: os => (L.w d, .arrow n) :: layoutStmts L (d + 1) b ++ layoutOpts L d os
def layoutElifs (L : Layout) (d d' : Nat) : List (List Stmt) → List (Nat × LTok)
  | [] => []
  | b :: bs => (L.w d, .elseifT) :: layoutStmts L d' b ++ layoutElifs L d d' bs
end

/-- the real (non-noise) lines of a body in layout `L`, from the line after `---` to `===` inclusive -/
def layoutBody (L : Layout) (body : List Stmt) : List (Nat × LTok) :=
  layoutStmts L (if L.topIndent then 1 else 0) body ++ [(0, .bodyEnd)]

/-! ## physical lines → parser tokens, through the indentation logic -/

/-- a physical line: its indentation width and, unless it is a noise line, what it contributes to the parser -/
inductive PLine where
  | noise (w : Nat)
  | real (w : Nat) (t : LTok)
deriving Repr, BEq

/-- what `IndentAwareLexer` reads from the NEWLINE token in front of the line -/
def PLine.info : PLine → Indent.LineInfo
  | .noise w => { width := w, noise := true }
  | .real w _ => { width := w, noise := false }

def PLine.toks : PLine → List Tok
  | .noise _ => []
  | .real _ t => [.t t]

/-- the real lines among physical lines (the noise-line filter) -/
def realLines : List PLine → List (Nat × LTok)
  | [] => []
  | .noise _ :: ps => realLines ps
  | .real w t :: ps => (w, t) :: realLines ps

/-- INDENT and DEDENT reach the parser; hidden-channel NEWLINEs do not; EOF ends the stream -/
def convTok : Indent.Tok → List Tok
  | .indent => [.indent]
  | .dedent => [.dedent]
  | .nl => []
  | .eof => []

def convToks : List Indent.Tok → List Tok
  | [] => []
  | t :: ts => convTok t ++ convToks ts

/-- every physical line is preceded by a NEWLINE token (the one that ends the previous line; for the first line of
a body the one behind `---`): the indentation logic runs on it, then the line's own tokens follow -/
def lexBodyFrom : List Nat → List PLine → List Tok
  | st, [] => convToks (Indent.handleEOF st)
  | st, p :: ps =>
    let r := Indent.handleNewline st p.info
    convToks r.2 ++ p.toks ++ lexBodyFrom r.1 ps

/-- tokens of a body whose header lines and `---` are at column 0 (empty indentation stack) -/
def lexBody (ps : List PLine) : List Tok := lexBodyFrom [] ps

/-! ## parser -/

def consR (s : Stmt) : Option (List Stmt × List Tok) → Option (List Stmt × List Tok)
  | some (ss, r) => some (s :: ss, r)
  | none => none
def appR (a : List Stmt) : Option (List Stmt × List Tok) → Option (List Stmt × List Tok)
  | some (ss, r) => some (a ++ ss, r)
  | none => none

mutual
/-- `statement*`: returns the statements and the remaining tokens; `none` = syntax error or out of fuel -/
def qStmts : Nat → List Tok → Option (List Stmt × List Tok)
  | 0, _ => none
  | f + 1, .t (.line n) :: r => consR (.line n) (qStmts f r)
  | f + 1, .t (.single n) :: r => consR (.single n) (qStmts f r)
  | f + 1, .t (.arrow n) :: r =>
    (match qOpts f (.t (.arrow n) :: r) with
     | some (os, r1) => consR (.opts os) (qStmts f r1)
     | none => none)
  | f + 1, .t .ifT :: r =>
    (match qStmts f r with
     | some (fb, r1) =>
       (match qElifs f r1 with
        | some (es, .t .elseT :: r2) =>
          (match qStmts f r2 with
           | some (eb, .t .endifT :: r3) => consR (.ifs fb es (some eb)) (qStmts f r3)
           | _ => none)
        | some (es, .t .endifT :: r2) => consR (.ifs fb es none) (qStmts f r2)
        | _ => none)
     | none => none)
  | f + 1, .indent :: r =>
    (match qStmts f r with
     | some (inner, .dedent :: r1) => appR inner (qStmts f r1)
     | _ => none)
  | _ + 1, ts => some ([], ts)
/-- `shortcut_option*` (greedy) -/
def qOpts : Nat → List Tok → Option (List (Nat × List Stmt) × List Tok)
  | 0, _ => none
  | f + 1, .t (.arrow n) :: .indent :: r =>
    (match qStmts f r with
     | some (b, .dedent :: r1) =>
       (match qOpts f r1 with | some (os, r2) => some ((n, b) :: os, r2) | none => none)
     | _ => none)
  | f + 1, .t (.arrow n) :: r =>
    (match qOpts f r with | some (os, r2) => some ((n, []) :: os, r2) | none => none)
  | _ + 1, ts => some ([], ts)
/-- `else_if_clause*` -/
def qElifs : Nat → List Tok → Option (List (List Stmt) × List Tok)
  | 0, _ => none
  | f + 1, .t .elseifT :: r =>
    (match qStmts f r with
     | some (b, r1) => (match qElifs f r1 with | some (bs, r2) => some (b :: bs, r2) | none => none)
     | none => none)
  | _ + 1, ts => some ([], ts)
end

/-- fuel that always suffices (`Ysgo/Lemmas/BodyParseFuel.lean`: the result does not change with more fuel) -/
def fuelFor (ts : List Tok) : Nat := 2 * ts.length + 2

/-- `body BODY_END`: the statements up to `===`; `none` = syntax error -/
def parse (ts : List Tok) : Option (List Stmt) :=
  match qStmts (fuelFor ts) ts with
  | some (ss, .t .bodyEnd :: _) => some ss
  | _ => none

/-- physical lines → tree -/
def parseLines (ps : List PLine) : Option (List Stmt) := parse (lexBody ps)


/-! ## the canonical token sequence of a tree (what the parser must see, whatever the widths) -/

/-- a block: `INDENT … DEDENT`, or nothing at all for an empty body -/
def brk (ts : List Tok) : List Tok := if ts.isEmpty then [] else .indent :: ts ++ [.dedent]

section
variable (L : Layout)

mutual
def tStmt : Stmt → List Tok
  | .line n => [.t (.line n)]
  | .single n => [.t (.single n)]
  | .opts os => tOpts os
  | .ifs f es el =>
    .t .ifT :: (if L.ifIndent then brk (tStmts f) else tStmts f) ++ tElifs es ++
      (match el with
       | some b => .t .elseT :: (if L.ifIndent then brk (tStmts b) else tStmts b)
       | none => []) ++ [.t .endifT]
def tStmts : List Stmt → List Tok
  | [] => []
  | s :: ss => tStmt s ++ tStmts ss
def tOpts : List (Nat × List Stmt) → List Tok
  | [] => []
  | (n, b) :: os => .t (.arrow n) :: brk (tStmts b) ++ tOpts os
def tElifs : List (List Stmt) → List Tok
  | [] => []
  | b :: bs => .t .elseifT :: (if L.ifIndent then brk (tStmts b) else tStmts b) ++ tElifs bs
end

end

/-- the tokens of a body in a layout that indents the top level or not, up to and including `===` -/
def bodyToks (L : Layout) (body : List Stmt) : List Tok :=
  (if L.topIndent then brk (tStmts L body) else tStmts L body) ++ [.t .bodyEnd]

/-- widths are strictly increasing with the nesting depth, depth 0 is column 0 -/
structure Layout.Ok (L : Layout) : Prop where
  zero : L.w 0 = 0
  mono : ∀ d, L.w d < L.w (d + 1)

/-! ## well-formedness: no two adjacent option groups (the option loop is greedy: they would be read as one group),
option groups non-empty (an empty group has no line) -/
mutual
def wfS : Stmt → Bool
  | .opts os => !os.isEmpty && wfO os
  | .ifs f es el => wfL f && wfE es && (match el with | some b => wfL b | none => true)
  | _ => true
def wfL : List Stmt → Bool
  | [] => true
  | [s] => wfS s
  | s :: t :: r => wfS s && !(match s, t with | .opts _, .opts _ => true | _, _ => false) && wfL (t :: r)
def wfO : List (Nat × List Stmt) → Bool
  | [] => true
  | (_, b) :: os => wfL b && wfO os
def wfE : List (List Stmt) → Bool
  | [] => true
  | b :: bs => wfL b && wfE bs
end

end Ysgo.BodyParse
