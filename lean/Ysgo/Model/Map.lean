/-!
# Association-list maps with the two laws every proof uses

All Go maps of the interpreter (variables, visit counts) are modelled by this module; iteration order is never
observable because every observation of a Go map is sorted by key first.
-/
namespace Ysgo

abbrev Map (β : Type) := List (String × β)

namespace Map

def get {β} : Map β → String → Option β
  | [], _ => none
  | (k, v) :: t, n => if k = n then some v else get t n

def set {β} : Map β → String → β → Map β
  | [], n, v => [(n, v)]
  | (k, w) :: t, n, v => if k = n then (k, v) :: t else (k, w) :: set t n v

def erase {β} : Map β → String → Map β
  | [], _ => []
  | (k, w) :: t, n => if k = n then erase t n else (k, w) :: erase t n

def contains {β} (m : Map β) (n : String) : Bool := (m.get n).isSome

theorem get_set_eq {β} (m : Map β) (n : String) (v : β) : (m.set n v).get n = some v := by
  induction m with
  | nil => simp [set, get]
  | cons a t ih =>
    obtain ⟨k, w⟩ := a
    by_cases h : k = n <;> simp [set, get, h, ih]

theorem get_set_ne {β} (m : Map β) (n n' : String) (v : β) (h : n ≠ n') :
    (m.set n v).get n' = m.get n' := by
  induction m with
  | nil => simp [set, get, h]
  | cons a t ih =>
    obtain ⟨k, w⟩ := a
    by_cases hk : k = n
    · subst hk; simp [set, get, h]
    · by_cases hk' : k = n'
      · subst hk'
        have : ¬ k = n := hk
        simp [set, get, this]
      · simp [set, get, hk, hk', ih]

theorem get_erase_eq {β} (m : Map β) (n : String) : (m.erase n).get n = none := by
  induction m with
  | nil => simp [erase, get]
  | cons a t ih =>
    obtain ⟨k, w⟩ := a
    by_cases h : k = n <;> simp [erase, get, h, ih]

theorem get_erase_ne {β} (m : Map β) (n n' : String) (h : n ≠ n') : (m.erase n).get n' = m.get n' := by
  induction m with
  | nil => simp [erase, get]
  | cons a t ih =>
    obtain ⟨k, w⟩ := a
    by_cases hk : k = n
    · subst hk; simp [erase, get, h, ih]
    · simp only [erase, hk, if_false, get]
      by_cases hk' : k = n' <;> simp [hk', ih]

end Map

/-- visit counters -/
def count (v : Map Nat) (n : String) : Nat := (v.get n).getD 0
def bump (v : Map Nat) (n : String) : Map Nat := v.set n (count v n + 1)

theorem count_bump (v : Map Nat) (c n : String) :
    count (bump v c) n = count v n + (if n = c then 1 else 0) := by
  unfold bump count
  by_cases h : n = c
  · subst h; simp [Map.get_set_eq]
  · have : c ≠ n := fun e => h e.symm
    simp [Map.get_set_ne _ _ _ _ this, h]

/-- keys of a visit map built only by `bump` never map to 0 -/
theorem bump_pos (v : Map Nat) (c n : String) (h : ∀ k x, v.get k = some x → 0 < x) :
    ∀ x, (bump v c).get n = some x → 0 < x := by
  intro x hx
  unfold bump at hx
  by_cases hn : c = n
  · subst hn; rw [Map.get_set_eq] at hx; cases hx; omega
  · rw [Map.get_set_ne _ _ _ _ hn] at hx; exact h n x hx

end Ysgo
