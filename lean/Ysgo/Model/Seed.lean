/-!
# Seed strings (mirror of internal/rng/seed.go `toRadix36`, `seedToInt64` and the decision of `rng.NewRNG`)

`seedToInt64` reads the seed as a base-36 numeral over `[0-9a-z]`, most significant digit first, in `int64`
arithmetic: `result = radix*result + v` wraps around silently (Go integer overflow does not panic), so the function is
total. Any other rune is an error. The Go code ranges over `[]rune(seed)`; an invalid UTF-8 byte arrives as U+FFFD, which
is not a digit.
-/
namespace Ysgo.Seed

/-- `radix = '9' - '0' + 'z' - 'a' + 2` -/
def radix : Nat := 36

/-- `toRadix36`: the value of a digit, `none` = "only number and lowercase characters are supported" -/
def digit (c : Char) : Option Nat :=
  if '0' ≤ c ∧ c ≤ '9' then some (c.toNat - 48)
  else if 'a' ≤ c ∧ c ≤ 'z' then some (c.toNat - 97 + 10)
  else none

/-- two's-complement wrap of an integer into the int64 range -/
def wrap (i : Int) : Int := (i + 9223372036854775808) % 18446744073709551616 - 9223372036854775808

/-- the loop of `seedToInt64` with its accumulator -/
def go : List Char → Int → Option Int
  | [], acc => some acc
  | c :: cs, acc =>
    match digit c with
    | some v => go cs (wrap (36 * acc + v))
    | none => none

/-- `seedToInt64` on the runes of the seed; `none` = error -/
def seedToInt64 (s : List Char) : Option Int := go s 0

/-- what `rng.NewRNG` decides for a seed string -/
inductive NewRng where
  | random              -- empty seed: a seed is drawn from the global source (not reproducible)
  | seeded (v : Int)    -- `rand.NewSource(v)`
  | invalid             -- error "invalid seed"
deriving DecidableEq, Repr

def newRng (s : List Char) : NewRng :=
  if s.isEmpty then .random
  else match seedToInt64 s with
    | some v => .seeded v
    | none => .invalid

end Ysgo.Seed
