/-!
# `container.Queue` — literal mirror of `/repo/internal/container/queue.go`

```go
type Queue[T any] struct { base []T; first int; next int }
```

* `base` is the ring buffer (`cap(q.base) = len(q.base)` always: the slice is only ever created by `make([]T, n)`),
  modelled as a `List α` whose length is the capacity;
* `first` is the head index, `-1` once the queue has been drained (the Go sentinel), hence an `Int`;
* `next` is the tail index.

Go's zero value `Queue[T]{}` is `empty`. `Dequeue` and `Peek` panic on the empty queue: the model returns the
explicit outcome `Outcome.panic` (and leaves the state unchanged, like a recovered Go panic does).
Nothing here is proved; see `Ysgo/Lemmas/Queue.lean` and `Ysgo/Props/C20.lean`.
-/
namespace Ysgo.Container

/-- result of an operation that may panic in Go -/
inductive Outcome (β : Type) where
  | ok (v : β)
  | panic
deriving Repr, DecidableEq, BEq

end Ysgo.Container

namespace Ysgo.Queue
open Ysgo.Container

structure Queue (α : Type) where
  /-- ring buffer, `len = cap` -/
  base  : List α
  /-- head index, `-1` when drained -/
  first : Int
  /-- tail index -/
  next  : Nat
deriving Repr

variable {α : Type} [Inhabited α]

/-- Go zero value -/
def empty : Queue α := ⟨[], 0, 0⟩

/-- `cap(q.base)` -/
def cap (q : Queue α) : Nat := q.base.length

/-- `Enqueue`. `default` plays the role of Go's zero value of `T` in freshly made slices.
```go
if len(q.base) == 0 { q.base = make([]T, 8); q.first = -1 }
if q.next != q.first {
    if q.first == -1 { q.first = q.next }
    q.base[q.next] = i
    q.next = (q.next + 1) % cap(q.base)
    return
}
previousSize := cap(q.base)
biggerBase := make([]T, previousSize*2)
copy(biggerBase, q.base[q.first:previousSize])
copy(biggerBase[previousSize-q.first:], q.base[:q.first])
q.base = biggerBase; q.first = 0; q.base[previousSize] = i; q.next = previousSize + 1
``` -/
def enqueue (q : Queue α) (x : α) : Queue α :=
  let q : Queue α := if q.base.length = 0 then ⟨List.replicate 8 default, -1, q.next⟩ else q
  if (q.next : Int) ≠ q.first then
    { base := q.base.set q.next x,
      first := if q.first = -1 then (q.next : Int) else q.first,
      next := (q.next + 1) % q.base.length }
  else
    { base := (q.base.drop q.first.toNat ++ q.base.take q.first.toNat
                ++ List.replicate q.base.length default).set q.base.length x,
      first := 0,
      next := q.base.length + 1 }

/-- `Size`.
```go
if len(q.base) == 0 || q.first == -1 { return 0 }
if q.next == q.first { return cap(q.base) }
return (q.next - q.first + cap(q.base)) % cap(q.base)
``` -/
def size (q : Queue α) : Nat :=
  if q.base.length = 0 ∨ q.first = -1 then 0
  else if (q.next : Int) = q.first then q.base.length
  else ((q.next - q.first + q.base.length) % q.base.length).toNat

/-- `Dequeue`: panics iff `Size() == 0`.
```go
result := q.base[q.first]
q.first = (q.first + 1) % cap(q.base)
if q.first == q.next { q.first = -1; q.next = 0 }
return result
``` -/
def dequeue (q : Queue α) : Outcome (α × Queue α) :=
  if size q = 0 then .panic
  else
    let r := q.base.getD q.first.toNat default
    let first := (q.first + 1) % q.base.length
    if first = q.next then .ok (r, { q with first := -1, next := 0 })
    else .ok (r, { q with first := first })

/-- `Peek`: panics iff `Size() == 0`, otherwise `q.base[q.first]`. -/
def peek (q : Queue α) : Outcome α :=
  if size q = 0 then .panic else .ok (q.base.getD q.first.toNat default)

/-! ## operation sequences (what the hook `verifhook.QueueRun` drives) -/

inductive Op (α : Type) where
  | enq (x : α)
  | deq
  | peek
  | size
deriving Repr

/-- observable result of one operation -/
inductive Obs (α : Type) where
  | done            -- Enqueue returned
  | val (x : α)     -- Dequeue / Peek returned x
  | size (n : Nat)  -- Size returned n
  | panic           -- Dequeue / Peek panicked (the state is unchanged)
deriving Repr, DecidableEq, BEq

def step (q : Queue α) : Op α → Obs α × Queue α
  | .enq x => (.done, enqueue q x)
  | .deq => (match dequeue q with
      | .ok (r, q') => (.val r, q')
      | .panic => (.panic, q))
  | .peek => (match peek q with
      | .ok r => (.val r, q)
      | .panic => (.panic, q))
  | .size => (.size (size q), q)

/-- per operation: its result and the size reported afterwards -/
def run : Queue α → List (Op α) → List (Obs α × Nat)
  | _, [] => []
  | q, op :: ops => let r := step q op; (r.1, size r.2) :: run r.2 ops

/-- per operation: its result and the state afterwards (only for the informational raw-state column of the
correspondence stream; `run q ops = (runStates q ops).map fun r => (r.1, size r.2)`, lemma `run_eq_runStates`) -/
def runStates : Queue α → List (Op α) → List (Obs α × Queue α)
  | _, [] => []
  | q, op :: ops => let r := step q op; r :: runStates r.2 ops

end Ysgo.Queue
