/-!
# Expression syntax: tokens, spellings, the ExpressionMode lexer, printers and the precedence parser

Hand-written stand-in for the ANTLR text → tree path on the fragment C02 / C08 quantify over
(`YarnSpinnerLexer.g4` mode `ExpressionMode`, `YarnSpinnerParser.g4` rules `expression`, `value`, `function_call`,
listener `internal/tree/parser_listener.go`, operator maps `internal/tree/expression.go`).

* `Tok` — one constructor per ExpressionMode token type (every spelling of an operator is the same token);
  `Tok.typeName` is the symbolic name the generated lexer reports; `spell` lists every spelling.
* `lexExpr : List Char → Option (List Tok)` — longest match, first rule wins on ties (so `lte` is the operator and
  `ltex` a `FUNC_ID`), whitespace hidden, any character no rule matches is a lexer error (`none`; the loader turns
  every lexer error into a load error).  `lexTo` is the same scanner returning at the first `}` or `>>` (the tokens
  that leave ExpressionMode) so that `LineLex` can use it for `{…}` and `<<if …>>`.
* `Expr` — the tree the listener builds, in the shape of the harness' `ast.Expr` / `verifhook.DumpDialogue`
  (numbers keep their literal text; `strconv.ParseFloat` is applied by whoever needs the value).
* `parseExpr : List Tok → Option Expr` — fuelled stratified parser, one left-associative loop per level; the level
  table is the alternative order of rule `expression`.
* printers `printMin`, `printFull`, `printRedundant` (tokens) and `PExpr`, expression trees with explicit
  parenthesis nodes: *every* way of adding redundant parentheses to an expression is `prP 1 p` for some `p`
  with `erase p = e`.

Strings are `List Char` throughout (`Str`), so that the scanner is plain structural list code.
Identifiers follow the grammar's `ID` rule including its Unicode ranges.
-/
namespace Ysgo
namespace ExprSyntax

abbrev Str := List Char

inductive BinOp | mul | div | mod | add | sub | le | ge | lt | gt | eq | ne | and | or | xor
deriving DecidableEq, Repr, Inhabited

/-- name used by the dump (`verifhook.binaryOperatorNames`) -/
def BinOp.name : BinOp → String
  | .mul => "mul" | .div => "div" | .mod => "mod" | .add => "add" | .sub => "sub"
  | .le => "le" | .ge => "ge" | .lt => "lt" | .gt => "gt" | .eq => "eq" | .ne => "ne"
  | .and => "and" | .or => "or" | .xor => "xor"

/-- precedence level: position of the operator's alternative in rule `expression` (higher binds tighter;
    the prefix operators and the primaries are level 6) -/
def lvl : BinOp → Nat
  | .mul | .div | .mod => 5
  | .add | .sub => 4
  | .le | .ge | .lt | .gt => 3
  | .eq | .ne => 2
  | .and | .or | .xor => 1

/-! ## Tokens -/

/-- the token types of `ExpressionMode` that stay in the mode (the two that leave it, `}` and `>>`, are `Stop`s) -/
inductive Tok where
  | num (text : Str)          -- NUMBER, the literal as written
  | str (raw : Str)           -- STRING, content between the quotes, escapes unresolved
  | var (name : Str)          -- VAR_ID, without the `$`
  | fid (name : Str)          -- FUNC_ID (also `string`, `number`, `bool`)
  | kwTrue | kwFalse | kwNull
  | lp | rp | comma | dot | kwAs
  | op (o : BinOp)            -- `-` is `op sub` whether it is used as prefix or infix
  | not | assign
  | addEq | subEq | mulEq | divEq | modEq
deriving DecidableEq, Repr, Inhabited

/-- symbolic name of the token type in the generated lexer -/
def Tok.typeName : Tok → String
  | .num _ => "NUMBER" | .str _ => "STRING" | .var _ => "VAR_ID" | .fid _ => "FUNC_ID"
  | .kwTrue => "KEYWORD_TRUE" | .kwFalse => "KEYWORD_FALSE" | .kwNull => "KEYWORD_NULL"
  | .lp => "LPAREN" | .rp => "RPAREN" | .comma => "COMMA" | .dot => "DOT" | .kwAs => "EXPRESSION_AS"
  | .op .mul => "OPERATOR_MATHS_MULTIPLICATION" | .op .div => "OPERATOR_MATHS_DIVISION"
  | .op .mod => "OPERATOR_MATHS_MODULUS" | .op .add => "OPERATOR_MATHS_ADDITION"
  | .op .sub => "OPERATOR_MATHS_SUBTRACTION"
  | .op .le => "OPERATOR_LOGICAL_LESS_THAN_EQUALS" | .op .ge => "OPERATOR_LOGICAL_GREATER_THAN_EQUALS"
  | .op .lt => "OPERATOR_LOGICAL_LESS" | .op .gt => "OPERATOR_LOGICAL_GREATER"
  | .op .eq => "OPERATOR_LOGICAL_EQUALS" | .op .ne => "OPERATOR_LOGICAL_NOT_EQUALS"
  | .op .and => "OPERATOR_LOGICAL_AND" | .op .or => "OPERATOR_LOGICAL_OR" | .op .xor => "OPERATOR_LOGICAL_XOR"
  | .not => "OPERATOR_LOGICAL_NOT" | .assign => "OPERATOR_ASSIGNMENT"
  | .addEq => "OPERATOR_MATHS_ADDITION_EQUALS" | .subEq => "OPERATOR_MATHS_SUBTRACTION_EQUALS"
  | .mulEq => "OPERATOR_MATHS_MULTIPLICATION_EQUALS" | .divEq => "OPERATOR_MATHS_DIVISION_EQUALS"
  | .modEq => "OPERATOR_MATHS_MODULUS_EQUALS"

/-- every spelling of an operator, in the order of the lexer rule's alternatives -/
def BinOp.spell : BinOp → List Str
  | .mul => [['*']] | .div => [['/']] | .mod => [['%']] | .add => [['+']] | .sub => [['-']]
  | .le => [['<', '='], ['l', 't', 'e']]
  | .ge => [['>', '='], ['g', 't', 'e']]
  | .lt => [['<'], ['l', 't']]
  | .gt => [['>'], ['g', 't']]
  | .eq => [['=', '='], ['i', 's'], ['e', 'q']]
  | .ne => [['!', '='], ['n', 'e', 'q']]
  | .and => [['a', 'n', 'd'], ['&', '&']]
  | .or => [['o', 'r'], ['|', '|']]
  | .xor => [['x', 'o', 'r'], ['^']]

/-- ALL spellings of a token (the lexer grammar's alternatives); tokens with a payload have exactly one -/
def spell : Tok → List Str
  | .num t => [t]
  | .str raw => ['"' :: raw ++ ['"']]
  | .var n => ['$' :: n]
  | .fid n => [n]
  | .kwTrue => [['t', 'r', 'u', 'e']]
  | .kwFalse => [['f', 'a', 'l', 's', 'e']]
  | .kwNull => [['n', 'u', 'l', 'l']]
  | .lp => [['(']] | .rp => [[')']] | .comma => [[',']] | .dot => [['.']]
  | .kwAs => [['a', 's']]
  | .op o => o.spell
  | .not => [['n', 'o', 't'], ['!']]
  | .assign => [['='], ['t', 'o']]
  | .addEq => [['+', '=']] | .subEq => [['-', '=']] | .mulEq => [['*', '=']]
  | .divEq => [['/', '=']] | .modEq => [['%', '=']]

/-- the tokens without payload: the finite table `spell_all_same_token` ranges over -/
def fixedToks : List Tok :=
  [.kwTrue, .kwFalse, .kwNull, .lp, .rp, .comma, .dot, .kwAs,
   .op .mul, .op .div, .op .mod, .op .add, .op .sub, .op .le, .op .ge, .op .lt, .op .gt, .op .eq, .op .ne,
   .op .and, .op .or, .op .xor, .not, .assign, .addEq, .subEq, .mulEq, .divEq, .modEq]

/-! ## Character classes (`WS`, `DIGIT`, `IDENTIFIER_HEAD`, `IDENTIFIER_CHARACTER`) -/

def isWs (c : Char) : Bool := c = ' ' || c = '\t'
def isDigit (c : Char) : Bool := 48 ≤ c.toNat && c.toNat ≤ 57

def inRanges (rs : List (Nat × Nat)) (c : Char) : Bool := rs.any fun r => r.1 ≤ c.toNat && c.toNat ≤ r.2

/-- `IDENTIFIER_HEAD` of YarnSpinnerLexer.g4 -/
def idHeadRanges : List (Nat × Nat) :=
  [(0x41, 0x5A), (0x61, 0x7A), (0x5F, 0x5F),
   (0xA8, 0xA8), (0xAA, 0xAA), (0xAD, 0xAD), (0xAF, 0xAF), (0xB2, 0xB5), (0xB7, 0xBA),
   (0xBC, 0xBE), (0xC0, 0xD6), (0xD8, 0xF6), (0xF8, 0xFF),
   (0x100, 0x2FF), (0x370, 0x167F), (0x1681, 0x180D), (0x180F, 0x1DBF),
   (0x1E00, 0x1FFF),
   (0x200B, 0x200D), (0x202A, 0x202E), (0x203F, 0x2040), (0x2054, 0x2054), (0x2060, 0x206F),
   (0x2070, 0x20CF), (0x2100, 0x218F), (0x2460, 0x24FF), (0x2776, 0x2793),
   (0x2C00, 0x2DFF), (0x2E80, 0x2FFF),
   (0x3004, 0x3007), (0x3021, 0x302F), (0x3031, 0x303F), (0x3040, 0xD7FF),
   (0xF900, 0xFD3D), (0xFD40, 0xFDCF), (0xFDF0, 0xFE1F), (0xFE30, 0xFE44),
   (0xFE47, 0xFFFD),
   (0x10000, 0x1FFFD), (0x20000, 0x2FFFD), (0x30000, 0x3FFFD), (0x40000, 0x4FFFD),
   (0x50000, 0x5FFFD), (0x60000, 0x6FFFD), (0x70000, 0x7FFFD), (0x80000, 0x8FFFD),
   (0x90000, 0x9FFFD), (0xA0000, 0xAFFFD), (0xB0000, 0xBFFFD), (0xC0000, 0xCFFFD),
   (0xD0000, 0xDFFFD), (0xE0000, 0xEFFFD)]

def isIdHead (c : Char) : Bool := inRanges idHeadRanges c

/-- `IDENTIFIER_CHARACTER` -/
def isIdChar (c : Char) : Bool :=
  isDigit c || inRanges [(0x300, 0x36F), (0x1DC0, 0x1DFF), (0x20D0, 0x20FF), (0xFE20, 0xFE2F)] c || isIdHead c

/-! ## The scanner -/

/-- the words that are not identifiers: rules listed before `FUNC_ID` that match the same text win the tie
    (`string`, `number`, `bool` are retyped to `FUNC_ID` by the grammar, so they need no entry) -/
def kwTable : List (Str × Tok) :=
  [(['t', 'r', 'u', 'e'], .kwTrue), (['f', 'a', 'l', 's', 'e'], .kwFalse), (['n', 'u', 'l', 'l'], .kwNull),
   (['t', 'o'], .assign),
   (['l', 't', 'e'], .op .le), (['g', 't', 'e'], .op .ge), (['i', 's'], .op .eq), (['e', 'q'], .op .eq),
   (['l', 't'], .op .lt), (['g', 't'], .op .gt), (['n', 'e', 'q'], .op .ne),
   (['a', 'n', 'd'], .op .and), (['o', 'r'], .op .or), (['x', 'o', 'r'], .op .xor), (['n', 'o', 't'], .not),
   (['a', 's'], .kwAs)]

def keyword (w : Str) : Option Tok :=
  match kwTable.find? (fun p => p.1 = w) with
  | some p => some p.2
  | none => none

/-- token of a maximal run of identifier characters starting with an identifier head -/
def wordTok (w : Str) : Tok :=
  match keyword w with
  | some t => t
  | none => .fid w

/-- body of a `STRING` after the opening quote: `(~["\\\r\n] | '\\' ["\\])* '"'`; the content is kept raw -/
def scanStr : List Char → Option (Str × List Char)
  | [] => none
  | '"' :: r => some ([], r)
  | '\\' :: c :: r =>
    if c = '"' ∨ c = '\\' then
      match scanStr r with
      | some (s, r') => some ('\\' :: c :: s, r')
      | none => none
    else none
  | c :: r =>
    if c = '\\' ∨ c = '\n' ∨ c = '\r' then none
    else match scanStr r with
      | some (s, r') => some (c :: s, r')
      | none => none

/-- `NUMBER : INT | INT '.' INT` at a digit: the longest match -/
def scanNumber (cs : List Char) : Str × List Char :=
  let ip := cs.takeWhile isDigit
  let r := cs.dropWhile isDigit
  match r with
  | '.' :: d :: r' =>
    if isDigit d then (ip ++ '.' :: (d :: r').takeWhile isDigit, (d :: r').dropWhile isDigit) else (ip, r)
  | _ => (ip, r)

inductive Lexeme | tok (t : Tok) | exprEnd | cmdEnd
deriving Repr

/-- one token at a non-whitespace character: longest match over the rules of `ExpressionMode` -/
def lexOne : List Char → Option (Lexeme × List Char)
  | [] => none
  | '(' :: r => some (.tok .lp, r)
  | ')' :: r => some (.tok .rp, r)
  | ',' :: r => some (.tok .comma, r)
  | '.' :: r => some (.tok .dot, r)
  | '}' :: r => some (.exprEnd, r)
  | '^' :: r => some (.tok (.op .xor), r)
  | '<' :: '=' :: r => some (.tok (.op .le), r)
  | '<' :: r => some (.tok (.op .lt), r)
  | '>' :: '=' :: r => some (.tok (.op .ge), r)
  | '>' :: '>' :: r => some (.cmdEnd, r)
  | '>' :: r => some (.tok (.op .gt), r)
  | '=' :: '=' :: r => some (.tok (.op .eq), r)
  | '=' :: r => some (.tok .assign, r)
  | '!' :: '=' :: r => some (.tok (.op .ne), r)
  | '!' :: r => some (.tok .not, r)
  | '&' :: '&' :: r => some (.tok (.op .and), r)
  | '|' :: '|' :: r => some (.tok (.op .or), r)
  | '+' :: '=' :: r => some (.tok .addEq, r)
  | '+' :: r => some (.tok (.op .add), r)
  | '-' :: '=' :: r => some (.tok .subEq, r)
  | '-' :: r => some (.tok (.op .sub), r)
  | '*' :: '=' :: r => some (.tok .mulEq, r)
  | '*' :: r => some (.tok (.op .mul), r)
  | '/' :: '=' :: r => some (.tok .divEq, r)
  | '/' :: r => some (.tok (.op .div), r)
  | '%' :: '=' :: r => some (.tok .modEq, r)
  | '%' :: r => some (.tok (.op .mod), r)
  | '"' :: r =>
    (match scanStr r with
     | some (s, r') => some (.tok (.str s), r')
     | none => none)
  | '$' :: c :: r =>
    if isIdHead c then some (.tok (.var (c :: r.takeWhile isIdChar)), r.dropWhile isIdChar) else none
  | c :: r =>
    if isDigit c then
      let p := scanNumber (c :: r)
      some (.tok (.num p.1), p.2)
    else if isIdHead c then some (.tok (wordTok (c :: r.takeWhile isIdChar)), r.dropWhile isIdChar)
    else none

/-- how a run of ExpressionMode tokens ended -/
inductive Stop | eof | brace | cmdEnd
deriving DecidableEq, Repr

/-- tokens up to the end of the input or the first token that leaves ExpressionMode (`}` or `>>`),
    and the input after it; `none` = lexer error. Fuel: one unit per character suffices. -/
def lexTo : Nat → List Char → Option (List Tok × Stop × List Char)
  | 0, _ => none
  | _ + 1, [] => some ([], .eof, [])
  | f + 1, c :: cs =>
    if isWs c then lexTo f cs
    else match lexOne (c :: cs) with
      | some (.tok t, r) =>
        (match lexTo f r with
         | some (ts, s, r') => some (t :: ts, s, r')
         | none => none)
      | some (.exprEnd, r) => some ([], .brace, r)
      | some (.cmdEnd, r) => some ([], .cmdEnd, r)
      | none => none

/-- the tokens of a complete expression text -/
def lexExpr (cs : List Char) : Option (List Tok) :=
  match lexTo (cs.length + 1) cs with
  | some (ts, .eof, _) => some ts
  | _ => none

/-! ## Trees -/

/-- the expression tree as the listener builds it (shape of `ast.Expr` / the dump) -/
inductive Expr where
  | num (text : Str) | bool (b : Bool) | str (raw : Str) | var (name : Str)
  | fn (f : Str) (args : List Expr)
  | neg (e : Expr) | not (e : Expr) | bin (o : BinOp) (l r : Expr) | null
deriving Repr, Inhabited, BEq

/-! ## The parser -/

/-- binary reading of a token -/
def binOf : Tok → Option BinOp
  | .op o => some o
  | _ => none

/-
`pLevel f k` parses an expression whose top operator has level ≥ k: an operand of level k+1 followed by the
level-k loop; level 6 is `pUnary` (prefix operators, primaries, calls). `pRest` parses `(',' expression)* ')'`.
The grammar's argument list is `expression? (COMMA expression)*`, so `f(, 1)` is accepted (one argument).
-/
mutual
def pLevel : Nat → Nat → List Tok → Option (Expr × List Tok)
  | 0, _, _ => none
  | f + 1, k, ts =>
    if k ≥ 6 then pUnary f ts
    else match pLevel f (k + 1) ts with
      | some (l, r) => pLoop f k l r
      | none => none
def pLoop : Nat → Nat → Expr → List Tok → Option (Expr × List Tok)
  | 0, _, _, _ => none
  | _ + 1, _, lhs, [] => some (lhs, [])
  | f + 1, k, lhs, t :: ts =>
    match binOf t with
    | some o =>
      if lvl o = k then
        match pLevel f (k + 1) ts with
        | some (rhs, r) => pLoop f k (.bin o lhs rhs) r
        | none => none
      else some (lhs, t :: ts)
    | none => some (lhs, t :: ts)
def pUnary : Nat → List Tok → Option (Expr × List Tok)
  | 0, _ => none
  | f + 1, .op .sub :: ts => (match pUnary f ts with | some (e, r) => some (.neg e, r) | none => none)
  | f + 1, .not :: ts => (match pUnary f ts with | some (e, r) => some (.not e, r) | none => none)
  | f + 1, .lp :: ts =>
    (match pLevel f 1 ts with
     | some (e, .rp :: r) => some (e, r)
     | _ => none)
  | _ + 1, .num t :: ts => some (.num t, ts)
  | _ + 1, .kwTrue :: ts => some (.bool true, ts)
  | _ + 1, .kwFalse :: ts => some (.bool false, ts)
  | _ + 1, .var n :: ts => some (.var n, ts)
  | _ + 1, .str s :: ts => some (.str s, ts)
  | _ + 1, .kwNull :: ts => some (.null, ts)
  | f + 1, .fid n :: .lp :: ts =>
    (match ts with
     | .rp :: r => some (.fn n [], r)
     | .comma :: _ =>
       (match pRest f ts with
        | some (es, r) => some (.fn n es, r)
        | none => none)
     | _ =>
       (match pLevel f 1 ts with
        | some (e, r) =>
          (match pRest f r with
           | some (es, r') => some (.fn n (e :: es), r')
           | none => none)
        | none => none))
  | _ + 1, _ => none
def pRest : Nat → List Tok → Option (List Expr × List Tok)
  | 0, _ => none
  | _ + 1, .rp :: ts => some ([], ts)
  | f + 1, .comma :: ts =>
    (match pLevel f 1 ts with
     | some (e, r) =>
       (match pRest f r with
        | some (es, r') => some (e :: es, r')
        | none => none)
     | none => none)
  | _ + 1, _ => none
end

/-- fuel that always suffices (`Lemmas.ExprSyntaxFuel.fuel_enough`): 7 per token -/
def parseFuel (ts : List Tok) : Nat := 7 * ts.length + 7

/-- a complete expression: all tokens consumed -/
def parseExpr (ts : List Tok) : Option Expr :=
  match pLevel (parseFuel ts) 1 ts with
  | some (e, []) => some e
  | _ => none

/-- text → tree -/
def parseText (cs : List Char) : Option Expr :=
  match lexExpr cs with
  | some ts => parseExpr ts
  | none => none

/-! ## Printers (to tokens) -/

def tokOf (o : BinOp) : Tok := .op o

mutual
/-- `pr k e`: minimal parentheses, where an expression of level ≥ k is expected -/
def pr : Nat → Expr → List Tok
  | _, .num t => [.num t]
  | _, .bool true => [.kwTrue]
  | _, .bool false => [.kwFalse]
  | _, .str s => [.str s]
  | _, .var n => [.var n]
  | _, .null => [.kwNull]
  | _, .fn f [] => [.fid f, .lp, .rp]
  | _, .fn f (a :: as) => .fid f :: .lp :: (pr 1 a ++ prArgs as)
  | _, .neg e => .op .sub :: pr 6 e
  | _, .not e => .not :: pr 6 e
  | k, .bin o l r =>
    let body := pr (lvl o) l ++ tokOf o :: pr (lvl o + 1) r
    if lvl o < k then .lp :: body ++ [.rp] else body
/-- the remaining arguments, each preceded by a comma, and the closing parenthesis -/
def prArgs : List Expr → List Tok
  | [] => [.rp]
  | a :: as => .comma :: (pr 1 a ++ prArgs as)
end

def printMin (e : Expr) : List Tok := pr 1 e

mutual
/-- every compound sub-expression (binary, `-`, `not`) in its own pair of parentheses, like `Layout.Parens = 1` -/
def printFull : Expr → List Tok
  | .num t => [.num t]
  | .bool true => [.kwTrue]
  | .bool false => [.kwFalse]
  | .str s => [.str s]
  | .var n => [.var n]
  | .null => [.kwNull]
  | .fn f [] => [.fid f, .lp, .rp]
  | .fn f (a :: as) => .fid f :: .lp :: (printFull a ++ printFullArgs as)
  | .neg e => .lp :: .op .sub :: printFull e ++ [.rp]
  | .not e => .lp :: .not :: printFull e ++ [.rp]
  | .bin o l r => .lp :: (printFull l ++ tokOf o :: printFull r) ++ [.rp]
def printFullArgs : List Expr → List Tok
  | [] => [.rp]
  | a :: as => .comma :: (printFull a ++ printFullArgs as)
end

/-! ### Redundant parentheses: trees with explicit parenthesis nodes -/

/-- an expression tree in which any sub-expression may be wrapped in any number of extra parenthesis pairs -/
inductive PExpr where
  | num (text : Str) | bool (b : Bool) | str (raw : Str) | var (name : Str)
  | fn (f : Str) (args : List PExpr)
  | neg (e : PExpr) | not (e : PExpr) | bin (o : BinOp) (l r : PExpr) | null
  | paren (e : PExpr)
deriving Repr, Inhabited

mutual
/-- forget the parenthesis nodes -/
def PExpr.erase : PExpr → Expr
  | .num t => .num t | .bool b => .bool b | .str s => .str s | .var n => .var n | .null => .null
  | .fn f as => .fn f (PExpr.eraseList as)
  | .neg e => .neg e.erase | .not e => .not e.erase
  | .bin o l r => .bin o l.erase r.erase
  | .paren e => e.erase
def PExpr.eraseList : List PExpr → List Expr
  | [] => []
  | a :: as => a.erase :: PExpr.eraseList as
end

mutual
/-- `prP k p`: the parentheses the grammar needs plus the explicit ones -/
def prP : Nat → PExpr → List Tok
  | _, .num t => [.num t]
  | _, .bool true => [.kwTrue]
  | _, .bool false => [.kwFalse]
  | _, .str s => [.str s]
  | _, .var n => [.var n]
  | _, .null => [.kwNull]
  | _, .fn f [] => [.fid f, .lp, .rp]
  | _, .fn f (a :: as) => .fid f :: .lp :: (prP 1 a ++ prPArgs as)
  | _, .neg e => .op .sub :: prP 6 e
  | _, .not e => .not :: prP 6 e
  | k, .bin o l r =>
    let body := prP (lvl o) l ++ tokOf o :: prP (lvl o + 1) r
    if lvl o < k then .lp :: body ++ [.rp] else body
  | _, .paren e => .lp :: prP 1 e ++ [.rp]
def prPArgs : List PExpr → List Tok
  | [] => [.rp]
  | a :: as => .comma :: (prP 1 a ++ prPArgs as)
end

/-- `n` extra pairs around `p` -/
def PExpr.wrap : Nat → PExpr → PExpr
  | 0, p => p
  | n + 1, p => .paren (PExpr.wrap n p)

/-- a parenthesisation policy: how many extra pairs go around a given sub-expression -/
abbrev Policy := Expr → Nat

mutual
/-- decorate every sub-expression `s` with `pol s` extra pairs -/
def decorate (pol : Policy) : Expr → PExpr
  | .num t => .wrap (pol (.num t)) (.num t)
  | .bool b => .wrap (pol (.bool b)) (.bool b)
  | .str s => .wrap (pol (.str s)) (.str s)
  | .var n => .wrap (pol (.var n)) (.var n)
  | .null => .wrap (pol .null) .null
  | .fn f as => .wrap (pol (.fn f as)) (.fn f (decorateList pol as))
  | .neg e => .wrap (pol (.neg e)) (.neg (decorate pol e))
  | .not e => .wrap (pol (.not e)) (.not (decorate pol e))
  | .bin o l r => .wrap (pol (.bin o l r)) (.bin o (decorate pol l) (decorate pol r))
def decorateList (pol : Policy) : List Expr → List PExpr
  | [] => []
  | a :: as => decorate pol a :: decorateList pol as
end

/-- minimal parentheses plus `pol s` redundant pairs around every sub-expression `s` -/
def printRedundant (pol : Policy) (e : Expr) : List Tok := prP 1 (decorate pol e)

/-! ## Well-formed payloads and safe followers -/

/-- `NUMBER : INT | INT '.' INT` -/
def isNumberText (t : Str) : Bool :=
  let ip := t.takeWhile isDigit
  match t.dropWhile isDigit with
  | [] => !ip.isEmpty
  | '.' :: fp => !ip.isEmpty && !fp.isEmpty && fp.all isDigit
  | _ => false

/-- `ID : IDENTIFIER_HEAD IDENTIFIER_CHARACTERS?` -/
def isIdent : Str → Bool
  | [] => false
  | c :: r => isIdHead c && r.all isIdChar

/-- the content of a `STRING`: no raw quote, backslash or line end; `\"` and `\\` are the only escapes -/
def isStrBody : Str → Bool
  | [] => true
  | '\\' :: c :: r => (c = '"' || c = '\\') && isStrBody r
  | c :: r => !(c = '"' || c = '\\' || c = '\n' || c = '\r') && isStrBody r

/-- the payload of a token is something the lexer rule of its type produces -/
def Tok.wf : Tok → Bool
  | .num t => isNumberText t
  | .str raw => isStrBody raw
  | .var n => isIdent n
  | .fid n => isIdent n && (keyword n).isNone
  | _ => true

mutual
/-- every literal, variable and function name in the tree is something the lexer can produce -/
def Expr.wf : Expr → Bool
  | .num t => isNumberText t
  | .str s => isStrBody s
  | .var n => isIdent n
  | .bool _ => true
  | .null => true
  | .fn f as => isIdent f && (keyword f).isNone && Expr.wfList as
  | .neg e => e.wf
  | .not e => e.wf
  | .bin _ l r => l.wf && r.wf
def Expr.wfList : List Expr → Bool
  | [] => true
  | a :: as => a.wf && Expr.wfList as
end

/-- may the character `c` follow the spelling `s` without changing how `s` is read (a sufficient condition):
    nothing that continues an identifier or a number after a word or a number, no `=` or `>` after a one-character
    operator that has a longer form; anything after punctuation, strings and two-character operators -/
def okNext (s : Str) (c : Char) : Bool :=
  match s with
  | [] => true
  | h :: t =>
    if isIdHead h || h = '$' || isDigit h then !isIdChar c && c != '.'
    else if t.isEmpty && (h = '<' || h = '>' || h = '=' || h = '!' || h = '+' || h = '-' || h = '*' || h = '/' || h = '%')
      then c != '=' && c != '>'
    else true

/-! ## Text of a token list -/

/-- first spelling of a token -/
def spell0 (t : Tok) : Str := (spell t).headD []

/-- tokens in chosen spellings separated by single spaces -/
def joinSp : List Str → Str
  | [] => []
  | [s] => s
  | s :: ss => s ++ ' ' :: joinSp ss

/-- the canonical text: first spelling of every token -/
def textOf (ts : List Tok) : Str := joinSp (ts.map spell0)

/-- a token as written: the token, the spelling chosen for it, the white space after it -/
structure Written where
  tok : Tok
  sp : Str
  gap : Str
deriving Repr

/-- the text of written tokens -/
def wtext : List Written → Str
  | [] => []
  | w :: ws => w.sp ++ (w.gap ++ wtext ws)

end ExprSyntax
end Ysgo
