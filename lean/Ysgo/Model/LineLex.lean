import Ysgo.Model.ExprSyntax
/-!
# LineLex: one physical line of a node body, from characters to the line statement

Hand-written stand-in for the `BodyMode` / `TextMode` / `TextEscapedMode` / `TextCommandOrHashtagMode` /
`HashtagMode` rules of `YarnSpinnerLexer.g4`, the parser rules `line_statement`, `line_formatted_text`,
`line_condition`, `hashtag`, `shortcut_option` (its first line) and the listener's `textCallback` /
`EnterHashtag` (`internal/tree/parser_listener.go`), for ONE line (no `\r`, `\n` inside).

* first character: `BodyMode` rules `->`, `<<`, `#`, `{`, `===`, `//`, `ESCAPED_ANY`, `ANY`;
* `TextMode`: `TEXT : TEXT_FRAG+ | '<' | '/'` (every other character is text, consecutive TEXT tokens are joined by
  the listener), `\[` `\]` passed through with the backslash, `\` + one of `\ < > { } # /` is that character,
  `\` + anything else is a syntax error, `{` starts an inline expression (lexed by `ExprSyntax.lexTo` up to the
  first `}` token, parsed by `ExprSyntax.parseExpr`), `#` and `<<` switch to the tail mode, `//` is a comment;
* tail (`TextCommandOrHashtagMode`): whitespace, at most one `<<if expression>>` before the first hashtag,
  hashtags `#` `HASHTAG_TEXT`, a comment; anything else is a syntax error.

Every lexer or parser error makes the loader fail, so all of them are the one outcome `err`.
-/
namespace Ysgo
namespace LineLex
open ExprSyntax

/-- one element of `LineFormattedText` -/
inductive Elem where
  | text (s : Str)      -- literal text, escapes resolved (`\[` and `\]` keep their backslash)
  | expr (e : Expr)
deriving Repr, Inhabited, BEq

/-- what is read after (and including) a position in text mode -/
structure Parts where
  elems : List Elem := []
  cond : Option Expr := none
  tags : List Str := []
deriving Repr, Inhabited, BEq

/-- a line statement; `arrow` = it is the first line of a shortcut option -/
structure Line where
  arrow : Bool
  parts : Parts
deriving Repr, Inhabited, BEq

inductive Res where
  | line (l : Line)
  | err                 -- a lexer or parser error: the script does not load
  | notLine             -- blank or comment-only line, `<<…` statement, `===`: not a line statement (not modelled here)
deriving Repr, Inhabited, BEq

/-- `[\\<>{}#/]` — the characters `TextEscapedMode` accepts -/
def escapable (c : Char) : Bool := c = '\\' || c = '<' || c = '>' || c = '{' || c = '}' || c = '#' || c = '/'

/-- `[\p{White_Space}]` (inside one line: the line terminators cannot occur) -/
def isWhiteSpaceProp (c : Char) : Bool :=
  let n := c.toNat
  n = 0x20 || (0x09 ≤ n && n ≤ 0x0D) || n = 0x85 || n = 0xA0 || n = 0x1680 || (0x2000 ≤ n && n ≤ 0x200A) ||
  n = 0x2028 || n = 0x2029 || n = 0x202F || n = 0x205F || n = 0x3000

/-- `HASHTAG_TEXT : ~[ \t\r\n#$<]+` -/
def isTagChar (c : Char) : Bool := !(c = ' ' || c = '\t' || c = '\r' || c = '\n' || c = '#' || c = '$' || c = '<')

/-- the listener joins consecutive TEXT tokens into one element -/
def consText (s : Str) : List Elem → List Elem
  | .text t :: r => .text (s ++ t) :: r
  | r => .text s :: r

def Parts.consText (s : Str) (p : Parts) : Parts := { p with elems := LineLex.consText s p.elems }
def Parts.consExpr (e : Expr) (p : Parts) : Parts := { p with elems := .expr e :: p.elems }

def skipWs : List Char → List Char
  | c :: cs => if isWs c then skipWs cs else c :: cs
  | [] => []

/-- an expression in ExpressionMode up to the token that must end it (`}` for inline expressions, `>>` for the
    condition), parsed; the rest of the line after that token -/
def exprUpTo (stop : Stop) (cs : List Char) : Option (Expr × List Char) :=
  match lexTo (cs.length + 1) cs with
  | some (ts, s, r) =>
    if s = stop then
      match parseExpr ts with
      | some e => some (e, r)
      | none => none
    else none
  | none => none

/-- `TextCommandOrHashtagMode`: condition and tags; `none` = syntax error -/
def tailMode : Nat → List Char → Option (Option Expr × List Str)
  | 0, _ => none
  | _ + 1, [] => some (none, [])
  | f + 1, c :: cs =>
    if isWs c then tailMode f cs
    else if c = '/' ∧ cs.head? = some '/' then some (none, [])            -- comment up to the end of the line
    else if c = '#' then
      let r := skipWs cs
      let tag := r.takeWhile isTagChar
      if tag.isEmpty then none
      else match tailMode f (r.dropWhile isTagChar) with
        | some (none, tags) => some (none, tag :: tags)
        | _ => none                                                       -- a condition after a hashtag
    else if c = '<' ∧ cs.head? = some '<' then
      match skipWs cs.tail with
      | 'i' :: 'f' :: w :: r =>
        if isWhiteSpaceProp w then
          match exprUpTo .cmdEnd r with
          | some (e, r') =>
            (match tailMode f r' with
             | some (none, tags) => some (some e, tags)
             | _ => none)                                                 -- a second condition
          | none => none
        else none
      | _ => none
    else none

/-- `TextMode`; `none` = syntax error -/
def textMode : Nat → List Char → Option Parts
  | 0, _ => none
  | _ + 1, [] => some {}
  | f + 1, c :: cs =>
    if c = '\\' then
      match cs with
      | [] => none
      | e :: r =>
        if e = '[' ∨ e = ']' then (textMode f r).map (Parts.consText ['\\', e])
        else if escapable e then (textMode f r).map (Parts.consText [e])
        else none
    else if c = '#' ∨ (c = '<' ∧ cs.head? = some '<') then
      match tailMode (f + 1) (c :: cs) with
      | some (cond, tags) => some { elems := [], cond := cond, tags := tags }
      | none => none
    else if c = '{' then
      match exprUpTo .brace cs with
      | some (e, r) => (textMode f r).map (Parts.consExpr e)
      | none => none
    else if c = '/' ∧ cs.head? = some '/' then some {}
    else (textMode f cs).map (Parts.consText [c])

/-- the first character of the statement (after `->`, if any) and then `TextMode` -/
def firstChar (arrow : Bool) (s : List Char) : Res :=
  let fuel := s.length + 2
  let fin (p : Option Parts) : Res :=
    match p with
    | some p => .line ⟨arrow, p⟩
    | none => .err
  let other : Res := if arrow then .err else .notLine
  match s with
  | [] => other
  | '/' :: '/' :: _ => other
  | '=' :: '=' :: '=' :: _ => other
  | '<' :: '<' :: _ => other
  | '-' :: '>' :: _ => .err                       -- handled by `lexLine` when it is the first arrow
  | '#' :: _ => .err
  | '\\' :: e :: r => if escapable e then fin ((textMode fuel r).map (Parts.consText [e])) else .err
  | ['\\'] => .err
  | '{' :: r =>
    (match exprUpTo .brace r with
     | some (e, r') => fin ((textMode fuel r').map (Parts.consExpr e))
     | none => .err)
  | c :: r => fin ((textMode fuel r).map (Parts.consText [c]))

/-- one physical line of a body. The leading whitespace is the line's indentation (it belongs to the preceding
    NEWLINE token): `IndentAwareLexer.getLengthOfNewlineToken` reports a syntax error when it mixes spaces and tabs,
    unless the line is blank or a comment. Its width is the business of the `Indent` model, not of this one. -/
def lexLine (s : List Char) : Res :=
  let ind := s.takeWhile isWs
  let mixed := ind.any (fun c => c = ' ') && ind.any (fun c => c = '\t')
  match skipWs s with
  | '-' :: '>' :: r => if mixed then .err else firstChar true (skipWs r)
  | s' =>
    match firstChar false s' with
    | .line l => if mixed then .err else .line l
    | r => r

/-! ## Line descriptions (what C04.4 quantifies over) and their rendering -/

/-- one written piece of a line -/
inductive Item where
  | ch (c : Char) (escaped : Bool)             -- a literal character, written as `\c` or as `c`
  | bracket (close : Bool)                     -- `\[` or `\]`: handed to the markup pass with its backslash
  | expr (ws : List Written) (e : Expr)        -- `{…}`: the written tokens, and the tree they stand for
deriving Repr

/-- a line description: pieces, an optional `<<if …>>` condition, hashtags, an optional trailing comment -/
structure Desc where
  items : List Item
  cond : Option (List Written × Expr) := none
  tags : List Str := []
  comment : Option Str := none
deriving Repr

def renderItems : List Item → List Char
  | [] => []
  | .ch c true :: r => '\\' :: c :: renderItems r
  | .ch c false :: r => c :: renderItems r
  | .bracket false :: r => '\\' :: '[' :: renderItems r
  | .bracket true :: r => '\\' :: ']' :: renderItems r
  | .expr ws _ :: r => '{' :: (wtext ws ++ '}' :: renderItems r)

def renderComment : Option Str → List Char
  | none => []
  | some c => '/' :: '/' :: c

/-- every tag as `#tag` followed by one space -/
def renderTags (comment : Option Str) : List Str → List Char
  | [] => renderComment comment
  | t :: ts => '#' :: (t ++ ' ' :: renderTags comment ts)

def renderCond (rest : List Char) : Option (List Written × Expr) → List Char
  | none => rest
  | some (ws, _) => '<' :: '<' :: 'i' :: 'f' :: ' ' :: (wtext ws ++ '>' :: '>' :: rest)

/-- what follows the text: condition, tags, comment -/
def renderTail (d : Desc) : List Char := renderCond (renderTags d.comment d.tags) d.cond

/-- the line as written -/
def render (d : Desc) : List Char := renderItems d.items ++ renderTail d

def itemsParts : List Item → Parts → Parts
  | [], p => p
  | .ch c _ :: r, p => (itemsParts r p).consText [c]
  | .bracket false :: r, p => (itemsParts r p).consText ['\\', '[']
  | .bracket true :: r, p => (itemsParts r p).consText ['\\', ']']
  | .expr _ e :: r, p => (itemsParts r p).consExpr e

/-- the line statement the description stands for: the literal characters (escapes resolved, adjacent ones joined),
    the expressions in place, the condition, the tags without `#`, no comment -/
def expected (d : Desc) : Parts :=
  itemsParts d.items { elems := [], cond := d.cond.map (·.2), tags := d.tags }

end LineLex
end Ysgo
