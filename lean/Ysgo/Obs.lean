/-!
# Canonical printing of observations (the Go harness prints the same forms, package `obs`)
-/
namespace Ysgo.Obs

def hexDigits (n : Nat) : String := String.ofList (Nat.toDigits 16 n)

/-- printable ASCII except `\ | ; ^ , @ = ~` is kept, everything else becomes `\u{hex}` -/
def escChar (c : Char) : String :=
  let n := c.toNat
  if n ≥ 0x20 && n ≤ 0x7e && !("\\|;^,@=~".toList.contains c) then String.singleton c
  else "\\u{" ++ hexDigits n ++ "}"

def esc (s : String) : String := String.join (s.toList.map escChar)

def join (sep : String) (l : List String) : String := sep.intercalate l

/-- insertion sort by a key (lists are tiny) -/
def sortBy {α} (lt : α → α → Bool) : List α → List α
  | [] => []
  | x :: xs =>
    let rec ins (x : α) : List α → List α
      | [] => [x]
      | y :: ys => if lt y x then y :: ins x ys else x :: y :: ys
    ins x (sortBy lt xs)

def strLt (a b : String) : Bool := a.toList.map Char.toNat < b.toList.map Char.toNat

end Ysgo.Obs
