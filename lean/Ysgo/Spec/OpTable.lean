import Ysgo.Model.Core
/-!
# Yarn's operator table, as the property words it

One `match` on (operator, left value, right value): arithmetic on numbers as IEEE doubles with `%` as floating
remainder, `+` also concatenating strings, ordering comparisons on numbers, equality on same-typed operands,
and/or/xor on booleans; everything else is ill-typed. `and`/`or` take their right operand lazily.
-/
namespace Ysgo

/-- the table on two evaluated operands -/
def OpTable (op : BinOp) (a b : Value) : Outcome Value :=
  match op, a, b with
  | .mul, .num x, .num y => .ok (.num (x.mul y))
  | .div, .num x, .num y => .ok (.num (x.div y))
  | .mod, .num x, .num y => .ok (.num (x.fmod y))
  | .add, .num x, .num y => .ok (.num (x.add y))
  | .add, .str x, .str y => .ok (.str (x ++ y))
  | .sub, .num x, .num y => .ok (.num (x.sub y))
  | .le, .num x, .num y => .ok (.bool (x.le y))
  | .ge, .num x, .num y => .ok (.bool (x.ge y))
  | .lt, .num x, .num y => .ok (.bool (x.lt y))
  | .gt, .num x, .num y => .ok (.bool (x.gt y))
  | .eq, .num x, .num y => .ok (.bool (x.eq y))
  | .eq, .bool x, .bool y => .ok (.bool (x == y))
  | .eq, .str x, .str y => .ok (.bool (x == y))
  | .ne, .num x, .num y => .ok (.bool (!x.eq y))
  | .ne, .bool x, .bool y => .ok (.bool (x != y))
  | .ne, .str x, .str y => .ok (.bool (x != y))
  | .and, .bool x, .bool y => .ok (.bool (x && y))
  | .or, .bool x, .bool y => .ok (.bool (x || y))
  | .xor, .bool x, .bool y => .ok (.bool (x != y))
  | _, _, _ => .err .illTyped

/-- well-typed operand pairs of the table -/
def wellTyped (op : BinOp) (a b : Ty) : Bool :=
  match op, a, b with
  | .mul, .num, .num | .div, .num, .num | .mod, .num, .num | .sub, .num, .num => true
  | .add, .num, .num | .add, .str, .str => true
  | .le, .num, .num | .ge, .num, .num | .lt, .num, .num | .gt, .num, .num => true
  | .eq, .num, .num | .eq, .bool, .bool | .eq, .str, .str => true
  | .ne, .num, .num | .ne, .bool, .bool | .ne, .str, .str => true
  | .and, .bool, .bool | .or, .bool, .bool | .xor, .bool, .bool => true
  | _, _, _ => false

/-- value-level semantics of a binary operator as the code computes it (lazy test, then guard, then switch) -/
def evalBinValues (op : BinOp) (a b : Value) : Outcome Value :=
  match lazyTest op a with
  | some r => r
  | none => binAfter op a b

/-- equality of outcomes up to the error kind -/
def sameVal : Outcome Value → Outcome Value → Prop
  | .ok (.num x), .ok (.num y) => x = y
  | .ok (.bool x), .ok (.bool y) => x = y
  | .ok (.str x), .ok (.str y) => x = y
  | .err _, .err _ => True
  | _, _ => False

end Ysgo
