import Ysgo.Model.Core
import Ysgo.Model.Markup
/-!
# A small imperative IR for the conversion built-ins and the markup replacement processors, as translated from Go
source by `tools/convir`

`Ex`/`St` are the target of the translator: a deep embedding of the expression and statement forms it understands
(locals are numbered in order of declaration, `switch` statements arrive as chains of `ite`, message texts of
`errors.New`/`fmt.Errorf` are dropped). `execS`/`evalE` give the terms their Go meaning over the domain of the hand-written
models: `*variable.Value` is a record of three optional fields (`GoVal`), `markup.Value` is the model's `Markup.PVal`, an
`*attributeMarker` is its property list. The standard-library functions the translated code calls are primitives,
interpreted as the model's functions (`strconv.Itoa` ↦ `F64.itoa`, `fmt.Sprint` on a float64 ↦ `F64.fmtG`,
`strconv.ParseBool` ↦ `Num.parseBool`, `strconv.ParseFloat(_, 64)` ↦ `F64.parseFloat`, `strings.ReplaceAll` ↦
`Markup.replaceAll`, `strings.Count` ↦ `countSub`, `int(float64)` ↦ `F64.toInt64` (amd64 semantics, also out of range),
`float64(int)` ↦ `F64.ofInt`). Anything the translator or the interpreter does not understand is `stuck`, so an
obligation about it fails instead of being trivially true; a Go run-time panic (nil dereference, index out of range,
`% 0`) is the explicit outcome `panic`.
-/
namespace Ysgo.ConvIR
open Ysgo

/-- expressions; `var n` is the n-th declared local (receiver and parameters first) -/
inductive Ex where
  | var (n : Nat)
  | nil
  | litB (b : Bool)
  | litI (z : Int)                     -- an untyped integer constant
  | litF (z : Int)                     -- an integral floating-point literal (`0.0`)
  | litS (s : String)
  | const (name : String)              -- a named constant that is not a literal (`ValueTypeFloat`)
  | zero (ty : String)                 -- `T{}`
  | field (e : Ex) (f : String)        -- `e.f`
  | deref (e : Ex)                     -- `*e`
  | index (e i : Ex)                   -- `e[i]`
  | len (e : Ex)
  | conv (ty : String) (e : Ex)        -- `float64(e)`, `int(e)`
  | un (op : String) (e : Ex)          -- `!e`, `-e`
  | bin (op : String) (a b : Ex)       -- == != < <= > >= + - * / %
  | land (a b : Ex)
  | lor (a b : Ex)
  | call0 (f : String)
  | call1 (f : String) (a : Ex)
  | call2 (f : String) (a b : Ex)
  | call3 (f : String) (a b c : Ex)
  | mcall0 (m : String) (recv : Ex)    -- `recv.m()`; `m` is the key of the method, `.m`
  | mcall1 (m : String) (recv a : Ex)  -- `recv.m(a)`
  | fnref (name : String)              -- a top-level function of the package used as a value
  | mkErr                              -- `errors.New(…)`, `fmt.Errorf(…)`: some non-nil error
  | unsupported (what : String)
  deriving Repr, Inhabited

inductive St where
  | skip
  | seq (a b : St)
  | set (n : Nat) (e : Ex)             -- `x := e`, `x = e`
  | set2 (n m : Nat) (e : Ex)          -- `x, y := f(…)`
  | ret1 (e : Ex)
  | ret2 (a b : Ex)
  | ite (c : Ex) (t e : St)
  | range (k v : Nat) (e : Ex) (body : St)   -- `for k, v := range e { body }`
  | unsupported (what : String)
  deriving Repr, Inhabited

/-- a translated function: methods are named `.m` and take the receiver as parameter 0 -/
structure Def where
  name : String
  nparams : Nat
  body : St
  deriving Repr, Inhabited

/-- a non-nil `*variable.Value`: the struct has three pointer fields, any of which may be nil -/
structure GoVal where
  number : Option F64
  boolean : Option Bool
  string : Option String
  deriving Inhabited

inductive V where
  | nil                                -- a nil pointer, nil function value or nil error
  | err                                -- a non-nil error
  | junk                               -- a result that accompanies a non-nil error: unspecified, every use is stuck
  | f (x : F64)
  | i (z : Int)                        -- an int, or an untyped integer constant
  | b (v : Bool)
  | s (str : String)
  | pf (x : F64)                       -- a non-nil `*float64`
  | pb (v : Bool)                      -- a non-nil `*bool`
  | ps (str : String)                  -- a non-nil `*string`
  | val (g : GoVal)                    -- a non-nil `*variable.Value`
  | args (l : List GoVal)              -- `[]*variable.Value` (no nil elements)
  | pval (p : Markup.PVal)             -- `markup.Value`
  | prop (name : String) (p : Markup.PVal)             -- `markup.property`
  | props (l : List (String × Markup.PVal))            -- `[]property`
  | marker (l : List (String × Markup.PVal))           -- a non-nil `*attributeMarker` (only its properties are read)
  | enum (name : String)               -- a `ValueType` constant, by name
  | fn (name : String)                 -- a function value: a top-level function of the package
  deriving Inhabited

/-- evaluation result: the values (one, or two for a two-valued call), a Go panic, outside the interpreter, or outside
the modelled domain of a primitive (`strconv.ParseFloat` on hexadecimal floats and underscores) -/
inductive ER where
  | ok (vs : List V)
  | panic
  | stuck
  | unmodelled
  deriving Inhabited

abbrev Env := List (Nat × V)

def Env.get (env : Env) (n : Nat) : Option V := (env.find? (fun kv => kv.1 == n)).map (·.2)
def Env.put (env : Env) (n : Nat) (v : V) : Env := (n, v) :: env

/-! ### primitives -/

/-- `strings.Count(s, sub)` for non-empty `sub`: non-overlapping occurrences, leftmost first (same scan as
`Markup.replaceAllAux`) -/
def countAux (old : List Char) : List Char → Nat → Nat
  | [], _ => 0
  | _ :: cs, k + 1 => countAux old cs k
  | c :: cs, 0 =>
    if old.isPrefixOf (c :: cs) then 1 + countAux old cs (old.length - 1) else countAux old cs 0
def countSub (s sub : List Char) : Nat := countAux sub s 0

/-- struct fields and pointer fields. Reading the field of a `markup.Value` that its `ValueType` does not select is
stuck: the model's `PVal` does not carry it. -/
def getField (v : V) (f : String) : ER :=
  match v with
  | .val g =>
    if f = "Number" then .ok [match g.number with | some x => .pf x | none => .nil]
    else if f = "Boolean" then .ok [match g.boolean with | some x => .pb x | none => .nil]
    else if f = "String" then .ok [match g.string with | some x => .ps x | none => .nil]
    else .stuck
  | .pval p =>
    if f = "ValueType" then
      .ok [.enum (match p with
        | .int _ => "ValueTypeInteger" | .float _ => "ValueTypeFloat" | .str _ => "ValueTypeString"
        | .bool _ => "ValueTypeBool")]
    else match p with
      | .int z => if f = "IntegerValue" then .ok [.i z] else .stuck
      | .float x => if f = "FloatValue" then .ok [.f x] else .stuck
      | .str s => if f = "StringValue" then .ok [.s s] else .stuck
      | .bool b => if f = "BoolValue" then .ok [.b b] else .stuck
  | .prop n p => if f = "name" then .ok [.s n] else if f = "value" then .ok [.pval p] else .stuck
  | .marker l => if f = "properties" then .ok [.props l] else .stuck
  | .nil => .panic                     -- field of a nil pointer
  | _ => .stuck

def derefV : V → ER
  | .pf x => .ok [.f x]
  | .pb x => .ok [.b x]
  | .ps x => .ok [.s x]
  | .nil => .panic
  | _ => .stuck

def isPtr : V → Bool
  | .pf _ | .pb _ | .ps _ | .val _ | .marker _ | .fn _ | .err => true
  | _ => false

/-- `a == b` -/
def eqV (a b : V) : Option Bool :=
  match a, b with
  | .nil, .nil => some true
  | .nil, y => if isPtr y then some false else none
  | x, .nil => if isPtr x then some false else none
  | .f x, .f y => some (F64.eq x y)
  | .f x, .i z => some (F64.eq x (F64.ofInt z))       -- an untyped constant beside a float64 is that float64
  | .i z, .f y => some (F64.eq (F64.ofInt z) y)
  | .i x, .i y => some (decide (x = y))
  | .b x, .b y => some (decide (x = y))
  | .s x, .s y => some (decide (x = y))
  | .enum x, .enum y => some (decide (x = y))
  | _, _ => none

def asF? : V → Option F64
  | .f x => some x
  | .i z => some (F64.ofInt z)
  | _ => none

def binop (op : String) (a b : V) : ER :=
  if op = "==" then (match eqV a b with | some r => .ok [.b r] | none => .stuck)
  else if op = "!=" then (match eqV a b with | some r => .ok [.b !r] | none => .stuck)
  else match a, b with
  | .s x, .s y => if op = "+" then .ok [.s (x ++ y)] else .stuck
  | .i x, .i y =>
    if op = "<" then .ok [.b (x < y)] else if op = "<=" then .ok [.b (x ≤ y)]
    else if op = ">" then .ok [.b (x > y)] else if op = ">=" then .ok [.b (x ≥ y)]
    else if op = "+" then .ok [.i (Rng.wrap64 (x + y))] else if op = "-" then .ok [.i (Rng.wrap64 (x - y))]
    else if op = "*" then .ok [.i (Rng.wrap64 (x * y))]
    else if op = "%" then (if y = 0 then .panic else .ok [.i (Int.tmod x y)])   -- Go's remainder truncates towards zero
    else .stuck
  | _, _ =>
    match asF? a, asF? b with
    | some x, some y =>
      if op = "<" then .ok [.b (F64.lt x y)] else if op = "<=" then .ok [.b (F64.le x y)]
      else if op = ">" then .ok [.b (F64.gt x y)] else if op = ">=" then .ok [.b (F64.ge x y)]
      else if op = "+" then .ok [.f (F64.add x y)] else if op = "-" then .ok [.f (F64.sub x y)]
      else if op = "*" then .ok [.f (F64.mul x y)] else if op = "/" then .ok [.f (F64.div x y)]
      else .stuck
    | _, _ => .stuck

def unop (op : String) (a : V) : ER :=
  match a with
  | .b x => if op = "!" then .ok [.b !x] else .stuck
  | .i z => if op = "-" then .ok [.i (Rng.wrap64 (-z))] else .stuck
  | .f x => if op = "-" then .ok [.f (F64.neg x)] else .stuck
  | _ => .stuck

def convert (ty : String) (v : V) : ER :=
  match v with
  | .f x => if ty = "float64" then .ok [.f x] else if ty = "int" ∨ ty = "int64" then .ok [.i (F64.toInt64 x)] else .stuck
  | .i z => if ty = "float64" then .ok [.f (F64.ofInt z)] else if ty = "int" ∨ ty = "int64" then .ok [.i z] else .stuck
  | _ => .stuck

def constant (name : String) : ER :=
  if name = "ValueTypeInteger" ∨ name = "ValueTypeFloat" ∨ name = "ValueTypeString" ∨ name = "ValueTypeBool" then .ok [.enum name]
  else .stuck

def zeroOf (ty : String) : ER :=
  if ty = "Value" then .ok [.pval (.int 0)]      -- `markup.Value{}`: ValueType 0 is ValueTypeInteger, IntegerValue 0
  else .stuck

def indexV (a i : V) : ER :=
  match a, i with
  | .args l, .i z => if 0 ≤ z then (match l[z.toNat]? with | some g => .ok [.val g] | none => .panic) else .panic
  | _, _ => .stuck

def lenV : V → ER
  | .args l => .ok [.i l.length]
  | .props l => .ok [.i l.length]
  | _ => .stuck

/-- the standard-library functions and the three constructors of package `variable`, as the model has them -/
def prim (f : String) (vs : List V) : Option ER :=
  if f = "strconv.Itoa" then some (match vs with | [.i z] => .ok [.s (F64.itoa z)] | _ => .stuck)
  else if f = "fmt.Sprint" then some (match vs with | [.f x] => .ok [.s (F64.fmtG x)] | _ => .stuck)
  else if f = "strconv.ParseBool" then some (match vs with
    | [.s t] => (match Num.parseBool t with | some r => .ok [.b r, .nil] | none => .ok [.junk, .err])
    | _ => .stuck)
  else if f = "strconv.ParseFloat" then some (match vs with
    | [.s t, .i 64] => (match F64.parseFloat t with
        | .val x => .ok [.f x, .nil] | .err => .ok [.junk, .err] | .unmodelled => .unmodelled)
    | _ => .stuck)
  else if f = "strings.Count" then some (match vs with
    | [.s a, .s sub] => if sub = "" then .stuck else .ok [.i (countSub a.toList sub.toList)]
    | _ => .stuck)
  else if f = "strings.ReplaceAll" then some (match vs with
    | [.s a, .s old, .s new] =>
      if old = "" then .stuck else .ok [.s (String.ofList (Markup.replaceAll a.toList old.toList new.toList))]
    | _ => .stuck)
  else if f = "variable.NewString" then some (match vs with
    | [.s t] => .ok [.val ⟨none, none, some t⟩] | _ => .stuck)
  else if f = "variable.NewBoolean" then some (match vs with
    | [.b t] => .ok [.val ⟨none, some t, none⟩] | _ => .stuck)
  else if f = "variable.NewNumber" then some (match vs with
    | [.f x] => .ok [.val ⟨some x, none, none⟩]
    | [.i z] => .ok [.val ⟨some (F64.ofInt z), none, none⟩]       -- an untyped constant assigned to a float64 variable
    | _ => .stuck)
  else none

/-- a call: a primitive, else a translated function -/
def callFn (user : String → List V → ER) (f : String) (vs : List V) : ER :=
  match prim f vs with
  | some r => r
  | none => user f vs

/-! ### evaluation -/

/-- evaluate to exactly one value and continue -/
@[inline] def ER.bind1 (r : ER) (k : V → ER) : ER :=
  match r with
  | .ok [v] => k v
  | .ok _ => .stuck
  | .panic => .panic
  | .stuck => .stuck
  | .unmodelled => .unmodelled

def evalE (user : String → List V → ER) (env : Env) : Ex → ER
  | .var n => (match env.get n with | some v => .ok [v] | none => .stuck)
  | .nil => .ok [.nil]
  | .litB b => .ok [.b b]
  | .litI z => .ok [.i z]
  | .litF z => .ok [.f (F64.ofInt z)]
  | .litS s => .ok [.s s]
  | .const n => constant n
  | .zero ty => zeroOf ty
  | .field e f => (evalE user env e).bind1 fun v => getField v f
  | .deref e => (evalE user env e).bind1 derefV
  | .index e i => (evalE user env e).bind1 fun a => (evalE user env i).bind1 fun j => indexV a j
  | .len e => (evalE user env e).bind1 lenV
  | .conv ty e => (evalE user env e).bind1 (convert ty)
  | .un op e => (evalE user env e).bind1 (unop op)
  | .bin op a b => (evalE user env a).bind1 fun x => (evalE user env b).bind1 fun y => binop op x y
  | .land a b => (evalE user env a).bind1 fun x =>
      match x with
      | .b false => .ok [.b false]
      | .b true => (evalE user env b).bind1 fun y => match y with | .b r => .ok [.b r] | _ => .stuck
      | _ => .stuck
  | .lor a b => (evalE user env a).bind1 fun x =>
      match x with
      | .b true => .ok [.b true]
      | .b false => (evalE user env b).bind1 fun y => match y with | .b r => .ok [.b r] | _ => .stuck
      | _ => .stuck
  | .call0 f => callFn user f []
  | .call1 f a => (evalE user env a).bind1 fun x => callFn user f [x]
  | .call2 f a b => (evalE user env a).bind1 fun x => (evalE user env b).bind1 fun y => callFn user f [x, y]
  | .call3 f a b c => (evalE user env a).bind1 fun x => (evalE user env b).bind1 fun y => (evalE user env c).bind1 fun z =>
      callFn user f [x, y, z]
  | .mcall0 m r => (evalE user env r).bind1 fun x => user m [x]
  | .mcall1 m r a => (evalE user env r).bind1 fun x => (evalE user env a).bind1 fun y => user m [x, y]
  | .fnref n => .ok [.fn n]
  | .mkErr => .ok [.err]
  | .unsupported _ => .stuck

/-- what a statement does: go on with the next one, return, panic, … -/
inductive Flow where
  | next (env : Env)
  | ret (vs : List V)
  | panic
  | stuck
  | unmodelled
  deriving Inhabited

@[inline] def ER.flow1 (r : ER) (k : V → Flow) : Flow :=
  match r with
  | .ok [v] => k v
  | .ok _ => .stuck
  | .panic => .panic
  | .stuck => .stuck
  | .unmodelled => .unmodelled

/-- the loop of a `range` statement over the elements of a slice of properties -/
def rangeLoop (body : Env → Flow) (k v : Nat) : List (String × Markup.PVal) → Nat → Env → Flow
  | [], _, env => .next env
  | p :: ps, idx, env =>
    match body ((env.put k (.i idx)).put v (.prop p.1 p.2)) with
    | .next env' => rangeLoop body k v ps (idx + 1) env'
    | r => r

def execS (user : String → List V → ER) : St → Env → Flow
  | .skip, env => .next env
  | .seq a b, env =>
    (match execS user a env with
     | .next env' => execS user b env'
     | r => r)
  | .set n e, env => (evalE user env e).flow1 fun v => .next (env.put n v)
  | .set2 n m e, env =>
    (match evalE user env e with
     | .ok [v, w] => .next ((env.put n v).put m w)
     | .ok _ => .stuck
     | .panic => .panic
     | .stuck => .stuck
     | .unmodelled => .unmodelled)
  | .ret1 e, env => (evalE user env e).flow1 fun v => .ret [v]
  | .ret2 a b, env => (evalE user env a).flow1 fun v => (evalE user env b).flow1 fun w => .ret [v, w]
  | .ite c t e, env =>
    (evalE user env c).flow1 fun v =>
      match v with
      | .b true => execS user t env
      | .b false => execS user e env
      | _ => .stuck
  | .range k v e body, env =>
    (evalE user env e).flow1 fun l =>
      match l with
      | .props ps => rangeLoop (fun env' => execS user body env') k v ps 0 env
      | _ => .stuck
  | .unsupported _, _ => .stuck

def lookupDef (defs : List Def) (f : String) : Option Def := defs.find? (fun d => d.name == f)

def bindParams : Nat → List V → Nat → Option Env
  | 0, [], _ => some []
  | n + 1, v :: vs, i => (bindParams n vs (i + 1)).map fun env => env.put i v
  | _, _, _ => none

/-- one more level of calls among the translated functions; falling off the end of a function that returns values does
not compile in Go, so it is stuck -/
def step (defs : List Def) (user : String → List V → ER) (f : String) (vs : List V) : ER :=
  match lookupDef defs f with
  | some d =>
    (match bindParams d.nparams vs 0 with
     | some env =>
       (match execS user d.body env with
        | .ret rs => .ok rs
        | .next _ => .stuck
        | .panic => .panic
        | .stuck => .stuck
        | .unmodelled => .unmodelled)
     | none => .stuck)
  | none => .stuck

/-- call the translated function `f` with arguments `vs`; calls among the translated functions may nest four deep (the
source nests them three deep: `toString` → `Value.ToString`; `processSelect` → `replacePlaceholders`, `GetProperty`,
`Value.toString`) -/
def run (defs : List Def) : String → List V → ER :=
  step defs (step defs (step defs (step defs (fun _ _ => .stuck))))

/-! ### reading results -/

/-- the model value a `*variable.Value` denotes: the first non-nil field in the order Number, Boolean, String (the order
of the cases in `Value.ToString`, `toBoolean`, `toFloat`) -/
def GoVal.toModel (g : GoVal) : Option Value :=
  match g.number, g.boolean, g.string with
  | some x, _, _ => some (.num x)
  | none, some b, _ => some (.bool b)
  | none, none, some s => some (.str s)
  | none, none, none => none

/-- the `*variable.Value` the constructors `NewNumber`, `NewBoolean`, `NewString` make -/
def GoVal.ofModel : Value → GoVal
  | .num x => ⟨some x, none, none⟩
  | .bool b => ⟨none, some b, none⟩
  | .str s => ⟨none, none, some s⟩

end Ysgo.ConvIR

namespace Ysgo.ConvIR
/-- evaluate the interpreter on a concrete program by rewriting with its defining equations -/
macro "conv_eval" "[" ts:Lean.Parser.Tactic.simpLemma,* "]" loc:(Lean.Parser.Tactic.location)? : tactic =>
  `(tactic| simp [step, bindParams, execS, evalE, rangeLoop, ER.flow1, ER.bind1, Env.get, Env.put, getField, derefV, binop, unop,
      eqV, isPtr, asF?, convert, constant, zeroOf, indexV, lenV, callFn, prim, $ts,*] $[$loc]?)
end Ysgo.ConvIR
