import Ysgo.Model.Runner
/-!
# Yarn's sequential semantics: the flat continuation

The state is the list `k` of statements still to run (plus the same data as the machine): an `if` puts the body of its
first true clause in front of `k`, choosing option `i` puts that option's body in front of `k`, a jump replaces `k` by
the body of the target node, `stop` empties it, and `k = []` is the end of the dialogue. Machine and spec share
`exec` (the effect of one statement on the data) and differ only in how the control request acts.
-/
namespace Ysgo

structure Flat (σ π : Type) where
  d : Data σ π
  k : List Stmt
  waiting : Option (List (List Stmt)) := none

def applyCtlS (c : Ctl) (k : List Stmt) : List Stmt :=
  match c with
  | .next => k | .push b => b ++ k | .goto b => b | .halt => []

section
variable {σ π μ : Type}

def Flat.step (env : Env σ) (mk : Markup π μ) (p : Program) (s : Flat σ π) (c : Nat) : Flat σ π × Option (Outcome (Elem μ)) :=
  match poll (μ := μ) s.d with
  | (d, some out) => ({ s with d := d }, some out)
  | (d, none) =>
    let s := { s with d := d }
    match s.waiting with
    | some bodies =>
      (match bodies[c]? with
       | none => (s, some (.panic .index))
       | some b => ({ s with k := b ++ s.k, waiting := none }, none))
    | none =>
      match s.k with
      | [] => (s, some (.ok .ended))
      | st :: k =>
        match exec env mk p s.d st with
        | (d', ctl, out) =>
          let waiting := match out, isOpts st with
            | some (.ok _), some bodies => some bodies
            | _, _ => none
          ({ d := d', k := applyCtlS ctl k, waiting := waiting }, out)

/-- `Next` of the flat semantics -/
def Flat.next (env : Env σ) (mk : Markup π μ) (p : Program) : Nat → Flat σ π → Nat → Flat σ π × NextRes μ
  | 0, s, _ => (s, .fuel)
  | f + 1, s, c =>
    match s.step env mk p c with
    | (s', some out) => (s', .out out)
    | (s', none) => Flat.next env mk p f s' c

end

/-- abstraction: concatenate the unread suffixes of the queues, top first -/
def R.abs {σ π} (r : R σ π) : Flat σ π := { d := r.d, k := (r.stack.map SQ.rest).flatten, waiting := r.waiting }

end Ysgo
