import Ysgo.Model.Unicode
import Ysgo.Model.Fmt
import Ysgo.Model.Markup
/-!
# Chunk-level specification of markup parsing (property C13)

A line is assembled from *chunks*; `render` writes the chunks as a line, `expected` says — without scanning a single
character of the rendered markers, and without reference to the parser model (only its result types `PVal`, `Attr`,
`ParseResult` are shared) — what parsing that line has to yield: `none` when the parser has to report an error.

What `expected` prescribes:
* the text is the concatenation of the text chunks, the unescaped brackets and the replacement texts, where one white
  space character directly after a marker is dropped when the marker is at the start of the text or preceded by white
  space and is a self-closing non-replacement marker (`trimwhitespace=<bool>` on the marker overrides the default; with a
  non-boolean value it is an error), trimmed at both ends. "Preceded by white space" looks at the last source character
  the main loop copied or the last marker (YarnSpinner: escaped brackets are transparent to it);
* `[name …]` opens an attribute at the number of characters emitted so far; `[/name]` closes the most recently opened
  unclosed marker of that name; `[/]` closes all, oldest first; `[name … /]` yields an attribute of length 0; attributes
  are ordered by position (stably, in order of completion); positions and lengths are clipped to the trimmed text;
* properties carry typed values (`dec i ds` is the double nearest to `i.ds`), a later property of the same name replaces
  an earlier one in the attribute, the first one counts for the processors;
* `nomarkup`, `select`, `plural`, `ordinal` are replaced as YarnSpinner defines, self-closing or closed by name or `[/]`;
* unless an attribute named `character` results, a `:` in the source line yields the attribute `character` from
  position 0 over the characters up to and including the `:` and the ASCII white space after it, with property `name`
  = the source text before the `:`;
* `sourcePosition` of an attribute is the number of source characters before its opening marker as the parser counts
  them: an escaped bracket counts once and the raw text of a replacement marker does not count.
-/
namespace Ysgo.MarkupSpec
open Ysgo.Unicode
open Ysgo.Markup (PVal Attr ParseResult)

/-- property value syntax -/
inductive SVal where
  | int (lz n : Nat)                              -- `lz` leading zeros, then the decimal digits of `n`
  | dec (lz n : Nat) (frac : List Char)           -- integer part as above, `.`, fraction digits
  | bool (b : Bool) (spelling : List Char)        -- `true` / `false` in any letter case
  | quoted (s : List Char)                        -- rendered between quotes with `"` and `\` escaped by `\`
  | bare (w : List Char)                          -- an identifier
deriving Repr, Inhabited

inductive Chunk where
  | text (s : List Char)
  | escOpen
  | escClose
  | opn (name : List Char) (short : Option SVal) (props : List (List Char × SVal)) (ws : List (List Char))
  | selfClose (name : List Char) (short : Option SVal) (props : List (List Char × SVal)) (ws : List (List Char))
  | close (name : List Char) (ws : List (List Char))
  | closeAll (ws : List (List Char))
  | repl (name : List Char) (short : Option SVal) (props : List (List Char × SVal)) (ws : List (List Char))
      (raw : List Char) (byName : Bool) (closeWs : List (List Char))
deriving Repr, Inhabited

/-! ## Rendering -/

def natDigits (n : Nat) : List Char := Nat.toDigits 10 n

def renderVal : SVal → List Char
  | .int lz n => List.replicate lz '0' ++ natDigits n
  | .dec lz n frac => List.replicate lz '0' ++ natDigits n ++ '.' :: frac
  | .bool _ sp => sp
  | .quoted s => '"' :: (s.flatMap fun c => if c = '"' ∨ c = '\\' then ['\\', c] else [c]) ++ ['"']
  | .bare w => w

/-- the `i`-th white space slot of a marker -/
def slot (ws : List (List Char)) (i : Nat) : List Char := ws.getD i []

def renderProps : List (List Char × SVal) → List (List Char) → Nat → List Char × Nat
  | [], _, i => ([], i)
  | (k, v) :: ps, ws, i =>
    let r := renderProps ps ws (i + 3)
    (' ' :: slot ws i ++ k ++ slot ws (i + 1) ++ '=' :: slot ws (i + 2) ++ renderVal v ++ r.1, r.2)

/-- `[ name (= value)? ( prop = value)*` and the next free slot -/
def renderHead (name : List Char) (short : Option SVal) (props : List (List Char × SVal)) (ws : List (List Char)) :
    List Char × Nat :=
  let (sh, i) : List Char × Nat := match short with
    | none => ([], 1)
    | some v => (slot ws 1 ++ '=' :: slot ws 2 ++ renderVal v, 3)
  let r := renderProps props ws i
  ('[' :: slot ws 0 ++ name ++ sh ++ r.1 ++ slot ws r.2, r.2 + 1)

def renderCloseTag (name : List Char) (byName : Bool) (ws : List (List Char)) : List Char :=
  if byName then '[' :: slot ws 0 ++ '/' :: slot ws 1 ++ name ++ slot ws 2 ++ [']']
  else '[' :: slot ws 0 ++ '/' :: slot ws 1 ++ [']']

def renderChunk : Chunk → List Char
  | .text s => s
  | .escOpen => ['\\', '[']
  | .escClose => ['\\', ']']
  | .opn n sh ps ws => (renderHead n sh ps ws).1 ++ [']']
  | .selfClose n sh ps ws => let h := renderHead n sh ps ws; h.1 ++ '/' :: slot ws h.2 ++ [']']
  | .close n ws => renderCloseTag n true ws
  | .closeAll ws => renderCloseTag [] false ws
  | .repl n sh ps ws raw byName cws => (renderHead n sh ps ws).1 ++ ']' :: raw ++ renderCloseTag n byName cws

def render (cs : List Chunk) : List Char := cs.flatMap renderChunk

/-! ## Well-formedness of a chunk list (the grammar the property quantifies over) -/

def identChar (c : Char) : Bool := isLetter c || isDigit c || c = '_'
def isIdent (w : List Char) : Bool := !w.isEmpty && w.all identChar
def lower (w : List Char) : List Char := w.map toLower
def isAsciiDigit (c : Char) : Bool := '0' ≤ c && c ≤ '9'
def replNames : List (List Char) := ["nomarkup".toList, "select".toList, "plural".toList, "ordinal".toList]
def isReplName (n : List Char) : Bool := replNames.contains n

def valOk : SVal → Bool
  | .int _ _ => true
  | .dec _ _ frac => !frac.isEmpty && frac.all isAsciiDigit
  | .bool b sp => isIdent sp && !(sp.head?.map isDigit).getD true &&
      lower sp == (if b then "true".toList else "false".toList)
  | .quoted _ => true
  | .bare w => isIdent w && !(w.head?.map isDigit).getD true && lower w != "true".toList && lower w != "false".toList

def wsOk (ws : List (List Char)) : Bool := ws.all fun w => w.all isSpace
def perlWsOk (ws : List (List Char)) : Bool := ws.all fun w => w.all isPerlSpace
def headOk (n : List Char) (sh : Option SVal) (ps : List (List Char × SVal)) (ws : List (List Char)) : Bool :=
  isIdent n && (sh.map valOk).getD true && ps.all (fun p => isIdent p.1 && valOk p.2) && wsOk ws

/-- a close tag for `name` (or a close-all tag) with ASCII white space starts here -/
def closeTagHere (name : List Char) (l : List Char) : Bool :=
  match l with
  | '[' :: l =>
    match l.dropWhile isPerlSpace with
    | '/' :: l =>
      let l := l.dropWhile isPerlSpace
      l.head? == some ']' || (name.isPrefixOf l && ((l.drop name.length).dropWhile isPerlSpace).head? == some ']')
    | _ => false
  | _ => false

def noCloseTag (name : List Char) : List Char → Bool
  | [] => true
  | c :: cs => !closeTagHere name (c :: cs) && noCloseTag name cs

def chunkOk : Chunk → Bool
  | .text s => s.all fun c => c ≠ '[' && c ≠ '\\'
  | .escOpen | .escClose => true
  | .opn n sh ps ws => headOk n sh ps ws && !isReplName n
  | .selfClose n sh ps ws => headOk n sh ps ws
  | .close n ws => isIdent n && wsOk ws
  | .closeAll ws => wsOk ws
  | .repl n sh ps ws raw _ cws => headOk n sh ps ws && isReplName n && noCloseTag n raw && perlWsOk cws

def wellFormed (cs : List Chunk) : Bool := cs.all chunkOk

/-! ## Meaning -/

/-- the double nearest to `n.frac` -/
def nearest (n : Nat) (frac : List Char) : F64 :=
  let num := frac.foldl (fun a c => a * 10 + (c.toNat - 48)) n
  if num = 0 then F64.zero false else F64.roundQuot false num (10 ^ frac.length)

/-- typed value; `none`: the integer (part) does not fit an `int`, an error -/
def valOf : SVal → Option PVal
  | .int _ n => if n < 2 ^ 63 then some (.int n) else none
  | .dec _ n frac => if n < 2 ^ 63 then some (.float (nearest n frac)) else none
  | .bool b _ => some (.bool b)
  | .quoted s => some (.str (String.ofList s))
  | .bare w => some (.str (String.ofList w))

def resolveProps : List (List Char × SVal) → Option (List (String × PVal))
  | [] => some []
  | (k, v) :: ps =>
    match valOf v, resolveProps ps with
    | some x, some r => some ((String.ofList k, x) :: r)
    | _, _ => none

/-- all properties of a marker in source order; the shorthand `[name=value]` is a property called `name` -/
def resolve (name : List Char) (sh : Option SVal) (ps : List (List Char × SVal)) : Option (List (String × PVal)) :=
  resolveProps ((match sh with | some v => [(name, v)] | none => []) ++ ps)

/-- set a property in the association list that stands for the attribute's property map -/
def putProp (k : String) (v : PVal) : List (String × PVal) → List (String × PVal)
  | [] => [(k, v)]
  | (k', v') :: r => if k' == k then (k, v) :: r else (k', v') :: putProp k v r

/-- the properties of an attribute: a later property of the same name replaces the value of an earlier one -/
def asMap (ps : List (String × PVal)) : List (String × PVal) := ps.foldl (fun m p => putProp p.1 p.2 m) []

def lookup (ps : List (String × PVal)) (k : String) : Option PVal :=
  match ps with
  | [] => none
  | (k', v) :: r => if k' == k then some v else lookup r k

def decimal (i : Int) : String := if i < 0 then "-" ++ toString i.natAbs else toString i.natAbs

/-- the text form of a value inside replacement markers (YarnSpinner: invariant culture, booleans capitalised) -/
def valText : PVal → String
  | .int i => decimal i
  | .float f => F64.display f
  | .str s => s
  | .bool b => if b then "True" else "False"

/-- replace every non-overlapping occurrence of the non-empty `old`, scanning from the left; `fuel` ≥ length suffices -/
def substAll (old new : List Char) : Nat → List Char → List Char
  | 0, l => l
  | _, [] => []
  | fuel + 1, c :: cs =>
    if old.isPrefixOf (c :: cs) then new ++ substAll old new fuel ((c :: cs).drop old.length)
    else c :: substAll old new fuel cs

/-- YarnSpinner's placeholder rule: every `%` becomes the value, then every `\` followed by the value becomes `%` -/
def placeholders (text value : List Char) : List Char :=
  if !text.contains '%' then text else
  let t := substAll ['%'] value text.length text
  substAll ('\\' :: value) ['%'] t.length t

/-- English ordinal category (CLDR): 1st 21st … one, 2nd 22nd … two, 3rd 23rd … few, others (11th 12th 13th too) other -/
def ordinalCategory (n : Int) : String :=
  if n % 10 = 1 ∧ n % 100 ≠ 11 then "one" else if n % 10 = 2 ∧ n % 100 ≠ 12 then "two"
  else if n % 10 = 3 ∧ n % 100 ≠ 13 then "few" else "other"

/-- English cardinal category as the library applies it: integer 1 is `one`, everything else `other` -/
def pluralCategory : PVal → Option String
  | .int i => some (if i = 1 then "one" else "other")
  | .float _ => some "other"
  | _ => none

/-- the text a replacement marker stands for; `contents` is the raw text it encloses, if any -/
def replacement (name : List Char) (ps : List (String × PVal)) (contents : Option (List Char)) : Option (List Char) :=
  let ps := ps ++ (match contents with | some r => [("contents", PVal.str (String.ofList r))] | none => [])
  let pick (key : String) (v : PVal) : Option (List Char) :=
    (lookup ps key).map fun r => placeholders (valText r).toList (valText v).toList
  if name = "nomarkup".toList then some (match lookup ps "contents" with | some c => (valText c).toList | none => [])
  else if name = "select".toList then
    match lookup ps "value" with
    | some v => pick (valText v) v
    | none => none
  else if name = "plural".toList then
    match lookup ps "value" with
    | some v => match pluralCategory v with
      | some c => pick c v
      | none => none
    | none => none
  else if name = "ordinal".toList then
    match lookup ps "value" with
    | some (.int n) => pick (ordinalCategory n) (.int n)
    | _ => none
  else none

structure Open where
  name : String
  pos : Nat
  src : Nat
  props : List (String × PVal)
deriving Repr

structure St where
  out : List Char := []          -- characters emitted so far
  src : Nat := 0                 -- source characters consumed, as the parser counts them
  opens : List Open := []        -- unclosed markers, oldest first
  attrs : List Attr := []        -- in order of completion, positions not yet clipped
  lastWs : Bool := false         -- the last copied source character is white space and no marker came after it
  trimNext : Bool := false       -- the marker just before asked to drop one following white space character
deriving Repr

def closeAttr (o : Open) (stop : Nat) : Attr :=
  { name := o.name, position := o.pos, length := (stop : Int) - (o.pos : Int), sourcePosition := o.src,
    props := asMap o.props }

/-- does the marker ask to drop one following white space character? `none`: `trimwhitespace` is not a boolean -/
def trimRule (s : St) (isSelf isRepl : Bool) (ps : List (String × PVal)) : Option Bool :=
  if s.out.isEmpty || s.lastWs then
    match lookup ps "trimwhitespace" with
    | some (.bool b) => some b
    | some _ => none
    | none => some (isSelf && !isRepl)
  else some false

/-- remove the most recently opened marker of that name -/
def removeLast (n : String) : List Open → Option (Open × List Open)
  | [] => none
  | o :: os =>
    match removeLast n os with
    | some (f, os') => some (f, o :: os')
    | none => if o.name == n then some (o, os) else none

def stepChunk (s : St) (c : Chunk) : Option St :=
  let len := (renderChunk c).length
  match c with
  | .text [] => some s
  | .text (c :: cs) =>
    let kept := if s.trimNext && isSpace c then cs else c :: cs
    some { s with out := s.out ++ kept, src := s.src + len, lastWs := (kept.getLast?.map isSpace).getD s.lastWs,
                  trimNext := false }
  | .escOpen => some { s with out := s.out ++ ['['], src := s.src + 1, trimNext := false }
  | .escClose => some { s with out := s.out ++ [']'], src := s.src + 1, trimNext := false }
  | .opn n sh ps _ => do
    let props ← resolve n sh ps
    let trim ← trimRule s false false props
    pure { s with src := s.src + len, opens := s.opens ++ [{ name := String.ofList n, pos := s.out.length, src := s.src, props }],
                  lastWs := false, trimNext := trim }
  | .selfClose n sh ps _ => do
    let props ← resolve n sh ps
    let trim ← trimRule s true (isReplName n) props
    let text ← (if isReplName n then replacement n props none else some [])
    let a : Attr := { name := String.ofList n, position := s.out.length, length := 0, sourcePosition := s.src,
                      props := asMap props }
    pure { s with out := s.out ++ text, src := s.src + len, attrs := s.attrs ++ [a], lastWs := false, trimNext := trim }
  | .close n _ => do
    let (o, os) ← removeLast (String.ofList n) s.opens
    -- a close marker has no properties: it never trims
    pure { s with src := s.src + len, opens := os, attrs := s.attrs ++ [closeAttr o s.out.length], lastWs := false,
                  trimNext := false }
  | .closeAll _ =>
    pure { s with src := s.src + len, opens := [], attrs := s.attrs ++ s.opens.map (closeAttr · s.out.length),
                  lastWs := false, trimNext := false }
  | .repl n sh ps _ raw byName _ => do
    let props ← resolve n sh ps
    let _ ← trimRule s false true props
    let text ← replacement n props (some raw)
    let o : Open := { name := String.ofList n, pos := s.out.length, src := s.src, props }
    let out := s.out ++ text
    let s' := { s with out := out, src := s.src + len - raw.length, lastWs := false, trimNext := false }
    if byName then pure { s' with attrs := s.attrs ++ [closeAttr o out.length] }
    else pure { s' with opens := [], attrs := s.attrs ++ (s.opens ++ [o]).map (closeAttr · out.length) }

def insertByPosition (a : Attr) : List Attr → List Attr
  | [] => [a]
  | b :: bs => if a.position < b.position then a :: b :: bs else b :: insertByPosition a bs
/-- stable sort by position -/
def sortByPosition (l : List Attr) : List Attr := l.foldl (fun acc a => insertByPosition a acc) []

/-- the implicit character attribute of a source line: name and length -/
def characterPrefix (line : List Char) : Option (List Char × Nat) :=
  let name := line.takeWhile (· ≠ ':')
  match line.drop name.length with
  | [] => none
  | _ :: rest => some (name, name.length + 1 + (rest.takeWhile isPerlSpace).length)

def trimEnds (t : List Char) : List Char := ((t.dropWhile isSpace).reverse.dropWhile isSpace).reverse

/-- clip the range `[position, position + length)` to the text kept by trimming (`lead` characters dropped in front) -/
def clip (lead n : Nat) (a : Attr) : Attr :=
  let clamp (x : Int) : Int := min (max (x - (lead : Int)) 0) (n : Int)
  { a with position := clamp a.position, length := clamp (a.position + a.length) - clamp a.position }

/-- what parsing `render cs` has to yield; `none` = an error -/
def expected (cs : List Chunk) : Option ParseResult := do
  let s ← cs.foldlM stepChunk {}
  let attrs := sortByPosition s.attrs
  let attrs := if attrs.any (·.name == "character") then attrs else
    match characterPrefix (render cs) with
    | some (name, len) => attrs ++ [{ name := "character", position := 0, length := len, sourcePosition := 0,
                                       props := [("name", .str (String.ofList name))] }]
    | none => attrs
  let lead := (s.out.takeWhile isSpace).length
  let kept := trimEnds s.out
  pure { text := String.ofList kept, attrs := attrs.map (clip lead kept.length) }

/-- the text an attribute of `expected` has to enclose -/
def enclosed (res : ParseResult) (a : Attr) : String :=
  String.ofList ((res.text.toList.drop a.position.toNat).take a.length.toNat)

end Ysgo.MarkupSpec
