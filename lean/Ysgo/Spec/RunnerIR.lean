import Ysgo.Model.Runner
/-!
# runner.go as data: a small Go statement/expression IR and its interpreter

`tools/runnerir` translates (go/ast, purely syntactically) the bodies of the methods of `runner.go` into the terms of
`GE` / `GS` below (`Generated/RunnerIR.lean`, rewritten on every run). This file gives those terms their Go meaning
over a Go-level runner state `GR` (the model's `Data` + the stack of statement queues + `dr.lastStatement`), and
`Props/C01IR.lean` proves that the interpreted source IS the hand-written runner model (`exec`, `R.micro`, `R.restore`,
`R.snapshot`) for all states, programs, hosts and markup passes.

What the interpreter decides itself (and a mutation of the source therefore changes): control flow (`if`/`else`, the
normalised `switch`, `for … range`, `return`, `select`), the order of effects, which field is assigned what and when,
locals, comparisons, `&&`/`||`/`!`, indexing and its bounds, nil checks, the float/string operators of the assignment
switch, the `++` on the queue pointer and on the visit counter, the tail call of `Next` (cut: it is reported as
`SRes.tail`, exactly where the model's `micro` returns without output).

TRUSTED — the meaning of these primitives is TAKEN FROM THE MODEL (they are other packages / other files, each with its
own correspondence evidence):
* `evaluateExpression(e, dr.variableStorer, dr.functionStorer)` ↦ `eval` (nil error ⇔ `.ok`; a panic inside is a panic);
* `dr.textElementsToMarkup(elements)` ↦ `renderLine` (interpolation, then the markup pass with its state);
* `dr.variableStorer.GetValue/GetValues/Set{Number,Boolean,String}Value/Clear` ↦ `Map.get`, the store itself, `Map.set`, `[]`;
* `dr.dialogue.FindNode` ↦ `Program.find`; `node.Title()` ↦ `Node.title`; `node.Headers["tracking"]` ↦ `Node.tracking`
  (the loader always gives a node a non-nil header map: it holds the title);
* `dr.commandStorer.call` ↦ `env.cmd` (the returned channel is `ready` with the result, or `running`; a command that
  panics is the panic `.host`); `select` with `default` on such a channel ↦ receive iff ready;
  `dr.commandErrChan` ↦ `Data.pending`;
* `dr.functionStorer.call` ↦ `callFn`; `maps.Clone` ↦ identity (values are immutable here; aliasing is the business of
  C07's stream); `math.Mod` ↦ `F64.fmod`; `+ - * /` on `float64` ↦ `F64.add/sub/mul/div`;
* `container.Stack` `Push/Pop/Peek/Clear/Size` ↦ list operations (head = top; `Pop`/`Peek` of the empty stack panic);
* the tree: a `*tree.Statement` is a model `Stmt` (exactly one field set, or none: `.empty`; a declare statement is the
  model's `set … .set …`, so `.DeclareStatement` of a model statement is nil and `executeDeclareStatement` is tied to the
  model by its own theorem); a `variable.Value` has exactly one of `Number`/`Boolean`/`String` set; a nil and an empty Go
  map are the same `Map`; error VALUES carry no text (`fmt.Errorf("…")` ↦ an error, `%w` ↦ the wrapped error is an error),
  only `ErrWaitingForCommandCompletion` is distinguished.
Anything else — an `unsupported` node, a field or method or operator not listed, a value of the wrong kind — has NO
meaning: the interpreter is `stuck`, and every theorem of `C01IR` fails.
-/
namespace Ysgo.RunnerIR
open Ysgo

/-! ### the IR -/

inductive GE where
  | loc (i : Nat)                         -- local variable / parameter, numbered by order of declaration
  | recv                                  -- the receiver (`dr`, `sq`)
  | nilE
  | boolE (b : Bool)
  | intE (n : Nat)
  | strE (s : String)
  | const (name : String)                 -- a qualified constant or a type name (`tree.AssignmentInPlaceOperator`)
  | sel (e : GE) (f : String)             -- e.f
  | idx (e i : GE)                        -- e[i]
  | sliceFrom (e lo : GE)                 -- e[lo:]
  | deref (e : GE)                        -- *e
  | un (op : String) (e : GE)             -- !e
  | bin (op : String) (a b : GE)          -- && || == != < <= > >= + - * /
  | call (fn : String) (args : List GE)   -- f(args), pkg.f(args)
  | mcall (r : GE) (m : String) (args : List GE)   -- r.m(args)
  | newErr (n : Nat)                      -- fmt.Errorf("…") / errors.New: the n-th error text of the function
  | wrap (e : GE)                         -- fmt.Errorf("…: %w", e)
  | lit (ty : String) (names : List String) (vals : List GE)   -- T{a: x, b: y} / &T{…}
  | unsupported (what : String)
  deriving Repr, Inhabited

/-- assignable places -/
inductive LV where
  | loc (i : Nat)
  | blank
  | field (f : String)                    -- recv.f
  | fieldIdx (f : String) (k : GE)        -- recv.f[k]
  | unsupported (what : String)
  deriving Repr, Inhabited

inductive GS where
  | assign (lhs : List LV) (rhs : List GE)          -- `=` and `:=`
  | expr (e : GE)
  | inc (lv : LV)
  | var (i : Nat) (ty : String)                     -- `var x T`
  | ite (init : List GS) (c : GE) (thn els : List GS)   -- if / else if / else, and every `switch` (normalised)
  | range (k v : Option Nat) (xs : GE) (body : List GS)
  | ret (es : List GE)
  | tail (args : List GE)                           -- `return recv.<this function>(args)`
  | select (v : Option Nat) (ch : GE) (recvB dflt : List GS)   -- select { case v := <-ch: …; default: … }
  | unsupported (what : String)
  deriving Repr, Inhabited

structure FnDef where
  name : String
  nparams : Nat
  nlocals : Nat            -- parameters + named results + locals
  body : List GS
  deriving Repr, Inhabited

/-! ### Go values -/

inductive Chan | ready (failed : Bool) | running

inductive GV (μ : Type) where
  | nil | bool (b : Bool) | int (n : Nat) | str (s : String) | f64 (x : F64)
  | val (v : Value) | vals (l : List Value)
  | op (o : AssignOp)
  | err | errWaiting
  | pair (a b : GV μ)
  -- the tree
  | stmt (s : Stmt) | stmts (l : List Stmt)
  | lineS (l : LineSpec) | text (l : LineSpec) | elems (es : List (String ⊕ Expr)) | tags (t : List String)
  | optsS (os : List (LineSpec × List Stmt)) | opts (os : List (LineSpec × List Stmt)) | opt (o : LineSpec × List Stmt)
  | setS (v : String) (o : AssignOp) (e : Expr) | jumpS (e : Expr)
  | ifS (cs : List (Expr × List Stmt)) | clauses (cs : List (Expr × List Stmt)) | clause (c : Expr × List Stmt)
  | cmdS (es : List Expr) | cmdElems (es : List Expr) | cmdElem (e : Expr)
  | callS (f : String) (args : List Expr) | exprs (es : List Expr) | expr (e : Expr)
  | declS (v : String) (e : Expr)
  | node (n : Node) | headers (n : Node)
  -- the runner and its parts
  | dr | stackRef | storer | fns | cmds | dialogue
  | qref (i : Nat)                        -- pointer to a queue of the stack: its position counted from the bottom
  | newq (l : List Stmt)                  -- &statementQueue{statements: l}
  | chan (c : Chan)
  | vars (st : Store) | vis (m : Map Nat) | snap (s : Snapshot)
  -- what `Next` returns
  | mk (r : μ) | lineV (r : μ) (tags : List String)
  | optV (o : μ × List String × Bool) | optVs (os : List (μ × List String × Bool))
  | elem (e : Elem μ)

instance {μ} : Inhabited (GV μ) := ⟨.nil⟩

/-- the Go-level runner state: the model's data, the stack (head = top), `dr.lastStatement` -/
structure GR (σ π : Type) where
  d : Data σ π
  stack : List SQ
  last : Option Stmt

/-- the abstraction to the model's machine state: a choice is expected iff the last statement is an option group -/
def GR.abs {σ π} (g : GR σ π) : R σ π := { d := g.d, stack := g.stack, waiting := g.last.bind isOpts }

/-- statement / function result -/
inductive SRes (σ π μ : Type) where
  | stuck
  | panic (p : PanicSite) (g : GR σ π)
  | norm (env : List (GV μ)) (g : GR σ π)
  | ret (vs : List (GV μ)) (g : GR σ π)
  | tail (vs : List (GV μ)) (g : GR σ π)       -- the function tail-calls itself with these arguments

inductive ERes (σ π μ : Type) where
  | stuck
  | panic (p : PanicSite) (g : GR σ π)
  | ok (v : GV μ) (g : GR σ π)

inductive EsRes (σ π μ : Type) where
  | stuck
  | panic (p : PanicSite) (g : GR σ π)
  | ok (vs : List (GV μ)) (g : GR σ π)

/-! ### queues of the stack by position from the bottom -/

def qget (st : List SQ) (i : Nat) : Option SQ := if i < st.length then st[st.length - 1 - i]? else none
def qset (st : List SQ) (i : Nat) (q : SQ) : List SQ := if i < st.length then st.set (st.length - 1 - i) q else st

section interp
variable {σ π μ : Type}

/-! ### pure operations on values -/

def isNil : GV μ → Bool | .nil => true | _ => false

/-- `==`: nil tests on anything, equality of strings, ints, bools, operators -/
def veq : GV μ → GV μ → Option Bool
  | .nil, x => some (isNil x)
  | x, .nil => some (isNil x)
  | .str a, .str b => some (a == b)
  | .int a, .int b => some (a == b)
  | .bool a, .bool b => some (a == b)
  | .op a, .op b => some (decide (a = b))
  | _, _ => none

def binop (op : String) (a b : GV μ) : Option (GV μ) :=
  if op = "==" then (veq a b).map .bool
  else if op = "!=" then (veq a b).map (fun x => .bool (!x))
  else match a, b with
    | .int x, .int y =>
      if op = ">=" then some (.bool (decide (x ≥ y))) else if op = ">" then some (.bool (decide (x > y)))
      else if op = "<=" then some (.bool (decide (x ≤ y))) else if op = "<" then some (.bool (decide (x < y)))
      else if op = "+" then some (.int (x + y))
      else if op = "-" then (if y ≤ x then some (.int (x - y)) else none)     -- (a negative int is outside the model)
      else none
    | .f64 x, .f64 y =>
      if op = "*" then some (.f64 (x.mul y)) else if op = "/" then some (.f64 (x.div y))
      else if op = "+" then some (.f64 (x.add y)) else if op = "-" then some (.f64 (x.sub y)) else none
    | .str x, .str y => if op = "+" then some (.str (x ++ y)) else none
    | _, _ => none

def constant (n : String) : Option (GV μ) :=
  if n = "tree.AssignmentInPlaceOperator" then some (.op .set)
  else if n = "tree.MultiplicationInPlaceOperator" then some (.op .mul)
  else if n = "tree.DivisionInPlaceOperator" then some (.op .div)
  else if n = "tree.ModuloInPlaceOperator" then some (.op .mod)
  else if n = "tree.AdditionInPlaceOperator" then some (.op .add)
  else if n = "tree.SubtractionInPlaceOperator" then some (.op .sub)
  else if n = "ErrWaitingForCommandCompletion" then some .errWaiting
  else if n = "[]*variable.Value" then some (.str n)            -- type names (arguments of `make`)
  else if n = "[]DialogueOption" then some (.str n)
  else none

def zeroOf (ty : String) : Option (GV μ) :=
  if ty = "float64" then some (.f64 (F64.zero false)) else if ty = "string" then some (.str "")
  else if ty = "bool" then some (.bool false) else if ty = "error" then some .nil else none

def optNil (o : Option (GV μ)) : GV μ := o.getD .nil

/-- field selection on the values that have fields (not the runner itself: see `field`) -/
def fieldPure : GV μ → String → Option (GV μ)
  | .stmt s, f =>
    if f = "LineStatement" then some (match s with | .line l => .lineS l | _ => .nil)
    else if f = "ShortcutOptionStatement" then some (match s with | .opts os => .optsS os | _ => .nil)
    else if f = "SetStatement" then some (match s with | .set v o e => .setS v o e | _ => .nil)
    else if f = "JumpStatement" then some (match s with | .jump e => .jumpS e | _ => .nil)
    else if f = "IfStatement" then some (match s with | .ifs cs => .ifS cs | _ => .nil)
    else if f = "CommandStatement" then some (match s with | .cmd es => .cmdS es | _ => .nil)
    else if f = "CallStatement" then some (match s with | .call fn args => .callS fn args | _ => .nil)
    else if f = "DeclareStatement" then some .nil
    else none
  | .lineS l, f =>
    if f = "Text" then some (.text l) else if f = "Tags" then some (.tags l.tags)
    else if f = "Condition" then some (match l.cond with | some c => .expr c | none => .nil) else none
  | .text l, f => if f = "Elements" then some (.elems l.elems) else none
  | .optsS os, f => if f = "Options" then some (.opts os) else none
  | .opt o, f => if f = "LineStatement" then some (.lineS o.1) else if f = "Statements" then some (.stmts o.2) else none
  | .setS v o e, f =>
    if f = "VariableID" then some (.str v) else if f = "InPlaceOperator" then some (.op o)
    else if f = "Expression" then some (.expr e) else none
  | .jumpS e, f => if f = "Expression" then some (.expr e) else none
  | .ifS cs, f => if f = "Clauses" then some (.clauses cs) else none
  | .clause c, f => if f = "Condition" then some (.expr c.1) else if f = "Statements" then some (.stmts c.2) else none
  | .cmdS es, f => if f = "Elements" then some (.cmdElems es) else none
  | .cmdElem e, f => if f = "Expression" then some (.expr e) else none
  | .callS fn args, f => if f = "FunctionID" then some (.str fn) else if f = "Arguments" then some (.exprs args) else none
  | .declS v e, f => if f = "VariableID" then some (.str v) else if f = "Value" then some (.expr e) else none
  | .node n, f => if f = "Statements" then some (.stmts n.body) else if f = "Headers" then some (.headers n) else none
  | .val v, f =>
    if f = "Number" then some (match v with | .num x => .f64 x | _ => .nil)
    else if f = "Boolean" then some (match v with | .bool b => .bool b | _ => .nil)
    else if f = "String" then some (match v with | .str s => .str s | _ => .nil)
    else none
  | .snap s, f =>
    if f = "Variables" then some (.vars s.vars) else if f = "CurrentNode" then some (.str s.node)
    else if f = "VisitedNodes" then some (.vis s.visited) else none
  | _, _ => none

def pendingToGV (p : Option (Option Bool)) : GV μ :=
  match p with
  | none => .nil
  | some none => .chan .running
  | some (some f) => .chan (.ready f)

/-- field selection, including the runner's own fields and the fields of a queue of the stack -/
def field (g : GR σ π) : GV μ → String → Option (GV μ)
  | .dr, f =>
    if f = "lastStatement" then some (match g.last with | some s => .stmt s | none => .nil)
    else if f = "currentNode" then some (.str g.d.cur)
    else if f = "visitedNodes" then some (.vis g.d.visited)
    else if f = "variableSnapshot" then some (.vars g.d.snapVars)
    else if f = "commandErrChan" then some (pendingToGV g.d.pending)
    else if f = "statementsToRun" then some .stackRef
    else if f = "variableStorer" then some .storer
    else if f = "functionStorer" then some .fns
    else if f = "commandStorer" then some .cmds
    else if f = "dialogue" then some .dialogue
    else none
  | .qref i, f =>
    if f = "pointer" then (qget g.stack i).map (fun q => .int q.ptr)
    else if f = "statements" then (qget g.stack i).map (fun q => .stmts q.stmts)
    else none
  | v, f => fieldPure v f

/-- assignment to a field of the receiver -/
def setField (g : GR σ π) : GV μ → String → GV μ → Option (GR σ π)
  | .dr, f, v =>
    if f = "lastStatement" then
      (match v with | .nil => some { g with last := none } | .stmt s => some { g with last := some s } | _ => none)
    else if f = "currentNode" then (match v with | .str s => some { g with d := { g.d with cur := s } } | _ => none)
    else if f = "visitedNodes" then (match v with | .vis m => some { g with d := { g.d with visited := m } } | _ => none)
    else if f = "variableSnapshot" then (match v with | .vars m => some { g with d := { g.d with snapVars := m } } | _ => none)
    else if f = "commandErrChan" then
      (match v with
       | .nil => some { g with d := { g.d with pending := none } }
       | .chan .running => some { g with d := { g.d with pending := some none } }
       | .chan (.ready b) => some { g with d := { g.d with pending := some (some b) } }
       | _ => none)
    else none
  | .qref i, f, v =>
    if f = "pointer" then
      (match v, qget g.stack i with | .int n, some q => some { g with stack := qset g.stack i { q with ptr := n } } | _, _ => none)
    else none
  | _, _, _ => none

inductive IdxRes (μ : Type) where | stuck | oob | ok (v : GV μ)

def ofIdx {α} (f : α → GV μ) (o : Option α) : IdxRes μ := match o with | some a => .ok (f a) | none => .oob

def index : GV μ → GV μ → IdxRes μ
  | .opts os, .int i => ofIdx .opt os[i]?
  | .stmts l, .int i => ofIdx .stmt l[i]?
  | .cmdElems l, .int i => ofIdx .cmdElem l[i]?
  | .exprs l, .int i => ofIdx .expr l[i]?
  | .vals l, .int i => ofIdx .val l[i]?
  | .headers n, .str k => if k = "tracking" then .ok (.str n.tracking) else if k = "title" then .ok (.str n.title) else .stuck
  | _, _ => .stuck

def lenOf : GV μ → Option Nat
  | .stmts l => some l.length | .opts l => some l.length | .cmdElems l => some l.length
  | .exprs l => some l.length | .vals l => some l.length | .optVs l => some l.length | .clauses l => some l.length
  | _ => none

/-- keys and values of a `range`: positions for slices, names for the variable map -/
def enumFrom (f : Nat → GV μ) : Nat → List (GV μ) → List (GV μ × GV μ)
  | _, [] => []
  | n, x :: xs => (f n, x) :: enumFrom f (n + 1) xs

def rangeItems : GV μ → Option (List (GV μ × GV μ))
  | .clauses cs => some (enumFrom .int 0 (cs.map .clause))
  | .opts os => some (enumFrom .int 0 (os.map .opt))
  | .cmdElems es => some (enumFrom .int 0 (es.map .cmdElem))
  | .exprs es => some (enumFrom .int 0 (es.map .expr))
  | .stmts l => some (enumFrom .int 0 (l.map .stmt))
  | .vars st => some (st.map (fun kv => (.str kv.1, .val kv.2)))
  | _ => none

def lookupName (names : List String) (vs : List (GV μ)) (n : String) : Option (GV μ) :=
  match names, vs with
  | a :: as, v :: vs => if a = n then some v else lookupName as vs n
  | _, _ => none

/-- composite literals -/
def mkLit (ty : String) (names : List String) (vs : List (GV μ)) : Option (GV μ) :=
  if names.length ≠ vs.length then none
  else if ty = "statementQueue" then
    (match names, vs with | ["statements"], [.stmts l] => some (.newq l) | _, _ => none)
  else if ty = "tree.SetStatement" then
    (match lookupName names vs "VariableID", lookupName names vs "InPlaceOperator", lookupName names vs "Expression", names.length with
     | some (.str v), some (.op o), some (.expr e), 3 => some (.setS v o e) | _, _, _, _ => none)
  else if ty = "Line" then
    (match lookupName names vs "ParseResult", lookupName names vs "Tags", names.length with
     | some (.mk r), some (.tags t), 2 => some (.lineV r t) | _, _, _ => none)
  else if ty = "DialogueOption" then
    (match lookupName names vs "Line", lookupName names vs "Disabled", names.length with
     | some (.lineV r t), some (.bool d), 2 => some (.optV (r, t, d)) | _, _, _ => none)
  else if ty = "DialogueElement" then
    (match lookupName names vs "Node", lookupName names vs "Line", lookupName names vs "Options", names.length with
     | some (.str n), some (.lineV r t), none, 2 => some (.elem (.line n r t))
     | some (.str n), none, some (.optVs os), 2 => some (.elem (.options n os))
     | _, _, _, _ => none)
  else if ty = "Snapshot" then
    (match lookupName names vs "Variables", lookupName names vs "CurrentNode", lookupName names vs "VisitedNodes", names.length with
     | some (.vars st), some (.str n), some (.vis m), 3 => some (.snap ⟨st, m, n⟩) | _, _, _, _ => none)
  else if ty = "map[string]int" then (match names with | [] => some (.vis []) | _ => none)
  else none

/-! ### primitives whose meaning is the model's -/

variable (henv : Env σ) (mkp : Markup π μ) (prog : Program)

def withW (g : GR σ π) (w : W σ) : GR σ π := { g with d := { g.d with w := w } }

/-- free functions: `evaluateExpression`, `len`, `make`, `append`, `maps.Clone`, `math.Mod` -/
def prim (fn : String) (vs : List (GV μ)) (g : GR σ π) : ERes σ π μ :=
  if fn = "evaluateExpression" then
    (match vs with
     | [.expr e, .storer, .fns] =>
       (match eval henv g.d.store g.d.visited e g.d.w with
        | (.ok v, w) => .ok (.pair (.val v) .nil) (withW g w)
        | (.err _, w) => .ok (.pair .nil .err) (withW g w)
        | (.panic p, w) => .panic p (withW g w))
     | _ => .stuck)
  else if fn = "len" then (match vs with | [v] => (match lenOf v with | some n => .ok (.int n) g | none => .stuck) | _ => .stuck)
  else if fn = "make" then
    (match vs with
     | [.str "[]*variable.Value", .int 0, .int _] => .ok (.vals []) g
     | [.str "[]DialogueOption", .int 0, .int _] => .ok (.optVs []) g
     | _ => .stuck)
  else if fn = "append" then
    (match vs with
     | [.vals l, .val v] => .ok (.vals (l ++ [v])) g
     | [.optVs l, .optV o] => .ok (.optVs (l ++ [o])) g
     | _ => .stuck)
  else if fn = "maps.Clone" then
    (match vs with | [.vars st] => .ok (.vars st) g | [.vis m] => .ok (.vis m) g | _ => .stuck)
  else if fn = "math.Mod" then
    (match vs with | [.f64 x, .f64 y] => .ok (.f64 (x.fmod y)) g | _ => .stuck)
  else .stuck

def withStore (g : GR σ π) (st : Store) : GR σ π := { g with d := { g.d with store := st } }

/-- methods of the parts of the runner (not the translated methods of the runner itself) -/
def meth (r : GV μ) (m : String) (vs : List (GV μ)) (g : GR σ π) : ERes σ π μ :=
  match r with
  | .stackRef =>
    if m = "Push" then (match vs with | [.newq l] => .ok .nil { g with stack := ⟨l, 0⟩ :: g.stack } | _ => .stuck)
    else if m = "Pop" then
      (match vs, g.stack with
       | [], _ :: rest => .ok (.qref rest.length) { g with stack := rest }
       | [], [] => .panic .emptyStack g
       | _, _ => .stuck)
    else if m = "Peek" then
      (match vs, g.stack with
       | [], _ :: rest => .ok (.qref rest.length) g
       | [], [] => .panic .emptyStack g
       | _, _ => .stuck)
    else if m = "Clear" then (match vs with | [] => .ok .nil { g with stack := [] } | _ => .stuck)
    else if m = "Size" then (match vs with | [] => .ok (.int g.stack.length) g | _ => .stuck)
    else .stuck
  | .storer =>
    if m = "GetValue" then
      (match vs with
       | [.str n] => (match g.d.store.get n with
           | some v => .ok (.pair (.val v) (.bool true)) g
           | none => .ok (.pair .nil (.bool false)) g)
       | _ => .stuck)
    else if m = "GetValues" then (match vs with | [] => .ok (.vars g.d.store) g | _ => .stuck)
    else if m = "SetNumberValue" then (match vs with | [.str n, .f64 x] => .ok .nil (withStore g (g.d.store.set n (.num x))) | _ => .stuck)
    else if m = "SetBooleanValue" then (match vs with | [.str n, .bool b] => .ok .nil (withStore g (g.d.store.set n (.bool b))) | _ => .stuck)
    else if m = "SetStringValue" then (match vs with | [.str n, .str s] => .ok .nil (withStore g (g.d.store.set n (.str s))) | _ => .stuck)
    else if m = "Clear" then (match vs with | [] => .ok .nil (withStore g []) | _ => .stuck)
    else .stuck
  | .dialogue =>
    if m = "FindNode" then
      (match vs with
       | [.str t] => (match prog.find t with
           | some n => .ok (.pair (.node n) (.bool true)) g
           | none => .ok (.pair .nil (.bool false)) g)
       | _ => .stuck)
    else .stuck
  | .node n => if m = "Title" then (match vs with | [] => .ok (.str n.title) g | _ => .stuck) else .stuck
  | .cmds =>
    if m = "call" then
      (match vs with
       | [.str name, .vals args] =>
         (match henv.cmd name args g.d.w.host with
          | (.done, h) => .ok (.chan (.ready false)) (withW g { g.d.w with host := h })
          | (.failed, h) => .ok (.chan (.ready true)) (withW g { g.d.w with host := h })
          | (.unknown, h) => .ok (.chan (.ready true)) (withW g { g.d.w with host := h })
          | (.pending, h) => .ok (.chan .running) (withW g { g.d.w with host := h })
          | (.panicked, h) => .panic .host (withW g { g.d.w with host := h }))
       | _ => .stuck)
    else .stuck
  | .fns =>
    if m = "call" then
      (match vs with
       | [.str f, .vals args] =>
         (match callFn henv g.d.visited f args g.d.w with
          | (.ok r, w) => .ok (.pair (match r with | some v => .val v | none => .nil) .nil) (withW g w)
          | (.err _, w) => .ok (.pair .nil .err) (withW g w)
          | (.panic p, w) => .panic p (withW g w))
       | _ => .stuck)
    else .stuck
  | .dr =>
    if m = "textElementsToMarkup" then
      (match vs with
       | [.elems es] =>
         (match renderLine henv mkp g.d.store g.d.visited { elems := es } g.d.w g.d.ms with
          | (.ok t, w, ms) => .ok (.pair (.mk t) .nil) { g with d := { g.d with w := w, ms := ms } }
          | (.err _, w, ms) => .ok (.pair .nil .err) { g with d := { g.d with w := w, ms := ms } }
          | (.panic p, w, ms) => .panic p { g with d := { g.d with w := w, ms := ms } })
       | _ => .stuck)
    else .stuck
  | _ => .stuck

/-- the translated methods callable from a translated body -/
def isUser (m : String) : Bool :=
  m = "isWaitingForChoice" || m = "executeSetStatement" || m = "executeJumpStatement" || m = "incrementNodeTrackingIfAllowed" ||
  m = "executeIfStatement" || m = "executeCommandStatement" || m = "executeCallStatement" || m = "executeDeclareStatement" ||
  m = "nextStatement"

abbrev User (σ π μ : Type) := String → GV μ → List (GV μ) → GR σ π → SRes σ π μ

/-- a call used as a value: one result is that value, two results are a pair, none is nil -/
def ofCall (r : SRes σ π μ) : ERes σ π μ :=
  match r with
  | .ret [] g => .ok .nil g
  | .ret [v] g => .ok v g
  | .ret [a, b] g => .ok (.pair a b) g
  | .panic p g => .panic p g
  | _ => .stuck

def setOpt (env : List (GV μ)) (i : Option Nat) (v : GV μ) : List (GV μ) :=
  match i with | some i => env.set i v | none => env

/-- the `for … range` loop over the items, `body` being the interpreted body -/
def loop (body : List (GV μ) → GR σ π → SRes σ π μ) (k v : Option Nat) :
    List (GV μ × GV μ) → List (GV μ) → GR σ π → SRes σ π μ
  | [], env, g => .norm env g
  | (a, b) :: rest, env, g =>
    match body (setOpt (setOpt env k a) v b) g with
    | .norm env' g' => loop body k v rest env' g'
    | r => r

/-- receive with `default`: `some v` = a value was ready -/
def chanRecv : GV μ → Option (Option (GV μ))
  | .chan (.ready true) => some (some .err)
  | .chan (.ready false) => some (some .nil)
  | .chan .running => some none
  | .nil => some none
  | _ => none

/-! ### the interpreter -/

variable (user : User σ π μ) (self : GV μ)

mutual
def evalE (env : List (GV μ)) : GE → GR σ π → ERes σ π μ
  | .loc i, g => (match env[i]? with | some v => .ok v g | none => .stuck)
  | .recv, g => .ok self g
  | .nilE, g => .ok .nil g
  | .boolE b, g => .ok (.bool b) g
  | .intE n, g => .ok (.int n) g
  | .strE s, g => .ok (.str s) g
  | .const n, g => (match constant n with | some v => .ok v g | none => .stuck)
  | .sel e f, g =>
    (match evalE env e g with
     | .ok .nil g => .panic .nilDeref g
     | .ok v g => (match field g v f with | some r => .ok r g | none => .stuck)
     | r => r)
  | .idx e i, g =>
    (match evalE env e g with
     | .ok v g =>
       (match evalE env i g with
        | .ok iv g => (match index v iv with | .ok r => .ok r g | .oob => .panic .index g | .stuck => .stuck)
        | r => r)
     | r => r)
  | .sliceFrom e lo, g =>
    (match evalE env e g with
     | .ok v g =>
       (match evalE env lo g with
        | .ok (.int n) g =>
          (match v with
           | .vals l => if n ≤ l.length then .ok (.vals (l.drop n)) g else .panic .index g
           | _ => .stuck)
        | .ok _ _ => .stuck
        | r => r)
     | r => r)
  | .deref e, g =>
    (match evalE env e g with
     | .ok .nil g => .panic .nilDeref g
     | .ok v g => .ok v g
     | r => r)
  | .un op e, g =>
    (match evalE env e g with
     | .ok (.bool b) g => if op = "!" then .ok (.bool (!b)) g else .stuck
     | .ok _ _ => .stuck
     | r => r)
  | .bin op a b, g =>
    (match evalE env a g with
     | .ok va g =>
       if op = "&&" then
         (match va with
          | .bool false => .ok (.bool false) g
          | .bool true => (match evalE env b g with | .ok (.bool y) g => .ok (.bool y) g | .ok _ _ => .stuck | r => r)
          | _ => .stuck)
       else if op = "||" then
         (match va with
          | .bool true => .ok (.bool true) g
          | .bool false => (match evalE env b g with | .ok (.bool y) g => .ok (.bool y) g | .ok _ _ => .stuck | r => r)
          | _ => .stuck)
       else
         (match evalE env b g with
          | .ok vb g => (match binop op va vb with | some r => .ok r g | none => .stuck)
          | r => r)
     | r => r)
  | .call fn args, g =>
    (match evalEs env args g with
     | .ok vs g => prim henv fn vs g
     | .panic p g => .panic p g
     | .stuck => .stuck)
  | .mcall r m args, g =>
    (match evalE env r g with
     | .ok rv g =>
       (match evalEs env args g with
        | .ok vs g =>
          (match rv with
           | .nil => .panic .nilDeref g
           | .qref _ => if isUser m then ofCall (user m rv vs g) else .stuck
           | .dr => if isUser m then ofCall (user m rv vs g) else meth henv mkp prog rv m vs g
           | _ => meth henv mkp prog rv m vs g)
        | .panic p g => .panic p g
        | .stuck => .stuck)
     | r => r)
  | .newErr _, g => .ok .err g
  | .wrap e, g =>
    (match evalE env e g with
     | .ok .err g => .ok .err g
     | .ok .errWaiting g => .ok .err g
     | .ok _ _ => .stuck
     | r => r)
  | .lit ty names vals, g =>
    (match evalEs env vals g with
     | .ok vs g => (match mkLit ty names vs with | some v => .ok v g | none => .stuck)
     | .panic p g => .panic p g
     | .stuck => .stuck)
  | .unsupported _, _ => .stuck
def evalEs (env : List (GV μ)) : List GE → GR σ π → EsRes σ π μ
  | [], g => .ok [] g
  | e :: es, g =>
    (match evalE env e g with
     | .ok v g =>
       (match evalEs env es g with
        | .ok vs g => .ok (v :: vs) g
        | r => r)
     | .panic p g => .panic p g
     | .stuck => .stuck)
end

/-- store into an assignable place -/
def assign1 (env : List (GV μ)) (g : GR σ π) (lv : LV) (v : GV μ) : Option (List (GV μ) × GR σ π) :=
  match lv with
  | .loc i => if i < env.length then some (env.set i v, g) else none
  | .blank => some (env, g)
  | .field f => (setField g self f v).map (fun g' => (env, g'))
  | _ => none

def assignAll (env : List (GV μ)) (g : GR σ π) : List LV → List (GV μ) → Option (List (GV μ) × GR σ π)
  | [], [] => some (env, g)
  | lv :: lvs, v :: vs => (match assign1 self env g lv v with | some (env, g) => assignAll env g lvs vs | none => none)
  | _, _ => none

def ofAssign (o : Option (List (GV μ) × GR σ π)) : SRes σ π μ :=
  match o with | some (env, g) => .norm env g | none => .stuck

mutual
def execS (env : List (GV μ)) : GS → GR σ π → SRes σ π μ
  | .assign lhs rhs, g =>
    (match lhs, rhs with
     | [a, b], [e] =>
       (match evalE henv mkp prog user self env e g with
        | .ok (.pair x y) g => ofAssign (assignAll self env g [a, b] [x, y])
        | .ok _ _ => .stuck
        | .panic p g => .panic p g
        | .stuck => .stuck)
     | _, _ =>
       (match evalEs henv mkp prog user self env rhs g with
        | .ok vs g => ofAssign (assignAll self env g lhs vs)
        | .panic p g => .panic p g
        | .stuck => .stuck))
  | .expr e, g =>
    (match evalE henv mkp prog user self env e g with
     | .ok _ g => .norm env g
     | .panic p g => .panic p g
     | .stuck => .stuck)
  | .inc lv, g =>
    (match lv with
     | .field f =>
       (match field g self f with
        | some (.int n) => (match setField g self f (.int (n + 1) : GV μ) with | some g => .norm env g | none => .stuck)
        | _ => .stuck)
     | .fieldIdx f k =>
       (match evalE henv mkp prog user self env k g with
        | .ok (.str key) g =>
          (match field g self f with
           | some (.vis m) => (match setField g self f (.vis (bump m key) : GV μ) with | some g => .norm env g | none => .stuck)
           | _ => .stuck)
        | .ok _ _ => .stuck
        | .panic p g => .panic p g
        | .stuck => .stuck)
     | _ => .stuck)
  | .var i ty, g => (match zeroOf ty with | some z => if i < env.length then .norm (env.set i z) g else .stuck | none => .stuck)
  | .ite init c thn els, g =>
    (match execSs env init g with
     | .norm env g =>
       (match evalE henv mkp prog user self env c g with
        | .ok (.bool true) g => execSs env thn g
        | .ok (.bool false) g => execSs env els g
        | .ok _ _ => .stuck
        | .panic p g => .panic p g
        | .stuck => .stuck)
     | r => r)
  | .range k v xs body, g =>
    (match evalE henv mkp prog user self env xs g with
     | .ok xv g =>
       (match rangeItems xv with
        | some items => loop (fun env g => execSs env body g) k v items env g
        | none => .stuck)
     | .panic p g => .panic p g
     | .stuck => .stuck)
  | .ret es, g =>
    (match es with
     | [e] =>
       (match evalE henv mkp prog user self env e g with
        | .ok (.pair a b) g => .ret [a, b] g
        | .ok v g => .ret [v] g
        | .panic p g => .panic p g
        | .stuck => .stuck)
     | _ =>
       (match evalEs henv mkp prog user self env es g with
        | .ok vs g => .ret vs g
        | .panic p g => .panic p g
        | .stuck => .stuck))
  | .tail args, g =>
    (match evalEs henv mkp prog user self env args g with
     | .ok vs g => .tail vs g
     | .panic p g => .panic p g
     | .stuck => .stuck)
  | .select v ch recvB dflt, g =>
    (match evalE henv mkp prog user self env ch g with
     | .ok cv g =>
       (match chanRecv cv with
        | some (some x) => execSs (setOpt env v x) recvB g
        | some none => execSs env dflt g
        | none => .stuck)
     | .panic p g => .panic p g
     | .stuck => .stuck)
  | .unsupported _, _ => .stuck
def execSs (env : List (GV μ)) : List GS → GR σ π → SRes σ π μ
  | [], g => .norm env g
  | s :: ss, g =>
    (match execS env s g with
     | .norm env g => execSs env ss g
     | r => r)
end

def findFn (defs : List FnDef) (name : String) : Option FnDef := defs.find? (fun d => d.name == name)

/-- call of a translated function: parameters, then zeroed locals; falling off the end returns nothing -/
def callDef (defs : List FnDef) (name : String) (recv : GV μ) (args : List (GV μ)) (g : GR σ π) : SRes σ π μ :=
  match findFn defs name with
  | none => .stuck
  | some fd =>
    if args.length ≠ fd.nparams then .stuck
    else match execSs henv mkp prog user recv (args ++ List.replicate (fd.nlocals - fd.nparams) .nil) fd.body g with
      | .norm _ g => .ret [] g
      | r => r

def L0 : User σ π μ := fun _ _ _ _ => .stuck
/-- calls among the translated functions nest two deep in the source (`Next` → `executeJumpStatement` →
`incrementNodeTrackingIfAllowed`); three levels are provided -/
def L1 (defs : List FnDef) : User σ π μ := callDef henv mkp prog L0 defs
def L2 (defs : List FnDef) : User σ π μ := callDef henv mkp prog (L1 henv mkp prog defs) defs
def L3 (defs : List FnDef) : User σ π μ := callDef henv mkp prog (L2 henv mkp prog defs) defs

end interp
end Ysgo.RunnerIR
