import Ysgo.Model.F64
/-!
# Straight-line float code, as translated from Go source by `tools/numfacts`

`FE` is the target of the translator (a deep embedding of the expression forms it understands); `FE.eval` gives the
terms their Go meaning over the `F64` model: float arithmetic, the `math` functions the model has, calls of other
translated functions. Anything the translator does not understand becomes `unsupported`, which evaluates to `none` —
so an obligation about it fails instead of being trivially true.
-/
namespace Ysgo

inductive FE where
  | var (n : String)
  | lit (z : Int)                      -- an untyped integer constant (1, 1.0, 2e0)
  | neg (a : FE)
  | bin (op : String) (a b : FE)       -- + - * /
  | call0 (f : String)
  | call1 (f : String) (a : FE)
  | call2 (f : String) (a b : FE)
  | unsupported (what : String)
  deriving Repr, Inhabited

/-- a Go value of the straight-line fragment: a float64, or an int (parameters like `places`, untyped constants) -/
inductive FV where
  | f (x : F64)
  | i (z : Int)
  deriving Inhabited

namespace FE

/-- an untyped integer constant used where a float64 is expected is that float64 (exact: the translator only emits small constants) -/
def asF : FV → F64
  | .f x => x
  | .i z => F64.ofInt z

/-- the `math` functions the F64 model has -/
def prim1 (f : String) (v : FV) : Option FV :=
  match f, v with
  | "math.Round", .f x => some (.f (F64.round x))
  | "math.Floor", .f x => some (.f (F64.floor x))
  | "math.Ceil", .f x => some (.f (F64.ceil x))
  | "math.Trunc", .f x => some (.f (F64.trunc x))
  | "math.Pow10", .i z => some (.f (F64.pow10 z))
  | _, _ => none

def arith (op : String) (a b : FV) : Option FV :=
  match a, b with
  | .i _, .i _ => none            -- integer arithmetic is outside the fragment
  | _, _ =>
    match op with
    | "+" => some (.f (F64.add (asF a) (asF b)))
    | "-" => some (.f (F64.sub (asF a) (asF b)))
    | "*" => some (.f (F64.mul (asF a) (asF b)))
    | "/" => some (.f (F64.div (asF a) (asF b)))
    | _ => none

abbrev Defs := List (String × List (String × String) × FE)

def lookupDef (defs : Defs) (f : String) : Option (List (String × String) × FE) :=
  (defs.find? (fun d => d.1 == f)).map (·.2)

/-- bind the parameters: a `float64` parameter takes a float, an `int` parameter an int; anything else does not bind -/
def bind : List (String × String) → List FV → Option (List (String × FV))
  | [], [] => some []
  | (n, "float64") :: ps, .f x :: vs => (bind ps vs).map ((n, .f x) :: ·)
  | (n, "float64") :: ps, .i z :: vs => (bind ps vs).map ((n, .f (F64.ofInt z)) :: ·)
  | (n, "int") :: ps, .i z :: vs => (bind ps vs).map ((n, .i z) :: ·)
  | _, _ => none

def lookupVar (env : List (String × FV)) (n : String) : Option FV :=
  (env.find? (fun kv => kv.1 == n)).map (·.2)

/-- the Go meaning of a translated term; `fuel` bounds the nesting of terms and calls -/
def eval (defs : Defs) : Nat → List (String × FV) → FE → Option FV
  | 0, _, _ => none
  | _ + 1, env, .var n => lookupVar env n
  | _ + 1, _, .lit z => some (.i z)
  | fuel + 1, env, .neg a =>
    (match eval defs fuel env a with
     | some (.f x) => some (.f (F64.neg x))
     | some (.i z) => some (.i (-z))
     | none => none)
  | fuel + 1, env, .bin op a b =>
    (match eval defs fuel env a, eval defs fuel env b with
     | some va, some vb => arith op va vb
     | _, _ => none)
  | fuel + 1, _, .call0 f =>
    (match lookupDef defs f with
     | some (ps, body) => (bind ps []).bind (fun env' => eval defs fuel env' body)
     | none => none)
  | fuel + 1, env, .call1 f a =>
    (match eval defs fuel env a with
     | some va =>
       (match prim1 f va with
        | some r => some r
        | none =>
          (match lookupDef defs f with
           | some (ps, body) => (bind ps [va]).bind (fun env' => eval defs fuel env' body)
           | none => none))
     | none => none)
  | fuel + 1, env, .call2 f a b =>
    (match eval defs fuel env a, eval defs fuel env b with
     | some va, some vb =>
       (match lookupDef defs f with
        | some (ps, body) => (bind ps [va, vb]).bind (fun env' => eval defs fuel env' body)
        | none => none)
     | _, _ => none)
  | _ + 1, _, .unsupported _ => none

/-- call the translated function `f` of `defs` with arguments `vs` -/
def run (defs : Defs) (f : String) (vs : List FV) : Option FV :=
  match lookupDef defs f with
  | some (ps, body) => (bind ps vs).bind (fun env => eval defs 16 env body)
  | none => none

end FE
end Ysgo
