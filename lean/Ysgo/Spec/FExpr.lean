import Ysgo.Model.F64
import Ysgo.Model.Rng
/-!
# Straight-line float code, as translated from Go source by `tools/numfacts`

`FE` is the target of the translator (a deep embedding of the expression forms it understands); `FE.eval` gives the
terms their Go meaning over the `F64` model: float arithmetic, the `math` functions the model has, calls of other
translated functions. Anything the translator does not understand becomes `unsupported`, which evaluates to `none` —
so an obligation about it fails instead of being trivially true.
-/
namespace Ysgo

inductive FE where
  | var (n : String)
  | lit (z : Int)                      -- an untyped integer constant (1, 1.0, 2e0)
  | neg (a : FE)
  | bin (op : String) (a b : FE)       -- + - * /
  | call0 (f : String)
  | call1 (f : String) (a : FE)
  | call2 (f : String) (a b : FE)
  | cmp (op : String) (a b : FE)       -- < <= > >= == !=
  | lor (a b : FE)
  | land (a b : FE)
  | lnot (a : FE)
  | ite (c a b : FE)                   -- `if c { return a }; … return b`
  | const (name : String)              -- math.MaxInt64, math.MaxInt, time.Second
  | conv (ty : String) (a : FE)        -- float64(x), int64(x), int(x), time.Duration(x)
  | fail                               -- `return …, err` with a non-nil error
  | unsupported (what : String)
  deriving Repr, Inhabited

/-- a Go value of the straight-line fragment: a float64, or an int (parameters like `places`, untyped constants) -/
inductive FV where
  | f (x : F64)
  | i (z : Int)          -- an int64 (int, int64, time.Duration on amd64), or an untyped integer constant
  | b (v : Bool)
  | err                  -- the function returned a non-nil error
  deriving Inhabited

namespace FE

/-- an untyped integer constant used where a float64 is expected is that float64 (exact: the translator only emits small constants) -/
def asF : FV → F64
  | .f x => x
  | .i z => F64.ofInt z
  | .b _ => F64.ofInt 0
  | .err => F64.ofInt 0

/-- the `math` functions the F64 model has -/
def prim1 (f : String) (v : FV) : Option FV :=
  match f, v with
  | "math.Round", .f x => some (.f (F64.round x))
  | "math.Floor", .f x => some (.f (F64.floor x))
  | "math.Ceil", .f x => some (.f (F64.ceil x))
  | "math.Trunc", .f x => some (.f (F64.trunc x))
  | "math.Pow10", .i z => some (.f (F64.pow10 z))
  | _, _ => none

def arith (op : String) (a b : FV) : Option FV :=
  match a, b with
  | .b _, _ => none
  | _, .b _ => none
  | .err, _ => none
  | _, .err => none
  | .i x, .i y =>                 -- int64 arithmetic wraps around
    (match op with
     | "+" => some (.i (Rng.wrap64 (x + y)))
     | "-" => some (.i (Rng.wrap64 (x - y)))
     | "*" => some (.i (Rng.wrap64 (x * y)))
     | "%" => if y = 0 then none else some (.i (Int.tmod x y))      -- Go's remainder truncates towards zero; % 0 panics
     | _ => none)
  | _, _ =>
    match op with
    | "+" => some (.f (F64.add (asF a) (asF b)))
    | "-" => some (.f (F64.sub (asF a) (asF b)))
    | "*" => some (.f (F64.mul (asF a) (asF b)))
    | "/" => some (.f (F64.div (asF a) (asF b)))
    | _ => none

def cmpOp (op : String) (a b : FV) : Option FV :=
  match a, b with
  | .i x, .i y =>
    (match op with
     | "<" => some (.b (x < y)) | "<=" => some (.b (x ≤ y)) | ">" => some (.b (x > y)) | ">=" => some (.b (x ≥ y))
     | "==" => some (.b (x = y)) | "!=" => some (.b (x ≠ y)) | _ => none)
  | .f x, .f y =>
    (match op with
     | "<" => some (.b (F64.lt x y)) | "<=" => some (.b (F64.le x y)) | ">" => some (.b (F64.gt x y)) | ">=" => some (.b (F64.ge x y))
     | "==" => some (.b (F64.eq x y)) | "!=" => some (.b (F64.ne x y)) | _ => none)
  | _, _ => none

def constant : String → Option FV
  | "math.MaxInt64" => some (.i 9223372036854775807)
  | "math.MaxInt" => some (.i 9223372036854775807)       -- int is 64 bits on the platforms the models describe
  | "time.Second" => some (.i 1000000000)
  | _ => none

/-- Go conversions between float64 and the 64-bit integer types (amd64 semantics of the F64 model) -/
def convert (ty : String) (v : FV) : Option FV :=
  match ty, v with
  | "float64", .f x => some (.f x)
  | "float64", .i z => some (.f (F64.ofInt z))
  | "int64", .f x => some (.i (F64.toInt64 x))
  | "int", .f x => some (.i (F64.toInt64 x))
  | "time.Duration", .f x => some (.i (F64.toInt64 x))
  | "int64", .i z => some (.i z)
  | "int", .i z => some (.i z)
  | "time.Duration", .i z => some (.i z)
  | "rune", .i z => some (.i z)
  | _, _ => none

abbrev Defs := List (String × List (String × String) × FE)

def lookupDef (defs : Defs) (f : String) : Option (List (String × String) × FE) :=
  (defs.find? (fun d => d.1 == f)).map (·.2)

/-- bind the parameters: a `float64` parameter takes a float, an `int` parameter an int; anything else does not bind -/
def bindParams : List (String × String) → List FV → Option (List (String × FV))
  | [], [] => some []
  | (n, "float64") :: ps, .f x :: vs => (bindParams ps vs).map ((n, .f x) :: ·)
  | (n, "float64") :: ps, .i z :: vs => (bindParams ps vs).map ((n, .f (F64.ofInt z)) :: ·)
  | (n, "int") :: ps, .i z :: vs => (bindParams ps vs).map ((n, .i z) :: ·)
  | (n, "int64") :: ps, .i z :: vs => (bindParams ps vs).map ((n, .i z) :: ·)
  | (n, "rune") :: ps, .i z :: vs => (bindParams ps vs).map ((n, .i z) :: ·)
  | _, _ => none

def lookupVar (env : List (String × FV)) (n : String) : Option FV :=
  (env.find? (fun kv => kv.1 == n)).map (·.2)

/-- the Go meaning of a translated term; `user` is the meaning of calls of other translated functions -/
def eval (user : String → List FV → Option FV) (env : List (String × FV)) : FE → Option FV
  | .var n => lookupVar env n
  | .lit z => some (.i z)
  | .neg a =>
    (match eval user env a with
     | some (.f x) => some (.f (F64.neg x))
     | some (.i z) => some (.i (Rng.wrap64 (-z)))
     | _ => none)
  | .bin op a b =>
    (match eval user env a, eval user env b with
     | some va, some vb => arith op va vb
     | _, _ => none)
  | .call0 f => user f []
  | .call1 f a =>
    (match eval user env a with
     | some va => (match prim1 f va with | some r => some r | none => user f [va])
     | none => none)
  | .call2 f a b =>
    (match eval user env a, eval user env b with
     | some va, some vb => user f [va, vb]
     | _, _ => none)
  | .cmp op a b =>
    (match eval user env a, eval user env b with
     | some va, some vb => cmpOp op va vb
     | _, _ => none)
  | .lor a b =>
    (match eval user env a with
     | some (.b true) => some (.b true)
     | some (.b false) => (match eval user env b with | some (.b v) => some (.b v) | _ => none)
     | _ => none)
  | .land a b =>
    (match eval user env a with
     | some (.b false) => some (.b false)
     | some (.b true) => (match eval user env b with | some (.b v) => some (.b v) | _ => none)
     | _ => none)
  | .lnot a => (match eval user env a with | some (.b v) => some (.b !v) | _ => none)
  | .ite c a b =>
    (match eval user env c with
     | some (.b true) => eval user env a
     | some (.b false) => eval user env b
     | _ => none)
  | .const n => constant n
  | .conv ty a => (match eval user env a with | some v => convert ty v | none => none)
  | .fail => some .err
  | .unsupported _ => none

/-- one more level of calls among the translated functions -/
def step (defs : Defs) (user : String → List FV → Option FV) (f : String) (vs : List FV) : Option FV :=
  match lookupDef defs f with
  | some (ps, body) => (bindParams ps vs).bind (fun env => eval user env body)
  | none => none

/-- call the translated function `f` of `defs` with arguments `vs`; calls among the translated functions may nest four
deep (the source nests them one deep: `inc` calls `floor`) -/
def run (defs : Defs) : String → List FV → Option FV :=
  step defs (step defs (step defs (step defs (fun _ _ => none))))

end FE
end Ysgo
