import Ysgo.Model.Listener
/-!
# The structural translation: what the AST of a grammar-conforming parse tree IS

`translate : PT → Option Dialogue` is a plain recursive function over the parse tree — no stacks, no callbacks, no
identities. Every clause is one production of `YarnSpinnerParser.g4`; a tree that is not an instance of the grammar has no
translation (`none`).

* expressions by recursion, operands in the order written, the operator read from the token of *that* production
  (`expMultDivMod` knows `* / %` only, …); parentheses vanish; `f(a, b)` keeps its arguments in order;
* a line: its elements in order with adjacent TEXT tokens concatenated, the optional condition, the tags without `#`;
* `INDENT statement* DEDENT` used as a statement is transparent: its statements belong to the enclosing list;
* an option group: per option its line and the statements of its indented block; an if statement: per clause its
  condition (`true` for else) and its statements;
* set (variable without `$`, the operator of the token), declare, call, jump by name (a string literal) or by
  expression, and generic commands: texts and inline expressions through `CmdArgs.rearrange`.
-/
namespace Ysgo.Translate
open Ysgo Ysgo.Listener

/-- an element in front of a list, both optional -/
def ocons {α} (a : Option α) (as : Option (List α)) : Option (List α) :=
  match a, as with
  | some a, some as => some (a :: as)
  | _, _ => none

/-- concatenation of optional lists -/
def oapp {α} (a b : Option (List α)) : Option (List α) :=
  match a, b with
  | some a, some b => some (a ++ b)
  | _, _ => none

/-- a pair, both components optional -/
def opair {α β} (a : Option α) (b : Option β) : Option (α × β) :=
  match a, b with
  | some a, some b => some (a, b)
  | _, _ => none

/-- the text without its first character (`$x` ↦ `x`) -/
def tail1 (s : String) : String := String.ofList (s.toList.drop 1)

/-- the text without its first and last character (`"abc"` ↦ `abc`) -/
def middle (s : String) : String := String.ofList (s.toList.drop 1).dropLast

/-- the value of a NUMBER token: the nearest double; `+Inf` when the literal overflows -/
def number (s : String) : Option F64 :=
  match F64.parseFloat s with
  | .val x => some x
  | .err => some (F64.inf false)
  | .unmodelled => none

def mulOp : Tk → Option BinOp | .opMul => some .mul | .opDiv => some .div | .opMod => some .mod | _ => none
def addOp : Tk → Option BinOp | .opAdd => some .add | .opSub => some .sub | _ => none
def cmpOp : Tk → Option BinOp
  | .opLe => some .le | .opGe => some .ge | .opLt => some .lt | .opGt => some .gt | _ => none
def eqOp : Tk → Option BinOp | .opEq => some .eq | .opNe => some .ne | _ => none
def logOp : Tk → Option BinOp | .opAnd => some .and | .opOr => some .or | .opXor => some .xor | _ => none

def setOp : Tk → Option AssignOp
  | .opAssign => some .set | .opMulEq => some .mul | .opDivEq => some .div | .opModEq => some .mod
  | .opAddEq => some .add | .opSubEq => some .sub | _ => none

def bin (op : Option BinOp) (l r : Option Expr) : Option Expr :=
  match op, l, r with
  | some op, some l, some r => some (.bin op l r)
  | _, _, _ => none

mutual
/-- `expression` -/
def expr : PT → Option Expr
  | .rule .expParens [.tok .lparen _, e, .tok .rparen _] => expr e
  | .rule .expNegative [.tok .opSub _, e] => (expr e).map .neg
  | .rule .expNot [.tok .opNot _, e] => (expr e).map .not
  | .rule .expMultDivMod [l, .tok t _, r] => bin (mulOp t) (expr l) (expr r)
  | .rule .expAddSub [l, .tok t _, r] => bin (addOp t) (expr l) (expr r)
  | .rule .expComparison [l, .tok t _, r] => bin (cmpOp t) (expr l) (expr r)
  | .rule .expEquality [l, .tok t _, r] => bin (eqOp t) (expr l) (expr r)
  | .rule .expAndOrXor [l, .tok t _, r] => bin (logOp t) (expr l) (expr r)
  | .rule .expValue [v] => value v
  | _ => none
/-- `value` -/
def value : PT → Option Expr
  | .rule .valueNumber [.tok .number s] => (number s).map fun x => .lit (.num x)
  | .rule .valueTrue [.tok .keywordTrue _] => some (.lit (.bool true))
  | .rule .valueFalse [.tok .keywordFalse _] => some (.lit (.bool false))
  | .rule .valueVar [.rule .variable [.tok .varId s]] => some (.var (tail1 s))
  | .rule .valueString [.tok .string s] => some (.lit (.str (middle s)))
  | .rule .valueNull [.tok .keywordNull _] => some .null
  | .rule .valueFunc [.rule .functionCall (.tok .funcId f :: .tok .lparen _ :: as)] => (args as).map (.call f)
  | _ => none
/-- `expression? (COMMA expression)* ')'` (the grammar lets the first expression be absent even when others follow:
`f(, 1)` is a call with one argument) -/
def args : List PT → Option (List Expr)
  | [.tok .rparen _] => some []
  | .tok .comma _ :: e :: rest => ocons (expr e) (moreArgs rest)
  | e :: rest => ocons (expr e) (moreArgs rest)
  | [] => none
/-- `(COMMA expression)* ')'` -/
def moreArgs : List PT → Option (List Expr)
  | [.tok .rparen _] => some []
  | .tok .comma _ :: e :: rest => ocons (expr e) (moreArgs rest)
  | _ => none
end

/-- `function_call` on its own (the call statement) -/
def functionCall : PT → Option (String × List Expr)
  | .rule .functionCall (.tok .funcId f :: .tok .lparen _ :: as) => (args as).map fun as => (f, as)
  | _ => none

/-- a text in front of the elements that follow: adjacent texts are one element -/
def consText (s : String) : List (String ⊕ Expr) → List (String ⊕ Expr)
  | .inl t :: r => .inl (s ++ t) :: r
  | r => .inl s :: r

/-- the children of `line_formatted_text`: `( TEXT+ | '{' expression '}' )*` -/
def elems : List PT → Option (List (String ⊕ Expr))
  | [] => some []
  | .tok .text s :: rest => (elems rest).map (consText s)
  | .tok .expressionStart _ :: e :: .tok .expressionEnd _ :: rest => ocons ((expr e).map .inr) (elems rest)
  | _ => none

/-- `hashtag* NEWLINE` -/
def tags : List PT → Option (List String)
  | [.tok .newline _] => some []
  | .rule .hashtag [.tok .hashtag _, .tok .hashtagText t] :: rest => (tags rest).map (t :: ·)
  | _ => none

/-- a line from its three parts (the condition: absent, or present and translated) -/
def mkLine (els : Option (List (String ⊕ Expr))) (cond : Option (Option Expr)) (ts : Option (List String)) :
    Option LineSpec :=
  match els, cond, ts with
  | some els, some c, some ts => some { elems := els, cond := c, tags := ts }
  | _, _, _ => none

/-- `line_statement : line_formatted_text line_condition? hashtag* NEWLINE` -/
def lineStatement : PT → Option LineSpec
  | .rule .lineStatement (.rule .lineFormattedText els ::
      .rule .lineCondition [.tok .commandStart _, .tok .commandIf _, c, .tok .commandEnd _] :: rest) =>
    mkLine (elems els) ((expr c).map some) (tags rest)
  | .rule .lineStatement (.rule .lineFormattedText els :: rest) => mkLine (elems els) (some none) (tags rest)
  | _ => none

/-- the children of `command_formatted_text`: `( COMMAND_TEXT | '{' expression '}' )*` -/
def cmdElems : List PT → Option (List (CmdArgs.Elem Expr))
  | [] => some []
  | .tok .commandText s :: rest => (cmdElems rest).map (.text s.toList :: ·)
  | .tok .commandExpressionStart _ :: e :: .tok .expressionEnd _ :: rest => ocons ((expr e).map .expr) (cmdElems rest)
  | _ => none

/-- the rearranged elements as expressions (a classified word is a literal) -/
def cmdArgs : List (CmdArgs.Arg Expr) → Option (List Expr)
  | [] => some []
  | .word v :: r => (cmdArgs r).map (.lit v :: ·)
  | .expr e :: r => (cmdArgs r).map (e :: ·)
  | .hole :: _ => none

/-- the statements that are no containers of statements -/
def simpleStatement : PT → Option DStmt
  | .rule .setStatement [.tok .commandStart _, .tok .commandSet _, .rule .variable [.tok .varId v], .tok t _, e,
      .tok .commandEnd _] =>
    (match setOp t, expr e with
     | some op, some e => some (.set (tail1 v) op e)
     | _, _ => none)
  | .rule .callStatement [.tok .commandStart _, .tok .commandCall _, f, .tok .commandEnd _] =>
    (functionCall f).map fun (f, as) => .call f as
  | .rule .commandStatement [.tok .commandStart _, .rule .commandFormattedText els, .tok .commandTextEnd _] =>
    (match cmdElems els with
     | some els => (cmdArgs (CmdArgs.rearrange els)).map .cmd
     | none => none)
  | .rule .declareStatement [.tok .commandStart _, .tok .commandDeclare _, .rule .variable [.tok .varId v],
      .tok .opAssign _, x, .tok .commandEnd _] => (value x).map (.declare (tail1 v))
  | .rule .declareStatement [.tok .commandStart _, .tok .commandDeclare _, .rule .variable [.tok .varId v],
      .tok .opAssign _, x, .tok .expressionAs _, .tok .funcId _, .tok .commandEnd _] => (value x).map (.declare (tail1 v))
  | .rule .jumpToNodeName [.tok .commandStart _, .tok .commandJump _, .tok .id dest, .tok .commandEnd _] =>
    some (.jump (.lit (.str dest)))
  | .rule .jumpToExpression [.tok .commandStart _, .tok .commandJump _, .tok .expressionStart _, e,
      .tok .expressionEnd _, .tok .commandEnd _] => (expr e).map .jump
  | _ => none

mutual
/-- `statement`: the list of statements it stands for (one, or the content of an `INDENT … DEDENT` block) -/
def statement : PT → Option (List DStmt)
  | .rule .statement (.tok .indent _ :: rest) => block rest
  | .rule .statement [.rule .lineStatement cs] => (lineStatement (.rule .lineStatement cs)).map fun l => [.line l]
  | .rule .statement [.rule .ifStatement (.rule .ifClause (.tok .commandStart _ :: .tok .commandIf _ :: c ::
      .tok .commandEnd _ :: body) :: rest)] =>
    (ocons (opair (expr c) (statements body)) (clauses rest)).map fun cs => [.ifs cs]
  | .rule .statement [.rule .shortcutOptionStatement os] => (options os).map fun os => [.opts os]
  | .rule .statement [s] => (simpleStatement s).map fun s => [s]
  | _ => none
/-- `statement*` -/
def statements : List PT → Option (List DStmt)
  | [] => some []
  | s :: rest => oapp (statement s) (statements rest)
/-- `statement* DEDENT` -/
def block : List PT → Option (List DStmt)
  | [.tok .dedent _] => some []
  | s :: rest => oapp (statement s) (block rest)
  | [] => none
/-- `else_if_clause* else_clause? '<<' 'endif' '>>'` -/
def clauses : List PT → Option (List (Expr × List DStmt))
  | [.tok .commandStart _, .tok .commandEndif _, .tok .commandEnd _] => some []
  | .rule .elseIfClause (.tok .commandStart _ :: .tok .commandElseif _ :: c :: .tok .commandEnd _ :: body) :: rest =>
    ocons (opair (expr c) (statements body)) (clauses rest)
  | [.rule .elseClause (.tok .commandStart _ :: .tok .commandElse _ :: .tok .commandEnd _ :: body),
      .tok .commandStart _, .tok .commandEndif _, .tok .commandEnd _] =>
    (statements body).map fun b => [(.lit (.bool true), b)]
  | _ => none
/-- `shortcut_option+ BLANK_LINE_FOLLOWING_OPTION?` -/
def options : List PT → Option (List (LineSpec × List DStmt))
  | [.rule .shortcutOption (.tok .shortcutArrow _ :: l :: body)] =>
    ocons (opair (lineStatement l) (optionBody body)) (some [])
  | [.rule .shortcutOption (.tok .shortcutArrow _ :: l :: body), .tok .blankLineFollowingOption _] =>
    ocons (opair (lineStatement l) (optionBody body)) (some [])
  | .rule .shortcutOption (.tok .shortcutArrow _ :: l :: body) :: rest =>
    ocons (opair (lineStatement l) (optionBody body)) (options rest)
  | _ => none
/-- `(INDENT statement* DEDENT)?` -/
def optionBody : List PT → Option (List DStmt)
  | [] => some []
  | .tok .indent _ :: rest => block rest
  | _ => none
end

/-- `header+ '---' body '==='`: the headers as written -/
def headers : List PT → Option (List (String × String) × List DStmt)
  | [.tok .bodyStart _, .rule .body ss, .tok .bodyEnd _] => (statements ss).map fun b => ([], b)
  | .rule .header [.tok .id k, .tok .headerDelimiter _] :: rest => (headers rest).map fun (hs, b) => ((k, "") :: hs, b)
  | .rule .header [.tok .id k, .tok .headerDelimiter _, .tok .restOfLine v] :: rest =>
    (headers rest).map fun (hs, b) => ((k, v) :: hs, b)
  | _ => none

/-- the value of a header: the last one written under that key, the empty string if there is none -/
def headerValue (hs : List (String × String)) (k : String) : String :=
  match hs.reverse.find? (fun p => p.1 == k) with
  | some p => p.2
  | none => ""

/-- `node` -/
def node : PT → Option DNode
  | .rule .node (.rule .header h :: rest) =>
    (headers (.rule .header h :: rest)).map fun (hs, b) =>
      { title := headerValue hs "title", tracking := headerValue hs "tracking", body := b }
  | _ => none

/-- `node+` -/
def nodes : List PT → Option (List DNode)
  | [n] => (node n).map fun n => [n]
  | n :: rest => ocons (node n) (nodes rest)
  | [] => none

/-- `file_hashtag* node+` -/
def fileTagsThenNodes : List PT → Option (List DNode)
  | .rule .fileHashtag [.tok .hashtag _, .tok .hashtagText _] :: rest => fileTagsThenNodes rest
  | ns => nodes ns

/-- `dialogue` -/
def translate : PT → Option Dialogue
  | .rule .dialogue cs => fileTagsThenNodes cs
  | _ => none

end Ysgo.Translate
