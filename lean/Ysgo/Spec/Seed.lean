import Ysgo.Model.Seed
/-! ### specification: the base-36 numeral over `[0-9a-z]` as an unbounded natural number -/
namespace Ysgo.Seed

/-- the characters a seed may consist of -/
def IsSeedChar (c : Char) : Prop := ('0' ≤ c ∧ c ≤ '9') ∨ ('a' ≤ c ∧ c ≤ 'z')

/-- value of the numeral `s` (most significant digit first) continued from `acc`; `none` if a character is not a digit -/
def base36From : List Char → Nat → Option Nat
  | [], acc => some acc
  | c :: cs, acc =>
    match digit c with
    | some v => base36From cs (36 * acc + v)
    | none => none

def base36 (s : List Char) : Option Nat := base36From s 0

end Ysgo.Seed
