import Ysgo.Model.Bridge
/-!
# What C16 expects of the bridge, stated without reference to the gates and loops of the model

* which signatures are bridgeable (`FnBridgeable`, `CmdBridgeable`: the accept/refuse table);
* when an argument list matches a signature (`argsMatch`) and what the host then receives (`expectedInputs`:
  `zipWith conv params args`, variadic tail included);
* how results come back (`valueOfPayload`, the per-shape statements are in `Props/C16.lean`).
-/
namespace Ysgo.Bridge
open Ysgo

/-! ### the accept / refuse table -/

/-- parameter and value-result types the bridge supports: the signed integer kinds, the float kinds, bool and string,
predeclared or named (a named string type may also implement `error`) -/
def Supported : GoType → Prop
  | .basic k _ => k ≠ .uint
  | .errStr => True
  | _ => False

/-- types that implement `error` -/
def ImplementsError : GoType → Prop
  | .error _ | .errStr | .errPtr => True
  | _ => False

/-- channel types convertible to `<-chan error` -/
def ErrChanLike : GoType → Prop
  | .chanErr dir _ elemOk => elemOk = true ∧ dir ≠ .send
  | _ => False

def FnResultsOK : List GoType → Prop
  | [] => True
  | [t] => Supported t ∨ ImplementsError t
  | [t, e] => Supported t ∧ ImplementsError e
  | _ => False

def CmdResultsOK : List GoType → Prop
  | [] => True
  | [t] => ImplementsError t ∨ ErrChanLike t
  | _ => False

def InputsOK (s : Sig) : Prop :=
  (∀ t ∈ s.params, Supported t) ∧ (∀ t, s.variadic = some t → Supported t)

def FnBridgeable (s : Sig) : Prop := InputsOK s ∧ FnResultsOK s.results
def CmdBridgeable (s : Sig) : Prop := InputsOK s ∧ CmdResultsOK s.results

/-- the return shape the wrapper uses for an accepted function -/
def fnRetOf : List GoType → RetSig
  | [] => .noReturn
  | [t] => if (valueKind? t).isSome then .valueReturn else .errorReturn
  | _ => .valueErrorReturn

def cmdRetOf : List GoType → RetSig
  | [] => .noReturn
  | [t] => if convertibleToError t then .errorReturn else .errorChanReturn
  | _ => .noReturn

/-! ### faithful arguments -/

/-- is a kind numeric (as far as the converters go) -/
def numericKind : Kind → Bool
  | .int | .int8 | .int16 | .int32 | .int64 | .float32 | .float64 => true
  | _ => false

/-- a yarn value is of the type a parameter of type `t` takes: a number for the numeric kinds, a boolean for bool, a
string for string -/
def argFits (t : GoType) (v : Value) : Bool :=
  match valueKind? t, v with
  | some .bool, .bool _ => true
  | some .string, .str _ => true
  | some k, .num _ => numericKind k
  | _, _ => false

def fitsFixed : List GoType → List Value → Bool
  | [], [] => true
  | t :: ts, v :: vs => argFits t v && fitsFixed ts vs
  | _, _ => false

/-- count and types of the arguments match the signature -/
def argsMatch (s : Sig) (args : List Value) : Bool :=
  match s.variadic with
  | none => fitsFixed s.params args
  | some t =>
    decide (s.params.length ≤ args.length) && fitsFixed s.params (args.take s.params.length) &&
      (args.drop s.params.length).all (argFits t)

/-- the Go conversion of a yarn number to a numeric kind, identity on booleans and strings -/
def convPayload (k : Kind) : Value → Payload
  | .num x =>
    (match k with
     | .int | .int64 => .int x.toInt64
     | .int32 => .int (toInt32 x)
     | .int16 => .int (F64.wrapInt 16 (toInt32 x))
     | .int8 => .int (F64.wrapInt 8 (toInt32 x))
     | .float32 => .float x.toF32
     | _ => .float x)
  | .bool b => .bool b
  | .str s => .str s

/-- `conv`: the converted argument has the DECLARED type and the converted payload -/
def conv (t : GoType) (v : Value) : GoVal := ⟨t, convPayload ((valueKind? t).getD .float64) v⟩

/-- what the host receives: `zipWith conv params args`, then the variadic tail converted to its element type -/
def expectedInputs (s : Sig) (args : List Value) : List GoVal :=
  List.zipWith conv s.params args ++
    (match s.variadic with
     | none => []
     | some t => (args.drop s.params.length).map (conv t))

/-- a host that returns values of its declared result types (what Go's type system guarantees) -/
def HostRespects (s : Sig) (host : Host) : Prop := ∀ ins, fitsAll s.results (host ins) = true

/-- a returned payload as a yarn value -/
def valueOfPayload : Payload → Option Value
  | .int i => some (.num (F64.ofInt i))
  | .float x => some (.num x)
  | .bool b => some (.bool b)
  | .str s => some (.str s)
  | _ => none

end Ysgo.Bridge
