import Ysgo.Model.Core
/-!
# A small Go statement/expression subset, as translated from evaluator.go by `tools/evalir`

`GE`/`GS` are the target of the translator: a deep embedding of the statement and expression forms it understands
(`if`/`else`, tagless and tagged `switch`, `for i := range xs`, `:=`/`=`, `return`, field selections, dereferences,
calls, `fmt.Errorf`). The translator is purely syntactic; local variables are numbered in order of declaration
(parameters first). `exec`/`evalPure` give the terms their Go meaning over the semantic domain of the hand-written
model (`Ysgo.Value`, `Ysgo.Expr`, `Outcome`, `W σ`), so that `Props/C02IR.lean` can prove
`run evalIR … "evaluateExpression" = eval` for all inputs. Anything the translator does not understand is an
`unsupported` node, and anything the interpreter does not understand is `stuck` — never a value — so an obligation
about it fails instead of being trivially true.

## Trusted base of this file (what is *assumed* about Go and about the representation, not proved)
* `GV` — how Go values of the types that occur in evaluator.go are represented over the model's domain:
  a `*tree.Expression` is an `Expr` (exactly one of its fields is set: the model's sum type; `Expr.null` is the
  expression with no field set; `Expr.lit v` is the one whose `Value` is set), a non-nil `*variable.Value` is a `Value`
  (exactly one of Number/Boolean/String is set), `fieldOf` reads the fields accordingly.
* `siteKind` — the model's error kind of each `fmt.Errorf` site (Go distinguishes these errors by message text only).
* `constant`, `prim`, `binPrim`, `unPrim` — the meaning of the Go operators, constructors and `tree.*BinaryOperator` constants.
* `Host` — `retriever.GetValue` is the store lookup, `caller.call` is the model's `callFn`.
* the statement semantics `exec` (Go's `if`, `switch` without fallthrough, `for range` over a slice, `return`).
-/
namespace Ysgo.GoIR
open Ysgo

/-- Go expressions -/
inductive GE where
  | var (i : Nat)                          -- the i-th declared local (parameters first)
  | nil
  | lit (n : Nat)                          -- integer literal
  | strlit (s : String)
  | const (name : String)                  -- `pkg.Name`, `true`, `false`
  | typ (t : String)                       -- a type expression (first argument of `make`)
  | field (e : GE) (f : String)            -- e.f
  | deref (e : GE)                         -- *e
  | index (e i : GE)                       -- e[i]
  | un (op : String) (e : GE)              -- ! -
  | bin (op : String) (a b : GE)
  | call (f : String) (args : List GE)     -- f(args) / pkg.f(args)
  | mcall (recv : GE) (m : String) (args : List GE)   -- recv.m(args), recv a value
  | errorf (site : String) (wraps : Bool) (args : List GE)  -- fmt.Errorf; site = "<function>#<ordinal>", wraps = the format has %w
  | unsupported (what : String)
  deriving Inhabited

/-- Go statements -/
inductive GS where
  | assign (lhs : List Nat) (rhs : GE)     -- `a, b := rhs` and `a, b = rhs` (the translator resolves scopes)
  | ret (es : List GE)
  | ite (c : GE) (thn els : List GS)
  | switch (tag : Option GE) (cases : List GS)   -- every element a `case`
  | case (conds : List GE) (body : List GS)
  | forRange (i : Nat) (xs : GE) (body : List GS)  -- for i := range xs
  | unsupported (what : String)
  deriving Inhabited

/-- the translated functions: name, number of parameters, body -/
abbrev Defs := List (String × Nat × List GS)

/-- Go values over the model's domain -/
inductive GV where
  | nil                                     -- nil pointer, nil error
  | expr (e : Expr)                         -- non-nil *tree.Expression
  | val (v : Value)                         -- non-nil *variable.Value
  | fcall (f : String) (args : List Expr)   -- non-nil *tree.FunctionCall
  | ptr (v : GV)                            -- non-nil pointer to a scalar (*float64, *bool, *string, *int)
  | num (x : F64) | bool (b : Bool) | str (s : String)
  | op (o : BinOp)                          -- an operator constant
  | int (n : Nat)                           -- a (small, non-negative) int: loop index, len
  | exprs (es : List Expr)                  -- []*tree.Expression
  | vals (vs : List Value)                  -- []*variable.Value (no nil elements)
  | err (k : ErrKind)                       -- non-nil error
  | retriever | caller                      -- the two interface parameters
  deriving Inhabited

abbrev Env := List (Nat × GV)

/-- result of a pure expression -/
inductive PR where
  | stuck | panic (p : PanicSite) | val (v : GV)
  deriving Inhabited

inductive PRL where
  | stuck | panic (p : PanicSite) | vals (vs : List GV)
  deriving Inhabited

/-- result of a statement / of a call -/
inductive Flow (σ : Type) where
  | next (env : Env) (w : W σ)              -- fell through to the next statement
  | ret (vs : List GV) (w : W σ)            -- returned
  | panic (p : PanicSite) (w : W σ)
  | stuck

/-- the two interface parameters of the evaluator -/
structure Host (σ : Type) where
  getValue : String → Option Value
  call : String → List Value → W σ → Outcome (Option Value) × W σ

/-! ### trusted tables -/

/-- TRUSTED: the model's error kind of each error site (`<function>#<n>` = the n-th `fmt.Errorf` of the function in
source order, wrapping sites included in the count). The code distinguishes all these errors by message text only; the
kinds are the model's classification. Sites that wrap an error (`%w`) have the kind of the wrapped error and are not
listed; every other site of evaluator.go not listed is a type error. -/
def siteKind : String → ErrKind
  | "evaluateExpression#0" => .unknownVar        -- variable not found in storage
  | "evaluateExpression#5" => .null              -- empty expression
  | "evaluateBinaryOperation#17" => .other       -- unknown operator (after the switch)
  | "evaluateFunctionCall#2" => .noValue         -- the function did not return any value
  | _ => .illTyped

/-- TRUSTED: package-level constants -/
def constant : String → Option GV
  | "true" => some (.bool true)
  | "false" => some (.bool false)
  | "tree.MultiplicationBinaryOperator" => some (.op .mul)
  | "tree.DivisionBinaryOperator" => some (.op .div)
  | "tree.ModuloBinaryOperator" => some (.op .mod)
  | "tree.AdditionBinaryOperator" => some (.op .add)
  | "tree.SubtractionBinaryOperator" => some (.op .sub)
  | "tree.LessThanEqualsBinaryOperator" => some (.op .le)
  | "tree.GreaterThanEqualsBinaryOperator" => some (.op .ge)
  | "tree.LessBinaryOperator" => some (.op .lt)
  | "tree.GreaterBinaryOperator" => some (.op .gt)
  | "tree.EqualsBinaryOperator" => some (.op .eq)
  | "tree.NotEqualsBinaryOperator" => some (.op .ne)
  | "tree.AndBinaryOperator" => some (.op .and)
  | "tree.OrBinaryOperator" => some (.op .or)
  | "tree.XorBinaryOperator" => some (.op .xor)
  | _ => none

/-- TRUSTED: the fields of the structs, over the model's sum types -/
def fieldOf (v : GV) (f : String) : PR :=
  match v with
  | .nil => .panic .nilDeref
  | .expr e =>
    (match f with
     | "VariableID" => (match e with | .var n => .val (.ptr (.str n)) | _ => .val .nil)
     | "FunctionCall" => (match e with | .call g args => .val (.fcall g args) | _ => .val .nil)
     | "Value" => (match e with | .lit x => .val (.val x) | _ => .val .nil)
     | "NegativeExpression" => (match e with | .neg a => .val (.expr a) | _ => .val .nil)
     | "NotExpression" => (match e with | .not a => .val (.expr a) | _ => .val .nil)
     | "Operator" => (match e with | .bin o _ _ => .val (.ptr (.op o)) | _ => .val .nil)
     | "LeftOperand" => (match e with | .bin _ l _ => .val (.expr l) | _ => .val .nil)
     | "RightOperand" => (match e with | .bin _ _ r => .val (.expr r) | _ => .val .nil)
     | _ => .stuck)
  | .val x =>
    (match f with
     | "Number" => (match x with | .num y => .val (.ptr (.num y)) | _ => .val .nil)
     | "Boolean" => (match x with | .bool y => .val (.ptr (.bool y)) | _ => .val .nil)
     | "String" => (match x with | .str y => .val (.ptr (.str y)) | _ => .val .nil)
     | _ => .stuck)
  | .fcall g args =>
    (match f with
     | "FunctionID" => .val (.str g)
     | "Arguments" => .val (.exprs args)
     | _ => .stuck)
  | _ => .stuck

def derefOf : GV → PR
  | .nil => .panic .nilDeref
  | .ptr v => .val v
  | _ => .stuck

def indexOf : GV → GV → PR
  | .exprs es, .int i => (match es[i]? with | some e => .val (.expr e) | none => .panic .index)
  | .vals vs, .int i => (match vs[i]? with | some v => .val (.val v) | none => .panic .index)
  | _, _ => .stuck

/-- position of an operator constant in its `const` block; `opCode a == opCode b` is `a == b` (`C02IR.opCode_eq`) in a
form that `simp` evaluates on constructors -/
def opCode : BinOp → Nat
  | .mul => 0 | .div => 1 | .mod => 2 | .add => 3 | .sub => 4 | .le => 5 | .ge => 6 | .lt => 7 | .gt => 8
  | .eq => 9 | .ne => 10 | .and => 11 | .or => 12 | .xor => 13

/-- is a pointer-like value nil -/
def isNil : GV → Option Bool
  | .nil => some true
  | .expr _ => some false | .val _ => some false | .fcall _ _ => some false | .ptr _ => some false | .err _ => some false
  | _ => none

/-- Go's `==` on the comparable values that occur -/
def eqPrim (a b : GV) : Option Bool :=
  match a, b with
  | .nil, y => isNil y
  | x, .nil => isNil x
  | .num x, .num y => some (x.eq y)
  | .bool x, .bool y => some (x == y)
  | .str x, .str y => some (x == y)
  | .op x, .op y => some (opCode x == opCode y)
  | .int x, .int y => some (x == y)
  | _, _ => none

def nePrim (a b : GV) : Option Bool :=
  match a, b with
  | .num x, .num y => some (x.ne y)
  | .bool x, .bool y => some (x != y)
  | .str x, .str y => some (x != y)
  | _, _ => (eqPrim a b).map (!·)

/-- TRUSTED: the binary operators other than `&&`/`||` -/
def binPrim (op : String) (a b : GV) : Option GV :=
  match op with
  | "==" => (eqPrim a b).map .bool
  | "!=" => (nePrim a b).map .bool
  | "*" => (match a, b with | .num x, .num y => some (.num (x.mul y)) | _, _ => none)
  | "/" => (match a, b with | .num x, .num y => some (.num (x.div y)) | _, _ => none)
  | "+" => (match a, b with | .num x, .num y => some (.num (x.add y)) | .str x, .str y => some (.str (x ++ y)) | _, _ => none)
  | "-" => (match a, b with | .num x, .num y => some (.num (x.sub y)) | _, _ => none)
  | "<=" => (match a, b with | .num x, .num y => some (.bool (x.le y)) | _, _ => none)
  | ">=" => (match a, b with | .num x, .num y => some (.bool (x.ge y)) | _, _ => none)
  | "<" => (match a, b with | .num x, .num y => some (.bool (x.lt y)) | _, _ => none)
  | ">" => (match a, b with | .num x, .num y => some (.bool (x.gt y)) | _, _ => none)
  | _ => none

def unPrim (op : String) (a : GV) : Option GV :=
  match op, a with
  | "!", .bool b => some (.bool (!b))
  | "-", .num x => some (.num x.neg)
  | _, _ => none

/-- TRUSTED: constructors, `math.Mod`, `len`, `append` -/
def prim (f : String) (args : List GV) : Option GV :=
  match f, args with
  | "variable.NewNumber", [.num x] => some (.val (.num x))
  | "variable.NewBoolean", [.bool b] => some (.val (.bool b))
  | "variable.NewString", [.str s] => some (.val (.str s))
  | "math.Mod", [.num x, .num y] => some (.num (x.fmod y))
  | "len", [.exprs es] => some (.int es.length)
  | "len", [.vals vs] => some (.int vs.length)
  | "append", [.vals vs, .val v] => some (.vals (vs ++ [v]))
  | _, _ => none

def errKinds : List GV → List ErrKind
  | [] => []
  | .err k :: t => k :: errKinds t
  | _ :: t => errKinds t

/-- `fmt.Errorf`: a wrapping site has the kind of the (one) error it wraps, another site the kind of the table -/
def errorfVal (site : String) (wraps : Bool) (args : List GV) : PR :=
  if wraps then (match errKinds args with | [k] => .val (.err k) | _ => .stuck)
  else .val (.err (siteKind site))

def lookupVar (env : Env) (i : Nat) : Option GV :=
  match env with
  | [] => none
  | (j, v) :: t => if j = i then some v else lookupVar t i

/-! ### pure expressions -/

mutual
/-- the value of an expression without side effects; `user` is the meaning of calls of translated (pure) functions -/
def evalPure (user : String → List GV → PR) (env : Env) : GE → PR
  | .var i => (match lookupVar env i with | some v => .val v | none => .stuck)
  | .nil => .val .nil
  | .lit n => .val (.int n)
  | .strlit s => .val (.str s)
  | .const c => (match constant c with | some v => .val v | none => .stuck)
  | .typ _ => .stuck
  | .field e f => (match evalPure user env e with | .val v => fieldOf v f | r => r)
  | .deref e => (match evalPure user env e with | .val v => derefOf v | r => r)
  | .index e i =>
    (match evalPure user env e with
     | .val v => (match evalPure user env i with | .val j => indexOf v j | r => r)
     | r => r)
  | .un op e => (match evalPure user env e with
     | .val v => (match unPrim op v with | some r => .val r | none => .stuck)
     | r => r)
  | .bin op a b =>
    (match evalPure user env a with
     | .val va =>
       if op = "&&" then
         (match va with
          | .bool false => .val (.bool false)
          | .bool true => (match evalPure user env b with | .val (.bool y) => .val (.bool y) | .val _ => .stuck | r => r)
          | _ => .stuck)
       else if op = "||" then
         (match va with
          | .bool true => .val (.bool true)
          | .bool false => (match evalPure user env b with | .val (.bool y) => .val (.bool y) | .val _ => .stuck | r => r)
          | _ => .stuck)
       else
         (match evalPure user env b with
          | .val vb => (match binPrim op va vb with | some r => .val r | none => .stuck)
          | r => r)
     | r => r)
  | .call f args =>
    if f = "make" then
      (match args with
       | [.typ t, n, c] =>
         (match evalPure user env n with
          | .val (.int 0) =>
            (match evalPure user env c with
             | .val (.int _) => if t = "[]*variable.Value" then .val (.vals []) else .stuck
             | .val _ => .stuck
             | r => r)
          | .val _ => .stuck
          | r => r)
       | _ => .stuck)
    else
      (match evalList user env args with
       | .vals vs => (match prim f vs with | some r => .val r | none => user f vs)
       | .panic p => .panic p
       | .stuck => .stuck)
  | .mcall _ _ _ => .stuck
  | .errorf site wraps args =>
    (match evalList user env args with
     | .vals vs => errorfVal site wraps vs
     | .panic p => .panic p
     | .stuck => .stuck)
  | .unsupported _ => .stuck
def evalList (user : String → List GV → PR) (env : Env) : List GE → PRL
  | [] => .vals []
  | e :: es =>
    (match evalPure user env e with
     | .val v => (match evalList user env es with | .vals vs => .vals (v :: vs) | r => r)
     | .panic p => .panic p
     | .stuck => .stuck)
end

def lookupDef (defs : Defs) (f : String) : Option (Nat × List GS) :=
  match defs with
  | [] => none
  | (g, d) :: t => if g = f then some d else lookupDef t f

def bindFrom (i : Nat) : List GV → Env
  | [] => []
  | a :: as => (i, a) :: bindFrom (i + 1) as

/-- a translated function called inside an expression: its body must be a single `return e` -/
def pureStep (defs : Defs) (user : String → List GV → PR) (f : String) (args : List GV) : PR :=
  match lookupDef defs f with
  | some (n, [.ret [e]]) => if args.length = n then evalPure user (bindFrom 0 args) e else .stuck
  | _ => .stuck

/-- calls inside expressions may nest two deep among the translated functions (the source: one, `xor`) -/
def pureRun (defs : Defs) : String → List GV → PR :=
  pureStep defs (pureStep defs (fun _ _ => .stuck))

/-! ### statements -/

def bindVars : List Nat → List GV → Env → Option Env
  | [], [], env => some env
  | i :: is, v :: vs, env => bindVars is vs ((i, v) :: env)
  | _, _, _ => none

/-- TRUSTED: the meaning of the methods of the two interface parameters -/
def hostCall {σ} (h : Host σ) (recv : GV) (m : String) (args : List GV) (w : W σ) : Flow σ :=
  match recv, m, args with
  | .retriever, "GetValue", [.str n] =>
    (match h.getValue n with
     | some v => .ret [.val v, .bool true] w
     | none => .ret [.nil, .bool false] w)
  | .caller, "call", [.str f, .vals vs] =>
    (match h.call f vs w with
     | (.ok (some v), w') => .ret [.val v, .nil] w'
     | (.ok none, w') => .ret [.nil, .nil] w'
     | (.err k, w') => .ret [.nil, .err k] w'
     | (.panic p, w') => .panic p w')
  | _, _, _ => .stuck

/-- an expression in statement position (`x, y := e`, `return e`) that is a call with effects: a method of an
interface parameter, or a translated function. `none`: not such a call. -/
def effCall {σ} (defs : Defs) (h : Host σ) (callee : String → List GV → W σ → Flow σ) (user : String → List GV → PR)
    (env : Env) (e : GE) (w : W σ) : Option (Flow σ) :=
  match e with
  | .mcall recv m args =>
    some (match evalPure user env recv with
      | .val r =>
        (match evalList user env args with
         | .vals vs => hostCall h r m vs w
         | .panic p => .panic p w
         | .stuck => .stuck)
      | .panic p => .panic p w
      | .stuck => .stuck)
  | .call f args =>
    (match lookupDef defs f with
     | some _ =>
       some (match evalList user env args with
         | .vals vs => callee f vs w
         | .panic p => .panic p w
         | .stuck => .stuck)
     | none => none)
  | _ => none

/-- the iterations of `for i := range xs` that remain: `k` of them, the next one with index `idx` -/
def forLoop {σ} (body : Env → W σ → Flow σ) (i : Nat) : Nat → Nat → Env → W σ → Flow σ
  | 0, _, env, w => .next env w
  | k + 1, idx, env, w =>
    (match body ((i, .int idx) :: env) w with
     | .next env' w' => forLoop body i k (idx + 1) env' w'
     | r => r)

/-- does one of the conditions of a clause match (left to right) -/
def caseMatches (user : String → List GV → PR) (env : Env) (tag : Option GV) : List GE → PR
  | [] => .val (.bool false)
  | c :: cs =>
    (match evalPure user env c with
     | .val v =>
       (match (match tag with | none => (match v with | .bool b => some b | _ => none) | some t => eqPrim t v) with
        | some true => .val (.bool true)
        | some false => caseMatches user env tag cs
        | none => .stuck)
     | r => r)

mutual
def exec {σ} (defs : Defs) (h : Host σ) (callee : String → List GV → W σ → Flow σ) (user : String → List GV → PR) :
    GS → Env → W σ → Flow σ
  | .assign lhs rhs, env, w =>
    (match effCall defs h callee user env rhs w with
     | some (.ret vs w') => (match bindVars lhs vs env with | some env' => .next env' w' | none => .stuck)
     | some (.panic p w') => .panic p w'
     | some _ => .stuck
     | none =>
       (match evalPure user env rhs with
        | .val v => (match lhs with | [i] => .next ((i, v) :: env) w | _ => .stuck)
        | .panic p => .panic p w
        | .stuck => .stuck))
  | .ret es, env, w =>
    (match (match es with | [e] => effCall defs h callee user env e w | _ => none) with
     | some (.ret vs w') => .ret vs w'
     | some (.panic p w') => .panic p w'
     | some _ => .stuck
     | none =>
       (match evalList user env es with
        | .vals vs => .ret vs w
        | .panic p => .panic p w
        | .stuck => .stuck))
  | .ite c thn els, env, w =>
    (match evalPure user env c with
     | .val (.bool true) => execBlock defs h callee user thn env w
     | .val (.bool false) => execBlock defs h callee user els env w
     | .val _ => .stuck
     | .panic p => .panic p w
     | .stuck => .stuck)
  | .switch none cases, env, w => execCases defs h callee user none cases env w
  | .switch (some tag) cases, env, w =>
    (match evalPure user env tag with
     | .val t => execCases defs h callee user (some t) cases env w
     | .panic p => .panic p w
     | .stuck => .stuck)
  | .case _ _, _, _ => .stuck
  | .forRange i xs body, env, w =>
    (match evalPure user env xs with
     | .val (.exprs es) => forLoop (fun env' w' => execBlock defs h callee user body env' w') i es.length 0 env w
     | .val (.vals vs) => forLoop (fun env' w' => execBlock defs h callee user body env' w') i vs.length 0 env w
     | .val _ => .stuck
     | .panic p => .panic p w
     | .stuck => .stuck)
  | .unsupported _, _, _ => .stuck
def execBlock {σ} (defs : Defs) (h : Host σ) (callee : String → List GV → W σ → Flow σ) (user : String → List GV → PR) :
    List GS → Env → W σ → Flow σ
  | [], env, w => .next env w
  | s :: ss, env, w =>
    (match exec defs h callee user s env w with
     | .next env' w' => execBlock defs h callee user ss env' w'
     | r => r)
/-- the clauses of a `switch`, top to bottom; the first one with a matching condition runs, then the switch is left -/
def execCases {σ} (defs : Defs) (h : Host σ) (callee : String → List GV → W σ → Flow σ) (user : String → List GV → PR)
    (tag : Option GV) : List GS → Env → W σ → Flow σ
  | [], env, w => .next env w
  | .case conds body :: cs, env, w =>
    (match caseMatches user env tag conds with
     | .val (.bool true) => execBlock defs h callee user body env w
     | .val (.bool false) => execCases defs h callee user tag cs env w
     | .val _ => .stuck
     | .panic p => .panic p w
     | .stuck => .stuck)
  | _ :: _, _, _ => .stuck
end
/-! ### calls of translated functions -/

/-- one call of the translated function `f`; `callee` is the meaning of the calls it makes -/
def step {σ} (defs : Defs) (h : Host σ) (callee : String → List GV → W σ → Flow σ) (f : String) (args : List GV) (w : W σ) : Flow σ :=
  match lookupDef defs f with
  | some (n, body) =>
    if args.length = n then
      (match execBlock defs h callee (pureRun defs) body (bindFrom 0 args) w with
       | .next _ _ => .stuck         -- fell off the end of a function that returns values
       | r => r)
    else .stuck
  | none => .stuck

/-- calls nest at most `fuel` deep -/
def run {σ} (defs : Defs) (h : Host σ) : Nat → String → List GV → W σ → Flow σ
  | 0 => fun _ _ _ => .stuck
  | n + 1 => step defs h (run defs h n)

/-! ### the evaluator's entry points over the model's types -/

/-- how the model's outcome of an evaluation looks as a Go `(*variable.Value, error)` result -/
def toFlow {σ} : Outcome Value × W σ → Flow σ
  | (.ok v, w) => .ret [.val v, .nil] w
  | (.err k, w) => .ret [.nil, .err k] w
  | (.panic p, w) => .panic p w

def fromFlow {σ} : Flow σ → Option (Outcome Value × W σ)
  | .ret [.val v, .nil] w => some (.ok v, w)
  | .ret [.nil, .err k] w => some (.err k, w)
  | .panic p w => some (.panic p, w)
  | _ => none

mutual
/-- nesting depth of the calls among the three evaluator functions for an expression -/
def need : Expr → Nat
  | .lit _ => 1 | .null => 1 | .var _ => 1
  | .call _ args => 2 + needs args
  | .neg e => 1 + need e
  | .not e => 1 + need e
  | .bin _ l r => 2 + need l + need r
def needs : List Expr → Nat
  | [] => 0
  | e :: es => need e + needs es
end

/-- TRUSTED: the evaluator's environment — the retriever is the variable store, the caller is `functionStorer.call` -/
def host {σ} (env : Ysgo.Env σ) (st : Store) (vis : Map Nat) : Host σ :=
  { getValue := st.get, call := callFn env vis }

/-- `evaluateExpression(e, retriever, caller)` as the translated code computes it; `none`: the translated code has no
meaning in the interpreter (unsupported construct, ill-formed call) -/
def runEval {σ} (defs : Defs) (env : Ysgo.Env σ) (st : Store) (vis : Map Nat) (e : Expr) (w : W σ) : Option (Outcome Value × W σ) :=
  fromFlow (run defs (host env st vis) (need e) "evaluateExpression" [.expr e, .retriever, .caller] w)

/-- `evaluateFunctionCall(&tree.FunctionCall{f, args}, retriever, caller)` -/
def runFunctionCall {σ} (defs : Defs) (env : Ysgo.Env σ) (st : Store) (vis : Map Nat) (f : String) (args : List Expr) (w : W σ) :
    Option (Outcome Value × W σ) :=
  fromFlow (run defs (host env st vis) (1 + needs args) "evaluateFunctionCall" [.fcall f args, .retriever, .caller] w)

/-- `evaluateBinaryOperation(op, l, r, retriever, caller)` -/
def runBinaryOperation {σ} (defs : Defs) (env : Ysgo.Env σ) (st : Store) (vis : Map Nat) (op : BinOp) (l r : Expr) (w : W σ) :
    Option (Outcome Value × W σ) :=
  fromFlow (run defs (host env st vis) (1 + need l + need r) "evaluateBinaryOperation"
    [.op op, .expr l, .expr r, .retriever, .caller] w)

end Ysgo.GoIR
