import Ysgo.Model.Queue
import Ysgo.Model.Stack
/-!
# The list specifications of the two containers (C20)

* `Fifo`: a queue is the list of its elements, oldest first: enqueue appends, dequeue/peek take the head, size is the
  length; dequeue and peek of the empty list are the panic outcome.
* `Lifo`: a stack is the list of its elements, newest first: push conses, `pushAll xs` conses the elements one after
  the other (so the last of `xs` ends up on top), pop/peek take the head, clear empties.

The observation types are those of the models, so that "behaves like the list" is plain equality of traces.
-/
namespace Ysgo.Fifo
open Ysgo.Queue (Op Obs)

variable {α : Type}

def step (l : List α) : Op α → Obs α × List α
  | .enq x => (.done, l ++ [x])
  | .deq => (match l with
      | [] => (.panic, [])
      | a :: t => (.val a, t))
  | .peek => (match l with
      | [] => (.panic, [])
      | a :: _ => (.val a, l))
  | .size => (.size l.length, l)

/-- per operation: its result and the number of elements afterwards -/
def run : List α → List (Op α) → List (Obs α × Nat)
  | _, [] => []
  | l, op :: ops => let r := step l op; (r.1, r.2.length) :: run r.2 ops

/-- the list after the operations -/
def final : List α → List (Op α) → List α
  | l, [] => l
  | l, op :: ops => final (step l op).2 ops

end Ysgo.Fifo

namespace Ysgo.Lifo
open Ysgo.Stack (Op Obs)

variable {α : Type}

def step (l : List α) : Op α → Obs α × List α
  | .push x => (.done, x :: l)
  | .pushAll xs => (.done, xs.reverse ++ l)
  | .pop => (match l with
      | [] => (.panic, [])
      | a :: t => (.val a, t))
  | .peek => (match l with
      | [] => (.panic, [])
      | a :: _ => (.val a, l))
  | .size => (.size l.length, l)
  | .clear => (.done, [])

def run : List α → List (Op α) → List (Obs α × Nat)
  | _, [] => []
  | l, op :: ops => let r := step l op; (r.1, r.2.length) :: run r.2 ops

def final : List α → List (Op α) → List α
  | l, [] => l
  | l, op :: ops => final (step l op).2 ops

end Ysgo.Lifo
