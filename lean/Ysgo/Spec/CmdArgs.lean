import Ysgo.Model.CmdArgs
/-!
# What C17 says about a command as it is WRITTEN: words, white space, inline expressions

A command text is `t₀ {e₁} t₁ … {eₙ} tₙ`: text segments separated by inline expressions. A text segment is a (possibly
empty) run of white space followed by words, each followed by white space — non-empty between two words, possibly empty
at the end of the segment (a word may touch an expression). The lexer delivers a text segment as one or more non-empty
chunks (COMMAND_TEXT tokens).
-/
namespace Ysgo.CmdArgs
open Ysgo

/-- only white space (`unicode.IsSpace`) -/
abbrev AllSp (s : List Char) : Prop := ∀ c ∈ s, isSpaceGo c = true
/-- a word: non-empty, no white space inside -/
abbrev Word (w : List Char) : Prop := w ≠ [] ∧ ∀ c ∈ w, isSpaceGo c = false

/-- words, each followed by its separator -/
def render : List (List Char × List Char) → List Char
  | [] => []
  | (w, sp) :: r => w ++ sp ++ render r

/-- separators are white space, non-empty except possibly the last one -/
def GoodWords : List (List Char × List Char) → Prop
  | [] => True
  | [(w, sp)] => Word w ∧ AllSp sp
  | (w, sp) :: r => Word w ∧ AllSp sp ∧ sp ≠ [] ∧ GoodWords r

/-- a text segment as written and as chunked by the lexer -/
structure Seg where
  lead : List Char
  ws : List (List Char × List Char)
  chunks : List (List Char)

def Seg.text (g : Seg) : List Char := g.lead ++ render g.ws
def Seg.words (g : Seg) : List (List Char) := g.ws.map (·.1)
def Seg.Good (g : Seg) : Prop :=
  AllSp g.lead ∧ GoodWords g.ws ∧ (∀ c ∈ g.chunks, c ≠ []) ∧ g.chunks.flatten = g.text

/-- the elements the listener collects for `t₀ {e₁} t₁ … {eₙ} tₙ` -/
def written {α} (segs : List (Seg × α)) (last : Seg) : List (Elem α) :=
  segs.flatMap (fun p => p.1.chunks.map .text ++ [.expr p.2]) ++ last.chunks.map .text

/-- what the handler must get: the classified words of every segment, the expressions in between, in order -/
def expectedArgs {α} (segs : List (List (List Char) × α)) (last : List (List Char)) : List (Arg α) :=
  segs.flatMap (fun p => p.1.map (fun w => .word (classify w)) ++ [.expr p.2]) ++ last.map (fun w => .word (classify w))

/-- the shape `-?[0-9]+(\.[0-9]+)?` -/
def NumberShape (w : List Char) : Prop :=
  ∃ (neg : Bool) (ip fp : List Char) (frac : Bool),
    w = (if neg then ['-'] else []) ++ ip ++ (if frac then '.' :: fp else []) ∧
    ip ≠ [] ∧ (∀ c ∈ ip, isDigit c = true) ∧ (frac = true → fp ≠ [] ∧ ∀ c ∈ fp, isDigit c = true)

/-- the keywords whose lexer rule demands a following white space character and that have no other keyword as a prefix -/
def strictKeywords : List (Keyword × List Char) :=
  [(.if_, "if".toList), (.set, "set".toList), (.call, "call".toList), (.declare, "declare".toList),
   (.jump, "jump".toList), (.enum, "enum".toList), (.case_, "case".toList), (.local_, "local".toList)]

/-- all keyword spellings -/
def allKeywords : List (List Char) := keywordRules.map (·.2.1)

end Ysgo.CmdArgs
