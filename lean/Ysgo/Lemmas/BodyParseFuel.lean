import Ysgo.Model.BodyParse
/-!
# Fuel of the body parser: monotonicity and adequacy

* `qmono_S/O/E`: a successful parse stays the same with more fuel.
* `qlen_*`: the remaining tokens are a no longer list than the input.
* `qadeq_*`: with fuel `2·|ts| + 2` (`+ 1` for options and elseif clauses) the result — success *or failure* — does
  not change when fuel is added. So `none` returned by `parse` is a syntax error, never fuel exhaustion.
-/
namespace Ysgo.BodyParse

theorem consR_mono {s x y r} (hxy : ∀ p, x = some p → y = some p) (h : consR s x = some r) : consR s y = some r := by
  cases x with
  | none => simp [consR] at h
  | some p => rw [hxy p rfl]; exact h
theorem appR_mono {a x y r} (hxy : ∀ p, x = some p → y = some p) (h : appR a x = some r) : appR a y = some r := by
  cases x with
  | none => simp [appR] at h
  | some p => rw [hxy p rfl]; exact h

/-! fuel monotonicity -/
theorem qmono_step : ∀ f : Nat,
    (∀ ts r, qStmts f ts = some r → qStmts (f + 1) ts = some r) ∧
    (∀ ts r, qOpts f ts = some r → qOpts (f + 1) ts = some r) ∧
    (∀ ts r, qElifs f ts = some r → qElifs (f + 1) ts = some r) := by
  intro f
  induction f with
  | zero => refine ⟨?_, ?_, ?_⟩ <;> intros <;> simp_all [qStmts, qOpts, qElifs]
  | succ f ih =>
    obtain ⟨ihS, ihO, ihE⟩ := ih
    have ihS' : ∀ ts p, qStmts f ts = some p → qStmts (f + 1) ts = some p := ihS
    refine ⟨?_, ?_, ?_⟩
    · intro ts r h
      cases ts with
      | nil => simpa [qStmts] using h
      | cons t r0 =>
        cases t with
        | dedent => simpa [qStmts] using h
        | indent =>
          simp only [qStmts] at h ⊢
          cases h1 : qStmts f r0 with
          | none => simp [h1] at h
          | some p =>
            obtain ⟨inner, r1⟩ := p
            rw [ihS _ _ h1]; rw [h1] at h
            cases r1 with
            | nil => simp at h
            | cons t1 r1 =>
              cases t1 with
              | dedent => exact appR_mono (ihS r1) h
              | indent => simp at h
              | t l => simp at h
        | t l =>
          cases l with
          | line n => simp only [qStmts] at h ⊢; exact consR_mono (ihS r0) h
          | single n => simp only [qStmts] at h ⊢; exact consR_mono (ihS r0) h
          | arrow n =>
            simp only [qStmts] at h ⊢
            cases h1 : qOpts f (Tok.t (LTok.arrow n) :: r0) with
            | none => simp [h1] at h
            | some p =>
              obtain ⟨os, r1⟩ := p
              rw [ihO _ _ h1]; rw [h1] at h
              exact consR_mono (ihS r1) h
          | ifT =>
            simp only [qStmts] at h ⊢
            cases h1 : qStmts f r0 with
            | none => simp [h1] at h
            | some p =>
              obtain ⟨fb, r1⟩ := p
              rw [ihS _ _ h1]; rw [h1] at h
              simp only at h ⊢
              cases h2 : qElifs f r1 with
              | none => simp [h2] at h
              | some p2 =>
                obtain ⟨es, r2⟩ := p2
                rw [ihE _ _ h2]; rw [h2] at h
                cases r2 with
                | nil => simp at h
                | cons t2 r2 =>
                  cases t2 with
                  | dedent => simp at h
                  | indent => simp at h
                  | t l2 =>
                    cases l2 with
                    | elseT =>
                      simp only at h ⊢
                      cases h3 : qStmts f r2 with
                      | none => simp [h3] at h
                      | some p3 =>
                        obtain ⟨eb, r3⟩ := p3
                        rw [ihS _ _ h3]; rw [h3] at h
                        cases r3 with
                        | nil => simp at h
                        | cons t3 r3 =>
                          cases t3 with
                          | dedent => simp at h
                          | indent => simp at h
                          | t l3 =>
                            cases l3 with
                            | endifT => exact consR_mono (ihS r3) h
                            | _ => simp at h
                    | endifT => exact consR_mono (ihS r2) h
                    | _ => simp at h
          | elseifT => simpa [qStmts] using h
          | elseT => simpa [qStmts] using h
          | endifT => simpa [qStmts] using h
          | bodyEnd => simpa [qStmts] using h
    · intro ts r h
      cases ts with
      | nil => simpa [qOpts] using h
      | cons t r0 =>
        cases t with
        | dedent => simpa [qOpts] using h
        | indent => simpa [qOpts] using h
        | t l =>
          cases l with
          | arrow n =>
            cases r0 with
            | nil =>
              simp only [qOpts] at h ⊢
              cases h1 : qOpts f [] with
              | none => simp [h1] at h
              | some p =>
                obtain ⟨os, r2⟩ := p
                have e := ihO _ _ h1
                simp only [qOpts, Option.some.injEq, Prod.mk.injEq] at e
                rw [h1] at h
                obtain ⟨e1, e2⟩ := e
                subst e1 e2
                exact h
            | cons t1 r1 =>
              cases t1 with
              | indent =>
                simp only [qOpts] at h ⊢
                cases h1 : qStmts f r1 with
                | none => simp [h1] at h
                | some p =>
                  obtain ⟨b, r2⟩ := p
                  rw [ihS _ _ h1]; rw [h1] at h
                  cases r2 with
                  | nil => simp at h
                  | cons t2 r2 =>
                    cases t2 with
                    | dedent =>
                      simp only at h ⊢
                      cases h2 : qOpts f r2 with
                      | none => simp [h2] at h
                      | some p2 => obtain ⟨os, r3⟩ := p2; rw [ihO _ _ h2]; rw [h2] at h; exact h
                    | indent => simp at h
                    | t l2 => simp at h
              | dedent =>
                simp only [qOpts] at h ⊢
                cases h1 : qOpts f (Tok.dedent :: r1) with
                | none => simp [h1] at h
                | some p =>
                  obtain ⟨os, r2⟩ := p
                  have e := ihO _ _ h1
                  simp only [qOpts, Option.some.injEq, Prod.mk.injEq] at e
                  rw [h1] at h
                  obtain ⟨e1, e2⟩ := e
                  subst e1 e2
                  exact h
              | t l1 =>
                simp only [qOpts] at h ⊢
                cases h1 : qOpts f (Tok.t l1 :: r1) with
                | none => simp [h1] at h
                | some p => obtain ⟨os, r2⟩ := p; rw [ihO _ _ h1]; rw [h1] at h; exact h
          | _ => simpa [qOpts] using h
    · intro ts r h
      cases ts with
      | nil => simpa [qElifs] using h
      | cons t r0 =>
        cases t with
        | dedent => simpa [qElifs] using h
        | indent => simpa [qElifs] using h
        | t l =>
          cases l with
          | elseifT =>
            simp only [qElifs] at h ⊢
            cases h1 : qStmts f r0 with
            | none => simp [h1] at h
            | some p =>
              obtain ⟨b, r1⟩ := p
              rw [ihS _ _ h1]; rw [h1] at h
              simp only at h ⊢
              cases h2 : qElifs f r1 with
              | none => simp [h2] at h
              | some p2 => obtain ⟨bs, r2⟩ := p2; rw [ihE _ _ h2]; rw [h2] at h; exact h
          | _ => simpa [qElifs] using h

theorem qmono_S {f f' ts r} (h : qStmts f ts = some r) (hf : f ≤ f') : qStmts f' ts = some r := by
  induction hf with
  | refl => exact h
  | step _ ih => exact (qmono_step _).1 _ _ ih
theorem qmono_O {f f' ts r} (h : qOpts f ts = some r) (hf : f ≤ f') : qOpts f' ts = some r := by
  induction hf with
  | refl => exact h
  | step _ ih => exact (qmono_step _).2.1 _ _ ih
theorem qmono_E {f f' ts r} (h : qElifs f ts = some r) (hf : f ≤ f') : qElifs f' ts = some r := by
  induction hf with
  | refl => exact h
  | step _ ih => exact (qmono_step _).2.2 _ _ ih
end Ysgo.BodyParse

namespace Ysgo.BodyParse

theorem consR_some {s x ss r} (h : consR s x = some (ss, r)) : ∃ ss0, x = some (ss0, r) := by
  cases x with
  | none => simp [consR] at h
  | some p =>
    obtain ⟨ss0, r0⟩ := p
    simp only [consR, Option.some.injEq, Prod.mk.injEq] at h
    exact ⟨ss0, by rw [h.2]⟩
theorem appR_some {a x ss r} (h : appR a x = some (ss, r)) : ∃ ss0, x = some (ss0, r) := by
  cases x with
  | none => simp [appR] at h
  | some p =>
    obtain ⟨ss0, r0⟩ := p
    simp only [appR, Option.some.injEq, Prod.mk.injEq] at h
    exact ⟨ss0, by rw [h.2]⟩

/-! remaining tokens: never longer than the input -/
theorem qlen_step : ∀ f : Nat,
    (∀ ts ss r, qStmts f ts = some (ss, r) → r.length ≤ ts.length) ∧
    (∀ ts os r, qOpts f ts = some (os, r) → r.length ≤ ts.length) ∧
    (∀ ts es r, qElifs f ts = some (es, r) → r.length ≤ ts.length) := by
  intro f
  induction f with
  | zero => refine ⟨?_, ?_, ?_⟩ <;> intros <;> simp_all [qStmts, qOpts, qElifs]
  | succ f ih =>
    obtain ⟨ihS, ihO, ihE⟩ := ih
    refine ⟨?_, ?_, ?_⟩
    · intro ts ss r h
      have stop : ∀ ts' : List Tok, some (([] : List Stmt), ts') = some (ss, r) → r.length ≤ ts'.length := by
        intro ts' e
        simp only [Option.some.injEq, Prod.mk.injEq] at e
        rw [← e.2]; exact Nat.le_refl _
      cases ts with
      | nil => exact stop _ (by simpa [qStmts] using h)
      | cons t r0 =>
        cases t with
        | dedent => exact stop _ (by simpa [qStmts] using h)
        | indent =>
          simp only [qStmts] at h
          cases h1 : qStmts f r0 with
          | none => simp [h1] at h
          | some p =>
            obtain ⟨inner, r1⟩ := p
            rw [h1] at h
            have len1 := ihS _ _ _ h1
            cases r1 with
            | nil => simp at h
            | cons t1 r1 =>
              cases t1 with
              | dedent =>
                obtain ⟨ss0, hq⟩ := appR_some h
                have len2 := ihS _ _ _ hq
                simp only [List.length_cons] at len1 ⊢; omega
              | indent => simp at h
              | t l => simp at h
        | t l =>
          cases l with
          | line n =>
            simp only [qStmts] at h
            obtain ⟨ss0, hq⟩ := consR_some h
            have := ihS _ _ _ hq
            simp only [List.length_cons]; omega
          | single n =>
            simp only [qStmts] at h
            obtain ⟨ss0, hq⟩ := consR_some h
            have := ihS _ _ _ hq
            simp only [List.length_cons]; omega
          | arrow n =>
            simp only [qStmts] at h
            cases h1 : qOpts f (Tok.t (LTok.arrow n) :: r0) with
            | none => simp [h1] at h
            | some p =>
              obtain ⟨os, r1⟩ := p
              rw [h1] at h
              obtain ⟨ss0, hq⟩ := consR_some h
              have len1 := ihO _ _ _ h1
              have len2 := ihS _ _ _ hq
              omega
          | ifT =>
            simp only [qStmts] at h
            cases h1 : qStmts f r0 with
            | none => simp [h1] at h
            | some p =>
              obtain ⟨fb, r1⟩ := p
              rw [h1] at h
              simp only at h
              have len1 := ihS _ _ _ h1
              cases h2 : qElifs f r1 with
              | none => simp [h2] at h
              | some p2 =>
                obtain ⟨es, r2⟩ := p2
                rw [h2] at h
                have len2 := ihE _ _ _ h2
                cases r2 with
                | nil => simp at h
                | cons t2 r2 =>
                  cases t2 with
                  | dedent => simp at h
                  | indent => simp at h
                  | t l2 =>
                    cases l2 with
                    | elseT =>
                      simp only at h
                      cases h3 : qStmts f r2 with
                      | none => simp [h3] at h
                      | some p3 =>
                        obtain ⟨eb, r3⟩ := p3
                        rw [h3] at h
                        have len3 := ihS _ _ _ h3
                        cases r3 with
                        | nil => simp at h
                        | cons t3 r3 =>
                          cases t3 with
                          | dedent => simp at h
                          | indent => simp at h
                          | t l3 =>
                            cases l3 with
                            | endifT =>
                              obtain ⟨ss0, hq⟩ := consR_some h
                              have len4 := ihS _ _ _ hq
                              simp only [List.length_cons] at len1 len2 len3 ⊢; omega
                            | _ => simp at h
                    | endifT =>
                      obtain ⟨ss0, hq⟩ := consR_some h
                      have len4 := ihS _ _ _ hq
                      simp only [List.length_cons] at len1 len2 ⊢; omega
                    | _ => simp at h
          | elseifT => exact stop _ (by simpa [qStmts] using h)
          | elseT => exact stop _ (by simpa [qStmts] using h)
          | endifT => exact stop _ (by simpa [qStmts] using h)
          | bodyEnd => exact stop _ (by simpa [qStmts] using h)
    · intro ts os r h
      have stop : ∀ ts' : List Tok, some (([] : List (Nat × List Stmt)), ts') = some (os, r) → r.length ≤ ts'.length := by
        intro ts' e
        simp only [Option.some.injEq, Prod.mk.injEq] at e
        rw [← e.2]; exact Nat.le_refl _
      have arrowStep : ∀ (n : Nat) (r0 : List Tok),
          (match qOpts f r0 with | some (os, r2) => some ((n, ([] : List Stmt)) :: os, r2) | none => none) = some (os, r) →
          r.length ≤ (Tok.t (LTok.arrow n) :: r0).length := by
        intro n r0 h
        cases h1 : qOpts f r0 with
        | none => simp [h1] at h
        | some p =>
          obtain ⟨os1, r2⟩ := p
          rw [h1] at h
          simp only [Option.some.injEq, Prod.mk.injEq] at h
          have := ihO _ _ _ h1
          rw [← h.2]; simp only [List.length_cons]; omega
      cases ts with
      | nil => exact stop _ (by simpa [qOpts] using h)
      | cons t r0 =>
        cases t with
        | dedent => exact stop _ (by simpa [qOpts] using h)
        | indent => exact stop _ (by simpa [qOpts] using h)
        | t l =>
          cases l with
          | arrow n =>
            cases r0 with
            | nil => simp only [qOpts] at h; exact arrowStep n _ h
            | cons t1 r1 =>
              cases t1 with
              | indent =>
                simp only [qOpts] at h
                cases h1 : qStmts f r1 with
                | none => simp [h1] at h
                | some p =>
                  obtain ⟨b, r2⟩ := p
                  rw [h1] at h
                  have len1 := ihS _ _ _ h1
                  cases r2 with
                  | nil => simp at h
                  | cons t2 r2 =>
                    cases t2 with
                    | dedent =>
                      simp only at h
                      cases h2 : qOpts f r2 with
                      | none => simp [h2] at h
                      | some p2 =>
                        obtain ⟨os1, r3⟩ := p2
                        rw [h2] at h
                        simp only [Option.some.injEq, Prod.mk.injEq] at h
                        have len2 := ihO _ _ _ h2
                        rw [← h.2]; simp only [List.length_cons] at len1 ⊢; omega
                    | indent => simp at h
                    | t l2 => simp at h
              | dedent => simp only [qOpts] at h; exact arrowStep n _ h
              | t l1 => simp only [qOpts] at h; exact arrowStep n _ h
          | _ => exact stop _ (by simpa [qOpts] using h)
    · intro ts es r h
      have stop : ∀ ts' : List Tok, some (([] : List (List Stmt)), ts') = some (es, r) → r.length ≤ ts'.length := by
        intro ts' e
        simp only [Option.some.injEq, Prod.mk.injEq] at e
        rw [← e.2]; exact Nat.le_refl _
      cases ts with
      | nil => exact stop _ (by simpa [qElifs] using h)
      | cons t r0 =>
        cases t with
        | dedent => exact stop _ (by simpa [qElifs] using h)
        | indent => exact stop _ (by simpa [qElifs] using h)
        | t l =>
          cases l with
          | elseifT =>
            simp only [qElifs] at h
            cases h1 : qStmts f r0 with
            | none => simp [h1] at h
            | some p =>
              obtain ⟨b, r1⟩ := p
              rw [h1] at h
              simp only at h
              have len1 := ihS _ _ _ h1
              cases h2 : qElifs f r1 with
              | none => simp [h2] at h
              | some p2 =>
                obtain ⟨bs, r2⟩ := p2
                rw [h2] at h
                simp only [Option.some.injEq, Prod.mk.injEq] at h
                have len2 := ihE _ _ _ h2
                rw [← h.2]; simp only [List.length_cons]; omega
          | _ => exact stop _ (by simpa [qElifs] using h)

theorem qlen_S {f ts ss r} (h : qStmts f ts = some (ss, r)) : r.length ≤ ts.length := (qlen_step f).1 _ _ _ h
theorem qlen_O {f ts os r} (h : qOpts f ts = some (os, r)) : r.length ≤ ts.length := (qlen_step f).2.1 _ _ _ h
theorem qlen_E {f ts es r} (h : qElifs f ts = some (es, r)) : r.length ≤ ts.length := (qlen_step f).2.2 _ _ _ h

/-- an option consumes at least its arrow -/
theorem qlen_O_arrow {f n r0 os r} (h : qOpts f (.t (.arrow n) :: r0) = some (os, r)) : r.length ≤ r0.length := by
  cases f with
  | zero => simp [qOpts] at h
  | succ f =>
    have arrowStep : ∀ (r0 : List Tok),
        (match qOpts f r0 with | some (os, r2) => some ((n, ([] : List Stmt)) :: os, r2) | none => none) = some (os, r) →
        r.length ≤ r0.length := by
      intro r0 h
      cases h1 : qOpts f r0 with
      | none => simp [h1] at h
      | some p =>
        obtain ⟨os1, r2⟩ := p
        rw [h1] at h
        simp only [Option.some.injEq, Prod.mk.injEq] at h
        have := qlen_O h1
        rw [← h.2]; exact this
    cases r0 with
    | nil => simp only [qOpts] at h; exact arrowStep _ h
    | cons t1 r1 =>
      cases t1 with
      | indent =>
        simp only [qOpts] at h
        cases h1 : qStmts f r1 with
        | none => simp [h1] at h
        | some p =>
          obtain ⟨b, r2⟩ := p
          rw [h1] at h
          have len1 := qlen_S h1
          cases r2 with
          | nil => simp at h
          | cons t2 r2 =>
            cases t2 with
            | dedent =>
              simp only at h
              cases h2 : qOpts f r2 with
              | none => simp [h2] at h
              | some p2 =>
                obtain ⟨os1, r3⟩ := p2
                rw [h2] at h
                simp only [Option.some.injEq, Prod.mk.injEq] at h
                have len2 := qlen_O h2
                rw [← h.2]; simp only [List.length_cons] at len1 ⊢; omega
            | indent => simp at h
            | t l2 => simp at h
      | dedent => simp only [qOpts] at h; exact arrowStep _ h
      | t l1 => simp only [qOpts] at h; exact arrowStep _ h

/-- one step of the option loop for an option without a body -/
theorem qOpts_arrow_nobody (f n : Nat) (r : List Tok) (h : ∀ r', r ≠ .indent :: r') :
    qOpts (f + 1) (.t (.arrow n) :: r)
      = (match qOpts f r with | some (os, r2) => some ((n, []) :: os, r2) | none => none) := by
  cases r with
  | nil => simp only [qOpts]; cases qOpts f [] <;> rfl
  | cons t r =>
    cases t with
    | indent => exact absurd rfl (h r)
    | dedent => simp only [qOpts]; cases qOpts f (Tok.dedent :: r) <;> rfl
    | t l => simp only [qOpts]; cases qOpts f (Tok.t l :: r) <;> rfl

/-! adequacy: above the threshold the result (success or failure) is independent of the fuel -/
theorem qadeq_step : ∀ f : Nat,
    (∀ ts, 2 * ts.length + 2 ≤ f → qStmts (f + 1) ts = qStmts f ts) ∧
    (∀ ts, 2 * ts.length + 1 ≤ f → qOpts (f + 1) ts = qOpts f ts) ∧
    (∀ ts, 2 * ts.length + 1 ≤ f → qElifs (f + 1) ts = qElifs f ts) := by
  intro f
  induction f with
  | zero => refine ⟨?_, ?_, ?_⟩ <;> intro ts h <;> omega
  | succ f ih =>
    obtain ⟨ihS, ihO, ihE⟩ := ih
    refine ⟨?_, ?_, ?_⟩
    · intro ts hf
      cases ts with
      | nil => simp [qStmts]
      | cons t r0 =>
        simp only [List.length_cons] at hf
        cases t with
        | dedent => simp [qStmts]
        | indent =>
          simp only [qStmts]
          rw [ihS r0 (by omega)]
          cases h1 : qStmts f r0 with
          | none => rfl
          | some p =>
            obtain ⟨inner, r1⟩ := p
            have len1 := qlen_S h1
            cases r1 with
            | nil => rfl
            | cons t1 r1 =>
              cases t1 with
              | dedent =>
                simp only [List.length_cons] at len1
                simp only
                rw [ihS r1 (by omega)]
              | indent => rfl
              | t l => rfl
        | t l =>
          cases l with
          | line n => simp only [qStmts]; rw [ihS r0 (by omega)]
          | single n => simp only [qStmts]; rw [ihS r0 (by omega)]
          | arrow n =>
            simp only [qStmts]
            rw [ihO _ (by simp only [List.length_cons]; omega)]
            cases h1 : qOpts f (Tok.t (LTok.arrow n) :: r0) with
            | none => rfl
            | some p =>
              obtain ⟨os, r1⟩ := p
              have len1 := qlen_O_arrow h1
              simp only
              rw [ihS r1 (by omega)]
          | ifT =>
            simp only [qStmts]
            rw [ihS r0 (by omega)]
            cases h1 : qStmts f r0 with
            | none => rfl
            | some p =>
              obtain ⟨fb, r1⟩ := p
              have len1 := qlen_S h1
              simp only
              rw [ihE r1 (by omega)]
              cases h2 : qElifs f r1 with
              | none => rfl
              | some p2 =>
                obtain ⟨es, r2⟩ := p2
                have len2 := qlen_E h2
                cases r2 with
                | nil => rfl
                | cons t2 r2 =>
                  simp only [List.length_cons] at len2
                  cases t2 with
                  | dedent => rfl
                  | indent => rfl
                  | t l2 =>
                    cases l2 with
                    | elseT =>
                      simp only
                      rw [ihS r2 (by omega)]
                      cases h3 : qStmts f r2 with
                      | none => rfl
                      | some p3 =>
                        obtain ⟨eb, r3⟩ := p3
                        have len3 := qlen_S h3
                        cases r3 with
                        | nil => rfl
                        | cons t3 r3 =>
                          simp only [List.length_cons] at len3
                          cases t3 with
                          | dedent => rfl
                          | indent => rfl
                          | t l3 =>
                            cases l3 with
                            | endifT => simp only; rw [ihS r3 (by omega)]
                            | _ => rfl
                    | endifT => simp only; rw [ihS r2 (by omega)]
                    | _ => rfl
          | elseifT => simp [qStmts]
          | elseT => simp [qStmts]
          | endifT => simp [qStmts]
          | bodyEnd => simp [qStmts]
    · intro ts hf
      cases ts with
      | nil => simp [qOpts]
      | cons t r0 =>
        simp only [List.length_cons] at hf
        cases t with
        | dedent => simp [qOpts]
        | indent => simp [qOpts]
        | t l =>
          cases l with
          | arrow n =>
            cases r0 with
            | nil =>
              rw [qOpts_arrow_nobody _ _ _ (by intro r' e; cases e), qOpts_arrow_nobody _ _ _ (by intro r' e; cases e),
                ihO [] (by simp only [List.length_nil]; omega)]
            | cons t1 r1 =>
              simp only [List.length_cons] at hf
              cases t1 with
              | indent =>
                simp only [qOpts]
                rw [ihS r1 (by omega)]
                cases h1 : qStmts f r1 with
                | none => rfl
                | some p =>
                  obtain ⟨b, r2⟩ := p
                  have len1 := qlen_S h1
                  cases r2 with
                  | nil => rfl
                  | cons t2 r2 =>
                    simp only [List.length_cons] at len1
                    cases t2 with
                    | dedent => simp only; rw [ihO r2 (by omega)]
                    | indent => rfl
                    | t l2 => rfl
              | dedent =>
                rw [qOpts_arrow_nobody _ _ _ (by intro r' e; cases e), qOpts_arrow_nobody _ _ _ (by intro r' e; cases e),
                  ihO _ (by simp only [List.length_cons]; omega)]
              | t l1 =>
                rw [qOpts_arrow_nobody _ _ _ (by intro r' e; cases e), qOpts_arrow_nobody _ _ _ (by intro r' e; cases e),
                  ihO _ (by simp only [List.length_cons]; omega)]
          | _ => simp [qOpts]
    · intro ts hf
      cases ts with
      | nil => simp [qElifs]
      | cons t r0 =>
        simp only [List.length_cons] at hf
        cases t with
        | dedent => simp [qElifs]
        | indent => simp [qElifs]
        | t l =>
          cases l with
          | elseifT =>
            simp only [qElifs]
            rw [ihS r0 (by omega)]
            cases h1 : qStmts f r0 with
            | none => rfl
            | some p =>
              obtain ⟨b, r1⟩ := p
              have len1 := qlen_S h1
              simp only
              rw [ihE r1 (by omega)]
          | _ => simp [qElifs]

/-- the result of `qStmts` (success or failure) at fuel `2·|ts| + 2` is the result at every larger fuel -/
theorem qadeq_S {ts : List Tok} {f : Nat} (hf : fuelFor ts ≤ f) : qStmts f ts = qStmts (fuelFor ts) ts := by
  induction hf with
  | refl => rfl
  | step hle ih => rw [(qadeq_step _).1 ts hle, ih]

/-- `parse` finds whatever any amount of fuel finds -/
theorem parse_of_qStmts {ts : List Tok} {f : Nat} {ss : List Stmt} {r : List Tok}
    (h : qStmts f ts = some (ss, .t .bodyEnd :: r)) : parse ts = some ss := by
  have h1 : qStmts (max f (fuelFor ts)) ts = some (ss, .t .bodyEnd :: r) := qmono_S h (Nat.le_max_left _ _)
  rw [qadeq_S (Nat.le_max_right _ _)] at h1
  simp [parse, h1]

end Ysgo.BodyParse
