import Ysgo.Lemmas.F64Mono
import Ysgo.Lemmas.F64Num
/-!
# F64 lemma library, part 14: `toInt64` (Go `int64(f)`, CVTTSD2SQ) on every finite double

`toInt64_raw`: the result is `sign · ⌊|x|⌋`, replaced by `-2^63` outside the int64 range. Corollaries: the exact
integer on integer-valued doubles, the floor on non-negative doubles below `2^63`; comparison `ge`.
-/
namespace Ysgo
namespace F64

/-- saturation of CVTTSD2SQ: the "integer indefinite" value `-2^63` outside the int64 range -/
def sat64 (i : ℤ) : ℤ := if i ≥ (P63 : ℤ) ∨ i < -(P63 : ℤ) then -(P63 : ℤ) else i

theorem toInt64_raw {x : F64} (hx : Finite x) :
    ∃ q : ℕ, toInt64 x = sat64 (snum (signBit x) q)
      ∧ (q : ℚ) ≤ |val x| ∧ |val x| < (q : ℚ) + 1 ∧ val x = sgn (signBit x) * |val x| := by
  obtain ⟨s, m, e, hd, hm, he1, he2, -⟩ := decode_finite hx
  rw [signBit_of_decode hd, val_of_decode hd, abs_fval]
  have hv : fval s m e = sgn s * ((m : ℚ) * 2 ^ e) := by unfold fval; ring
  by_cases he : e ≥ 0
  · refine ⟨m * 2 ^ e.toNat, ?_, ?_, ?_, hv⟩
    · unfold toInt64 sat64
      rw [hd]
      simp only [he, ↓reduceIte]
      have : numAt s m e 0 = snum s (m * 2 ^ e.toNat) := by
        unfold numAt snum
        simp only [Int.sub_zero]
      rw [this]
    · push_cast; rw [two_zpow_toNat e he]
    · push_cast; rw [two_zpow_toNat e he]; linarith
  · obtain ⟨k, hk⟩ : ∃ k : ℕ, e = -(k : ℤ) := ⟨(-e).toNat, by omega⟩
    obtain ⟨c1, c2, c3⟩ := truncInt_contract s m k
    have hk' : (-e).toNat = k := by omega
    have h2k : (0 : ℚ) < 2 ^ k := by positivity
    have hpow : (2 : ℚ) ^ e = 1 / 2 ^ k := by rw [hk, two_zpow_neg_nat]
    refine ⟨m / 2 ^ k, ?_, ?_, ?_, hv⟩
    · unfold toInt64 sat64
      rw [hd]
      simp only [he, ↓reduceIte, hk', c1]
    · rw [hpow, mul_one_div, le_div_iff₀ h2k]
      exact_mod_cast c2
    · rw [hpow, mul_one_div, div_lt_iff₀ h2k]
      exact_mod_cast c3

/-- `int64(x)` of an integer-valued double is that integer, or `-2^63` outside the int64 range -/
theorem toInt64_of_isInt {x : F64} (hx : Finite x) (z : ℤ) (hz : (z : ℚ) = val x) : toInt64 x = sat64 z := by
  obtain ⟨q, ht, h1, h2, h3⟩ := toInt64_raw hx
  rw [ht]
  congr 1
  rw [← hz, ← Int.cast_abs] at h1 h2
  have a1 : (q : ℤ) ≤ |z| := by exact_mod_cast h1
  have a2 : |z| < (q : ℤ) + 1 := by exact_mod_cast h2
  have hq : |z| = (q : ℤ) := by omega
  have : ((snum (signBit x) q : ℤ) : ℚ) = (z : ℚ) := by
    rw [snum_cast, hz, h3]
    congr 1
    rw [← hz, ← Int.cast_abs, hq]; simp
  exact_mod_cast this

/-- `int64(x)` of a non-negative double below `2^63` is its floor -/
theorem toInt64_floor_nonneg {x : F64} (hx : Finite x) (h0 : 0 ≤ val x) (hlt : val x < 2 ^ 63) :
    0 ≤ toInt64 x ∧ ((toInt64 x : ℤ) : ℚ) ≤ val x ∧ val x < ((toInt64 x : ℤ) : ℚ) + 1 := by
  obtain ⟨q, ht, h1, h2, h3⟩ := toInt64_raw hx
  rw [abs_of_nonneg h0] at h1 h2 h3
  have hs : snum (signBit x) q = (q : ℤ) := by
    cases hsb : signBit x
    · rfl
    · rw [hsb] at h3
      simp only [sgn, ↓reduceIte, neg_mul, one_mul] at h3
      have hv0 : val x = 0 := by linarith
      rw [hv0] at h1
      have : q = 0 := by
        have : (q : ℚ) = 0 := le_antisymm h1 (by positivity)
        exact_mod_cast this
      subst this
      rfl
  have hq63 : q < P63 := by
    have : (q : ℚ) < ((P63 : ℕ) : ℚ) := by
      have : ((P63 : ℕ) : ℚ) = 2 ^ 63 := by norm_num [P63]
      rw [this]; linarith
    exact_mod_cast this
  have : toInt64 x = (q : ℤ) := by
    rw [ht, hs]
    unfold sat64
    rw [if_neg (by omega)]
  rw [this]
  exact ⟨by omega, by exact_mod_cast h1, by exact_mod_cast h2⟩

/-- `>=` on finite doubles is `≥` of exact values -/
theorem ge_iff_val {x y : F64} (hx : Finite x) (hy : Finite y) : ge x y = true ↔ val y ≤ val x := by
  unfold ge
  rw [Bool.or_eq_true, lt_iff_val hy hx, eq_iff_val hx hy, le_iff_lt_or_eq, eq_comm]

/-- `+Inf >= y` for every finite `y` -/
theorem ge_inf {y : F64} (hy : Finite y) : ge (inf false) y = true := by
  obtain ⟨b, m, e, hd, -⟩ := decode_finite hy
  unfold ge lt
  rw [decode_inf, hd]
  rfl

/-- natural numbers below 2^53 convert exactly -/
theorem ofNat_small (n : ℕ) (h : n < P53) :
    Finite (ofNat n) ∧ signBit (ofNat n) = false ∧ val (ofNat n) = (n : ℚ) := by
  have hq : (n : ℚ) < 2 ^ (53 : ℤ) := by
    have : (n : ℚ) < ((P53 : ℕ) : ℚ) := by exact_mod_cast h
    rw [P53_cast] at this
    exact_mod_cast this
  apply ofNat_val n
  · have := representable_int (n : ℤ) (by simpa using h)
    simpa using this
  · exact lt_trans hq (by rw [two_zpow_lt_iff]; omega)

end F64
end Ysgo
