import Ysgo.Lemmas.FuelStep
/-!
# Fuel: the continuation is made of statements of the program

Two invariants of the runner state, both established by `R.init` / `R.restore` and preserved by every iteration of `Next`:

* `Wf p r` — every queue on the stack holds a *sub-body* of the program (the body of a node, or an option body / an
  if-clause body of a statement occurring in a sub-body), and the bodies a choice is expected for are the option bodies
  of such a statement;
* `Reach p r` (stronger) — the stack is a *chain*: the bottom queue holds the body of a node, and every other queue
  holds an option body / clause body of the statement just before the read pointer of the queue below it; the bodies a
  choice is expected for are those of the option group just before the read pointer of the top queue.

`Wf` bounds the bodies a choice is expected for by the largest node; `Reach` bounds the whole measure by the largest node.
-/
namespace Ysgo.Fuel
open Ysgo
set_option linter.unusedSimpArgs false

/-- `b` is an option body / an if-clause body of the statement `st` -/
inductive ChildOf (b : List Stmt) : Stmt → Prop
  | opt (os : List (LineSpec × List Stmt)) (ob : LineSpec × List Stmt) (ho : ob ∈ os) (hb : b = ob.2) : ChildOf b (.opts os)
  | ifc (cs : List (Expr × List Stmt)) (cb : Expr × List Stmt) (hc : cb ∈ cs) (hb : b = cb.2) : ChildOf b (.ifs cs)

/-- the sub-bodies of a program: node bodies, and option bodies / clause bodies of statements occurring in a sub-body -/
inductive SubBody (p : Program) : List Stmt → Prop
  | node (n : Node) (hn : n ∈ p) : SubBody p n.body
  | child (l : List Stmt) (st : Stmt) (b : List Stmt) (hl : SubBody p l) (hs : st ∈ l) (hc : ChildOf b st) : SubBody p b

/-- every queue holds a sub-body of the program -/
def WfS (p : Program) (s : List SQ) : Prop := ∀ q, q ∈ s → SubBody p q.stmts

/-- the bodies a choice is expected for are the option bodies of an option group of the program -/
def WfW (p : Program) (w : Option (List (List Stmt))) : Prop :=
  ∀ bodies, w = some bodies → ∃ l os, SubBody p l ∧ Stmt.opts os ∈ l ∧ bodies = os.map (·.2)

/-- `Wf p r`: the continuation of `r` is made of statements of `p` -/
structure Wf {σ π : Type} (p : Program) (r : R σ π) : Prop where
  stack : WfS p r.stack
  waiting : WfW p r.waiting

/-- the stack is a chain of nested bodies hanging from a node body -/
inductive Chain (p : Program) : List SQ → Prop
  | nil : Chain p []
  | root (n : Node) (hn : n ∈ p) (i : Nat) : Chain p [⟨n.body, i⟩]
  | child (q q1 : SQ) (rest : List SQ) (hc : Chain p (q1 :: rest)) (i : Nat) (st : Stmt) (h1 : q1.stmts[i]? = some st)
      (hp : q1.ptr = i + 1) (hb : ChildOf q.stmts st) : Chain p (q :: q1 :: rest)

/-- the bodies a choice is expected for are those of the option group just before the read pointer of the top queue -/
def WaitTop (s : List SQ) (w : Option (List (List Stmt))) : Prop :=
  ∀ bodies, w = some bodies → ∃ q rest i os, s = q :: rest ∧ q.ptr = i + 1 ∧ q.stmts[i]? = some (.opts os) ∧ bodies = os.map (·.2)

/-- `Reach p r`: the shape of every state reachable from `R.init p` / `R.restore p` -/
structure Reach {σ π : Type} (p : Program) (r : R σ π) : Prop where
  chain : Chain p r.stack
  waiting : WaitTop r.stack r.waiting

/-! ### sizes -/

theorem childOf_size {b : List Stmt} {st : Stmt} (h : ChildOf b st) : 2 + bodySize b ≤ stmtSize st := by
  cases h with
  | opt os ob ho hb => subst hb; have := optsSize_mem ho; simp only [stmtSize]; omega
  | ifc cs cb hc hb => subst hb; have := ifsSize_mem hc; simp only [stmtSize]; omega

theorem subBody_size {p : Program} {l : List Stmt} (h : SubBody p l) : 1 + bodySize l ≤ maxNode p := by
  induction h with
  | node n hn => exact maxNode_mem hn
  | child l st b hl hs hc ih =>
    have h1 := childOf_size hc
    have h2 := bodySize_mem hs
    omega

theorem bodySize_getElem? {l : List Stmt} {i : Nat} {st : Stmt} (h : l[i]? = some st) :
    stmtSize st + bodySize (l.drop (i + 1)) ≤ bodySize l := by
  have h1 := bodySize_drop_le l i
  rw [drop_of_getElem? l i st h] at h1
  simpa [bodySize] using h1

theorem waitSize_opts (os : List (LineSpec × List Stmt)) : waitSize (some (os.map (·.2))) = stmtSize (.opts os) := by
  simp only [waitSize, bodiesSize_map, stmtSize]

/-- under `Wf` the bodies a choice is expected for are smaller than the largest node -/
theorem wfW_size {p : Program} {w : Option (List (List Stmt))} (h : WfW p w) : waitSize w ≤ maxNode p := by
  cases w with
  | none => simp [waitSize]
  | some bodies =>
    obtain ⟨l, os, hl, hm, hb⟩ := h bodies rfl
    subst hb
    rw [waitSize_opts]
    have h1 := subBody_size hl
    have h2 := bodySize_mem hm
    omega

/-- a chain counted with its top queue in full is no larger than the largest node -/
theorem chain_size {p : Program} : ∀ {s : List SQ}, Chain p s → ∀ q rest, s = q :: rest →
    stackSize rest + (1 + bodySize q.stmts) ≤ maxNode p := by
  intro s h
  induction h with
  | nil => intro q rest h; cases h
  | root n hn i =>
    intro q rest h
    simp only [List.cons.injEq] at h
    obtain ⟨h1, h2⟩ := h
    subst h1 h2
    have := maxNode_mem hn
    simp only [stackSize]
    omega
  | child q q1 rest hc i st h1 hp hb ih =>
    intro q0 rest0 h
    simp only [List.cons.injEq] at h
    obtain ⟨h2, h3⟩ := h
    subst h2 h3
    have ih' := ih q1 rest rfl
    have hs := childOf_size hb
    have hg := bodySize_getElem? h1
    have hr : q1.rest = q1.stmts.drop (i + 1) := by simp only [SQ.rest, hp]
    simp only [stackSize, hr]
    omega

theorem rest_le (q : SQ) : bodySize q.rest ≤ bodySize q.stmts := bodySize_drop_le _ _

/-- under `Reach` the whole measure is no larger than the largest node -/
theorem reach_msr {σ π : Type} {p : Program} {r : R σ π} (h : Reach p r) : msr r ≤ maxNode p := by
  unfold msr
  cases hw : r.waiting with
  | none =>
    cases hs : r.stack with
    | nil => simp [stackSize, waitSize]
    | cons q rest =>
      have := chain_size h.chain q rest hs
      have := rest_le q
      simp only [stackSize, waitSize]
      omega
  | some bodies =>
    obtain ⟨q, rest, i, os, hs, hp, hq, hb⟩ := h.waiting bodies hw
    subst hb
    have h1 := chain_size h.chain q rest hs
    have hg := bodySize_getElem? hq
    have hr : q.rest = q.stmts.drop (i + 1) := by simp only [SQ.rest, hp]
    rw [waitSize_opts, hs]
    simp only [stackSize, hr]
    omega

/-! ### `Chain` implies `WfS` -/

theorem chain_wfS {p : Program} {s : List SQ} (h : Chain p s) : WfS p s := by
  induction h with
  | nil => intro q hq; cases hq
  | root n hn i => intro q hq; simp only [List.mem_singleton] at hq; subst hq; exact .node n hn
  | child q q1 rest hc i st h1 hp hb ih =>
    intro q0 hq0
    rcases List.mem_cons.1 hq0 with h | h
    · subst h
      exact .child q1.stmts st _ (ih q1 List.mem_cons_self) (mem_of_getElem?' h1) hb
    · exact ih q0 h

theorem Reach.wf {σ π : Type} {p : Program} {r : R σ π} (h : Reach p r) : Wf p r := by
  refine ⟨chain_wfS h.chain, ?_⟩
  intro bodies hw
  obtain ⟨q, rest, i, os, hs, hp, hq, hb⟩ := h.waiting bodies hw
  exact ⟨q.stmts, os, chain_wfS h.chain q (by rw [hs]; exact List.mem_cons_self), mem_of_getElem?' hq, hb⟩

/-! ### preservation by one iteration of `Next` -/
section
variable {σ π μ : Type}

theorem waitAfter_some {out : Option (Outcome (Elem μ))} {st : Stmt} {bodies : List (List Stmt)}
    (h : waitAfter out st = some bodies) : ∃ os, st = .opts os ∧ bodies = os.map (·.2) := by
  unfold waitAfter at h
  split at h
  · rename_i b hi
    simp only [Option.some.injEq] at h
    subst h
    cases st with
    | opts os => simp only [isOpts, Option.some.injEq] at hi; exact ⟨os, rfl, hi.symm⟩
    | _ => simp [isOpts] at hi
  · cases h

theorem exec_opts_ctl (env : Env σ) (mk : Markup π μ) (p : Program) (d d' : Data σ π) (os : List (LineSpec × List Stmt))
    (ctl : Ctl) (out : Option (Outcome (Elem μ))) (h : exec env mk p d (.opts os) = (d', ctl, out)) : ctl = .next := by
  simp only [exec] at h
  split at h <;> (simp only [Prod.mk.injEq] at h; exact h.2.1.symm)

theorem wfS_applyCtl {p : Program} {q : SQ} {rest : List SQ} {st : Stmt} {ctl : Ctl} {o : Bool} (hc : CtlOf p st ctl o)
    (hst : st ∈ q.stmts) (h : WfS p (q :: rest)) : WfS p (applyCtlR ctl ({ q with ptr := q.ptr + 1 } :: rest)) := by
  have hq : SubBody p q.stmts := h q List.mem_cons_self
  have hbase : WfS p ({ q with ptr := q.ptr + 1 } :: rest) := by
    intro q0 hq0
    rcases List.mem_cons.1 hq0 with h0 | h0
    · subst h0; exact hq
    · exact h q0 (List.mem_cons_of_mem _ h0)
  cases hc with
  | next o => exact hbase
  | halt => intro q0 hq0; cases hq0
  | push cs c b hs hm =>
    intro q0 hq0
    simp only [applyCtlR] at hq0
    rcases List.mem_cons.1 hq0 with h0 | h0
    · subst h0
      exact .child q.stmts st b hq hst (by subst hs; exact .ifc cs (c, b) hm rfl)
    · exact hbase q0 h0
  | goto n hn =>
    intro q0 hq0
    simp only [applyCtlR, List.mem_singleton] at hq0
    subst hq0
    exact .node n hn

/-- `Wf` is preserved by every iteration of `Next` -/
theorem step_wf {env : Env σ} {mk : Markup π μ} {p : Program} {c : Nat} {s s' : List SQ}
    {w w' : Option (List (List Stmt))} {o : Option (Outcome (Elem μ))} (h : Step env mk p c s w s' w' o)
    (hs : WfS p s) (hw : WfW p w) : WfS p s' ∧ WfW p w' := by
  have hnone : WfW p none := by intro b hb; cases hb
  cases h with
  | poll => exact ⟨hs, hw⟩
  | badChoice => exact ⟨hs, hw⟩
  | choose _ bodies b hb hl =>
    refine ⟨?_, hnone⟩
    obtain ⟨l, os, hl, hm, he⟩ := hw bodies rfl
    subst he
    obtain ⟨ob, hob, hbe⟩ := List.mem_map.1 (mem_of_getElem?' hb)
    intro q0 hq0
    rcases List.mem_cons.1 hq0 with h0 | h0
    · subst h0
      exact .child l (.opts os) b hl hm (.opt os ob hob hbe.symm)
    · exact hs q0 h0
  | chooseEmpty => exact ⟨hs, hnone⟩
  | ended => exact ⟨hs, hnone⟩
  | pop q rest hq => exact ⟨fun q0 hq0 => hs q0 (List.mem_cons_of_mem _ hq0), hnone⟩
  | exec q rest st d d' ctl _ hq he =>
    have hc := exec_ctl env mk p d d' st ctl o he
    refine ⟨wfS_applyCtl hc (mem_of_getElem?' hq) hs, ?_⟩
    intro bodies hb
    obtain ⟨os, hst, hbe⟩ := waitAfter_some hb
    exact ⟨q.stmts, os, hs q List.mem_cons_self, by rw [← hst]; exact mem_of_getElem?' hq, hbe⟩

theorem chain_tail {p : Program} {q : SQ} {rest : List SQ} (h : Chain p (q :: rest)) : Chain p rest := by
  cases h with
  | root => exact .nil
  | child _ _ _ hc => exact hc

theorem chain_top_ptr {p : Program} {q : SQ} {rest : List SQ} (h : Chain p (q :: rest)) (j : Nat) :
    Chain p (⟨q.stmts, j⟩ :: rest) := by
  cases h with
  | root n hn i => exact .root n hn j
  | child _ q1 rest hc i st h1 hp hb => exact .child _ q1 rest hc i st h1 hp hb

theorem chain_applyCtl {p : Program} {q : SQ} {rest : List SQ} {st : Stmt} {ctl : Ctl} {o : Bool} (hc : CtlOf p st ctl o)
    (hst : q.stmts[q.ptr]? = some st) (h : Chain p (q :: rest)) :
    Chain p (applyCtlR ctl ({ q with ptr := q.ptr + 1 } :: rest)) := by
  have hbase : Chain p ({ q with ptr := q.ptr + 1 } :: rest) := chain_top_ptr h _
  cases hc with
  | next o => exact hbase
  | halt => exact .nil
  | push cs c b hs hm =>
    exact .child ⟨b, 0⟩ _ rest hbase q.ptr st hst rfl (by subst hs; exact .ifc cs (c, b) hm rfl)
  | goto n hn => exact .root n hn 0

/-- `Reach` is preserved by every iteration of `Next` -/
theorem step_reach {env : Env σ} {mk : Markup π μ} {p : Program} {c : Nat} {s s' : List SQ}
    {w w' : Option (List (List Stmt))} {o : Option (Outcome (Elem μ))} (h : Step env mk p c s w s' w' o)
    (hs : Chain p s) (hw : WaitTop s w) : Chain p s' ∧ WaitTop s' w' := by
  have hnone : ∀ t, WaitTop t none := by intro t b hb; cases hb
  cases h with
  | poll => exact ⟨hs, hw⟩
  | badChoice => exact ⟨hs, hw⟩
  | choose _ bodies b hb hl =>
    refine ⟨?_, hnone _⟩
    obtain ⟨q, rest, i, os, hse, hp, hq, he⟩ := hw bodies rfl
    subst he hse
    obtain ⟨ob, hob, hbe⟩ := List.mem_map.1 (mem_of_getElem?' hb)
    exact .child ⟨b, 0⟩ q rest hs i (.opts os) hq hp (.opt os ob hob hbe.symm)
  | chooseEmpty => exact ⟨hs, hnone _⟩
  | ended => exact ⟨hs, hnone _⟩
  | pop q rest hq => exact ⟨chain_tail hs, hnone _⟩
  | exec q rest st d d' ctl _ hq he =>
    have hc := exec_ctl env mk p d d' st ctl o he
    refine ⟨chain_applyCtl hc hq hs, ?_⟩
    intro bodies hb
    obtain ⟨os, hst, hbe⟩ := waitAfter_some hb
    subst hst
    have hn := exec_opts_ctl env mk p d d' os ctl o he
    subst hn
    exact ⟨_, rest, q.ptr, os, rfl, rfl, hq, hbe⟩

end
end Ysgo.Fuel
