import Ysgo.Lemmas.F64Round
/-!
# F64 lemma library, part 3 (core only): contracts of the integer-part functions, scaled by the denominator

For the value `±m / 2^k` written as the integer numerator `snum neg m` over `D = 2^k`, the contracts of
`floorInt ceilInt truncInt roundInt` are statements about integers (`F·D ≤ ±m < (F+1)·D`, …).
-/
namespace Ysgo
namespace F64

/-- signed numerator -/
def snum (neg : Bool) (m : Nat) : Int := if neg then -(m : Int) else m

private theorem divmod_int (m D : Nat) (hD : 0 < D) :
    (m : Int) = (D : Int) * ((m / D : Nat) : Int) + ((m % D : Nat) : Int) ∧ ((m % D : Nat) : Int) < D
      ∧ (0 : Int) ≤ ((m % D : Nat) : Int) ∧ (0 : Int) ≤ ((m / D : Nat) : Int) ∧ (0 : Int) < D := by
  have hdm := Nat.div_add_mod m D
  have hr := Nat.mod_lt m hD
  exact ⟨by exact_mod_cast hdm.symm, by exact_mod_cast hr, Int.natCast_nonneg _, Int.natCast_nonneg _, by exact_mod_cast hD⟩

theorem floorInt_contract (neg : Bool) (m k : Nat) :
    floorInt neg m k * (2 ^ k : Nat) ≤ snum neg m ∧ snum neg m < (floorInt neg m k + 1) * (2 ^ k : Nat) := by
  have hd : 0 < 2 ^ k := Nat.pow_pos (by omega)
  obtain ⟨hm, hr, hr0, hq0, hD0⟩ := divmod_int m (2 ^ k) hd
  unfold floorInt snum
  simp only []
  have hr0' : m % 2 ^ k = 0 ↔ ((m % 2 ^ k : Nat) : Int) = 0 := by omega
  generalize ((m / 2 ^ k : Nat) : Int) = q at *
  generalize ((m % 2 ^ k : Nat) : Int) = r at *
  generalize ((2 ^ k : Nat) : Int) = D at *
  have e1 : q * D = D * q := Int.mul_comm _ _
  have e2 : (q + 1) * D = D * q + D := by rw [Int.add_mul, Int.one_mul, e1]
  have e3 : (-q) * D = -(D * q) := by rw [Int.neg_mul, e1]
  have e4 : (-q + 1) * D = -(D * q) + D := by rw [Int.add_mul, Int.one_mul, e3]
  have e5 : (-(q + 1)) * D = -(D * q) - D := by rw [Int.neg_mul, e2]; omega
  have e6 : (-(q + 1) + 1) * D = -(D * q) := by rw [show -(q + 1) + 1 = -q by omega, e3]
  generalize D * q = P at *
  cases neg with
  | false => simp only [Bool.false_eq_true, ↓reduceIte]; rw [e1, e2]; omega
  | true =>
    simp only [↓reduceIte]
    split
    · rename_i h0; rw [e3, e4]; omega
    · rename_i h0; rw [e5, e6]; omega

theorem ceilInt_contract (neg : Bool) (m k : Nat) :
    (ceilInt neg m k - 1) * (2 ^ k : Nat) < snum neg m ∧ snum neg m ≤ ceilInt neg m k * (2 ^ k : Nat) := by
  have hd : 0 < 2 ^ k := Nat.pow_pos (by omega)
  obtain ⟨hm, hr, hr0, hq0, hD0⟩ := divmod_int m (2 ^ k) hd
  unfold ceilInt snum
  simp only []
  have hr0' : m % 2 ^ k = 0 ↔ ((m % 2 ^ k : Nat) : Int) = 0 := by omega
  generalize ((m / 2 ^ k : Nat) : Int) = q at *
  generalize ((m % 2 ^ k : Nat) : Int) = r at *
  generalize ((2 ^ k : Nat) : Int) = D at *
  have e1 : q * D = D * q := Int.mul_comm _ _
  have e2 : (q + 1) * D = D * q + D := by rw [Int.add_mul, Int.one_mul, e1]
  have e3 : (-q) * D = -(D * q) := by rw [Int.neg_mul, e1]
  have e4 : (-q - 1) * D = -(D * q) - D := by rw [Int.sub_mul, Int.one_mul, e3]
  have e5 : (q - 1) * D = D * q - D := by rw [Int.sub_mul, Int.one_mul, e1]
  have e6 : (q + 1 - 1) * D = D * q := by rw [show q + 1 - 1 = q by omega, e1]
  generalize D * q = P at *
  cases neg with
  | true => simp only [↓reduceIte]; rw [e3, e4]; omega
  | false =>
    simp only [Bool.false_eq_true, ↓reduceIte]
    split
    · rename_i h0; rw [e1, e5]; omega
    · rename_i h0; rw [e2, e6]; omega

/-- truncation toward zero: the magnitude is the floor of the magnitude, the sign is that of the argument -/
theorem truncInt_contract (neg : Bool) (m k : Nat) :
    truncInt neg m k = snum neg (m / 2 ^ k) ∧ (m / 2 ^ k) * 2 ^ k ≤ m ∧ m < (m / 2 ^ k + 1) * 2 ^ k := by
  have hd : 0 < 2 ^ k := Nat.pow_pos (by omega)
  have hdm := Nat.div_add_mod m (2 ^ k)
  have hr := Nat.mod_lt m hd
  refine ⟨by unfold truncInt snum; rfl, ?_, ?_⟩
  · rw [Nat.mul_comm]; omega
  · rw [Nat.add_mul, Nat.one_mul, Nat.mul_comm]; omega

/-- rounding half away from zero: the result is within half a unit, scaled: `2·|R·D − ±m| ≤ D` -/
theorem roundInt_contract (neg : Bool) (m k : Nat) :
    2 * (roundInt neg m k * (2 ^ k : Nat) - snum neg m) ≤ (2 ^ k : Nat)
      ∧ -((2 ^ k : Nat) : Int) ≤ 2 * (roundInt neg m k * (2 ^ k : Nat) - snum neg m) := by
  have hd : 0 < 2 ^ k := Nat.pow_pos (by omega)
  obtain ⟨hm, hr, hr0, hq0, hD0⟩ := divmod_int m (2 ^ k) hd
  unfold roundInt snum
  simp only []
  have hc : 2 * (m % 2 ^ k) ≥ 2 ^ k ↔ 2 * ((m % 2 ^ k : Nat) : Int) ≥ ((2 ^ k : Nat) : Int) := by omega
  by_cases hge : 2 * (m % 2 ^ k) ≥ 2 ^ k
  · have hge' := hc.mp hge
    simp only [hge, ↓reduceIte]
    simp only [Int.natCast_add, Int.natCast_one]
    generalize ((m / 2 ^ k : Nat) : Int) = q at *
    generalize ((m % 2 ^ k : Nat) : Int) = r at *
    generalize ((2 ^ k : Nat) : Int) = D at *
    have e2 : (q + 1) * D = D * q + D := by rw [Int.add_mul, Int.one_mul, Int.mul_comm]
    have e5 : (-(q + 1)) * D = -(D * q) - D := by rw [Int.neg_mul, e2]; omega
    generalize D * q = P at *
    cases neg with
    | false => simp only [Bool.false_eq_true, ↓reduceIte]; rw [e2]; omega
    | true => simp only [↓reduceIte]; rw [e5]; omega
  · have hge' : ¬ (2 * ((m % 2 ^ k : Nat) : Int) ≥ ((2 ^ k : Nat) : Int)) := fun h => hge (hc.mpr h)
    simp only [hge, ↓reduceIte]
    generalize ((m / 2 ^ k : Nat) : Int) = q at *
    generalize ((m % 2 ^ k : Nat) : Int) = r at *
    generalize ((2 ^ k : Nat) : Int) = D at *
    have e1 : q * D = D * q := Int.mul_comm _ _
    have e3 : (-q) * D = -(D * q) := by rw [Int.neg_mul, e1]
    generalize D * q = P at *
    cases neg with
    | false => simp only [Bool.false_eq_true, ↓reduceIte]; rw [e1]; omega
    | true => simp only [↓reduceIte]; rw [e3]; omega

/-! ### magnitudes: all four integer parts of `±m/2^k`, `k ≥ 1`, `m < 2^53`, are at most `2^52` -/

private theorem q_small (m k : Nat) (hm : m < P53) (hk : 0 < k) : m / 2 ^ k + 1 ≤ P52 := by
  have h2 : 2 ≤ 2 ^ k := by
    calc 2 = 2 ^ 1 := rfl
      _ ≤ 2 ^ k := Nat.pow_le_pow_right (by omega) hk
  have hq : m / 2 ^ k ≤ m / 2 := Nat.div_le_div_left h2 (by omega)
  unfold P52 P53 at *; omega

theorem floorInt_small (neg : Bool) (m k : Nat) (hm : m < P53) (hk : 0 < k) :
    (floorInt neg m k).natAbs ≤ P52 := by
  have hq3 := q_small m k hm hk
  unfold floorInt
  generalize m / 2 ^ k = q at *
  generalize m % 2 ^ k = r at *
  simp only
  cases neg with
  | false => simp only [Bool.false_eq_true, ↓reduceIte]; omega
  | true => simp only [↓reduceIte]; split <;> omega

theorem ceilInt_small (neg : Bool) (m k : Nat) (hm : m < P53) (hk : 0 < k) :
    (ceilInt neg m k).natAbs ≤ P52 := by
  have hq3 := q_small m k hm hk
  unfold ceilInt
  generalize m / 2 ^ k = q at *
  generalize m % 2 ^ k = r at *
  simp only
  cases neg with
  | true => simp only [↓reduceIte]; omega
  | false => simp only [Bool.false_eq_true, ↓reduceIte]; split <;> omega

theorem truncInt_small (neg : Bool) (m k : Nat) (hm : m < P53) (hk : 0 < k) :
    (truncInt neg m k).natAbs ≤ P52 := by
  have hq3 := q_small m k hm hk
  unfold truncInt
  generalize m / 2 ^ k = q at *
  simp only
  cases neg with
  | true => simp only [↓reduceIte]; omega
  | false => simp only [Bool.false_eq_true, ↓reduceIte]; omega

theorem roundInt_small (neg : Bool) (m k : Nat) (hm : m < P53) (hk : 0 < k) :
    (roundInt neg m k).natAbs ≤ P52 := by
  have hq3 := q_small m k hm hk
  unfold roundInt
  generalize m / 2 ^ k = q at *
  generalize m % 2 ^ k = r at *
  simp only
  cases neg with
  | true => simp only [↓reduceIte]; split <;> omega
  | false => simp only [Bool.false_eq_true, ↓reduceIte]; split <;> omega

end F64
end Ysgo
