import Ysgo.Lemmas.MarkupPropsSim
/-!
# Replacement markers, part 1: the text a processor produces (processors.go) is the text the specification prescribes

* `ordinalCase` is the English ordinal table (`n % 10`, `n % 100`), for the natural numbers the parser can deliver also in
  Go's truncated `%`;
* `replacePlaceholders`: identity without `%`, substitution of every `%` when no backslash is around;
* `process` (model of `processNoMarkup`, `processSelect`, `processPlural`, `processOrdinal`) agrees with
  `MarkupSpec.replacement` on every property list.
-/
namespace Ysgo.Markup
open Ysgo.Unicode Ysgo.MarkupSpec
attribute [local irreducible] Unicode.isLetter Unicode.isDigit Unicode.isSpace Unicode.toLower

/-! ## The ordinal and plural case tables -/

/-- the model's case selection is the specification's -/
theorem ordinalCase_eq (n : Int) : ordinalCase n = ordinalCategory n := by
  unfold ordinalCase ordinalCategory
  by_cases h1 : n % 10 = 1 ∧ n % 100 ≠ 11
  · simp [h1]
  · by_cases h2 : n % 10 = 2 ∧ n % 100 ≠ 12
    · rw [if_neg h1, if_pos h2]
      have : ¬ ((n % 10 = 1 && n % 100 ≠ 11) = true) := by simpa using h1
      rw [if_neg this]
      have : ((n % 10 = 2 && n % 100 ≠ 12) = true) := by simpa using h2
      rw [if_pos this]
    · by_cases h3 : n % 10 = 3 ∧ n % 100 ≠ 13
      · rw [if_neg h1, if_neg h2, if_pos h3]
        have : ¬ ((n % 10 = 1 && n % 100 ≠ 11) = true) := by simpa using h1
        rw [if_neg this]
        have : ¬ ((n % 10 = 2 && n % 100 ≠ 12) = true) := by simpa using h2
        rw [if_neg this]
        have : ((n % 10 = 3 && n % 100 ≠ 13) = true) := by simpa using h3
        rw [if_pos this]
      · rw [if_neg h1, if_neg h2, if_neg h3]
        have : ¬ ((n % 10 = 1 && n % 100 ≠ 11) = true) := by simpa using h1
        rw [if_neg this]
        have : ¬ ((n % 10 = 2 && n % 100 ≠ 12) = true) := by simpa using h2
        rw [if_neg this]
        have : ¬ ((n % 10 = 3 && n % 100 ≠ 13) = true) := by simpa using h3
        rw [if_neg this]

/-- **the English ordinal table** on the numbers the parser delivers (`parseInteger` yields a natural number): 1st 21st
31st … 101st `one`, 2nd 22nd … `two`, 3rd 23rd … `few`, everything else — 11th 12th 13th, 111th … included — `other` -/
theorem ordinalCase_nat (n : Nat) :
    ordinalCase (n : Int) =
      if n % 10 = 1 ∧ n % 100 ≠ 11 then "one" else if n % 10 = 2 ∧ n % 100 ≠ 12 then "two"
      else if n % 10 = 3 ∧ n % 100 ≠ 13 then "few" else "other" := by
  rw [ordinalCase_eq]
  unfold ordinalCategory
  have e1 : ((n : Int) % 10 = 1 ∧ (n : Int) % 100 ≠ 11) ↔ (n % 10 = 1 ∧ n % 100 ≠ 11) := by omega
  have e2 : ((n : Int) % 10 = 2 ∧ (n : Int) % 100 ≠ 12) ↔ (n % 10 = 2 ∧ n % 100 ≠ 12) := by omega
  have e3 : ((n : Int) % 10 = 3 ∧ (n : Int) % 100 ≠ 13) ↔ (n % 10 = 3 ∧ n % 100 ≠ 13) := by omega
  simp only [e1, e2, e3]

/-- the same table with Go's `%` (truncated remainder, `Int.tmod`), literally the `switch` of `processOrdinal` -/
theorem ordinalCase_go (n : Nat) :
    ordinalCase (n : Int) =
      if (n : Int).tmod 10 = 1 ∧ (n : Int).tmod 100 ≠ 11 then "one"
      else if (n : Int).tmod 10 = 2 ∧ (n : Int).tmod 100 ≠ 12 then "two"
      else if (n : Int).tmod 10 = 3 ∧ (n : Int).tmod 100 ≠ 13 then "few" else "other" := by
  rw [ordinalCase_eq]
  unfold ordinalCategory
  have h10 : (n : Int).tmod 10 = (n : Int) % 10 := Int.tmod_eq_emod_of_nonneg (by omega)
  have h100 : (n : Int).tmod 100 = (n : Int) % 100 := Int.tmod_eq_emod_of_nonneg (by omega)
  rw [h10, h100]

theorem ordinalCase_one (n : Nat) : ordinalCase (n : Int) = "one" ↔ n % 10 = 1 ∧ n % 100 ≠ 11 := by
  rw [ordinalCase_nat]
  by_cases h1 : n % 10 = 1 ∧ n % 100 ≠ 11
  · simp [h1]
  · rw [if_neg h1]
    constructor
    · intro h; split at h
      · exact absurd h (by decide)
      · split at h <;> exact absurd h (by decide)
    · intro h; exact absurd h h1

theorem ordinalCase_two (n : Nat) : ordinalCase (n : Int) = "two" ↔ n % 10 = 2 ∧ n % 100 ≠ 12 := by
  rw [ordinalCase_nat]
  by_cases h1 : n % 10 = 1 ∧ n % 100 ≠ 11
  · rw [if_pos h1]
    constructor
    · intro h; exact absurd h (by decide)
    · intro h; omega
  · rw [if_neg h1]
    by_cases h2 : n % 10 = 2 ∧ n % 100 ≠ 12
    · simp [h2]
    · rw [if_neg h2]
      constructor
      · intro h; split at h <;> exact absurd h (by decide)
      · intro h; exact absurd h h2

theorem ordinalCase_few (n : Nat) : ordinalCase (n : Int) = "few" ↔ n % 10 = 3 ∧ n % 100 ≠ 13 := by
  rw [ordinalCase_nat]
  by_cases h1 : n % 10 = 1 ∧ n % 100 ≠ 11
  · rw [if_pos h1]
    constructor
    · intro h; exact absurd h (by decide)
    · intro h; omega
  · rw [if_neg h1]
    by_cases h2 : n % 10 = 2 ∧ n % 100 ≠ 12
    · rw [if_pos h2]
      constructor
      · intro h; exact absurd h (by decide)
      · intro h; omega
    · rw [if_neg h2]
      by_cases h3 : n % 10 = 3 ∧ n % 100 ≠ 13
      · simp [h3]
      · rw [if_neg h3]
        constructor
        · intro h; exact absurd h (by decide)
        · intro h; exact absurd h h3

/-- `other`: the last digit is none of 1, 2, 3, or the number ends in 11, 12, 13 -/
theorem ordinalCase_other (n : Nat) :
    ordinalCase (n : Int) = "other" ↔ (n % 10 ≠ 1 ∧ n % 10 ≠ 2 ∧ n % 10 ≠ 3) ∨ n % 100 = 11 ∨ n % 100 = 12 ∨ n % 100 = 13 := by
  rw [ordinalCase_nat]
  by_cases h1 : n % 10 = 1 ∧ n % 100 ≠ 11
  · rw [if_pos h1]
    constructor
    · intro h; exact absurd h (by decide)
    · intro h; omega
  · rw [if_neg h1]
    by_cases h2 : n % 10 = 2 ∧ n % 100 ≠ 12
    · rw [if_pos h2]
      constructor
      · intro h; exact absurd h (by decide)
      · intro h; omega
    · rw [if_neg h2]
      by_cases h3 : n % 10 = 3 ∧ n % 100 ≠ 13
      · rw [if_pos h3]
        constructor
        · intro h; exact absurd h (by decide)
        · intro h; omega
      · rw [if_neg h3]
        constructor
        · intro _; omega
        · intro _; rfl

/-! ## `strings.ReplaceAll` and the placeholder rule -/

theorem replaceAllAux_nil (old new : List Char) (k : Nat) : replaceAllAux old new [] k = [] := by
  cases k <;> rfl

/-- the skip counter of the model drops characters -/
theorem replaceAllAux_skip (old new : List Char) :
    ∀ (k : Nat) (l : List Char), replaceAllAux old new l k = replaceAllAux old new (l.drop k) 0 := by
  intro k
  induction k with
  | zero => intro l; rfl
  | succ k ih =>
    intro l
    cases l with
    | nil => simp [replaceAllAux_nil]
    | cons c cs =>
      rw [replaceAllAux, List.drop_succ_cons, ih cs]

theorem replaceAllAux_cons (old new : List Char) (c : Char) (cs : List Char) :
    replaceAllAux old new (c :: cs) 0 =
      if old.isPrefixOf (c :: cs) then new ++ replaceAllAux old new cs (old.length - 1)
      else c :: replaceAllAux old new cs 0 := by
  rw [replaceAllAux]

/-- the specification's substitution (fuel ≥ length) is the model's `strings.ReplaceAll` -/
theorem substAll_eq (old new : List Char) (ho : old ≠ []) :
    ∀ (fuel : Nat) (l : List Char), l.length ≤ fuel → substAll old new fuel l = replaceAll l old new := by
  intro fuel
  induction fuel with
  | zero =>
    intro l hl
    have : l = [] := List.eq_nil_of_length_eq_zero (by omega)
    subst this
    rfl
  | succ f ih =>
    intro l hl
    cases l with
    | nil => rfl
    | cons c cs =>
      have hol : 1 ≤ old.length := by
        cases old with
        | nil => exact absurd rfl ho
        | cons _ _ => simp
      unfold replaceAll
      rw [replaceAllAux_cons, substAll]
      split
      · rw [ih _ (by simp only [List.length_drop, List.length_cons] at hl ⊢; omega)]
        unfold replaceAll
        rw [replaceAllAux_skip old new (old.length - 1) cs]
        congr 2
        rw [show old.length = (old.length - 1) + 1 by omega, List.drop_succ_cons]
        simp
      · rw [ih _ (by simp only [List.length_cons] at hl; omega)]
        rfl

theorem valText_eq (v : PVal) : valText v = v.toStr := by
  cases v <;> rfl

/-- the specification's placeholder rule is the model's `replacePlaceholders` -/
theorem placeholders_eq (r v : String) : placeholders r.toList v.toList = (replacePlaceholders r v).toList := by
  unfold placeholders replacePlaceholders
  split
  · rfl
  · rw [substAll_eq _ _ (by simp) _ _ (Nat.le_refl _), substAll_eq _ _ (by simp) _ _ (Nat.le_refl _)]
    simp [String.toList_ofList]

/-- a replacement text without `%` is returned as it is -/
theorem replacePlaceholders_no_percent (r v : String) (h : '%' ∉ r.toList) : replacePlaceholders r v = r := by
  unfold replacePlaceholders
  have : r.toList.contains '%' = false := by simpa using h
  simp only [this, Bool.not_false, if_true]

/-- nothing to replace: `old` starts with a character that does not occur -/
theorem replaceAllAux_absent (b : Char) (old new : List Char) (l : List Char) (h : b ∉ l) :
    replaceAllAux (b :: old) new l 0 = l := by
  induction l with
  | nil => rfl
  | cons c cs ih =>
    have hc : c ≠ b := fun e => h (by simp [e])
    have hp : (b :: old).isPrefixOf (c :: cs) = false := by
      simp [List.isPrefixOf, Ne.symm hc]
    rw [replaceAllAux_cons, hp]
    simp only [Bool.false_eq_true, if_false]
    rw [ih (fun hm => h (List.mem_cons_of_mem _ hm))]

/-- replacing a one-character `old` -/
theorem replaceAllAux_single (b : Char) (new : List Char) (l : List Char) :
    replaceAllAux [b] new l 0 = l.flatMap (fun c => if c = b then new else [c]) := by
  induction l with
  | nil => rfl
  | cons c cs ih =>
    rw [replaceAllAux_cons]
    by_cases hc : c = b
    · subst hc
      simp [List.isPrefixOf, ih]
    · have : ([b] : List Char).isPrefixOf (c :: cs) = false := by simp [List.isPrefixOf, Ne.symm hc]
      rw [this]
      simp [hc, ih]

/-- **`%` substitution**: when neither the replacement text nor the value contains a backslash, every `%` is replaced by
the value and nothing else changes (also when there is no `%` at all) -/
theorem replacePlaceholders_subst (r v : String) (hr : '\\' ∉ r.toList) (hv : '\\' ∉ v.toList) :
    replacePlaceholders r v = String.ofList (r.toList.flatMap fun c => if c = '%' then v.toList else [c]) := by
  by_cases hp : '%' ∈ r.toList
  · unfold replacePlaceholders
    have : r.toList.contains '%' = true := by simpa using hp
    simp only [this, Bool.not_true, Bool.false_eq_true, if_false]
    unfold replaceAll
    rw [replaceAllAux_single, replaceAllAux_absent]
    intro hm
    simp only [List.mem_flatMap] at hm
    obtain ⟨c, hc, hm⟩ := hm
    split at hm
    · exact hv hm
    · simp only [List.mem_singleton] at hm
      exact hr (hm ▸ hc)
  · rw [replacePlaceholders_no_percent r v hp]
    have : (r.toList.flatMap fun c => if c = '%' then v.toList else [c]) = r.toList := by
      have hall : ∀ l : List Char, '%' ∉ l → (l.flatMap fun c => if c = '%' then v.toList else [c]) = l := by
        intro l
        induction l with
        | nil => intro _; rfl
        | cons c cs ih =>
          intro h
          have hc : c ≠ '%' := fun e => h (by simp [e])
          simp only [List.flatMap_cons, hc, if_false, List.singleton_append]
          rw [ih (fun hm => h (List.mem_cons_of_mem _ hm))]
      exact hall _ hp
    rw [this, String.ofList_toList]

/-- `\\%` stands for a literal `%` -/
example : replacePlaceholders "% is 100\\% of %" "7" = "7 is 100% of 7" := by decide +kernel
example : replacePlaceholders "no placeholder" "7" = "no placeholder" := by decide +kernel

/-! ## The processors -/

/-- the property `contents` a replacement marker with raw text gets -/
def contentsProp (c : Option (List Char)) : List (String × PVal) :=
  match c with
  | some r => [("contents", PVal.str (String.ofList r))]
  | none => []

theorem pick_eq (ps : List (String × PVal)) (key : String) (v : PVal) :
    ((lookup ps key).map fun r => placeholders (valText r).toList (valText v).toList) =
      (match getProp ps key with
       | none => none
       | some r => some (replacePlaceholders r.toStr v.toStr)).map String.toList := by
  rw [lookup_eq_getProp]
  cases getProp ps key with
  | none => rfl
  | some r => simp [placeholders_eq, valText_eq]

theorem map_ofList_toList (o : Option String) : (o.map String.toList).map String.ofList = o := by
  cases o <;> simp [String.ofList_toList]

/-- `MarkupSpec.replacement` as a function of the complete property list (the marker's properties and `contents`) -/
def replacementOn (name : List Char) (ps : List (String × PVal)) : Option (List Char) :=
  let pick (key : String) (v : PVal) : Option (List Char) :=
    (lookup ps key).map fun r => placeholders (valText r).toList (valText v).toList
  if name = "nomarkup".toList then some (match lookup ps "contents" with | some c => (valText c).toList | none => [])
  else if name = "select".toList then
    match lookup ps "value" with
    | some v => pick (valText v) v
    | none => none
  else if name = "plural".toList then
    match lookup ps "value" with
    | some v => match pluralCategory v with
      | some c => pick c v
      | none => none
    | none => none
  else if name = "ordinal".toList then
    match lookup ps "value" with
    | some (.int n) => pick (ordinalCategory n) (.int n)
    | _ => none
  else none

theorem replacement_eq_on (n : List Char) (ps : List (String × PVal)) (c : Option (List Char)) :
    replacement n ps c = replacementOn n (ps ++ contentsProp c) := by
  cases c <;> rfl

/-- **the processors do what the specification prescribes**, on every property list: `nomarkup` yields its contents,
`select` the case named by the value, `plural` the case `one` / `other`, `ordinal` the case of the ordinal table, each
with the placeholder rule applied; a missing `value`, a missing case or a `value` of the wrong type is an error -/
theorem process_eq_on (n : List Char) (hn : isReplName n = true) (q : List (String × PVal)) :
    process (String.ofList n) q = (replacementOn n q).map String.ofList := by
  simp only [isReplName, replNames, List.contains_cons, List.contains_nil, Bool.or_false, Bool.or_eq_true,
    beq_iff_eq] at hn
  rcases hn with rfl | rfl | rfl | rfl
  · -- nomarkup
    rw [String.ofList_toList]
    unfold process replacementOn
    simp only [beq_self_eq_true, if_true, lookup_eq_getProp]
    cases getProp q "contents" with
    | none => rfl
    | some x => simp [valText_eq, String.ofList_toList]
  · -- select
    rw [String.ofList_toList]
    unfold process replacementOn
    simp only [show ("select" == "nomarkup") = false by decide, Bool.false_eq_true, if_false,
      show ¬ ("select".toList = "nomarkup".toList) by decide, beq_self_eq_true, if_true]
    rw [lookup_eq_getProp]
    cases getProp q "value" with
    | none => rfl
    | some v =>
      simp only [pick_eq, map_ofList_toList]
      rw [valText_eq]
      cases getProp q v.toStr <;> rfl
  · -- plural
    rw [String.ofList_toList]
    unfold process replacementOn
    simp only [show ("plural" == "nomarkup") = false by decide, show ("plural" == "select") = false by decide,
      Bool.false_eq_true, if_false, show ¬ ("plural".toList = "nomarkup".toList) by decide,
      show ¬ ("plural".toList = "select".toList) by decide, beq_self_eq_true, if_true]
    rw [lookup_eq_getProp]
    cases getProp q "value" with
    | none => rfl
    | some v =>
      cases v with
      | int i =>
        simp only [pluralCategory, pick_eq, map_ofList_toList]
        cases getProp q (if i = 1 then "one" else "other") <;> rfl
      | float f =>
        simp only [pluralCategory, pick_eq, map_ofList_toList]
        cases getProp q "other" <;> rfl
      | str s => rfl
      | bool b => rfl
  · -- ordinal
    rw [String.ofList_toList]
    unfold process replacementOn
    simp only [show ("ordinal" == "nomarkup") = false by decide, show ("ordinal" == "select") = false by decide,
      show ("ordinal" == "plural") = false by decide, Bool.false_eq_true, if_false,
      show ¬ ("ordinal".toList = "nomarkup".toList) by decide, show ¬ ("ordinal".toList = "select".toList) by decide,
      show ¬ ("ordinal".toList = "plural".toList) by decide, beq_self_eq_true, if_true]
    rw [lookup_eq_getProp]
    cases getProp q "value" with
    | none => rfl
    | some v =>
      cases v with
      | int i =>
        simp only [pick_eq, map_ofList_toList, ordinalCase_eq]
        cases getProp q (ordinalCategory i) <;> rfl
      | float f => rfl
      | str s => rfl
      | bool b => rfl

theorem process_eq (n : List Char) (hn : isReplName n = true) (ps : List (String × PVal)) (c : Option (List Char)) :
    process (String.ofList n) (ps ++ contentsProp c) = (replacement n ps c).map String.ofList := by
  rw [replacement_eq_on, process_eq_on n hn]

end Ysgo.Markup
