import Ysgo.Lemmas.RankedExec
import Ysgo.Lemmas.FuelNext
/-!
# Ranked programs: the early phase of a node, the induction on the fuel, soundness of the checker

Within one call of `Next`, after a successful jump into a node of rank `k` the runner is in the *early phase* of that
node: the unread part of every queue on the stack is `safeStmts … k`, and no choice is expected. Every silent iteration
either strictly decreases the early size of the stack and stays in the early phase of rank `k`, or is a jump into a node of
rank `< k`. The potential `k * maxEarly p + earlyStack` strictly decreases.
-/
namespace Ysgo.Ranked
open Ysgo Ysgo.Fuel
set_option linter.unusedSimpArgs false

/-- the unread part of every queue is safe at rank `k` -/
def SafeStack (p : Program) (rk : String → Nat) (k : Nat) (s : List SQ) : Prop :=
  ∀ q, q ∈ s → safeStmts p rk k q.rest = true

/-- the stack right after a jump into a node of a ranked program is in the early phase of the rank of that node -/
theorem safeStack_node {p : Program} {rk : String → Nat} (hr : Ranked p rk = true) {n : Node} (hn : n ∈ p) :
    SafeStack p rk (rk n.title) [⟨n.body, 0⟩] := by
  intro q hq
  simp only [List.mem_singleton] at hq
  subst hq
  exact Ranked.of_mem hr hn

theorem earlyStack_node (p : Program) {n : Node} (hn : n ∈ p) : earlyStack [⟨n.body, 0⟩] ≤ maxEarly p := by
  have := maxEarly_mem hn
  simp only [earlyStack, SQ.rest, List.drop_zero]
  omega

section
variable {σ π μ : Type}

/-- one silent iteration in the early phase of rank `k`: no choice becomes expected, and either the early size of the
stack shrinks and the phase continues, or a node of rank `< k` is entered (by a jump, which counted for 2) -/
theorem step_silent_early {env : Env σ} {mk : Markup π μ} {p : Program} {rk : String → Nat} {k c : Nat} {s s' : List SQ}
    {w' : Option (List (List Stmt))} (h : Step env mk p c s none s' w' none) (hs : SafeStack p rk k s) :
    w' = none ∧ ((earlyStack s' < earlyStack s ∧ SafeStack p rk k s') ∨
                 (∃ n, n ∈ p ∧ rk n.title < k ∧ s' = [⟨n.body, 0⟩] ∧ 2 ≤ earlyStack s)) := by
  cases h with
  | pop q rest hq =>
    refine ⟨rfl, .inl ⟨?_, fun q0 hq0 => hs q0 (List.mem_cons_of_mem _ hq0)⟩⟩
    simp only [earlyStack]
    omega
  | exec q rest st d d' ctl _ hq he =>
    have hsil := exec_silent env mk p d d' st ctl he
    have hr := rest_of_some q st hq
    have hw : waitAfter (μ := μ) none st = none := by simp [waitAfter]
    have hq0 : safeStmts p rk k (st :: SQ.rest { q with ptr := q.ptr + 1 }) = true := by
      rw [← hr]; exact hs q List.mem_cons_self
    refine ⟨hw, ?_⟩
    cases hsil with
    | next hqt =>
      left
      have := earlyStmt_pos st
      refine ⟨by simp only [applyCtlR, earlyStack, hr, earlyBody_quiet hqt]; omega, ?_⟩
      intro q1 hq1
      simp only [applyCtlR] at hq1
      rcases List.mem_cons.1 hq1 with h1 | h1
      · subst h1; exact safeStmts_quiet hqt hq0
      · exact hs q1 (List.mem_cons_of_mem _ h1)
    | push cs cnd b hst hm =>
      left
      subst hst
      have hsz := earlyClauses_mem hm
      have hb0 : SQ.rest ⟨b, 0⟩ = b := rfl
      obtain ⟨hcl, hss⟩ := safeStmts_ifs hq0
      refine ⟨by simp only [applyCtlR, earlyStack, hr, hb0, earlyBody_quiet (s := .ifs cs) rfl, earlyStmt] at hsz ⊢; omega, ?_⟩
      intro q1 hq1
      simp only [applyCtlR] at hq1
      rcases List.mem_cons.1 hq1 with h1 | h1
      · subst h1; rw [hb0]; exact safeClauses_mem hcl hm
      · rcases List.mem_cons.1 h1 with h2 | h2
        · subst h2; exact hss
        · exact hs q1 (List.mem_cons_of_mem _ h2)
    | goto e t n w1 hst hev hf =>
      right
      subst hst
      refine ⟨n, find_mem hf, jumpOk_taken (safeStmts_jump hq0) hev hf, rfl, ?_⟩
      simp only [earlyStack, hr, earlyBody_jump]
      omega

/-- a silent iteration is only possible from a state of positive measure -/
theorem step_silent_pos {env : Env σ} {mk : Markup π μ} {p : Program} {c : Nat} {s s' : List SQ}
    {w w' : Option (List (List Stmt))} (h : Step env mk p c s w s' w' none) : 1 ≤ stackSize s + waitSize w := by
  cases h with
  | choose _ bodies b hb hl => simp only [waitSize]; omega
  | chooseEmpty _ bodies b hb hl => simp only [waitSize]; omega
  | pop q rest hq => simp only [stackSize]; omega
  | exec q rest st d d' ctl _ hq he => simp only [stackSize]; omega

/-- the induction for the early phase: the potential `k * maxEarly p + earlyStack` (+1) is enough fuel -/
theorem next_fuel_early (env : Env σ) (mk : Markup π μ) (p : Program) (rk : String → Nat) (hr : Ranked p rk = true)
    (c : Nat) : ∀ (f : Nat) (r : R σ π) (k : Nat), SafeStack p rk k r.stack → r.waiting = none →
      k * maxEarly p + earlyStack r.stack + 1 ≤ f → (r.next env mk p f c).2 ≠ .fuel
  | 0, r, k, _, _, h => by omega
  | f + 1, r, k, hs, hw, h => by
    have hst := micro_step env mk p r c
    unfold R.next
    cases hm : r.micro env mk p c with
    | mk r1 o1 =>
      rw [hm] at hst
      cases o1 with
      | some out => simp
      | none =>
        simp only at hst ⊢
        rw [hw] at hst
        obtain ⟨hw1, hcase⟩ := step_silent_early hst hs
        rcases hcase with ⟨hlt, hs1⟩ | ⟨n, hn, hlt, hs1, h2⟩
        · exact next_fuel_early env mk p rk hr c f r1 k hs1 hw1 (by omega)
        · have hsz := earlyStack_node p hn
          have hsafe := safeStack_node hr hn
          rw [← hs1] at hsz hsafe
          have hmul : (rk n.title + 1) * maxEarly p ≤ k * maxEarly p := Nat.mul_le_mul_right _ hlt
          rw [Nat.add_mul, Nat.one_mul] at hmul
          exact next_fuel_early env mk p rk hr c f r1 (rk n.title) hsafe hw1 (by omega)

/-- the induction from an arbitrary state: until the first jump the measure of `FuelStep` decreases; the first jump
enters the early phase of a node of rank `≤ maxRank` -/
theorem next_fuel_ranked (env : Env σ) (mk : Markup π μ) (p : Program) (rk : String → Nat) (hr : Ranked p rk = true)
    (c : Nat) : ∀ (f : Nat) (r : R σ π), msr r + (maxRank rk p + 1) * maxEarly p + 1 ≤ f →
      (r.next env mk p f c).2 ≠ .fuel
  | 0, r, h => by omega
  | f + 1, r, h => by
    have hst := micro_step env mk p r c
    unfold R.next
    cases hm : r.micro env mk p c with
    | mk r1 o1 =>
      rw [hm] at hst
      cases o1 with
      | some out => simp
      | none =>
        simp only at hst ⊢
        have hpos := step_silent_pos hst
        rcases step_silent_measure hst with hlt | ⟨hw1, n, hn, hs1⟩
        · exact next_fuel_ranked env mk p rk hr c f r1 (by unfold msr at h ⊢; omega)
        · have hsz := earlyStack_node p hn
          have hsafe := safeStack_node hr hn
          rw [← hs1] at hsz hsafe
          have hk := maxRank_mem (rk := rk) hn
          have hmul : rk n.title * maxEarly p ≤ maxRank rk p * maxEarly p := Nat.mul_le_mul_right _ hk
          rw [Nat.add_mul, Nat.one_mul] at h
          unfold msr at h
          exact next_fuel_early env mk p rk hr c f r1 (rk n.title) hsafe hw1 (by omega)

/-- a whole session from a reachable state, every call with fuel `rankedBound p rk` -/
theorem session_no_fuel_ranked (env : Env σ) (mk : Markup π μ) (p : Program) (rk : String → Nat) (hr : Ranked p rk = true) :
    ∀ (cs : List Nat) (r : R σ π), Reach p r → ∀ x, x ∈ session env mk p (rankedBound p rk) r cs → x ≠ .fuel
  | [], r, h, x, hx => by cases hx
  | c :: cs, r, h, x, hx => by
    simp only [session, List.mem_cons] at hx
    rcases hx with hx | hx
    · rw [hx]
      have := reach_msr h
      refine next_fuel_ranked env mk p rk hr c (rankedBound p rk) r ?_
      unfold rankedBound
      omega
    · exact session_no_fuel_ranked env mk p rk hr cs _ (next_reach env mk p c _ r h) x hx

end

/-! ### the checker is sound (it checks its own result) -/

theorem rankTable_sound {p : Program} {l : List (String × Nat)} (h : rankTable p = some l) : Ranked p (tableFn l) = true := by
  unfold rankTable at h
  split at h
  · split at h
    · rename_i hr
      simp only [Option.some.injEq] at h
      subst h
      exact hr
    · cases h
  · cases h

theorem rankOf_sound {p : Program} {rk : String → Nat} (h : rankOf p = some rk) : Ranked p rk = true := by
  unfold rankOf at h
  cases ht : rankTable p with
  | none => rw [ht] at h; cases h
  | some l =>
    rw [ht] at h
    simp only [Option.map_some, Option.some.injEq] at h
    subst h
    exact rankTable_sound ht

end Ysgo.Ranked
