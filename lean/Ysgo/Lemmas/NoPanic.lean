import Ysgo.Model.Runner
/-! helper lemmas for C06: nothing in the evaluator, the built-ins or the statement executor panics -/
namespace Ysgo
set_option linter.unusedSimpArgs false

theorem clamp_range (i : Int) :
    -(P63 : Int) ≤ (if i ≥ (P63 : Int) ∨ i < -(P63 : Int) then -(P63 : Int) else i) ∧
    (if i ≥ (P63 : Int) ∨ i < -(P63 : Int) then -(P63 : Int) else i) < (P63 : Int) := by
  have hH : (0 : Int) < (P63 : Int) := by unfold P63; omega
  split
  · omega
  · rename_i h; omega

theorem toInt64_range (x : F64) : -(P63 : Int) ≤ x.toInt64 ∧ x.toInt64 < (P63 : Int) := by
  unfold F64.toInt64
  split
  · exact clamp_range _
  · have hH : (0 : Int) < (P63 : Int) := by unfold P63; omega
    omega

theorem wrap64_id (i : Int) (h1 : -(P63 : Int) ≤ i) (h2 : i < (P63 : Int)) : Rng.wrap64 i = i := by
  unfold Rng.wrap64
  have hM : (P64 : Int) = 2 * (P63 : Int) := by unfold P63 P64; omega
  have hH : (0 : Int) < (P63 : Int) := by unfold P63; omega
  by_cases h : 0 ≤ i
  · have : i % (P64 : Int) = i := Int.emod_eq_of_lt h (by omega)
    simp only [this]; split <;> omega
  · have : i % (P64 : Int) = i + (P64 : Int) := by
      have h3 := Int.add_mul_emod_self_left i (P64 : Int) 1
      rw [Int.mul_one] at h3
      rw [← h3, Int.emod_eq_of_lt (by omega) (by omega)]
    simp only [this]; split <;> omega

theorem intn_pos_no_panic (g : Rng.Src) (n : Int) (h : 0 < n) : Rng.intn g n ≠ .panic := by
  unfold Rng.intn
  have : ¬ n ≤ 0 := by omega
  simp only [this, if_false]
  split <;> simp

theorem intBetween_no_panic (g : Rng.Src) (lo hi : Int) (h : 0 < Rng.wrap64 (hi - lo + 1)) :
    Rng.intBetween g lo hi ≠ .panic := by
  unfold Rng.intBetween
  have := intn_pos_no_panic g _ h
  split <;> simp_all

/-- the built-in functions never panic, whatever their arguments -/
theorem builtin_no_panic (vis : Map Nat) (f : String) (args : List Value) (g : Rng.Src) (q : PanicSite) :
    (builtin vis f args g).1 ≠ .panic q := by
  unfold builtin
  split
  · split <;> simp
  · split
    · simp
    · simp
    · split <;> simp
    · simp
  · split
    · simp
    · simp
    · split <;> simp
    · simp
  · -- dice
    split
    · rename_i x
      simp only
      split
      · simp
      · rename_i hs
        have hr := toInt64_range x
        have hpos : 0 < Rng.wrap64 (x.toInt64 - 1 + 1) := by
          have : x.toInt64 - 1 + 1 = x.toInt64 := by omega
          rw [this, wrap64_id _ hr.1 hr.2]; omega
        have := intBetween_no_panic g 1 x.toInt64 hpos
        split <;> simp_all
    · simp
    · simp
  · split
    · split <;> simp
    · simp
  · -- random_range
    split
    · rename_i a b
      simp only
      split
      · simp
      · rename_i hs
        have ha := toInt64_range a
        have hb := toInt64_range b
        have hpos : 0 < Rng.wrap64 (b.toInt64 - a.toInt64 + 1) := by
          simp only [not_or, Int.not_lt] at hs
          obtain ⟨h1, h2, h3⟩ := hs
          have hd : 0 ≤ b.toInt64 - a.toInt64 := by omega
          by_cases hbig : b.toInt64 - a.toInt64 < (P63 : Int)
          · have hw := wrap64_id (b.toInt64 - a.toInt64) (by unfold P63 at *; omega) hbig
            rw [hw] at h3
            unfold maxInt at h3
            have : b.toInt64 - a.toInt64 + 1 < (P63 : Int) := by unfold P63 at *; omega
            rw [wrap64_id _ (by unfold P63 at *; omega) this]; omega
          · -- the span wraps to a negative number: excluded by the guard
            exfalso
            have hlt : b.toInt64 - a.toInt64 < (P64 : Int) := by unfold P63 P64 at *; omega
            unfold Rng.wrap64 at h2
            have hm : (b.toInt64 - a.toInt64) % (P64 : Int) = b.toInt64 - a.toInt64 := Int.emod_eq_of_lt hd hlt
            rw [hm] at h2
            simp only at h2
            have : (b.toInt64 - a.toInt64) ≥ (P63 : Int) := by omega
            simp only [this, if_true] at h2
            unfold P63 P64 at *; omega
        have := intBetween_no_panic g a.toInt64 b.toInt64 hpos
        split <;> simp_all
    · simp
    · simp
  all_goals first
    | (unfold conv1; split <;> simp)
    | (split <;> simp)
    | simp

section
variable {σ : Type}

/-- the host: registered functions and commands do not themselves panic -/
def EnvNoPanic (env : Env σ) : Prop :=
  (∀ f vs h q, (env.call f vs h).1 ≠ .panic q) ∧ (∀ n vs h, (env.cmd n vs h).1 ≠ .panicked)

theorem callFn_no_panic (env : Env σ) (hn : EnvNoPanic env) (vis : Map Nat) (f : String) (args : List Value) (w : W σ)
    (q : PanicSite) : (callFn env vis f args w).1 ≠ .panic q := by
  unfold callFn
  split
  · have := hn.1 f args w.host q
    cases hc : env.call f args w.host with
    | mk r h => simp only; rw [hc] at this; exact this
  · split
    · have := builtin_no_panic vis f args w.rng q
      cases hb : builtin vis f args w.rng with
      | mk r g => simp only; rw [hb] at this; exact this
    · simp

theorem lazyTest_ne_panic (op : BinOp) (a : Value) (res : Outcome Value) (q : PanicSite)
    (h : lazyTest op a = some res) : res ≠ .panic q := by
  cases op <;> cases a <;> simp [lazyTest] at h <;> first
    | (subst h; simp)
    | (rename_i b; cases b <;> simp at h <;> subst h <;> simp)

theorem binAfter_ne_panic (op : BinOp) (a b : Value) (q : PanicSite) : binAfter op a b ≠ .panic q := by
  unfold binAfter
  split
  · simp
  · cases op <;> cases a <;> cases b <;> simp [binSwitch, numBin, numCmp, Value.ty] at *

mutual
theorem eval_no_panic (env : Env σ) (hn : EnvNoPanic env) (st : Store) (vis : Map Nat) :
    ∀ (e : Expr) (w : W σ) (q : PanicSite), (eval env st vis e w).1 ≠ .panic q
  | .lit v, w, q => by simp [eval]
  | .null, w, q => by simp [eval]
  | .var n, w, q => by simp only [eval]; split <;> simp
  | .call f args, w, q => by
    have ih := evalArgs_no_panic env hn st vis args w
    simp only [eval]
    cases hea : evalArgs env st vis args w with
    | mk o w' =>
      cases o with
      | ok vs =>
        simp only
        have := callFn_no_panic env hn vis f vs w'
        cases hc : callFn env vis f vs w' with
        | mk o2 w2 =>
          cases o2 with
          | ok ov => cases ov <;> simp
          | err k => simp
          | panic q' => exact absurd (by rw [hc]) (this q')
      | err k => simp
      | panic q' => exact absurd (by rw [hea]) (ih q')
  | .neg e, w, q => by
    have ih := eval_no_panic env hn st vis e w
    simp only [eval]
    cases he : eval env st vis e w with
    | mk o w' =>
      cases o with
      | ok v => cases v <;> simp
      | err k => simp
      | panic q' => exact absurd (by rw [he]) (ih q')
  | .not e, w, q => by
    have ih := eval_no_panic env hn st vis e w
    simp only [eval]
    cases he : eval env st vis e w with
    | mk o w' =>
      cases o with
      | ok v => cases v <;> simp
      | err k => simp
      | panic q' => exact absurd (by rw [he]) (ih q')
  | .bin op l r, w, q => by
    have ihl := eval_no_panic env hn st vis l w
    simp only [eval]
    cases hl : eval env st vis l w with
    | mk o w' =>
      cases o with
      | ok a =>
        simp only
        cases hz : lazyTest op a with
        | some res =>
          simp only
          exact lazyTest_ne_panic op a res q hz
        | none =>
          have ihr := eval_no_panic env hn st vis r w'
          simp only
          cases hr : eval env st vis r w' with
          | mk o2 w2 =>
            cases o2 with
            | ok b => simp only; exact binAfter_ne_panic op a b q
            | err k => simp
            | panic q' => exact absurd (by rw [hr]) (ihr q')
      | err k => simp
      | panic q' => exact absurd (by rw [hl]) (ihl q')
theorem evalArgs_no_panic (env : Env σ) (hn : EnvNoPanic env) (st : Store) (vis : Map Nat) :
    ∀ (es : List Expr) (w : W σ) (q : PanicSite), (evalArgs env st vis es w).1 ≠ .panic q
  | [], w, q => by simp [evalArgs]
  | e :: es, w, q => by
    have ih1 := eval_no_panic env hn st vis e w
    simp only [evalArgs]
    cases he : eval env st vis e w with
    | mk o w' =>
      cases o with
      | ok v =>
        have ih2 := evalArgs_no_panic env hn st vis es w'
        simp only
        cases hes : evalArgs env st vis es w' with
        | mk o2 w2 =>
          cases o2 with
          | ok vs => simp
          | err k => simp
          | panic q' => exact absurd (by rw [hes]) (ih2 q')
      | err k => simp
      | panic q' => exact absurd (by rw [he]) (ih1 q')
end

end
end Ysgo

namespace Ysgo
set_option linter.unusedSimpArgs false
section
variable {σ π μ : Type}

/-- the markup pass does not panic -/
def MarkupNoPanic (mk : Markup π μ) : Prop := ∀ ms s q, (mk.parse ms s).2 ≠ .panic q

theorem renderElems_no_panic (env : Env σ) (hn : EnvNoPanic env) (st : Store) (vis : Map Nat) :
    ∀ (es : List (String ⊕ Expr)) (w : W σ) (q : PanicSite), (renderElems env st vis es w).1 ≠ .panic q
  | [], w, q => by simp [renderElems]
  | .inl s :: es, w, q => by
    have ih := renderElems_no_panic env hn st vis es w
    simp only [renderElems]
    cases h : renderElems env st vis es w with
    | mk o w' =>
      cases o with
      | ok t => simp
      | err k => simp
      | panic q' => exact absurd (by rw [h]) (ih q')
  | .inr e :: es, w, q => by
    have ih1 := eval_no_panic env hn st vis e w
    simp only [renderElems]
    cases he : eval env st vis e w with
    | mk o w' =>
      cases o with
      | ok v =>
        have ih := renderElems_no_panic env hn st vis es w'
        simp only
        cases h : renderElems env st vis es w' with
        | mk o2 w2 =>
          cases o2 with
          | ok t => simp
          | err k => simp
          | panic q' => exact absurd (by rw [h]) (ih q')
      | err k => simp
      | panic q' => exact absurd (by rw [he]) (ih1 q')

theorem renderLine_no_panic (env : Env σ) (hn : EnvNoPanic env) (mk : Markup π μ) (hm : MarkupNoPanic mk) (st : Store)
    (vis : Map Nat) (l : LineSpec) (w : W σ) (ms : π) (q : PanicSite) : (renderLine env mk st vis l w ms).1 ≠ .panic q := by
  have h1 := renderElems_no_panic env hn st vis l.elems w
  unfold renderLine
  cases he : renderElems env st vis l.elems w with
  | mk o w' =>
    cases o with
    | ok t =>
      simp only
      have := hm ms t
      cases hp : mk.parse ms t with
      | mk ms' o2 =>
        cases o2 with
        | ok r => simp
        | err k => simp
        | panic q' => exact absurd (by rw [hp]) (this q')
    | err k => simp
    | panic q' => exact absurd (by rw [he]) (h1 q')

theorem renderOptions_no_panic (env : Env σ) (hn : EnvNoPanic env) (mk : Markup π μ) (hm : MarkupNoPanic mk) (st : Store)
    (vis : Map Nat) : ∀ (os : List (LineSpec × List Stmt)) (w : W σ) (ms : π) (q : PanicSite),
      (renderOptions env mk st vis os w ms).1 ≠ .panic q
  | [], w, ms, q => by simp [renderOptions]
  | (l, b) :: os, w, ms, q => by
    have h1 := renderLine_no_panic env hn mk hm st vis l w ms
    simp only [renderOptions]
    cases hl : renderLine env mk st vis l w ms with
    | mk o rest =>
      obtain ⟨w', ms'⟩ := rest
      cases o with
      | ok t =>
        simp only
        cases hc : l.cond with
        | none =>
          simp only
          have ih := renderOptions_no_panic env hn mk hm st vis os w' ms'
          cases hr : renderOptions env mk st vis os w' ms' with
          | mk o2 rest2 =>
            cases o2 with
            | ok r => simp
            | err k => simp
            | panic q' => exact absurd (by rw [hr]) (ih q')
        | some c =>
          simp only
          have h2 := eval_no_panic env hn st vis c w'
          cases hev : eval env st vis c w' with
          | mk o3 w3 =>
            cases o3 with
            | ok v =>
              cases v with
              | bool bb =>
                simp only
                have ih := renderOptions_no_panic env hn mk hm st vis os w3 ms'
                cases hr : renderOptions env mk st vis os w3 ms' with
                | mk o2 rest2 =>
                  cases o2 with
                  | ok r => simp
                  | err k => simp
                  | panic q' => exact absurd (by rw [hr]) (ih q')
              | num x => simp
              | str s => simp
            | err k => simp
            | panic q' => exact absurd (by rw [hev]) (h2 q')
      | err k => simp
      | panic q' => exact absurd (by rw [hl]) (h1 q')

theorem firstTrue_no_panic (env : Env σ) (hn : EnvNoPanic env) (st : Store) (vis : Map Nat) :
    ∀ (cs : List (Expr × List Stmt)) (w : W σ) (q : PanicSite), (firstTrue env st vis cs w).1 ≠ .panic q
  | [], w, q => by simp [firstTrue]
  | (c, b) :: cs, w, q => by
    have h1 := eval_no_panic env hn st vis c w
    simp only [firstTrue]
    cases he : eval env st vis c w with
    | mk o w' =>
      cases o with
      | ok v =>
        cases v with
        | bool bb =>
          cases bb with
          | true => simp
          | false => simp only; exact firstTrue_no_panic env hn st vis cs w' q
        | num x => simp
        | str s => simp
      | err k => simp
      | panic q' => exact absurd (by rw [he]) (h1 q')

/-- no statement panics -/
theorem exec_no_panic (env : Env σ) (hn : EnvNoPanic env) (mk : Markup π μ) (hm : MarkupNoPanic mk) (p : Program)
    (d : Data σ π) (st : Stmt) (q : PanicSite) : (exec env mk p d st).2.2 ≠ some (.panic q) := by
  cases st with
  | line l =>
    have h := renderLine_no_panic env hn mk hm d.store d.visited l d.w d.ms
    simp only [exec]
    cases hr : renderLine env mk d.store d.visited l d.w d.ms with
    | mk o rest =>
      cases o with
      | ok t => simp
      | err k => simp
      | panic q' => exact absurd (by rw [hr]) (h q')
  | opts os =>
    have h := renderOptions_no_panic env hn mk hm d.store d.visited os d.w d.ms
    simp only [exec]
    cases hr : renderOptions env mk d.store d.visited os d.w d.ms with
    | mk o rest =>
      cases o with
      | ok t => simp
      | err k => simp
      | panic q' => exact absurd (by rw [hr]) (h q')
  | set v op e =>
    have h := eval_no_panic env hn d.store d.visited e d.w
    simp only [exec]
    cases hr : eval env d.store d.visited e d.w with
    | mk o w' =>
      cases o with
      | ok x =>
        simp only
        cases ha : applyAssign op (d.store.get v) x with
        | ok nv => simp
        | err k => simp
        | panic q' =>
          exfalso
          unfold applyAssign at ha
          split at ha
          · split at ha
            · cases ha
            · split at ha <;> cases ha
          · split at ha <;> cases ha
      | err k => simp
      | panic q' => exact absurd (by rw [hr]) (h q')
  | jump e =>
    have h := eval_no_panic env hn d.store d.visited e d.w
    simp only [exec]
    cases hr : eval env d.store d.visited e d.w with
    | mk o w' =>
      cases o with
      | ok x =>
        cases x with
        | str t => simp only; cases hf : p.find t <;> simp
        | num x => simp
        | bool b => simp
      | err k => simp
      | panic q' => exact absurd (by rw [hr]) (h q')
  | ifs cs =>
    have h := firstTrue_no_panic env hn d.store d.visited cs d.w
    simp only [exec]
    cases hr : firstTrue env d.store d.visited cs d.w with
    | mk o w' =>
      cases o with
      | ok ob => cases ob <;> simp
      | err k => simp
      | panic q' => exact absurd (by rw [hr]) (h q')
  | cmd elems =>
    cases elems with
    | nil => simp [exec]
    | cons e es =>
      have h := evalArgs_no_panic env hn d.store d.visited (e :: es) d.w
      simp only [exec]
      cases hr : evalArgs env d.store d.visited (e :: es) d.w with
      | mk o w' =>
        cases o with
        | ok vs =>
          cases vs with
          | nil => simp
          | cons v vs' =>
            cases v with
            | str name =>
              simp only
              split
              · simp
              · have hc := hn.2 name vs' w'.host
                cases hcc : env.cmd name vs' w'.host with
                | mk co h' =>
                  cases co with
                  | panicked => exact absurd (by rw [hcc]) hc
                  | done => simp
                  | failed => simp
                  | pending => simp
                  | unknown => simp
            | num x => simp
            | bool b => simp
        | err k => simp
        | panic q' => exact absurd (by rw [hr]) (h q')
  | call f args =>
    have h := evalArgs_no_panic env hn d.store d.visited args d.w
    simp only [exec]
    cases hr : evalArgs env d.store d.visited args d.w with
    | mk o w' =>
      cases o with
      | ok vs =>
        simp only
        have hc := callFn_no_panic env hn d.visited f vs w'
        cases hcc : callFn env d.visited f vs w' with
        | mk o2 w2 =>
          cases o2 with
          | ok ov => simp
          | err k => simp
          | panic q' => exact absurd (by rw [hcc]) (hc q')
      | err k => simp
      | panic q' => exact absurd (by rw [hr]) (h q')
  | empty => simp [exec]

theorem poll_no_panic (d : Data σ π) (q : PanicSite) : (poll (μ := μ) d).2 ≠ some (.panic q) := by
  unfold poll
  split
  · simp
  · simp
  · split <;> simp

end
end Ysgo
