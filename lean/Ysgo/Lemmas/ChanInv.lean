import Ysgo.Lemmas.ChanBasic
/-!
# Channel-level mailbox: the invariant of the reachable states and its preservation by every event

Under the facts `Cfg.Good` (per-call channels with room for one value): every goroutine of the library that has not
sent yet owns its channel alone, and that channel is open, empty, and has room — so its single send can never block or
panic, whatever the runner (polls, restores) and the other goroutines do in between.
-/
namespace Ysgo.Chan
open Sys

/-- open, empty, with room for one value -/
def Chan.Fresh (c : Chan) : Prop := c.buf = [] ∧ c.sendq = [] ∧ c.closed = false ∧ 1 ≤ c.cap

theorem Chan.Fresh.avail {c : Chan} (h : c.Fresh) : c.avail = none :=
  (Chan.avail_none_iff c).2 ⟨h.1, h.2.1, h.2.2.1⟩

structure Inv (s : Sys) : Prop where
  chanLt : ∀ (g : Nat) (x : G) (ch : Nat), s.gs[g]? = some x → x.chan = some ch → ch < s.heap.length
  libFresh : ∀ (g : Nat) (x : G) (ch : Nat), s.gs[g]? = some x → x.libActive = some ch →
    ∃ c : Chan, s.heap[ch]? = some c ∧ c.Fresh
  libAlone : ∀ (g g' : Nat) (x x' : G) (ch : Nat), g ≠ g' → s.gs[g]? = some x → s.gs[g']? = some x' →
    x.libActive = some ch → x'.chan ≠ some ch
  noLibParked : ∀ (g ch : Nat), s.gs[g]? ≠ some (G.libParked ch)
  errLt : ∀ ch : Nat, s.errChan = some ch → ch < s.heap.length
  notBlocked : s.status ≠ .blocked
  sharedNil : s.shared = []

theorem Inv.init : Inv Sys.init := by
  constructor <;> simp [Sys.init]

/-- a change of channels and goroutine states that neither moves a goroutine to another channel, nor revives a
goroutine of the library, nor touches the channel of one that has not sent yet -/
theorem Inv.frame {s : Sys} (hi : Inv s) (heap' : List Chan) (gs' : List G) (st : Status)
    (h1 : heap'.length = s.heap.length)
    (h3 : ∀ (g : Nat) (x' : G), gs'[g]? = some x' → ∃ x : G, s.gs[g]? = some x ∧ (x'.chan = x.chan ∨ x'.chan = none)
            ∧ (x'.libActive = x.libActive ∨ x'.libActive = none) ∧ ∀ ch, x' ≠ G.libParked ch)
    (h4 : ∀ (g : Nat) (x' : G) (ch : Nat), gs'[g]? = some x' → x'.libActive = some ch → heap'[ch]? = s.heap[ch]?)
    (hst : st ≠ .blocked) :
    Inv { s with heap := heap', gs := gs', status := st } := by
  constructor
  · intro g x' ch hx hc
    obtain ⟨x, hx0, hch, -, -⟩ := h3 g x' hx
    simp only [h1]
    rcases hch with hch | hch
    · exact hi.chanLt g x ch hx0 (hch ▸ hc)
    · rw [hch] at hc; cases hc
  · intro g x' ch hx ha
    obtain ⟨x, hx0, -, hla, -⟩ := h3 g x' hx
    rcases hla with hla | hla
    · obtain ⟨c, hc, hf⟩ := hi.libFresh g x ch hx0 (hla ▸ ha)
      exact ⟨c, by simp only; rw [h4 g x' ch hx ha]; exact hc, hf⟩
    · rw [hla] at ha; cases ha
  · intro g g' x' y' ch hne hx hy ha hc
    obtain ⟨x, hx0, -, hla, -⟩ := h3 g x' hx
    obtain ⟨y, hy0, hch, -, -⟩ := h3 g' y' hy
    rcases hla with hla | hla
    · rcases hch with hch | hch
      · exact hi.libAlone g g' x y ch hne hx0 hy0 (hla ▸ ha) (hch ▸ hc)
      · rw [hch] at hc; cases hc
    · rw [hla] at ha; cases ha
  · intro g ch hx
    obtain ⟨x, -, -, -, hnp⟩ := h3 g _ hx
    exact hnp ch rfl
  · intro ch he
    simp only [h1]
    exact hi.errLt ch he
  · exact hst
  · exact hi.sharedNil

/-! ### goroutine steps -/

/-- `goCore` by the state of the goroutine -/
theorem goCore_running {heap : List Chan} {gs : List G} {g ch : Nat} {res : Val} (h : gs[g]? = some (.running ch res)) :
    goCore heap gs g = (heap, gs.set g (.atSend ch res), false) := by
  simp only [goCore, h]

theorem goCore_sleeping {heap : List Chan} {gs : List G} {g ch : Nat} (h : gs[g]? = some (.sleeping ch)) :
    goCore heap gs g = (heap, gs.set g (.atSend ch false), false) := by
  simp only [goCore, h]

theorem goCore_idle {heap : List Chan} {gs : List G} {g : Nat}
    (h : gs[g]? = none ∨ gs[g]? = some .libDone ∨ (∃ ch, gs[g]? = some (.libParked ch)) ∨
      (∃ ch acts, gs[g]? = some (.hostParked ch acts)) ∨ (∃ ch, gs[g]? = some (.host ch []))) :
    goCore heap gs g = (heap, gs, false) := by
  rcases h with h | h | ⟨ch, h⟩ | ⟨ch, acts, h⟩ | ⟨ch, h⟩ <;> simp only [goCore, h]

theorem goCore_atSend' {heap : List Chan} {gs : List G} {g ch : Nat} {v : Val} (h : gs[g]? = some (.atSend ch v)) :
    goCore heap gs g = match heap[ch]? with
      | none => (heap, gs, false)
      | some c =>
        match c.send g v with
        | .sent c' => (heap.set ch c', gs.set g .libDone, false)
        | .parked c' => (heap.set ch c', gs.set g (.libParked ch), false)
        | .panic => (heap, gs, true) := by
  simp only [goCore, h]
  cases heap[ch]? with
  | none => rfl
  | some c => simp only; cases c.send g v <;> rfl

theorem goCore_hostSend {heap : List Chan} {gs : List G} {g ch : Nat} {v : Val} {acts : List HostAct}
    (h : gs[g]? = some (.host ch (.send v :: acts))) :
    goCore heap gs g = match heap[ch]? with
      | none => (heap, gs, false)
      | some c =>
        match c.send g v with
        | .sent c' => (heap.set ch c', gs.set g (.host ch acts), false)
        | .parked c' => (heap.set ch c', gs.set g (.hostParked ch acts), false)
        | .panic => (heap, gs, true) := by
  simp only [goCore, h]
  cases heap[ch]? with
  | none => rfl
  | some c => simp only; cases c.send g v <;> rfl

theorem goCore_hostClose {heap : List Chan} {gs : List G} {g ch : Nat} {acts : List HostAct}
    (h : gs[g]? = some (.host ch (.close :: acts))) :
    goCore heap gs g = match heap[ch]? with
      | none => (heap, gs, false)
      | some c =>
        match c.close with
        | .closed c' => (heap.set ch c', gs.set g (.host ch acts), false)
        | .panic => (heap, gs, true) := by
  simp only [goCore, h]
  cases heap[ch]? with
  | none => rfl
  | some c => simp only; cases c.close <;> rfl

theorem goCore_atSend {s : Sys} (hi : Inv s) {g ch : Nat} {v : Val} (hx : s.gs[g]? = some (.atSend ch v)) :
    ∃ c, s.heap[ch]? = some c ∧ c.Fresh ∧
      goCore s.heap s.gs g = (s.heap.set ch { c with buf := [v] }, s.gs.set g .libDone, false) := by
  obtain ⟨c, hc, hf⟩ := hi.libFresh g _ ch hx rfl
  refine ⟨c, hc, hf, ?_⟩
  obtain ⟨hb, hq, hcl, hcap⟩ := hf
  have hlt : 0 < c.cap := hcap
  rw [goCore_atSend' hx]
  simp [hc, Chan.send, hcl, hb, hlt]

/-- the new state of the goroutine that took the step -/
theorem goCore_self {s : Sys} (hi : Inv s) {g : Nat} {x x' : G} (hx : s.gs[g]? = some x)
    (hx' : (goCore s.heap s.gs g).2.1[g]? = some x') :
    (x'.chan = x.chan ∨ x'.chan = none) ∧ (x'.libActive = x.libActive ∨ x'.libActive = none)
    ∧ (∀ ch, x' ≠ .libParked ch) ∧ (∀ ch, x'.libActive = some ch → (goCore s.heap s.gs g).1 = s.heap) := by
  have hg : g < s.gs.length := lt_of_get hx
  have same : s.gs[g]? = some x' → x' = x := by
    intro h; rw [hx] at h; injection h with h; exact h.symm
  have upd : ∀ (y : G), (s.gs.set g y)[g]? = some x' → x' = y := by
    intro y e; rw [List.getElem?_set_self hg] at e; injection e with e; exact e.symm
  cases x with
  | running ch res =>
    rw [goCore_running hx] at hx' ⊢
    have := upd _ hx'; subst this
    simp [G.chan, G.libActive]
  | sleeping ch =>
    rw [goCore_sleeping hx] at hx' ⊢
    have := upd _ hx'; subst this
    simp [G.chan, G.libActive]
  | atSend ch v =>
    obtain ⟨c, hc, hf, he⟩ := goCore_atSend hi hx
    rw [he] at hx' ⊢
    have := upd _ hx'; subst this
    simp [G.chan, G.libActive]
  | libParked ch => exact absurd hx (hi.noLibParked g ch)
  | libDone =>
    rw [goCore_idle (Or.inr (Or.inl hx))] at hx' ⊢
    have := same hx'; subst this
    simp [G.libActive]
  | hostParked ch acts =>
    rw [goCore_idle (Or.inr (Or.inr (Or.inr (Or.inl ⟨ch, acts, hx⟩))))] at hx' ⊢
    have := same hx'; subst this
    simp [G.libActive]
  | host ch acts =>
    cases acts with
    | nil =>
      rw [goCore_idle (Or.inr (Or.inr (Or.inr (Or.inr ⟨ch, hx⟩))))] at hx' ⊢
      have := same hx'; subst this
      simp [G.libActive]
    | cons a acts =>
      cases a with
      | send v =>
        rw [goCore_hostSend hx] at hx' ⊢
        cases hc : s.heap[ch]? with
        | none =>
          simp only [hc] at hx' ⊢
          have := same hx'; subst this
          simp [G.libActive]
        | some c =>
          simp only [hc] at hx' ⊢
          cases hs : c.send g v with
          | sent c' =>
            simp only [hs] at hx' ⊢
            have := upd _ hx'; subst this
            simp [G.chan, G.libActive]
          | parked c' =>
            simp only [hs] at hx' ⊢
            have := upd _ hx'; subst this
            simp [G.chan, G.libActive]
          | panic =>
            simp only [hs] at hx' ⊢
            have := same hx'; subst this
            simp [G.libActive]
      | close =>
        rw [goCore_hostClose hx] at hx' ⊢
        cases hc : s.heap[ch]? with
        | none =>
          simp only [hc] at hx' ⊢
          have := same hx'; subst this
          simp [G.libActive]
        | some c =>
          simp only [hc] at hx' ⊢
          cases hs : c.close with
          | closed c' =>
            simp only [hs] at hx' ⊢
            have := upd _ hx'; subst this
            simp [G.chan, G.libActive]
          | panic =>
            simp only [hs] at hx' ⊢
            have := same hx'; subst this
            simp [G.libActive]

theorem Inv.goStep {s : Sys} (hi : Inv s) (g : Nat) : Inv (s.goStep g) := by
  unfold Sys.goStep
  have key : ∀ st, st ≠ Status.blocked →
      Inv { s with heap := (goCore s.heap s.gs g).1, gs := (goCore s.heap s.gs g).2.1, status := st } := by
    intro st hst
    apply hi.frame _ _ _ (goCore_heap_length _ _ _) _ _ hst
    · intro g' x' hx'
      by_cases hg : g' = g
      · subst hg
        have hlt : g' < s.gs.length := by
          have := lt_of_get hx'
          rwa [goCore_gs_length] at this
        obtain ⟨x, hx⟩ : ∃ x, s.gs[g']? = some x := ⟨s.gs[g'], List.getElem?_eq_getElem hlt⟩
        obtain ⟨a, b, c, -⟩ := goCore_self hi hx hx'
        exact ⟨x, hx, a, b, c⟩
      · rw [goCore_gs_other _ _ hg] at hx'
        exact ⟨x', hx', Or.inl rfl, Or.inl rfl, fun ch e => hi.noLibParked g' ch (e ▸ hx')⟩
    · intro g' x' ch hx' ha
      by_cases hg : g' = g
      · subst hg
        have hlt : g' < s.gs.length := by
          have := lt_of_get hx'
          rwa [goCore_gs_length] at this
        obtain ⟨x, hx⟩ : ∃ x, s.gs[g']? = some x := ⟨s.gs[g'], List.getElem?_eq_getElem hlt⟩
        obtain ⟨-, -, -, d⟩ := goCore_self hi hx hx'
        rw [d ch ha]
      · rw [goCore_gs_other _ _ hg] at hx'
        apply goCore_heap_other
        intro y hy
        exact hi.libAlone g' g x' y ch hg hx' hy ha
  cases hs : s.status with
  | crashed => exact hi
  | ok =>
    simp only
    split
    · exact key _ (by simp)
    · have := key .ok (by simp)
      rw [← hs] at this ⊢
      exact this
  | blocked => exact absurd hs hi.notBlocked

/-! ### the runner's receive -/

theorem wake_length (gs : List G) (w : Option Nat) : (wake gs w).length = gs.length := by
  unfold wake
  split
  · rfl
  · split <;> simp

theorem wake_get (gs : List G) (w : Option Nat) (g : Nat) (x' : G) (h : (wake gs w)[g]? = some x') :
    ∃ x, gs[g]? = some x ∧ (x' = x ∨ x' = x.wake) := by
  unfold wake at h
  split at h
  · exact ⟨x', h, Or.inl rfl⟩
  · split at h
    · rename_i g0 x hx
      rcases get_set_cases h with ⟨hg, hb, -⟩ | ⟨-, hb⟩
      · subst hg; exact ⟨x, hx, Or.inr hb⟩
      · exact ⟨x', hb, Or.inl rfl⟩
    · exact ⟨x', h, Or.inl rfl⟩

theorem recv_none {p : Poll} {s : Sys} {ch : Nat} (h : (s.recv p ch).2 = none) : (s.recv p ch).1 = s := by
  unfold Sys.recv at *
  split
  · rfl
  · split
    · rfl
    · simp_all

theorem Inv.recv {s : Sys} (hi : Inv s) (p : Poll) (ch : Nat) : Inv (s.recv p ch).1 := by
  unfold Sys.recv
  split
  · exact hi
  · rename_i c hc
    split
    · exact hi
    · rename_i v hv
      have hnb : c.poll p = c.recvNB := by
        rcases Chan.poll_cases p c with h | h
        · rw [h] at hv; cases hv
        · exact h
      have : Inv { s with heap := s.heap.set ch (c.poll p).chan, gs := wake s.gs (c.poll p).woken, status := s.status } := by
        apply hi.frame _ _ _ (by simp) _ _ hi.notBlocked
        · intro g x' hx'
          obtain ⟨x, hx, hor⟩ := wake_get _ _ _ _ hx'
          refine ⟨x, hx, ?_, ?_, ?_⟩
          · rcases hor with h | h
            · left; rw [h]
            · rw [h]; exact G.wake_chan x
          · rcases hor with h | h
            · left; rw [h]
            · left; rw [h]; exact G.wake_libActive x
          · intro k
            rcases hor with h | h
            · rw [h]; exact fun e => hi.noLibParked g k (e ▸ hx)
            · rw [h]; exact G.wake_not_libParked x k
        · intro g x' k hx' ha
          obtain ⟨x, hx, hor⟩ := wake_get _ _ _ _ hx'
          have hxa : x.libActive = some k := by
            rcases hor with h | h
            · rw [← h]; exact ha
            · rw [h, G.wake_libActive] at ha; exact ha
          by_cases hk : ch = k
          · subst hk
            obtain ⟨c0, hc0, hf⟩ := hi.libFresh g x ch hx hxa
            rw [hc] at hc0; injection hc0 with hc0; subst hc0
            rw [hnb, Chan.recvNB_val, hf.avail] at hv
            cases hv
          · exact List.getElem?_set_ne hk
      exact { this with }

/-! ### dispatch -/

theorem get_append_cases {α : Type} {l r : List α} {i : Nat} {a : α} (h : (l ++ r)[i]? = some a) :
    (i < l.length ∧ l[i]? = some a) ∨ (l.length ≤ i ∧ r[i - l.length]? = some a) := by
  rw [List.getElem?_append] at h
  by_cases hl : i < l.length
  · rw [if_pos hl] at h; exact Or.inl ⟨hl, h⟩
  · rw [if_neg hl] at h; exact Or.inr ⟨by omega, h⟩

/-- a new channel, and new goroutines working on it: either none of the library's, or a single one of the library on a
channel with room -/
theorem Inv.extend {s : Sys} (hi : Inv s) (c : Chan) (ys : List G) (calls : List Nat)
    (hch : ∀ y ∈ ys, y.chan = some s.heap.length ∧ ∀ ch, y ≠ G.libParked ch)
    (hlib : (∀ y ∈ ys, y.libActive = none) ∨ (ys.length = 1 ∧ c.Fresh)) :
    Inv { s with heap := s.heap ++ [c], gs := s.gs ++ ys, calls := calls } := by
  have hmem : ∀ {k : Nat} {y : G}, ys[k]? = some y → y ∈ ys := fun h => List.mem_of_getElem? h
  constructor
  · intro g x ch hx hc
    simp only [List.length_append, List.length_cons, List.length_nil] at *
    rcases get_append_cases hx with ⟨-, h⟩ | ⟨-, h⟩
    · have := hi.chanLt g x ch h hc; omega
    · have := (hch x (hmem h)).1; rw [this] at hc; injection hc with hc; omega
  · intro g x ch hx ha
    simp only at *
    rcases get_append_cases hx with ⟨-, h⟩ | ⟨-, h⟩
    · obtain ⟨c0, hc0, hf⟩ := hi.libFresh g x ch h ha
      exact ⟨c0, by rw [List.getElem?_append_left (lt_of_get hc0)]; exact hc0, hf⟩
    · have hc := (hch x (hmem h)).1
      rw [G.libActive_chan ha] at hc; injection hc with hc; subst hc
      rcases hlib with hl | ⟨-, hf⟩
      · rw [hl x (hmem h)] at ha; cases ha
      · exact ⟨c, List.getElem?_concat_length, hf⟩
  · intro g g' x x' ch hne hx hx' ha hc
    simp only at *
    rcases get_append_cases hx with ⟨hl, h⟩ | ⟨hl, h⟩
    · rcases get_append_cases hx' with ⟨-, h'⟩ | ⟨-, h'⟩
      · exact hi.libAlone g g' x x' ch hne h h' ha hc
      · have := (hch x' (hmem h')).1
        rw [this] at hc; injection hc with hc
        have := hi.chanLt g x ch h (G.libActive_chan ha)
        omega
    · have hxc := (hch x (hmem h)).1
      rw [G.libActive_chan ha] at hxc; injection hxc with hxc; subst hxc
      rcases get_append_cases hx' with ⟨-, h'⟩ | ⟨hl', h'⟩
      · have := hi.chanLt g' x' _ h' hc; omega
      · rcases hlib with hl0 | ⟨h1, -⟩
        · rw [hl0 x (hmem h)] at ha; cases ha
        · have := lt_of_get h
          have := lt_of_get h'
          omega
  · intro g ch hx
    simp only at hx
    rcases get_append_cases hx with ⟨-, h⟩ | ⟨-, h⟩
    · exact hi.noLibParked g ch h
    · exact (hch _ (hmem h)).2 ch rfl
  · intro ch he
    simp only [List.length_append, List.length_cons, List.length_nil] at *
    have := hi.errLt ch he; omega
  · exact hi.notBlocked
  · exact hi.sharedNil

theorem set_last {α : Type} (l : List α) (a b : α) : (l ++ [a]).set l.length b = l ++ [b] := by
  induction l with
  | nil => rfl
  | cons x l ih => simp [ih]

/-- the runner's own send into the channel it has just made -/
theorem runnerSend_last (s : Sys) (c : Chan) (hf : c.Fresh) (v : Val) :
    ({ s with heap := s.heap ++ [c] } : Sys).runnerSend s.heap.length v
      = { s with heap := s.heap ++ [{ c with buf := [v] }] } := by
  obtain ⟨hb, hq, hcl, hcap⟩ := hf
  have hlt : 0 < c.cap := hcap
  simp [Sys.runnerSend, Chan.send, hcl, hb, hlt]

/-- channels nobody refers to -/
theorem Inv.allocs {s : Sys} (hi : Inv s) (pre : List Chan) : Inv { s with heap := s.heap ++ pre } := by
  induction pre generalizing s with
  | nil => simpa using hi
  | cons c pre ih =>
    have h1 := hi.extend c [] s.calls (by simp) (Or.inl (by simp))
    have h2 := ih h1
    simpa [List.append_assoc] using h2

/-- what a dispatch does under the facts of the code: a nil channel (raw handler), or new channels at the end of the
heap, the last of which is handed to the runner, together with the goroutines working on it, and one entry in the
invocation log iff the shape has a handler -/
theorem dispatch_good {cfg : Cfg} (hg : cfg.Good) (i : Nat) (sh : Shape) (s : Sys) :
    (sh = .raw none ∧ s.dispatch cfg i sh = ({ s with calls := s.calls ++ [i] }, none)) ∨
    ∃ (pre : List Chan) (c : Chan) (ys : List G),
      s.dispatch cfg i sh = ({ s with heap := s.heap ++ pre ++ [c], gs := s.gs ++ ys,
                                      calls := s.calls ++ (if sh.invokes then [i] else []) },
                             some (s.heap.length + pre.length))
      ∧ (∀ p ∈ pre, p.sendq = []) ∧ c.sendq = []
      ∧ (∀ y ∈ ys, y.chan = some (s.heap.length + pre.length) ∧ ∀ ch, y ≠ G.libParked ch)
      ∧ ((∀ y ∈ ys, y.libActive = none) ∨ (ys.length = 1 ∧ c.Fresh)) := by
  obtain ⟨hpc, hcap, hwait, himm, hunk, -, -, -, -⟩ := hg
  have fr : ∀ n, 1 ≤ n → ({ cap := n } : Chan).Fresh := fun n h => ⟨rfl, rfl, rfl, h⟩
  cases sh with
  | unknown =>
    right
    refine ⟨[], { cap := cfg.unknownCap, buf := [true] }, [], ?_, by simp, rfl, by simp, Or.inl (by simp)⟩
    simp only [Sys.dispatch, Sys.alloc, runnerSend_last s _ (fr _ hunk), Shape.invokes]
    simp
  | wait ok =>
    right
    cases ok with
    | false =>
      refine ⟨[], { cap := cfg.immCap, buf := [true] }, [], ?_, by simp, rfl, by simp, Or.inl (by simp)⟩
      simp only [Sys.dispatch, Sys.alloc, runnerSend_last s _ (fr _ himm), Shape.invokes]
      simp
    | true =>
      refine ⟨[], { cap := cfg.waitCap }, [.sleeping s.heap.length], ?_, by simp, rfl, by simp [G.chan], Or.inr ⟨rfl, fr _ hwait⟩⟩
      simp [Sys.dispatch, Sys.alloc, Sys.spawn, Shape.invokes]
  | noRet ok =>
    right
    cases ok with
    | false =>
      refine ⟨[], { cap := cfg.cap, buf := [true] }, [], ?_, by simp, rfl, by simp, Or.inl (by simp)⟩
      simp only [Sys.dispatch, Sys.libChan, hpc, if_true, Sys.alloc, runnerSend_last s _ (fr _ hcap), Shape.invokes]
      simp
    | true =>
      refine ⟨[], { cap := cfg.cap }, [.running s.heap.length false], ?_, by simp, rfl, by simp [G.chan], Or.inr ⟨rfl, fr _ hcap⟩⟩
      simp [Sys.dispatch, Sys.libChan, hpc, Sys.alloc, Sys.spawn, Shape.invokes]
  | errRet ok res =>
    right
    cases ok with
    | false =>
      refine ⟨[], { cap := cfg.cap, buf := [true] }, [], ?_, by simp, rfl, by simp, Or.inl (by simp)⟩
      simp only [Sys.dispatch, Sys.libChan, hpc, if_true, Sys.alloc, runnerSend_last s _ (fr _ hcap), Shape.invokes]
      simp
    | true =>
      refine ⟨[], { cap := cfg.cap }, [.running s.heap.length res], ?_, by simp, rfl, by simp [G.chan], Or.inr ⟨rfl, fr _ hcap⟩⟩
      simp [Sys.dispatch, Sys.libChan, hpc, Sys.alloc, Sys.spawn, Shape.invokes]
  | chanRet ok ret =>
    right
    cases ok with
    | false =>
      refine ⟨[], { cap := cfg.cap, buf := [true] }, [], ?_, by simp, rfl, by simp, Or.inl (by simp)⟩
      simp only [Sys.dispatch, Sys.libChan, hpc, if_true, Sys.alloc, runnerSend_last s _ (fr _ hcap), Shape.invokes]
      simp
    | true =>
      cases ret with
      | none =>
        refine ⟨[], { cap := cfg.cap, buf := [true] }, [], ?_, by simp, rfl, by simp, Or.inl (by simp)⟩
        have := runnerSend_last { s with calls := s.calls ++ [i] } _ (fr _ hcap) true
        simp only [Sys.dispatch, Sys.libChan, hpc, if_true, Sys.alloc, Shape.invokes]
        simp only at this
        rw [this]
        simp
      | some hc =>
        refine ⟨[{ cap := cfg.cap }], hc.chan, hc.procs.map (G.host (s.heap.length + 1)), ?_, by simp, rfl, ?_, Or.inl ?_⟩
        · simp [Sys.dispatch, Sys.libChan, hpc, Sys.alloc, Sys.hostChan, Sys.spawn, Shape.invokes]
        · intro y hy
          obtain ⟨a, -, rfl⟩ := List.mem_map.1 hy
          simp [G.chan]
        · intro y hy
          obtain ⟨a, -, rfl⟩ := List.mem_map.1 hy
          rfl
  | raw ret =>
    cases ret with
    | none => left; exact ⟨rfl, rfl⟩
    | some hc =>
      right
      refine ⟨[], hc.chan, hc.procs.map (G.host s.heap.length), ?_, by simp, rfl, ?_, Or.inl ?_⟩
      · simp [Sys.dispatch, Sys.hostChan, Sys.spawn, Shape.invokes]
      · intro y hy
        obtain ⟨a, -, rfl⟩ := List.mem_map.1 hy
        simp [G.chan]
      · intro y hy
        obtain ⟨a, -, rfl⟩ := List.mem_map.1 hy
        rfl

/-- the heap stays well-formed (Go runtime invariant) -/
def HeapWF (s : Sys) : Prop := ∀ (ch : Nat) (c : Chan), s.heap[ch]? = some c → c.WF

end Ysgo.Chan
