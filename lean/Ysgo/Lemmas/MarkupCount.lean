import Ysgo.Model.Markup
/-!
# Inside a marker the source position counts every rune read

`Counts p`: when `p` succeeds, `sourcePosition + number of unread runes` is unchanged. (Not true of the main loop: an
escaped bracket counts once, the raw text of a replacement marker not at all.)
-/
namespace Ysgo.Markup
attribute [local irreducible] Unicode.isLetter Unicode.isDigit Unicode.isSpace Unicode.toLower

def Counts {α : Type} (p : P α) : Prop :=
  ∀ s a s', p s = .ok a s' → s'.src + s'.rest.length = s.src + s.rest.length

theorem Counts.bind {α β} {p : P α} {f : α → P β} (hp : Counts p) (hf : ∀ a, Counts (f a)) : Counts (p >>= f) := by
  intro s b s'' h
  change P.bind p f s = _ at h
  unfold P.bind at h
  cases hps : p s with
  | ok a s' =>
    simp only [hps] at h
    have := hp s a s' hps
    have := hf a s' b s'' h
    omega
  | err _ => simp [hps] at h
  | panic _ => simp [hps] at h
  | oof _ => simp [hps] at h

theorem Counts.pure {α} (a : α) : Counts (pure a : P α) := by
  intro s b s' h
  change P.pure a s = _ at h
  simp only [P.pure, Res.ok.injEq] at h
  rw [← h.2]

theorem Counts.fail {α} : Counts (fail : P α) := by
  intro s a s' h; simp [Markup.fail] at h

theorem Counts.oofP {α} : Counts (oofP : P α) := by
  intro s a s' h; simp [Markup.oofP] at h

theorem counts_peekRune : Counts peekRune := by
  intro s a s' h; simp only [peekRune, Res.ok.injEq] at h; rw [← h.2]
theorem counts_getPos : Counts getPos := by
  intro s a s' h; simp only [getPos, Res.ok.injEq] at h; rw [← h.2]
theorem counts_getSrc : Counts getSrc := by
  intro s a s' h; simp only [getSrc, Res.ok.injEq] at h; rw [← h.2]

theorem skipWsAux_count (l : List Char) (k : Nat) : (skipWsAux l k).2 + (skipWsAux l k).1.length = k + l.length := by
  induction l generalizing k with
  | nil => simp [skipWsAux]
  | cons c cs ih =>
    unfold skipWsAux
    split
    · rw [ih]; simp only [List.length_cons]; omega
    · rfl

theorem counts_consumeWhitespace : Counts consumeWhitespace := by
  intro s a s' h
  simp only [consumeWhitespace, Res.ok.injEq] at h
  rw [← h.2]
  exact skipWsAux_count _ _

/-- reading a rune and counting it -/
def readCounted : P (Option Char) := do
  let o ← readRune
  match o with
  | none => pure none
  | some c => do incSrc; pure (some c)

theorem takeIdAux_count (l acc : List Char) (k : Nat) :
    (takeIdAux l acc k).2.2 + (takeIdAux l acc k).2.1.length = k + l.length := by
  induction l generalizing acc k with
  | nil => simp [takeIdAux]
  | cons c cs ih =>
    unfold takeIdAux
    split
    · rw [ih]; simp only [List.length_cons]; omega
    · rfl

theorem takeDigitsAux_count (l acc : List Char) (k : Nat) :
    (takeDigitsAux l acc k).2.2 + (takeDigitsAux l acc k).2.1.length = k + l.length := by
  induction l generalizing acc k with
  | nil => simp [takeDigitsAux]
  | cons c cs ih =>
    unfold takeDigitsAux
    split
    · rw [ih]; simp only [List.length_cons]; omega
    · rfl

theorem strBody_count (l acc : List Char) (k : Nat) :
    ∀ r, strBody l acc k = some r → r.2.2 + r.2.1.length = k + l.length := by
  fun_induction strBody l acc k <;> intro r h
  · simp at h
  · simp at h; subst h; simp only [List.length_cons]; omega
  · simp at h
  · rename_i ih
    have := ih r h
    simp only [List.length_cons]; omega
  · rename_i ih
    have := ih r h
    simp only [List.length_cons]; omega

theorem counts_parseRune (r : Char) : Counts (parseRune r) := by
  intro s a s' h
  simp only [parseRune, bind, P.bind, consumeWhitespace, readRune] at h
  have hc := skipWsAux_count s.rest s.src
  cases hr : (skipWsAux s.rest s.src).1 with
  | nil => simp [hr, fail] at h
  | cons c cs =>
    rw [hr] at hc
    simp only [hr, ne_eq] at h
    split at h
    · simp [fail] at h
    · simp only [incSrc, Res.ok.injEq] at h
      rw [← h.2]
      simp only [List.length_cons] at hc ⊢
      omega

theorem counts_expectPeek (r : Char) : Counts (expectPeek r) := by
  unfold expectPeek
  exact Counts.bind counts_consumeWhitespace fun _ => Counts.bind counts_peekRune fun _ => Counts.pure _

theorem counts_parseID : Counts parseID := by
  intro s a s' h
  simp only [parseID, bind, P.bind, consumeWhitespace, readRune] at h
  have hc := skipWsAux_count s.rest s.src
  cases hr : (skipWsAux s.rest s.src).1 with
  | nil => simp [hr, fail] at h
  | cons c cs =>
    rw [hr] at hc
    simp only [hr, incSrc, P.bind] at h
    split at h
    · simp only [takeId, pure, P.pure, P.bind, Res.ok.injEq] at h
      rw [← h.2]
      have := takeIdAux_count cs [] ((skipWsAux s.rest s.src).2 + 1)
      simp only [List.length_cons] at hc ⊢
      omega
    · simp [fail] at h

theorem counts_parseDigits : Counts parseDigits := by
  unfold parseDigits
  refine Counts.bind counts_consumeWhitespace fun _ => ?_
  intro s a s' h
  simp only [Res.ok.injEq] at h
  rw [← h.2]
  exact takeDigitsAux_count _ _ _

theorem counts_parseInteger : Counts parseInteger := by
  unfold parseInteger
  refine Counts.bind counts_parseDigits fun ds => ?_
  split
  · exact Counts.pure _
  · exact Counts.fail

theorem counts_parseString : Counts parseString := by
  intro s a s' h
  simp only [parseString, bind, P.bind, consumeWhitespace, readRune] at h
  have hc := skipWsAux_count s.rest s.src
  cases hr : (skipWsAux s.rest s.src).1 with
  | nil => simp [hr, fail] at h
  | cons c cs =>
    rw [hr] at hc
    simp only [hr, ne_eq] at h
    split at h
    · simp [fail] at h
    · simp only [incSrc, P.bind] at h
      cases hb : strBody cs [] ((skipWsAux s.rest s.src).2 + 1) with
      | none => simp [hb] at h
      | some r =>
        obtain ⟨body, rest, m⟩ := r
        simp only [hb, Res.ok.injEq] at h
        rw [← h.2]
        have := strBody_count _ _ _ _ hb
        have this : m + rest.length = (skipWsAux s.rest s.src).2 + 1 + cs.length := this
        simp only [List.length_cons] at hc ⊢
        omega

theorem counts_parseValue : Counts parseValue := by
  unfold parseValue
  refine Counts.bind counts_consumeWhitespace fun _ => ?_
  refine Counts.bind counts_peekRune fun c => ?_
  split
  · refine Counts.bind counts_parseInteger fun i => ?_
    refine Counts.bind (counts_expectPeek _) fun b => ?_
    split
    · refine Counts.bind (counts_parseRune _) fun _ => ?_
      refine Counts.bind counts_parseDigits fun fr => ?_
      split
      · exact Counts.fail
      · split
        · exact Counts.pure _
        · exact Counts.fail
    · exact Counts.pure _
  · refine Counts.bind (counts_expectPeek _) fun b => ?_
    split
    · exact Counts.bind counts_parseString fun _ => Counts.pure _
    · refine Counts.bind counts_parseID fun w => ?_
      dsimp only
      split
      · exact Counts.pure _
      · split <;> exact Counts.pure _

theorem counts_propsLoop (name : String) (src0 : Nat) : ∀ fuel props, Counts (propsLoop name src0 fuel props) := by
  intro fuel
  induction fuel with
  | zero => intro props; exact Counts.oofP
  | succ f ih =>
    intro props
    unfold propsLoop
    refine Counts.bind counts_consumeWhitespace fun _ => ?_
    refine Counts.bind counts_peekRune fun c => ?_
    split
    · exact Counts.bind (counts_parseRune _) fun _ => Counts.bind counts_getPos fun _ => Counts.pure _
    · split
      · exact Counts.bind (counts_parseRune _) fun _ => Counts.bind (counts_parseRune _) fun _ =>
          Counts.bind counts_getPos fun _ => Counts.pure _
      · exact Counts.bind counts_parseID fun _ => Counts.bind (counts_parseRune _) fun _ =>
          Counts.bind counts_parseValue fun _ => ih _

/-- every successful run yields a value with property `Q` -/
def Yields {α : Type} (p : P α) (Q : α → Prop) : Prop := ∀ s a s', p s = .ok a s' → Q a

theorem Yields.bind {α β} {p : P α} {f : α → P β} {Q : β → Prop} (hf : ∀ a, Yields (f a) Q) : Yields (p >>= f) Q := by
  intro s b s'' h
  change P.bind p f s = _ at h
  unfold P.bind at h
  cases hps : p s with
  | ok a s' => simp only [hps] at h; exact hf a s' b s'' h
  | err _ => simp [hps] at h
  | panic _ => simp [hps] at h
  | oof _ => simp [hps] at h

theorem Yields.pure {α} {Q : α → Prop} (a : α) (h : Q a) : Yields (pure a : P α) Q := by
  intro s b s' hh
  change P.pure a s = _ at hh
  simp only [P.pure, Res.ok.injEq] at hh
  rw [← hh.1]; exact h

theorem Yields.oofP {α} {Q : α → Prop} : Yields (oofP : P α) Q := by
  intro s a s' h; simp [Markup.oofP] at h

theorem yields_propsLoop (name : String) (src0 : Nat) :
    ∀ fuel props, Yields (propsLoop name src0 fuel props) (fun m => m.sourcePosition = src0) := by
  intro fuel
  induction fuel with
  | zero => intro props; exact Yields.oofP
  | succ f ih =>
    intro props
    unfold propsLoop
    refine Yields.bind fun _ => Yields.bind fun c => ?_
    split
    · exact Yields.bind fun _ => Yields.bind fun _ => Yields.pure _ rfl
    · split
      · exact Yields.bind fun _ => Yields.bind fun _ => Yields.bind fun _ => Yields.pure _ rfl
      · exact Yields.bind fun _ => Yields.bind fun _ => Yields.bind fun _ => ih _

/-- `parseAttributeMarker` counts the `[` that was read before it and every rune it reads, and records where the marker
started -/
theorem parseAttributeMarker_count (fuel : Nat) (s : PS) (m : Marker) (s' : PS)
    (h : parseAttributeMarker fuel s = .ok m s') :
    s'.src + s'.rest.length = s.src + 1 + s.rest.length ∧ m.sourcePosition = s.src := by
  unfold parseAttributeMarker at h
  simp only [bind, P.bind, getSrc, incSrc] at h
  -- the rest of the function, started after `incSrc`
  generalize hs1 : ({ rest := s.rest, src := s.src + 1, pos := s.pos } : PS) = s1 at h
  have hcount : ∀ (q : P Marker), Counts q → Yields q (fun m => m.sourcePosition = s.src) → q s1 = .ok m s' →
      s'.src + s'.rest.length = s.src + 1 + s.rest.length ∧ m.sourcePosition = s.src := by
    intro q hq hy hh
    have := hq s1 m s' hh
    rw [← hs1] at this
    exact ⟨this, hy s1 m s' hh⟩
  refine hcount (do
      if ← expectPeek '/' then
        parseRune '/'
        if ← expectPeek ']' then
          parseRune ']'
          pure { position := ← getPos, sourcePosition := s.src, tag := .closeAll }
        else
          let nm ← parseID
          parseRune ']'
          pure { name := nm, position := ← getPos, sourcePosition := s.src, tag := .close }
      else
        let nm ← parseID
        if ← expectPeek '=' then
          parseRune '='
          let v ← parseValue
          propsLoop nm s.src fuel [(nm, v)]
        else
          propsLoop nm s.src fuel []) ?_ ?_ h
  · refine Counts.bind (counts_expectPeek _) fun b => ?_
    split
    · refine Counts.bind (counts_parseRune _) fun _ => Counts.bind (counts_expectPeek _) fun b => ?_
      split
      · exact Counts.bind (counts_parseRune _) fun _ => Counts.bind counts_getPos fun _ => Counts.pure _
      · exact Counts.bind counts_parseID fun _ => Counts.bind (counts_parseRune _) fun _ =>
          Counts.bind counts_getPos fun _ => Counts.pure _
    · refine Counts.bind counts_parseID fun nm => Counts.bind (counts_expectPeek _) fun b => ?_
      split
      · exact Counts.bind (counts_parseRune _) fun _ => Counts.bind counts_parseValue fun _ => counts_propsLoop _ _ _ _
      · exact counts_propsLoop _ _ _ _
  · refine Yields.bind fun b => ?_
    split
    · refine Yields.bind fun _ => Yields.bind fun b => ?_
      split
      · exact Yields.bind fun _ => Yields.bind fun _ => Yields.pure _ rfl
      · exact Yields.bind fun _ => Yields.bind fun _ => Yields.bind fun _ => Yields.pure _ rfl
    · refine Yields.bind fun nm => Yields.bind fun b => ?_
      split
      · exact Yields.bind fun _ => Yields.bind fun _ => yields_propsLoop _ _ _ _
      · exact yields_propsLoop _ _ _ _

end Ysgo.Markup
