import Ysgo.Lemmas.ChanStep
/-!
# Channel-level mailbox: the lemmas behind the property theorems of `Props/C10Chan.lean`
-/
namespace Ysgo.Chan
open Sys

/-! ### what goroutine steps and `RestoreAt` leave alone -/

theorem goStep_fields (s : Sys) (g : Nat) :
    (s.goStep g).errChan = s.errChan ∧ (s.goStep g).pc = s.pc ∧ (s.goStep g).calls = s.calls
    ∧ (s.goStep g).disp = s.disp ∧ (s.goStep g).recvLog = s.recvLog ∧ (s.goStep g).shared = s.shared
    ∧ (s.goStep g).heap.length = s.heap.length ∧ (s.goStep g).gs.length = s.gs.length := by
  unfold Sys.goStep
  split
  · simp
  · refine ⟨rfl, rfl, rfl, rfl, rfl, rfl, goCore_heap_length _ _ _, goCore_gs_length _ _ _⟩

theorem goStep_eq (s : Sys) (g : Nat) (h : s.status ≠ .crashed) :
    s.goStep g = { s with heap := (goCore s.heap s.gs g).1, gs := (goCore s.heap s.gs g).2.1,
                          status := if (goCore s.heap s.gs g).2.2 then .crashed else s.status } := by
  unfold Sys.goStep
  split
  · rename_i hs; exact absurd hs h
  · rfl

theorem goStep_gs_other (s : Sys) {g g' : Nat} (h : g' ≠ g) : (s.goStep g).gs[g']? = s.gs[g']? := by
  unfold Sys.goStep
  split
  · rfl
  · exact goCore_gs_other _ _ h

theorem goStep_heap_other (s : Sys) {g ch : Nat} (h : ∀ x, s.gs[g]? = some x → x.chan ≠ some ch) :
    (s.goStep g).heap[ch]? = s.heap[ch]? := by
  unfold Sys.goStep
  split
  · rfl
  · exact goCore_heap_other _ _ h

theorem restore_fields (cfg : Cfg) (s : Sys) :
    (s.restore cfg).heap = s.heap ∧ (s.restore cfg).gs = s.gs ∧ (s.restore cfg).calls = s.calls
    ∧ (s.restore cfg).disp = s.disp ∧ (s.restore cfg).recvLog = s.recvLog ∧ (s.restore cfg).shared = s.shared
    ∧ (s.restore cfg).status = s.status := by
  unfold Sys.restore
  split <;> simp

theorem restore_errChan {cfg : Cfg} (hg : cfg.Good) (s : Sys) (hst : s.status = .ok) : (s.restore cfg).errChan = none := by
  unfold Sys.restore
  simp [hst, hg.2.2.2.2.2.2.2.2]

/-! ### well-formed heaps -/

theorem HeapWF.set {s : Sys} (h : HeapWF s) (ch : Nat) (c : Chan) (hc : c.WF) (heap' : List Chan)
    (he : heap' = s.heap.set ch c) : ∀ (k : Nat) (x : Chan), heap'[k]? = some x → x.WF := by
  intro k x hx
  rw [he] at hx
  rcases get_set_cases hx with ⟨-, rfl, -⟩ | ⟨-, hx⟩
  · exact hc
  · exact h k x hx

theorem HeapWF.goStep {s : Sys} (h : HeapWF s) (g : Nat) : HeapWF (s.goStep g) := by
  unfold Sys.goStep
  split
  · exact h
  · show ∀ (k : Nat) (x : Chan), (goCore s.heap s.gs g).1[k]? = some x → x.WF
    unfold goCore
    split <;> try exact h
    all_goals (split <;> try exact h)
    all_goals (rename_i c hc; split <;> try exact h)
    · rename_i c' hs; exact h.set _ c' (Chan.wf_send (h _ _ hc) (Or.inl hs)) _ rfl
    · rename_i c' hs; exact h.set _ c' (Chan.wf_send (h _ _ hc) (Or.inr hs)) _ rfl
    · rename_i c' hs; exact h.set _ c' (Chan.wf_send (h _ _ hc) (Or.inl hs)) _ rfl
    · rename_i c' hs; exact h.set _ c' (Chan.wf_send (h _ _ hc) (Or.inr hs)) _ rfl
    · rename_i c' hs; exact h.set _ c' (Chan.wf_close (h _ _ hc) hs) _ rfl

theorem Chan.wf_of_sendq_nil {c : Chan} (h : c.sendq = []) : c.WF := fun hne => absurd h hne

theorem HeapWF.exec {cfg : Cfg} (hg : cfg.Good) (script : List Stmt) (es : List Ev) {s : Sys} (hi : Inv s)
    (h : HeapWF s) : HeapWF (Sys.exec cfg script s es) := by
  refine (exec_induct hg script HeapWF (fun _ _ hp => hp) ?_ ?_ (fun s g _ hp => hp.goStep g) ?_ es s hi h).1
  · intro s i sh _ _ hst _ hp
    rcases execCmd_good hg i sh s hst with ⟨-, h⟩ | ⟨pre, c, ys, hpq, hq, -, -, h⟩
    · rw [h]; exact hp
    · rw [h]
      have key : ∀ x : Chan, x.WF → ∀ (k : Nat) (y : Chan), (s.heap ++ pre ++ [x])[k]? = some y → y.WF := by
        intro x hx k y hy
        rcases get_append_cases hy with ⟨-, hy⟩ | ⟨-, hy⟩
        · rcases get_append_cases hy with ⟨-, hy⟩ | ⟨-, hy⟩
          · exact hp k y hy
          · exact Chan.wf_of_sendq_nil (hpq y (List.mem_of_getElem? hy))
        · have : y ∈ [x] := List.mem_of_getElem? hy
          simp at this; subst this; exact hx
      cases c.avail with
      | none => exact key c (Chan.wf_of_sendq_nil hq)
      | some v => exact key _ (Chan.wf_recvNB (Chan.wf_of_sendq_nil hq))
  · intro s _ _ hp
    cases he : s.errChan with
    | none => simp only [Sys.pollTop, he]; exact hp
    | some k =>
      cases hc : s.heap[k]? with
      | none => simp only [Sys.pollTop, Sys.recv, he, hc]; exact hp
      | some c =>
        rw [pollTop_good hg s he hc]
        cases c.avail with
        | none => exact hp
        | some v => exact hp.set k _ (Chan.wf_recvNB (hp _ _ hc)) _ rfl
  · intro s _ hp
    unfold Sys.restore
    split <;> exact hp

theorem HeapWF.init : HeapWF Sys.init := by
  intro k c h; simp [Sys.init] at h

/-! ### a channel the runner has let go of is never polled again -/

/-- the runner holds no reference to channel `ch` any more (and no later allocation can produce it) -/
def Forgot (ch : Nat) (s : Sys) : Prop := ch < s.heap.length ∧ s.errChan ≠ some ch

/-- the values received from channel `ch` so far -/
def receivedFrom (ch : Nat) (s : Sys) : List Val := (s.recvLog.filter (fun e => e.1 == ch)).map (·.2)

theorem forgotten_never_polled {cfg : Cfg} (hg : cfg.Good) (script : List Stmt) {s : Sys} (hi : Inv s) {ch : Nat}
    (hf : Forgot ch s) (es : List Ev) :
    Forgot ch (Sys.exec cfg script s es) ∧ receivedFrom ch (Sys.exec cfg script s es) = receivedFrom ch s := by
  refine (exec_induct hg script (fun s' => Forgot ch s' ∧ receivedFrom ch s' = receivedFrom ch s)
    (fun _ _ hp => hp) ?_ ?_ ?_ ?_ es s hi ⟨hf, rfl⟩).1
  · intro s' i sh _ _ hst he ⟨⟨hlt, hne⟩, hr⟩
    obtain ⟨-, -, -, -, -, hlen, herr, ⟨l, hl, hle⟩, -⟩ := execCmd_fields hg i sh s' hst he
    refine ⟨⟨by omega, ?_⟩, ?_⟩
    · intro e
      have := herr ch e
      omega
    · unfold receivedFrom at *
      rw [hl, List.filter_append, List.map_append, hr]
      have : l.filter (fun e => e.1 == ch) = [] := by
        rw [List.filter_eq_nil_iff]
        intro e he'
        have := hle e he'
        simp only [beq_iff_eq]
        omega
      rw [this]; simp
  · intro s' _ hst ⟨⟨hlt, hne⟩, hr⟩
    have hf := pollTop_fields hg s'
    cases he : s'.errChan with
    | none => simp only [Sys.pollTop, he]; exact ⟨⟨hlt, by simp [he]⟩, hr⟩
    | some k =>
      have hk : k ≠ ch := fun e => hne (e ▸ he)
      cases hc : s'.heap[k]? with
      | none => simp only [Sys.pollTop, Sys.recv, he, hc]; exact ⟨⟨hlt, hne⟩, hr⟩
      | some c =>
        rw [pollTop_good hg s' he hc]
        cases c.avail with
        | none => exact ⟨⟨hlt, hne⟩, hr⟩
        | some v =>
          refine ⟨⟨by simpa using hlt, by simp⟩, ?_⟩
          unfold receivedFrom at *
          simp only [List.filter_append, List.map_append, hr]
          have : ([(k, v)] : List (Nat × Val)).filter (fun e => e.1 == ch) = [] := by
            have hb : (k == ch) = false := by simp [hk]
            simp [List.filter, hb]
          rw [this]; simp
  · intro s' g _ ⟨⟨hlt, hne⟩, hr⟩
    obtain ⟨h1, -, -, -, h5, -, h7, -⟩ := goStep_fields s' g
    refine ⟨⟨by omega, by rw [h1]; exact hne⟩, ?_⟩
    unfold receivedFrom at *
    rw [h5]; exact hr
  · intro s' _ ⟨⟨hlt, hne⟩, hr⟩
    obtain ⟨h1, -, -, -, h5, -, -⟩ := restore_fields cfg s'
    refine ⟨⟨by rw [h1]; exact hlt, ?_⟩, ?_⟩
    · unfold Sys.restore
      split
      · simp only [hg.2.2.2.2.2.2.2.2, if_true]; simp
      · exact hne
    · unfold receivedFrom at *
      rw [h5]; exact hr

/-! ### observations of a schedule -/

theorem run_nil (cfg : Cfg) (script : List Stmt) (s : Sys) : Sys.run cfg script s [] = (s, []) := rfl

theorem run_cons (cfg : Cfg) (script : List Stmt) (s : Sys) (e : Ev) (es : List Ev) :
    Sys.run cfg script s (e :: es) =
      ((Sys.run cfg script (s.step cfg script e).1 es).1,
       (s.step cfg script e).2.toList ++ (Sys.run cfg script (s.step cfg script e).1 es).2) := by
  simp only [Sys.run]

theorem run_fst (cfg : Cfg) (script : List Stmt) (s : Sys) (es : List Ev) :
    (Sys.run cfg script s es).1 = Sys.exec cfg script s es := rfl

theorem Inv.step {cfg : Cfg} (hg : cfg.Good) (script : List Stmt) {s : Sys} (hi : Inv s) (e : Ev) :
    Inv (s.step cfg script e).1 := by
  have := hi.exec hg script [e]
  rwa [exec_cons, exec_nil] at this

/-! ### (a) a poll that finds nothing -/

theorem next_waiting {cfg : Cfg} (hg : cfg.Good) (script : List Stmt) (s : Sys) {ch : Nat} {c : Chan}
    (hst : s.status = .ok) (he : s.errChan = some ch) (hc : s.heap[ch]? = some c) (hv : c.avail = none) :
    s.next cfg script = (s, .waiting) := by
  unfold Sys.next
  simp only [hst]
  rw [pollTop_good hg s he hc, hv]

/-- the poll at the top of `Next` reports what is available first and lets go of the channel -/
theorem pollTop_avail {cfg : Cfg} (hg : cfg.Good) {s : Sys} {ch : Nat} {c : Chan} {v : Val} (he : s.errChan = some ch)
    (hc : s.heap[ch]? = some c) (hv : c.avail = some v) :
    ∃ s', s.pollTop cfg = (s', if v then some .err else none) ∧ s'.errChan = none ∧ s'.pc = s.pc
      ∧ s'.calls = s.calls ∧ s'.status = s.status
      ∧ receivedFrom ch s' = receivedFrom ch s ++ [v] ∧ Forgot ch s' := by
  rw [pollTop_good hg s he hc, hv]
  refine ⟨_, rfl, rfl, rfl, rfl, rfl, ?_, ?_, ?_⟩
  · simp [receivedFrom, List.filter_append]
  · simpa using lt_of_get hc
  · simp

/-- `Next` answers `waiting` only while a channel is kept -/
theorem runFrom_waiting (cfg : Cfg) : ∀ (rest : List Stmt) (s : Sys),
    (runFrom cfg rest s).2 = .waiting → (runFrom cfg rest s).1.errChan.isSome = true := by
  intro rest
  induction rest with
  | nil => intro s h; cases h
  | cons st rest ih =>
    intro s h
    cases st with
    | line => cases h
    | cmd sh =>
      unfold Sys.runFrom at h ⊢
      generalize Sys.execCmd cfg s.pc sh { s with pc := s.pc + 1 } = r at *
      obtain ⟨s', res⟩ := r
      cases res with
      | stuck => simp only at h; split at h <;> cases h
      | failed => cases h
      | ok =>
        simp only at h ⊢
        cases hec : s'.errChan with
        | some k => simp only [hec]; rfl
        | none => simp only [hec] at h ⊢; exact ih s' h

/-- a `Next` that answers `waiting` although a completion was there: the completion was a success, it was taken, and a
later command statement of the script was dispatched by this very call and is pending now on a channel made by it -/
theorem next_waiting_cases {cfg : Cfg} (hg : cfg.Good) (script : List Stmt) {s : Sys} (hi : Inv s) {ch : Nat} {c : Chan}
    (hst : s.status = .ok) (he : s.errChan = some ch) (hc : s.heap[ch]? = some c)
    (hw : (s.next cfg script).2 = .waiting) :
    (c.avail = none ∧ (s.next cfg script).1 = s) ∨
    (c.avail = some false ∧ ∃ k, (s.next cfg script).1.errChan = some k ∧ s.heap.length ≤ k) := by
  cases hv : c.avail with
  | none => left; exact ⟨rfl, by rw [next_waiting hg script s hst he hc hv]⟩
  | some v =>
    right
    obtain ⟨s1, hp, he1, -, -, hst1, -, -⟩ := pollTop_avail hg he hc hv
    have hlen : s1.heap.length = s.heap.length := by
      have := (pollTop_fields hg s).2.2.2.2.2.1; rw [hp] at this; exact this
    have hip : Inv s1 := by have := hi.pollTop hg; rw [hp] at this; exact this
    unfold Sys.next at hw ⊢
    simp only [hst, hp] at hw ⊢
    cases v with
    | true => simp at hw
    | false =>
      simp only [Bool.false_eq_true, if_false] at hw ⊢
      refine ⟨trivial, ?_⟩
      have := runFrom_induct hg script (fun t => s1.heap.length ≤ t.heap.length ∧ ∀ k, t.errChan = some k → s1.heap.length ≤ k)
        (fun _ _ hp => hp) ?_ (script.drop s1.pc) s1 rfl hip (hst1.trans hst) he1 ⟨Nat.le_refl _, by simp [he1]⟩
      · have hsome := runFrom_waiting cfg _ _ hw
        cases hk : (runFrom cfg (script.drop s1.pc) s1).1.errChan with
        | none => rw [hk] at hsome; cases hsome
        | some k => exact ⟨k, rfl, by rw [← hlen]; exact this.1.2 k hk⟩
      · intro t i sh _ _ hstt het ⟨hle, _⟩
        obtain ⟨-, -, -, -, -, hl, herr, -⟩ := execCmd_fields hg i sh t hstt het
        exact ⟨Nat.le_trans hle hl, fun k hk => Nat.le_trans hle (herr k hk)⟩

/-! ### (b) the send of a goroutine of the library -/

theorem lib_send_enabled {s : Sys} (hi : Inv s) (hst : s.status = .ok) {g ch : Nat} {v : Val}
    (hx : s.gs[g]? = some (.atSend ch v)) :
    (s.goStep g).gs[g]? = some .libDone ∧ (s.goStep g).status = .ok ∧
      ∃ c, (s.goStep g).heap[ch]? = some c ∧ c.buf = [v] ∧ c.sendq = [] ∧ c.closed = false := by
  obtain ⟨c, hc, hf, he⟩ := goCore_atSend hi hx
  rw [goStep_eq s g (by simp [hst]), he]
  refine ⟨List.getElem?_set_self (lt_of_get hx), by simp [hst], { c with buf := [v] }, ?_, rfl, hf.2.1, hf.2.2.1⟩
  exact List.getElem?_set_self (lt_of_get hc)

theorem lib_step_no_crash {s : Sys} (hi : Inv s) {g : Nat} {x : G} (hx : s.gs[g]? = some x) (hl : x.isLib = true) :
    (s.goStep g).status = s.status := by
  by_cases hst : s.status = .crashed
  · unfold Sys.goStep; simp [hst]
  · rw [goStep_eq s g hst]
    cases x with
    | running ch res => rw [goCore_running hx]; rfl
    | sleeping ch => rw [goCore_sleeping hx]; rfl
    | atSend ch v => obtain ⟨c, -, -, he⟩ := goCore_atSend hi hx; rw [he]; rfl
    | libParked ch => exact absurd hx (hi.noLibParked g ch)
    | libDone => rw [goCore_idle (Or.inr (Or.inl hx))]; rfl
    | host ch acts => cases hl
    | hostParked ch acts => cases hl

/-! ### (c) the invocation log against the dispatch log -/

/-- has the statement a dispatch record names a handler of the host -/
def handlerAt (script : List Stmt) (d : Disp) : Bool :=
  match script[d.stmt]? with
  | some (.cmd sh) => sh.invokes
  | _ => false

/-- the invocation log is the dispatch log restricted to the statements that have a handler, and every dispatch is
the dispatch of a command statement of the script -/
def Consistent (script : List Stmt) (s : Sys) : Prop :=
  s.calls = (s.disp.filter (handlerAt script)).map (·.stmt) ∧ ∀ d ∈ s.disp, ∃ sh, script[d.stmt]? = some (.cmd sh)

theorem execCmd_disp {cfg : Cfg} (hg : cfg.Good) (i : Nat) (sh : Shape) (s : Sys) (hst : s.status = .ok) :
    ∃ d : Disp, d.stmt = i ∧ (s.execCmd cfg i sh).1.disp = s.disp ++ [d] := by
  rcases execCmd_good hg i sh s hst with ⟨-, h⟩ | ⟨pre, c, ys, -, -, -, -, h⟩
  · rw [h]; exact ⟨_, rfl, rfl⟩
  · rw [h]
    cases c.avail with
    | none => exact ⟨_, rfl, rfl⟩
    | some v => exact ⟨_, rfl, rfl⟩

theorem consistent_exec {cfg : Cfg} (hg : cfg.Good) (script : List Stmt) (es : List Ev) :
    Consistent script (Sys.exec cfg script Sys.init es) := by
  refine (exec_induct hg script (Consistent script) (fun _ _ hp => hp) ?_ ?_ ?_ ?_ es Sys.init Inv.init
    ⟨rfl, by simp [Sys.init]⟩).1
  · intro s i sh hsh _ hst he ⟨h1, h2⟩
    obtain ⟨-, -, -, hcalls, -⟩ := execCmd_fields hg i sh s hst he
    obtain ⟨d, hd, hdisp⟩ := execCmd_disp hg i sh s hst
    have hh : handlerAt script d = sh.invokes := by
      unfold handlerAt; rw [hd, hsh]
    refine ⟨?_, ?_⟩
    · rw [hcalls, hdisp, List.filter_append, List.map_append, ← h1]
      congr 1
      cases hinv : sh.invokes with
      | true => simp [List.filter, hh, hinv, hd]
      | false => simp [List.filter, hh, hinv]
    · intro d' hd'
      rw [hdisp] at hd'
      rcases List.mem_append.1 hd' with h | h
      · exact h2 d' h
      · simp at h; subst h; exact ⟨sh, by rw [hd]; exact hsh⟩
  · intro s _ _ ⟨h1, h2⟩
    obtain ⟨-, -, hc, hd, -⟩ := pollTop_fields hg s
    exact ⟨by rw [hc, hd]; exact h1, by rw [hd]; exact h2⟩
  · intro s g _ ⟨h1, h2⟩
    obtain ⟨-, -, hc, hd, -⟩ := goStep_fields s g
    exact ⟨by rw [hc, hd]; exact h1, by rw [hd]; exact h2⟩
  · intro s _ ⟨h1, h2⟩
    obtain ⟨-, -, hc, hd, -⟩ := restore_fields cfg s
    exact ⟨by rw [hc, hd]; exact h1, by rw [hd]; exact h2⟩

/-! ### (d) a command run by a goroutine of the library: not early, prompt, once -/

/-- while the goroutine of the pending command has not been scheduled up to its send, whatever else happens (other
goroutines, any number of polls) every `Next` answers `waiting` (or the process has crashed because of what the host did
to a channel of its own), and nothing moves -/
theorem pending_lib_waits {cfg : Cfg} (hg : cfg.Good) (script : List Stmt) {g ch : Nat} {x : G}
    (ha : x.libActive = some ch) (es : List Ev) (hes : ∀ e ∈ es, e ≠ .restore ∧ e ≠ .go g) :
    ∀ {s : Sys}, Inv s → s.errChan = some ch → s.gs[g]? = some x →
      (Sys.run cfg script s es).1.errChan = some ch ∧ (Sys.run cfg script s es).1.gs[g]? = some x
      ∧ (Sys.run cfg script s es).1.pc = s.pc ∧ (Sys.run cfg script s es).1.calls = s.calls
      ∧ (∀ o ∈ (Sys.run cfg script s es).2, o = .waiting ∨ o = .crashed) ∧ Inv (Sys.run cfg script s es).1 := by
  induction es with
  | nil => intro s hi he hx; exact ⟨he, hx, rfl, rfl, by simp [Sys.run], hi⟩
  | cons e es ih =>
    intro s hi he hx
    have hes' : ∀ e ∈ es, e ≠ .restore ∧ e ≠ .go g := fun e h => hes e (List.mem_cons_of_mem _ h)
    obtain ⟨hnr, hng⟩ := hes e (List.mem_cons_self ..)
    rw [run_cons]
    cases e with
    | restore => exact absurd rfl hnr
    | next =>
      obtain ⟨c, hc, hf⟩ := hi.libFresh g x ch hx ha
      cases hst : s.status with
      | blocked => exact absurd hst hi.notBlocked
      | ok =>
        have hn := next_waiting hg script s hst he hc hf.avail
        simp only [Sys.step, hn]
        obtain ⟨a, b, c', d, e', f⟩ := ih hes' hi he hx
        refine ⟨a, b, c', d, ?_, f⟩
        intro o ho
        simp only [Option.toList, List.cons_append, List.nil_append, List.mem_cons] at ho
        rcases ho with rfl | ho
        · exact Or.inl rfl
        · exact e' o ho
      | crashed =>
        have hn : s.next cfg script = (s, .crashed) := by unfold Sys.next; simp [hst]
        simp only [Sys.step, hn]
        obtain ⟨a, b, c', d, e', f⟩ := ih hes' hi he hx
        refine ⟨a, b, c', d, ?_, f⟩
        intro o ho
        simp only [Option.toList, List.cons_append, List.nil_append, List.mem_cons] at ho
        rcases ho with rfl | ho
        · exact Or.inr rfl
        · exact e' o ho
    | go g' =>
      have hne : g ≠ g' := fun e => hng (by rw [e])
      obtain ⟨h1, h2, h3, -⟩ := goStep_fields s g'
      simp only [Sys.step]
      obtain ⟨a, b, c', d, e', f⟩ := ih hes' (hi.goStep g') (h1.trans he) ((goStep_gs_other s hne).trans hx)
      exact ⟨a, b, c'.trans h2, d.trans h3, by simpa using e', f⟩

theorem run_append (cfg : Cfg) (script : List Stmt) (s : Sys) (es fs : List Ev) :
    Sys.run cfg script s (es ++ fs) =
      ((Sys.run cfg script (Sys.exec cfg script s es) fs).1,
       (Sys.run cfg script s es).2 ++ (Sys.run cfg script (Sys.exec cfg script s es) fs).2) := by
  induction es generalizing s with
  | nil => simp [Sys.run, Sys.exec]
  | cons e es ih =>
    rw [List.cons_append, run_cons, ih, run_cons, exec_cons]
    simp [List.append_assoc]

/-- the handler's return (or the end of the sleep) is not yet the completion: the goroutine stands before its send -/
theorem running_returns {s : Sys} {g ch : Nat} {res : Val} (hst : s.status ≠ .crashed)
    (hx : s.gs[g]? = some (.running ch res)) : (s.goStep g).gs[g]? = some (.atSend ch res) := by
  rw [goStep_eq s g hst, goCore_running hx]
  exact List.getElem?_set_self (lt_of_get hx)

theorem sleeping_returns {s : Sys} {g ch : Nat} (hst : s.status ≠ .crashed)
    (hx : s.gs[g]? = some (.sleeping ch)) : (s.goStep g).gs[g]? = some (.atSend ch false) := by
  rw [goStep_eq s g hst, goCore_sleeping hx]
  exact List.getElem?_set_self (lt_of_get hx)

/-- the same through the return of the handler (the end of the sleep): from the dispatch up to, but not including, the
send of the goroutine -/
theorem pending_lib_waits_through_return {cfg : Cfg} (hg : cfg.Good) (script : List Stmt) {g ch : Nat} {x : G}
    (hxs : (∃ res, x = .running ch res) ∨ x = .sleeping ch)
    (es1 es2 : List Ev) (h1 : ∀ e ∈ es1, e ≠ .restore ∧ e ≠ .go g) (h2 : ∀ e ∈ es2, e ≠ .restore ∧ e ≠ .go g)
    {s : Sys} (hi : Inv s) (he : s.errChan = some ch) (hx : s.gs[g]? = some x) :
    (Sys.run cfg script s (es1 ++ [.go g] ++ es2)).1.errChan = some ch
    ∧ (∃ y, (Sys.run cfg script s (es1 ++ [.go g] ++ es2)).1.gs[g]? = some y ∧ y.libActive = some ch)
    ∧ (Sys.run cfg script s (es1 ++ [.go g] ++ es2)).1.pc = s.pc
    ∧ (Sys.run cfg script s (es1 ++ [.go g] ++ es2)).1.calls = s.calls
    ∧ ∀ o ∈ (Sys.run cfg script s (es1 ++ [.go g] ++ es2)).2, o = .waiting ∨ o = .crashed := by
  have ha : x.libActive = some ch := by
    rcases hxs with ⟨res, rfl⟩ | rfl <;> rfl
  obtain ⟨a1, b1, c1, d1, e1, i1⟩ := pending_lib_waits hg script ha es1 h1 hi he hx
  rw [run_fst] at a1 b1 c1 d1 i1
  generalize hs1 : Sys.exec cfg script s es1 = s1 at *
  -- the step of `g`
  obtain ⟨f1, f2, f3, -⟩ := goStep_fields s1 g
  have hy : ∃ y, (s1.goStep g).gs[g]? = some y ∧ y.libActive = some ch := by
    by_cases hst : s1.status = .crashed
    · have : s1.goStep g = s1 := by unfold Sys.goStep; simp [hst]
      rw [this]; exact ⟨x, b1, ha⟩
    · rcases hxs with ⟨res, rfl⟩ | rfl
      · exact ⟨_, running_returns hst b1, rfl⟩
      · exact ⟨_, sleeping_returns hst b1, rfl⟩
  obtain ⟨y, hy, hya⟩ := hy
  obtain ⟨a2, b2, c2, d2, e2, -⟩ := pending_lib_waits hg script hya es2 h2 (i1.goStep g) (f1.trans a1) hy
  rw [List.append_assoc, run_append, hs1]
  simp only [List.singleton_append, run_cons, Sys.step, Option.toList, List.nil_append]
  refine ⟨a2, ⟨y, b2, hya⟩, c2.trans (f2.trans c1), d2.trans (f3.trans d1), ?_⟩
  intro o ho
  rcases List.mem_append.1 ho with h | h
  · exact e1 o h
  · exact e2 o h

/-- the completion of the pending command has arrived: its value sits in the channel nobody else refers to -/
def Arrived (s : Sys) (ch : Nat) (v : Val) : Prop :=
  s.errChan = some ch ∧ (∃ c, s.heap[ch]? = some c ∧ c.buf = [v] ∧ c.sendq = []) ∧
    ∀ (g : Nat) (x : G), s.gs[g]? = some x → x.chan ≠ some ch

theorem arrives {s : Sys} (hi : Inv s) (hst : s.status = .ok) {g ch : Nat} {v : Val} (he : s.errChan = some ch)
    (hx : s.gs[g]? = some (.atSend ch v)) : Arrived (s.goStep g) ch v := by
  obtain ⟨h1, h2, c, hc, hb, hq, -⟩ := lib_send_enabled hi hst hx
  refine ⟨(goStep_fields s g).1.trans he, ⟨c, hc, hb, hq⟩, ?_⟩
  intro g' x' hx' hch
  by_cases hgg : g' = g
  · subst hgg; rw [h1] at hx'; injection hx' with hx'; subst hx'; cases hch
  · rw [goStep_gs_other s hgg] at hx'
    exact hi.libAlone g g' _ x' ch (fun e => hgg e.symm) hx hx' rfl hch

theorem Arrived.goStep {s : Sys} (hi : Inv s) {ch : Nat} {v : Val} (h : Arrived s ch v) (g : Nat) :
    Arrived (s.goStep g) ch v := by
  obtain ⟨he, ⟨c, hc, hb, hq⟩, hno⟩ := h
  refine ⟨(goStep_fields s g).1.trans he, ⟨c, ?_, hb, hq⟩, ?_⟩
  · rw [goStep_heap_other s (fun x hx => hno g x hx)]; exact hc
  · intro g' x' hx' hch
    by_cases hgg : g' = g
    · subst hgg
      by_cases hst : s.status = .crashed
      · have : s.goStep g' = s := by unfold Sys.goStep; simp [hst]
        rw [this] at hx'; exact hno g' x' hx' hch
      · rw [goStep_eq s g' hst] at hx'
        have hlt : g' < s.gs.length := by
          have := lt_of_get hx'
          simp only at this
          rwa [goCore_gs_length] at this
        obtain ⟨x, hx⟩ : ∃ x, s.gs[g']? = some x := ⟨s.gs[g'], List.getElem?_eq_getElem hlt⟩
        obtain ⟨a, -, -, -⟩ := goCore_self hi hx hx'
        rcases a with a | a
        · exact hno g' x hx (a ▸ hch)
        · rw [a] at hch; cases hch
    · rw [goStep_gs_other s hgg] at hx'
      exact hno g' x' hx' hch

/-- the first poll after the arrival takes the value — an error is reported, success lets the call go on with the
script — and lets go of the channel -/
theorem Arrived.pollTop {cfg : Cfg} (hg : cfg.Good) {s : Sys} {ch : Nat} {v : Val} (h : Arrived s ch v) :
    ∃ s', s.pollTop cfg = (s', if v then some .err else none) ∧ s'.errChan = none ∧ s'.pc = s.pc
      ∧ s'.calls = s.calls ∧ s'.gs = s.gs ∧ s'.status = s.status
      ∧ receivedFrom ch s' = receivedFrom ch s ++ [v] ∧ Forgot ch s' := by
  obtain ⟨he, ⟨c, hc, hb, hq⟩, -⟩ := h
  have hav : c.avail = some v := by simp [Chan.avail, hb]
  rw [pollTop_good hg s he hc, hav]
  refine ⟨_, rfl, rfl, rfl, rfl, ?_, rfl, ?_, ?_, ?_⟩
  · simp [Chan.recvNB_woken_nil hq, Sys.wake]
  · simp [receivedFrom, List.filter_append]
  · simpa using lt_of_get hc
  · simp

/-! ### (f) a channel owned by the host -/

/-- the value an action of the host makes available to a receiver -/
def HostAct.val : HostAct → Val
  | .send v => v
  | .close => false

/-- nothing was available: the first action of the host on its channel makes its value available (a buffered send, a
parked unbuffered send, or a close — which reads as nil) -/
theorem host_first_event {s : Sys} (hst : s.status = .ok) {g ch : Nat} {c : Chan} {a : HostAct} {acts : List HostAct}
    (hc : s.heap[ch]? = some c) (hv : c.avail = none) (hx : s.gs[g]? = some (.host ch (a :: acts))) :
    (s.goStep g).status = .ok ∧ ∃ c1, (s.goStep g).heap[ch]? = some c1 ∧ c1.avail = some a.val := by
  rw [goStep_eq s g (by simp [hst])]
  have hlt := lt_of_get hc
  cases a with
  | send v =>
    rw [goCore_hostSend hx]
    simp only [hc]
    obtain ⟨c', hs, hav, -⟩ := Chan.send_of_avail_none g v hv
    rcases hs with hs | hs
    · rw [hs]; exact ⟨by simp [hst], c', List.getElem?_set_self hlt, hav⟩
    · rw [hs]; exact ⟨by simp [hst], c', List.getElem?_set_self hlt, hav⟩
  | close =>
    rw [goCore_hostClose hx]
    simp only [hc]
    obtain ⟨c', hs, hav, -⟩ := Chan.close_of_avail_none hv
    rw [hs]; exact ⟨by simp [hst], c', List.getElem?_set_self hlt, hav⟩

theorem goCore_avail_stable {heap : List Chan} {gs : List G} (hwf : ∀ (k : Nat) (c : Chan), heap[k]? = some c → c.WF)
    {ch : Nat} {c : Chan} {v : Val} (hc : heap[ch]? = some c) (hv : c.avail = some v) (g : Nat) :
    (goCore heap gs g).2.2 = true ∨ ∃ c', (goCore heap gs g).1[ch]? = some c' ∧ c'.avail = some v := by
  have hlt := lt_of_get hc
  have same : ∀ (gs' : List G) (b : Bool), (heap, gs', b).2.2 = true ∨ ∃ c', (heap, gs', b).1[ch]? = some c' ∧ c'.avail = some v :=
    fun _ _ => Or.inr ⟨c, hc, hv⟩
  have upd : ∀ (k : Nat) (c0 c1 : Chan) (gs' : List G) (b : Bool), heap[k]? = some c0 → (c0 = c → c1.avail = some v) →
      (heap.set k c1, gs', b).2.2 = true ∨ ∃ c', (heap.set k c1, gs', b).1[ch]? = some c' ∧ c'.avail = some v := by
    intro k c0 c1 gs' b hk hav
    right
    by_cases hkc : k = ch
    · subst hkc
      rw [hc] at hk; injection hk with hk
      exact ⟨c1, List.getElem?_set_self hlt, hav hk.symm⟩
    · exact ⟨c, by simp only; rw [List.getElem?_set_ne hkc]; exact hc, hv⟩
  cases hx : gs[g]? with
  | none => rw [goCore_idle (Or.inl hx)]; exact same _ _
  | some x =>
    cases x with
    | running k res => rw [goCore_running hx]; exact same _ _
    | sleeping k => rw [goCore_sleeping hx]; exact same _ _
    | libDone => rw [goCore_idle (Or.inr (Or.inl hx))]; exact same _ _
    | libParked k => rw [goCore_idle (Or.inr (Or.inr (Or.inl ⟨k, hx⟩)))]; exact same _ _
    | hostParked k acts => rw [goCore_idle (Or.inr (Or.inr (Or.inr (Or.inl ⟨k, acts, hx⟩))))]; exact same _ _
    | atSend k w =>
      rw [goCore_atSend' hx]
      cases hk : heap[k]? with
      | none => exact same _ _
      | some c0 =>
        simp only
        cases hs : c0.send g w with
        | sent c1 => exact upd k c0 c1 _ _ hk (fun e => Chan.avail_send (hwf _ _ hc) hv (Or.inl (e ▸ hs)))
        | parked c1 => exact upd k c0 c1 _ _ hk (fun e => Chan.avail_send (hwf _ _ hc) hv (Or.inr (e ▸ hs)))
        | panic => left; rfl
    | host k acts =>
      cases acts with
      | nil => rw [goCore_idle (Or.inr (Or.inr (Or.inr (Or.inr ⟨k, hx⟩))))]; exact same _ _
      | cons a acts =>
        cases a with
        | send w =>
          rw [goCore_hostSend hx]
          cases hk : heap[k]? with
          | none => exact same _ _
          | some c0 =>
            simp only
            cases hs : c0.send g w with
            | sent c1 => exact upd k c0 c1 _ _ hk (fun e => Chan.avail_send (hwf _ _ hc) hv (Or.inl (e ▸ hs)))
            | parked c1 => exact upd k c0 c1 _ _ hk (fun e => Chan.avail_send (hwf _ _ hc) hv (Or.inr (e ▸ hs)))
            | panic => left; rfl
        | close =>
          rw [goCore_hostClose hx]
          cases hk : heap[k]? with
          | none => exact same _ _
          | some c0 =>
            simp only
            cases hs : c0.close with
            | closed c1 => exact upd k c0 c1 _ _ hk (fun e => Chan.avail_close hv (e ▸ hs))
            | panic => left; rfl

/-- what is available first on a channel stays available first whatever any goroutine does next — unless the host
crashes the process (close of a closed channel, send on a closed channel, close under a parked sender) -/
theorem avail_stable {s : Sys} (hwf : HeapWF s) {ch : Nat} {c : Chan} {v : Val} (hc : s.heap[ch]? = some c)
    (hv : c.avail = some v) (g : Nat) :
    (s.goStep g).status = .crashed ∨ ∃ c', (s.goStep g).heap[ch]? = some c' ∧ c'.avail = some v := by
  by_cases hst : s.status = .crashed
  · left; unfold Sys.goStep; simp [hst]
  · rw [goStep_eq s g hst]
    rcases goCore_avail_stable (gs := s.gs) hwf hc hv g with h | h
    · left; simp [h]
    · right; exact h

/-- … over any number of goroutine steps -/
theorem avail_stable_many {cfg : Cfg} (script : List Stmt) (later : List Nat) :
    ∀ {s : Sys}, HeapWF s → ∀ {ch : Nat} {c : Chan} {v : Val}, s.heap[ch]? = some c → c.avail = some v →
      (Sys.exec cfg script s (later.map Ev.go)).status = .crashed ∨
      ∃ c', (Sys.exec cfg script s (later.map Ev.go)).heap[ch]? = some c' ∧ c'.avail = some v := by
  induction later with
  | nil => intro s _ ch c v hc hv; exact Or.inr ⟨c, hc, hv⟩
  | cons g later ih =>
    intro s hwf ch c v hc hv
    rw [List.map_cons, exec_cons]
    simp only [Sys.step]
    rcases avail_stable hwf hc hv g with h | ⟨c', hc', hv'⟩
    · left
      -- once crashed, nothing happens any more
      have : ∀ (l : List Nat) (t : Sys), t.status = .crashed → (Sys.exec cfg script t (l.map Ev.go)).status = .crashed := by
        intro l
        induction l with
        | nil => intro t ht; exact ht
        | cons g' l ihl =>
          intro t ht
          rw [List.map_cons, exec_cons]
          simp only [Sys.step]
          have : t.goStep g' = t := by unfold Sys.goStep; simp [ht]
          rw [this]; exact ihl t ht
      exact this later _ h
    · exact ih (hwf.goStep g) hc' hv'

/-- goroutine steps leave the runner's side alone -/
theorem exec_go_fields {cfg : Cfg} (script : List Stmt) (later : List Nat) (s : Sys) :
    (Sys.exec cfg script s (later.map Ev.go)).errChan = s.errChan
    ∧ (Sys.exec cfg script s (later.map Ev.go)).pc = s.pc
    ∧ (Sys.exec cfg script s (later.map Ev.go)).calls = s.calls
    ∧ (Sys.exec cfg script s (later.map Ev.go)).recvLog = s.recvLog := by
  induction later generalizing s with
  | nil => exact ⟨rfl, rfl, rfl, rfl⟩
  | cons g later ih =>
    rw [List.map_cons, exec_cons]
    simp only [Sys.step]
    obtain ⟨a, b, c, d⟩ := ih (s.goStep g)
    obtain ⟨h1, h2, h3, -, h5, -⟩ := goStep_fields s g
    exact ⟨a.trans h1, b.trans h2, c.trans h3, d.trans h5⟩

end Ysgo.Chan
