import Ysgo.Lemmas.ListenerNestWalk
/-!
# The listener on nodes and dialogues

`CDialogue.build_eq`: for a well-formed dialogue term `d`, `build d.toPT = .ok d.tr` — the listener model never panics on
the parse tree and returns the structural translation.
-/
namespace Ysgo.Listener
open Ysgo

/-! ### headers: the map written by `Headers[key] = value` -/

theorem header_cons (p : String × String) (ps : List (String × String)) (key : String) :
    header (p :: ps) key = if p.1 = key then p.2 else header ps key := by
  unfold header
  simp only [List.find?_cons]
  by_cases h : p.1 = key
  · simp [h]
  · have : (p.1 == key) = false := by simpa using h
    simp [this, h]

theorem header_nil (key : String) : header [] key = "" := rfl

theorem header_map_set (k v key : String) : ∀ hs : List (String × String),
    header (hs.map fun p => if p.1 == k then (k, v) else p) key
      = if k = key ∧ hs.any (fun p => p.1 == k) = true then v else header hs key
  | [] => by simp [header_nil]
  | p :: ps => by
    have ih := header_map_set k v key ps
    simp only [beq_iff_eq] at ih
    simp only [List.map, header_cons, List.any_cons]
    by_cases hpk : p.1 = k
    · have : (p.1 == k) = true := by simpa using hpk
      simp only [this, if_true, Bool.true_or, and_true]
      by_cases hkk : k = key
      · simp [hkk]
      · have hpkey : ¬ p.1 = key := by rw [hpk]; exact hkk
        simp [hkk, hpkey, ih]
    · have : (p.1 == k) = false := by simpa using hpk
      simp only [this, Bool.false_or, if_false, Bool.false_eq_true]
      by_cases hpkey : p.1 = key
      · have hkk : ¬ k = key := fun e => hpk (by rw [hpkey, e])
        simp [hpkey, hkk]
      · simp [hpkey, ih]

theorem header_append_single (k v key : String) : ∀ hs : List (String × String),
    hs.any (fun p => p.1 == k) = false →
    header (hs ++ [(k, v)]) key = if k = key then v else header hs key
  | [], _ => by simp [header_cons, header_nil]
  | p :: ps, h => by
    simp only [List.any_cons, Bool.or_eq_false_iff] at h
    have hpk : ¬ p.1 = k := by simpa using h.1
    have ih := header_append_single k v key ps h.2
    simp only [List.cons_append, header_cons, ih]
    by_cases hpkey : p.1 = key
    · have hkk : ¬ k = key := fun e => hpk (by rw [hpkey, e])
      simp [hpkey, hkk]
    · simp [hpkey]

theorem header_setHeader (hs : List (String × String)) (k v key : String) :
    header (setHeader hs k v) key = if k = key then v else header hs key := by
  unfold setHeader
  by_cases hany : hs.any (fun p => p.1 == k) = true
  · rw [if_pos hany, header_map_set]
    simp [hany]
  · rw [if_neg hany]
    exact header_append_single k v key hs (Bool.not_eq_true _ ▸ hany)

/-- the headers as the listener stores them -/
def setHeaders (acc : List (String × String)) (kvs : List (String × String)) : List (String × String) :=
  kvs.foldl (fun a p => setHeader a p.1 p.2) acc

theorem headerValue_snoc (kvs : List (String × String)) (p : String × String) (key : String) :
    Translate.headerValue (kvs ++ [p]) key = if p.1 = key then p.2 else Translate.headerValue kvs key := by
  unfold Translate.headerValue
  simp only [List.reverse_append, List.reverse_cons, List.reverse_nil, List.nil_append, List.singleton_append,
    List.find?_cons]
  by_cases h : p.1 = key
  · simp [h]
  · have : (p.1 == key) = false := by simpa using h
    simp [this, h]

theorem header_setHeaders (key : String) : ∀ (kvs acc : List (String × String)) (pre : List (String × String)),
    (header acc key = Translate.headerValue pre key) →
    header (setHeaders acc kvs) key = Translate.headerValue (pre ++ kvs) key
  | [], acc, pre, h => by simpa [setHeaders] using h
  | p :: kvs, acc, pre, h => by
    have := header_setHeaders key kvs (setHeader acc p.1 p.2) (pre ++ [p]) (by
      rw [header_setHeader, headerValue_snoc, h])
    simpa [setHeaders, List.append_assoc] using this

theorem header_setHeaders_nil (key : String) (kvs : List (String × String)) :
    header (setHeaders [] kvs) key = Translate.headerValue kvs key := by
  have := header_setHeaders key kvs [] [] rfl
  simpa using this



/-- inside node `nd` of a dialogue walk that was in `σ` when the node started -/
def nodeState (σ : State) (nd : PNode) (n : Nat) : State :=
  (((σ.withNode (some nd)).withS (.nodeStmt :: σ.statementCallbacks)).withL
    (.nodeLine :: σ.lineStatementCallbacks)).ghost n none

/-- after the node: it has been copied into `dialogue.Nodes`, the register still points to it -/
def doneState (σ : State) (nd : PNode) (n : Nat) : State :=
  ((σ.withNodes (σ.nodes ++ [nd])).withNode (some { nd with shared := true })).ghost n none

theorem enter_node (cs : List PT) (σ : State) (hi : Idle σ) : enter .node cs σ = .ok (nodeState σ {} σ.next) := by
  have h1 := hi.alive
  have h2 := hi.fnCb
  rcases σ with ⟨nx, al, ns, nd, ln, gs, so, sc, tc, ec, lc, vc, cc, fc, ctc, hc, pc⟩
  simp only at h1 h2
  subst h1 h2
  rfl

theorem exit_node (σ : State) (nd : PNode) (n : Nat) (hal : σ.alive = true) :
    exit .node (nodeState σ nd n) = .ok (doneState σ nd n) := by
  rcases σ with ⟨nx, al, ns, nd', ln, gs, so, sc, tc, ec, lc, vc, cc, fc, ctc, hc, pc⟩
  simp only at hal
  subst hal
  rfl

theorem Idle.nodeState {σ : State} (hi : Idle σ) (nd : PNode) (n : Nat) : Idle (nodeState σ nd n) :=
  ⟨hi.alive, hi.varCb, rfl, hi.textCb, hi.cmdTextCb, hi.hashtagCb, hi.line, hi.proto⟩

theorem Idle.doneState {σ : State} (hi : Idle σ) (nd : PNode) (n : Nat) : Idle (doneState σ nd n) :=
  ⟨hi.alive, hi.varCb, rfl, hi.textCb, hi.cmdTextCb, hi.hashtagCb, hi.line, hi.proto⟩

theorem Bounded.nodeState {σ : State} {n : Nat} (hb : Bounded σ n) (nd : PNode) (hnd : Below n nd.ids) (n' : Nat) :
    Bounded (nodeState σ nd n') n :=
  ⟨hb.nodes, (hnd : Below n (optIds PNode.ids (some nd))), hb.line, hb.groups, hb.options,
   (fun cb hcb => by
      rcases List.mem_cons.1 hcb with rfl | hcb
      · exact Below.nil _
      · exact hb.stmtCbs cb hcb),
   hb.exprCbs,
   (fun cb hcb => by
      rcases List.mem_cons.1 hcb with rfl | hcb
      · exact Below.nil _
      · exact hb.lineCbs cb hcb),
   hb.clauseCbs, hb.textCb, hb.varCb, hb.cmdTextCb, hb.proto⟩

theorem Bounded.doneState {σ : State} {n : Nat} (hb : Bounded σ n) (nd : PNode) (hnd : Below n nd.ids) (n' : Nat) :
    Bounded (doneState σ nd n') n :=
  ⟨(fun x hx => by
      rcases List.mem_append.1 hx with hx | hx
      · exact hb.nodes x hx
      · simp only [List.mem_singleton] at hx
        exact hx ▸ hnd),
   (hnd : Below n (optIds PNode.ids (some { nd with shared := true }))), hb.line, hb.groups, hb.options, hb.stmtCbs,
   hb.exprCbs, hb.lineCbs, hb.clauseCbs, hb.textCb, hb.varCb, hb.cmdTextCb, hb.proto⟩

/-- statements delivered into the node under construction -/
theorem deliverItems_nodeState {σ : State} (hal : σ.alive = true) (n : Nat) : ∀ (items : List PStmt) (nd : PNode),
    deliverItems items (nodeState σ nd n) = .ok (nodeState σ { nd with stmts := nd.stmts ++ items } n)
  | [], nd => by simp [deliverItems]
  | s :: items, nd => by
    have hstep : deliverItem s (nodeState σ nd n) = .ok (nodeState σ { nd with stmts := nd.stmts ++ [s] } n) := by
      cases s with
      | line x =>
        show deliverL x _ = _
        unfold deliverL
        rw [if_pos (show (nodeState σ nd n).alive = true from hal)]
        rfl
      | _ =>
        show deliverS _ _ = _
        unfold deliverS
        rw [if_pos (show (nodeState σ nd n).alive = true from hal)]
        rfl
    simp only [deliverItems, hstep, Outcome.bind_ok]
    rw [deliverItems_nodeState hal n items]
    simp [List.append_assoc]

theorem walk_headers {σ : State} (n : Nat) : ∀ (hs : List CHeader) (nd : PNode), nd.shared = false →
    walkList (hs.map CHeader.toPT) (nodeState σ nd n)
      = .ok (nodeState σ { nd with headers := setHeaders nd.headers (hs.map CHeader.kv) } n)
  | [], nd, _ => by simp [setHeaders]
  | h :: hs, nd, hsh => by
    have hstep : walk h.toPT (nodeState σ nd n)
        = .ok (nodeState σ { nd with headers := setHeader nd.headers h.kv.1 h.kv.2 } n) := by
      rcases h with ⟨k, d, v⟩
      cases v with
      | none =>
        simp only [CHeader.toPT, walk_rule]
        have hen : enter .header [.tok .id k, .tok .headerDelimiter d] (nodeState σ nd n)
            = .ok (nodeState σ { nd with headers := setHeader nd.headers k "" } n) := by
          simp only [enter, enter.hdr]
          rw [show (nodeState σ nd n).node = some nd from rfl]
          simp only [hsh]
          rfl
        rw [hen]
        simp [walkList_cons, walk_tok, visitTerminal, exit, CHeader.kv]
      | some v =>
        simp only [CHeader.toPT, walk_rule]
        have hen : enter .header [.tok .id k, .tok .headerDelimiter d, .tok .restOfLine v] (nodeState σ nd n)
            = .ok (nodeState σ { nd with headers := setHeader nd.headers k v } n) := by
          simp only [enter, enter.hdr]
          rw [show (nodeState σ nd n).node = some nd from rfl]
          simp only [hsh]
          rfl
        rw [hen]
        simp [walkList_cons, walk_tok, visitTerminal, exit, CHeader.kv]
    simp only [List.map, walkList_cons, hstep, Outcome.bind_ok]
    rw [walk_headers n hs { nd with headers := setHeader nd.headers h.kv.1 h.kv.2 } hsh]
    simp [setHeaders]


/-- the node as the listener builds it when the allocation counter stands at `n` -/
def CNode.pN (nd : CNode) (n : Nat) : PNode :=
  { headers := setHeaders [] (nd.headers.map CHeader.kv), stmts := CStmt.pSList nd.body n, shared := false }

theorem walk_body (cs : List PT) (χ : State) : walk (.rule .body cs) χ = walkList cs χ := by
  rw [walk_rule]
  have h1 : enter .body cs χ = .ok χ := rfl
  rw [h1]
  simp only [Outcome.bind_ok]
  exact Outcome.bind_id_of _ _ (fun _ => rfl)

theorem CNode.walk_eq (nd : CNode) (h : nd.WF) (σ : State) (hi : Idle σ) (hb : Bounded σ σ.next) :
    walk nd.toPT σ = .ok (doneState σ (nd.pN σ.next) (σ.next + CStmt.cntList nd.body)) := by
  simp only [CNode.toPT, walk_rule, enter_node _ σ hi, Outcome.bind_ok, walkList_append]
  rw [walk_headers σ.next nd.headers {} rfl]
  simp only [Outcome.bind_ok, walkList_cons, walk_tok, visitTerminal, walk_body, walkList_nil]
  have hsp := CStmt.specList nd.body h.body
    (nodeState σ { ({} : PNode) with headers := setHeaders [] (nd.headers.map CHeader.kv) } σ.next)
    (hi.nodeState _ _) (hb.nodeState _ (by simp [PNode.ids, PStmt.idsList, Below.nil]) _)
  rw [hsp, deliverItems_nodeState hi.alive]
  simp only [Outcome.map_ok, Outcome.bind_ok]
  have : (nodeState σ { ({ ({} : PNode) with headers := setHeaders [] (nd.headers.map CHeader.kv) } : PNode) with
      stmts := ({ ({} : PNode) with headers := setHeaders [] (nd.headers.map CHeader.kv) } : PNode).stmts ++
        CStmt.pSList nd.body (nodeState σ { ({} : PNode) with headers := setHeaders [] (nd.headers.map CHeader.kv) }
          σ.next).next } σ.next).ghost
        ((nodeState σ { ({} : PNode) with headers := setHeaders [] (nd.headers.map CHeader.kv) } σ.next).next +
          CStmt.cntList nd.body) none
      = nodeState σ (nd.pN σ.next) (σ.next + CStmt.cntList nd.body) := rfl
  rw [this]
  exact exit_node σ _ _ hi.alive

/-- the nodes with their identities -/
def pNList : List CNode → Nat → List PNode
  | [], _ => []
  | nd :: ns, n => nd.pN n :: pNList ns (n + CStmt.cntList nd.body)

theorem walk_nodes : ∀ (ns : List CNode), (∀ nd ∈ ns, nd.WF) → ∀ (σ : State), Idle σ → Bounded σ σ.next →
    ∃ σ', walkList (ns.map CNode.toPT) σ = .ok σ' ∧ σ'.alive = true ∧ σ'.nodes = σ.nodes ++ pNList ns σ.next
  | [], _, σ, hi, _ => ⟨σ, by simp, hi.alive, by simp [pNList]⟩
  | nd :: ns, h, σ, hi, hb => by
    have hnd := CNode.walk_eq nd (h nd (by simp)) σ hi hb
    have hids : Below (σ.next + CStmt.cntList nd.body) (nd.pN σ.next).ids := by
      simpa [CNode.pN, PNode.ids] using (CStmt.ids_pSList nd.body σ.next).below
    obtain ⟨σ', h1, h2, h3⟩ := walk_nodes ns (fun m hm => h m (by simp [hm]))
      (doneState σ (nd.pN σ.next) (σ.next + CStmt.cntList nd.body)) (hi.doneState _ _)
      ((hb.mono (by omega)).doneState _ hids _)
    refine ⟨σ', ?_, h2, ?_⟩
    · simp only [List.map, walkList_cons, hnd, Outcome.bind_ok, h1]
    · rw [h3]
      show (σ.nodes ++ [nd.pN σ.next]) ++ _ = _
      simp [pNList, List.append_assoc]
      rfl

theorem walk_fileTags (χ : State) : ∀ ts : List (String × String), walkList (ts.map fileTagPT) χ = .ok χ
  | [] => by simp
  | t :: ts => by
    have h1 : walk (fileTagPT t) χ = .ok χ := by
      simp only [fileTagPT, walk_rule]
      have : enter .fileHashtag [.tok .hashtag t.1, .tok .hashtagText t.2] χ = .ok χ := rfl
      rw [this]
      simp [walkList_cons, walk_tok, visitTerminal, exit]
    simp only [List.map, walkList_cons, h1, Outcome.bind_ok]
    exact walk_fileTags χ ts

/-- the listener state after `EnterDialogue` on a fresh listener -/
def startState : State := { State.init with alive := true }

theorem enter_dialogue_init (cs : List PT) : enter .dialogue cs State.init = .ok startState := rfl

theorem idle_start : Idle startState := ⟨rfl, rfl, rfl, rfl, rfl, rfl, rfl, rfl⟩

theorem bounded_start : Bounded startState 0 where
  nodes := fun x hx => by cases hx
  node := Below.nil _
  line := Below.nil _
  groups := fun x hx => by cases hx
  options := Below.nil _
  stmtCbs := fun x hx => by cases hx
  exprCbs := fun x hx => by cases hx
  lineCbs := fun x hx => by cases hx
  clauseCbs := fun x hx => by cases hx
  textCb := fun k h => by cases h
  varCb := Below.nil _
  cmdTextCb := fun k h => by cases h
  proto := fun k h => by cases h

theorem reify_pN (nd : CNode) (h : nd.WF) (n : Nat) : (nd.pN n).reify = some nd.tr := by
  simp [CNode.pN, PNode.reify, CStmt.reify_pSList nd.body n h.body, CNode.tr, header_setHeaders_nil]

theorem reify_pNList : ∀ (ns : List CNode), (∀ nd ∈ ns, nd.WF) → ∀ n, reifyNodes (pNList ns n) = some (ns.map CNode.tr)
  | [], _, _ => rfl
  | nd :: ns, h, n => by
    simp [pNList, reifyNodes, reify_pN nd (h nd (by simp)) n, reify_pNList ns (fun m hm => h m (by simp [hm]))]

theorem CDialogue.build_eq (d : CDialogue) (h : d.WF) : build d.toPT = .ok d.tr := by
  obtain ⟨σ', h1, h2, h3⟩ := walk_nodes d.nodes h.each startState idle_start bounded_start
  unfold build
  simp only [CDialogue.toPT, walk_rule, enter_dialogue_init, Outcome.bind_ok, walkList_append, walk_fileTags, h1]
  have hex : exit .dialogue σ' = .ok σ' := rfl
  rw [hex]
  simp only [h2, if_true, h3]
  have : startState.nodes ++ pNList d.nodes startState.next = pNList d.nodes 0 := rfl
  rw [this, reify_pNList d.nodes h.each 0]
  rfl


end Ysgo.Listener
