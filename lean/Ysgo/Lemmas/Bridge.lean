import Ysgo.Spec.Bridge
/-! helper lemmas for C16 -/
namespace Ysgo.Bridge
open Ysgo

theorem convTo_ty {t : GoType} {v : Value} {g : GoVal} (h : convTo t v = some g) : g.ty = t := by
  unfold convTo at h
  cases hk : valueKind? t with
  | none => simp [hk] at h
  | some k =>
    simp only [hk] at h
    cases hc : convKind k v with
    | none => simp [hc] at h
    | some g' => simp [hc] at h; rw [← h]

theorem convFixed_types : ∀ (ts : List GoType) (vs : List Value) (gs : List GoVal),
    ts.length ≤ vs.length → convFixed ts vs = some gs → typesMatch ts gs = true
  | [], _, gs, _, h => by simp [convFixed] at h; subst h; rfl
  | _ :: _, [], _, hl, _ => by simp at hl
  | t :: ts, v :: vs, gs, hl, h => by
    simp only [convFixed] at h
    cases hg : convTo t v with
    | none => simp [hg] at h
    | some g =>
      cases hr : convFixed ts vs with
      | none => simp [hg, hr] at h
      | some gs' =>
        simp [hg, hr] at h
        subst h
        have := convFixed_types ts vs gs' (by simpa using hl) hr
        simp [typesMatch, convTo_ty hg, this]

theorem convFixed_length : ∀ (ts : List GoType) (vs : List Value) (gs : List GoVal),
    convFixed ts vs = some gs → gs.length = ts.length
  | [], _, gs, h => by simp [convFixed] at h; subst h; rfl
  | _ :: _, [], _, h => by simp [convFixed] at h
  | t :: ts, v :: vs, gs, h => by
    simp only [convFixed] at h
    cases hg : convTo t v with
    | none => simp [hg] at h
    | some g =>
      cases hr : convFixed ts vs with
      | none => simp [hg, hr] at h
      | some gs' =>
        simp [hg, hr] at h
        subst h
        simp [convFixed_length ts vs gs' hr]

theorem convTail_types (t : GoType) : ∀ (vs : List Value) (gs : List GoVal),
    convTail t vs = some gs → gs.all (fun g => g.ty == t) = true
  | [], gs, h => by simp [convTail] at h; subst h; rfl
  | v :: vs, gs, h => by
    simp only [convTail] at h
    cases hg : convTo t v with
    | none => simp [hg] at h
    | some g =>
      cases hr : convTail t vs with
      | none => simp [hg, hr] at h
      | some gs' =>
        simp [hg, hr] at h
        subst h
        have := convTail_types t vs gs' hr
        simp [convTo_ty hg, this]

/-- what `convertInputs` returns has the shape `reflect.Value.Call` demands -/
theorem convertInputs_shape (s : Sig) (args : List Value) (ins : List GoVal) (h : convertInputs s args = .ok ins) :
    typesMatch s.params (ins.take s.params.length) = true ∧
    (match s.variadic with
     | none => (ins.drop s.params.length).isEmpty
     | some t => (ins.drop s.params.length).all (fun g => g.ty == t)) = true := by
  unfold convertInputs at h
  cases hv : s.variadic with
  | none =>
    simp only [hv] at h
    split at h
    · cases h
    · split at h
      · cases h
      · rename_i h1 h2
        cases hc : convFixed s.params args with
        | none => simp [hc] at h
        | some gs =>
          simp [hc] at h
          subst h
          have hl := convFixed_length _ _ _ hc
          have ht := convFixed_types s.params args gs (by omega) hc
          have htake : gs.take s.params.length = gs := List.take_of_length_le (by omega)
          have hdrop : gs.drop s.params.length = [] := List.drop_of_length_le (by omega)
          simp [htake, hdrop, ht]
  | some t =>
    simp only [hv] at h
    split at h
    · cases h
    · rename_i h1
      cases hc : convFixed s.params (args.take s.params.length) with
      | none => simp [hc] at h
      | some gs =>
        cases htl : convTail t (args.drop s.params.length) with
        | none => simp [hc, htl] at h
        | some ts =>
          simp [hc, htl] at h
          subst h
          have hl := convFixed_length _ _ _ hc
          have ht := convFixed_types s.params (args.take s.params.length) gs (by simp; omega) hc
          have htake : (gs ++ ts).take s.params.length = gs := by
            rw [List.take_append_of_le_length (by omega)]; exact List.take_of_length_le (by omega)
          have hdrop : (gs ++ ts).drop s.params.length = ts := by
            rw [← hl]; simp
          rw [htake, hdrop]
          exact ⟨ht, convTail_types t _ _ htl⟩

/-- for a non-nil function whose host respects its result types, the reflective call of converted inputs succeeds -/
theorem reflectCall_converted (s : Sig) (host : Host) (hh : HostRespects s host) (args : List Value) (ins : List GoVal)
    (h : convertInputs s args = .ok ins) :
    reflectCall s false host ins = .ok (List.zipWith GoVal.mk s.results (host ins)) := by
  obtain ⟨h1, h2⟩ := convertInputs_shape s args ins h
  unfold reflectCall
  simp only [Bool.false_eq_true, ↓reduceIte, h1, Bool.not_true]
  cases hv : s.variadic with
  | none => simp only [hv] at h2; simp [h2, hh ins]
  | some t => simp only [hv] at h2; simp [h2, hh ins]

/-- without any assumption on the host: the only panic left is the host's own contract violation -/
theorem reflectCall_converted_weak (s : Sig) (host : Host) (args : List Value) (ins : List GoVal)
    (h : convertInputs s args = .ok ins) :
    reflectCall s false host ins = .ok (List.zipWith GoVal.mk s.results (host ins)) ∨
    reflectCall s false host ins = .error .host := by
  obtain ⟨h1, h2⟩ := convertInputs_shape s args ins h
  unfold reflectCall
  simp only [Bool.false_eq_true, ↓reduceIte, h1, Bool.not_true]
  cases hf : fitsAll s.results (host ins) <;> cases hv : s.variadic <;> simp only [hv] at h2 <;> simp [h2]

theorem fitsAll_length : ∀ (ts : List GoType) (ps : List Payload), fitsAll ts ps = true → ps.length = ts.length
  | [], [], _ => rfl
  | [], _ :: _, h => by simp [fitsAll] at h
  | _ :: _, [], h => by simp [fitsAll] at h
  | t :: ts, p :: ps, h => by
    simp [fitsAll] at h
    simp [fitsAll_length ts ps h.2]

/-! ### the gates as propositions -/

theorem valueKind_isSome_iff (t : GoType) : (valueKind? t).isSome = true ↔ Supported t := by
  cases t with
  | basic k n => cases k <;> simp [valueKind?, Supported]
  | _ => simp [valueKind?, Supported]

theorem convertibleToError_iff (t : GoType) : convertibleToError t = true ↔ ImplementsError t := by
  cases t <;> simp [convertibleToError, ImplementsError]

theorem isErrChan_iff (t : GoType) : isErrChan t = true ↔ ErrChanLike t := by
  cases t with
  | chanErr d n e => cases d <;> cases e <;> simp [isErrChan, ErrChanLike]
  | _ => simp [isErrChan, ErrChanLike]

theorem inputsSupported_iff (s : Sig) : inputsSupported s = true ↔ InputsOK s := by
  unfold inputsSupported InputsOK
  rw [Bool.and_eq_true, List.all_eq_true]
  constructor
  · rintro ⟨h1, h2⟩
    refine ⟨fun t ht => (valueKind_isSome_iff t).mp (h1 t ht), fun t ht => ?_⟩
    rw [ht] at h2
    exact (valueKind_isSome_iff t).mp h2
  · rintro ⟨h1, h2⟩
    refine ⟨fun t ht => (valueKind_isSome_iff t).mpr (h1 t ht), ?_⟩
    cases hv : s.variadic with
    | none => rfl
    | some t => exact (valueKind_isSome_iff t).mpr (h2 t hv)

theorem checkFunctionOutputs_isSome_iff (rs : List GoType) : (checkFunctionOutputs rs).isSome = true ↔ FnResultsOK rs := by
  match rs with
  | [] => simp [checkFunctionOutputs, FnResultsOK]
  | [t] =>
    simp only [checkFunctionOutputs, FnResultsOK, ← valueKind_isSome_iff, ← convertibleToError_iff]
    cases (valueKind? t).isSome <;> cases convertibleToError t <;> simp
  | [t, e] =>
    simp only [checkFunctionOutputs, FnResultsOK, ← valueKind_isSome_iff, ← convertibleToError_iff]
    cases (valueKind? t).isSome <;> cases convertibleToError e <;> simp
  | _ :: _ :: _ :: _ => simp [checkFunctionOutputs, FnResultsOK]

theorem checkFunctionOutputs_eq (rs : List GoType) (r : RetSig) (h : checkFunctionOutputs rs = some r) : r = fnRetOf rs := by
  match rs with
  | [] => simp [checkFunctionOutputs] at h; simp [fnRetOf, h]
  | [t] =>
    simp only [checkFunctionOutputs] at h
    simp only [fnRetOf]
    cases hk : (valueKind? t).isSome <;> cases hc : convertibleToError t <;> simp [hk, hc] at h ⊢ <;> exact h.symm
  | [t, e] =>
    simp only [checkFunctionOutputs] at h
    simp only [fnRetOf]
    cases hk : (valueKind? t).isSome <;> cases hc : convertibleToError e <;> simp [hk, hc] at h ⊢ <;> exact h.symm
  | _ :: _ :: _ :: _ => simp [checkFunctionOutputs] at h

theorem checkCommandOutputs_isSome_iff (rs : List GoType) : (checkCommandOutputs rs).isSome = true ↔ CmdResultsOK rs := by
  match rs with
  | [] => simp [checkCommandOutputs, CmdResultsOK]
  | [t] =>
    simp only [checkCommandOutputs, CmdResultsOK, ← isErrChan_iff, ← convertibleToError_iff]
    cases isErrChan t <;> cases convertibleToError t <;> simp
  | _ :: _ :: _ => simp [checkCommandOutputs, CmdResultsOK]

theorem checkCommandOutputs_eq (rs : List GoType) (r : RetSig) (h : checkCommandOutputs rs = some r) : r = cmdRetOf rs := by
  match rs with
  | [] => simp [checkCommandOutputs] at h; simp [cmdRetOf, h]
  | [t] =>
    simp only [checkCommandOutputs] at h
    simp only [cmdRetOf]
    cases hk : isErrChan t <;> cases hc : convertibleToError t <;> simp [hk, hc] at h ⊢ <;> exact h.symm
  | _ :: _ :: _ => simp [checkCommandOutputs] at h

/-- registration of a function value: accepted iff both gates pass, and then the bridge is determined -/
theorem registerFunction_fn (s : Sig) (b : FnBridge) :
    registerFunction (.fn s) = .ok b ↔
      (checkFunctionOutputs s.results).isSome = true ∧ inputsSupported s = true ∧ b = ⟨s, fnRetOf s.results, false⟩ := by
  cases hc : checkFunctionOutputs s.results with
  | none => simp [registerFunction, hc]
  | some r =>
    have hr := checkFunctionOutputs_eq _ _ hc
    cases hi : inputsSupported s with
    | false => simp [registerFunction, hc, hi]
    | true =>
      simp only [registerFunction, hc, hi, ↓reduceIte, Option.isSome_some, true_and]
      constructor
      · intro h; injection h with h; rw [← h, hr]
      · intro h; rw [h, hr]

theorem registerCommand_fn (s : Sig) (b : CmdBridge) :
    registerCommand (.fn s) = .ok b ↔
      (checkCommandOutputs s.results).isSome = true ∧ inputsSupported s = true ∧ b = ⟨s, cmdRetOf s.results, false⟩ := by
  cases hc : checkCommandOutputs s.results with
  | none => simp [registerCommand, hc]
  | some r =>
    have hr := checkCommandOutputs_eq _ _ hc
    cases hi : inputsSupported s with
    | false => simp [registerCommand, hc, hi]
    | true =>
      simp only [registerCommand, hc, hi, ↓reduceIte, Option.isSome_some, true_and]
      constructor
      · intro h; injection h with h; rw [← h, hr]
      · intro h; rw [h, hr]

/-! ### matching argument lists -/

theorem convTo_of_fits (t : GoType) (v : Value) (h : argFits t v = true) : convTo t v = some (conv t v) := by
  unfold argFits at h
  unfold convTo conv
  cases hk : valueKind? t with
  | none => simp [hk] at h
  | some k =>
    cases v with
    | num x => cases k <;> simp [hk, numericKind] at h <;> simp [convKind, convNum, convPayload]
    | bool b => cases k <;> simp [hk] at h <;> simp [convKind, convPayload]
    | str x => cases k <;> simp [hk] at h <;> simp [convKind, convPayload]

theorem convTo_of_not_fits (t : GoType) (v : Value) (h : argFits t v = false) : convTo t v = none := by
  unfold argFits at h
  unfold convTo
  cases hk : valueKind? t with
  | none => rfl
  | some k =>
    cases v with
    | num x => cases k <;> simp [hk, numericKind] at h <;> simp [convKind, convNum]
    | bool b => cases k <;> simp [hk] at h <;> simp [convKind]
    | str x => cases k <;> simp [hk] at h <;> simp [convKind]

theorem convFixed_of_fits : ∀ (ts : List GoType) (vs : List Value), fitsFixed ts vs = true →
    convFixed ts vs = some (List.zipWith conv ts vs)
  | [], [], _ => rfl
  | [], _ :: _, h => by simp [fitsFixed] at h
  | _ :: _, [], h => by simp [fitsFixed] at h
  | t :: ts, v :: vs, h => by
    simp [fitsFixed] at h
    simp [convFixed, convTo_of_fits t v h.1, convFixed_of_fits ts vs h.2]

theorem fitsFixed_length : ∀ (ts : List GoType) (vs : List Value), fitsFixed ts vs = true → vs.length = ts.length
  | [], [], _ => rfl
  | [], _ :: _, h => by simp [fitsFixed] at h
  | _ :: _, [], h => by simp [fitsFixed] at h
  | t :: ts, v :: vs, h => by
    simp [fitsFixed] at h
    simp [fitsFixed_length ts vs h.2]

theorem convFixed_of_not_fits : ∀ (ts : List GoType) (vs : List Value), vs.length = ts.length → fitsFixed ts vs = false →
    convFixed ts vs = none
  | [], [], _, h => by simp [fitsFixed] at h
  | [], _ :: _, hl, _ => by simp at hl
  | _ :: _, [], hl, _ => by simp at hl
  | t :: ts, v :: vs, hl, h => by
    simp only [convFixed]
    cases hf : argFits t v with
    | false => simp [convTo_of_not_fits t v hf]
    | true =>
      simp [fitsFixed, hf] at h
      simp [convTo_of_fits t v hf, convFixed_of_not_fits ts vs (by simpa using hl) h]

theorem convTail_of_fits (t : GoType) : ∀ (vs : List Value), vs.all (argFits t) = true →
    convTail t vs = some (vs.map (conv t))
  | [], _ => rfl
  | v :: vs, h => by
    simp at h
    simp [convTail, convTo_of_fits t v h.1, convTail_of_fits t vs (by simpa using h.2)]

theorem convTail_of_not_fits (t : GoType) : ∀ (vs : List Value), vs.all (argFits t) = false → convTail t vs = none
  | [], h => by simp at h
  | v :: vs, h => by
    simp only [convTail]
    cases hf : argFits t v with
    | false => simp [convTo_of_not_fits t v hf]
    | true =>
      have : vs.all (argFits t) = false := by simpa [hf] using h
      simp [convTo_of_fits t v hf, convTail_of_not_fits t vs this]

/-- matching arguments are converted to `expectedInputs` -/
theorem convertInputs_of_match (s : Sig) (args : List Value) (h : argsMatch s args = true) :
    convertInputs s args = .ok (expectedInputs s args) := by
  unfold argsMatch at h
  unfold convertInputs expectedInputs
  cases hv : s.variadic with
  | none =>
    simp only [hv] at h
    have hl := fitsFixed_length _ _ h
    simp [hl, convFixed_of_fits _ _ h]
  | some t =>
    simp only [hv, Bool.and_eq_true, decide_eq_true_eq] at h
    obtain ⟨⟨h1, h2⟩, h3⟩ := h
    have hz : List.zipWith conv s.params (List.take s.params.length args) = List.zipWith conv s.params args := by
      rw [List.zipWith_eq_zipWith_take_min]
      conv => rhs; rw [List.zipWith_eq_zipWith_take_min]
      simp [List.take_take, Nat.min_eq_left h1]
    simp [Nat.not_lt.mpr h1, convFixed_of_fits _ _ h2, convTail_of_fits t _ h3, hz]

/-- anything else is refused before the host function runs: wrong count or wrong type -/
theorem convertInputs_of_mismatch (s : Sig) (args : List Value) (h : argsMatch s args = false) :
    convertInputs s args = .error .argCount ∨ convertInputs s args = .error .argType := by
  unfold argsMatch at h
  unfold convertInputs
  cases hv : s.variadic with
  | none =>
    simp only [hv] at h
    by_cases h1 : args.length < s.params.length
    · simp [h1]
    · by_cases h2 : args.length > s.params.length
      · simp [h1, h2]
      · simp [h1, h2, convFixed_of_not_fits _ _ (by omega) h]
  | some t =>
    simp only [hv] at h
    by_cases h1 : args.length < s.params.length
    · simp [h1]
    · right
      simp only [h1, ↓reduceIte]
      have hle : s.params.length ≤ args.length := by omega
      cases hf : fitsFixed s.params (args.take s.params.length) with
      | false => simp [convFixed_of_not_fits _ _ (by simp; omega) hf]
      | true =>
        have : (args.drop s.params.length).all (argFits t) = false := by simpa [hle, hf] using h
        simp [convFixed_of_fits _ _ hf, convTail_of_not_fits t _ this]

end Ysgo.Bridge
