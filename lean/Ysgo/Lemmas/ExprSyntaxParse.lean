import Ysgo.Lemmas.ExprSyntaxFuel
/-!
# The parser inverts every printer

The invariant (from the design prototype): parsing `prP q p ++ rest` at level `q` equals running the level-`q`
loop on `erase p` and `rest`, provided the head of `rest` is no operator of a level above `q`.
It is proved once, for trees with explicit parenthesis nodes (`PExpr`); minimal, full and policy-driven redundant
parenthesisation are instances.
-/
namespace Ysgo
namespace ExprSyntax

theorem binOf_tokOf (o : BinOp) : binOf (tokOf o) = some o := rfl

theorem lvl_pos (o : BinOp) : 1 ≤ lvl o ∧ lvl o ≤ 5 := by cases o <;> simp [lvl]

/-- the head of `rest` is not a binary operator of level above `q` -/
def NoOpAbove (q : Nat) (rest : List Tok) : Prop :=
  ∀ t ts o, rest = t :: ts → binOf t = some o → lvl o ≤ q

theorem NoOpAbove.mono {q q' rest} (h : NoOpAbove q rest) (hq : q ≤ q') : NoOpAbove q' rest :=
  fun t ts o e b => Nat.le_trans (h t ts o e b) hq

theorem NoOpAbove.nil (q : Nat) : NoOpAbove q [] := fun _ _ _ h _ => by cases h

theorem NoOpAbove.of_nonop {q t ts} (h : binOf t = none) : NoOpAbove q (t :: ts) :=
  fun t' ts' o e b => by cases e; rw [h] at b; cases b

/-- a loop at a level the head of `rest` cannot be returns at once -/
theorem loop_stops (k : Nat) (e : Expr) (rest : List Tok)
    (h : ∀ t ts o, rest = t :: ts → binOf t = some o → lvl o ≠ k) :
    pLoop 1 k e rest = some (e, rest) := by
  cases rest with
  | nil => simp [pLoop]
  | cons t ts =>
    rw [pLoop]
    cases hb : binOf t with
    | none => rfl
    | some o => simp [h t ts o rfl hb]

/-- one level up: a result at level k+1 followed by the level-k loop is a result at level k -/
theorem ascend {f f₁ k ts e rest res} (hk : k < 6)
    (h : pLevel f (k + 1) ts = some (e, rest)) (hl : pLoop f₁ k e rest = some res) :
    ∃ f', pLevel f' k ts = some res := by
  refine ⟨max f f₁ + 1, ?_⟩
  rw [pLevel]
  have : ¬ k ≥ 6 := by omega
  simp only [this, ↓reduceIte]
  rw [mono_level h (Nat.le_max_left _ _)]
  exact mono_loop hl (Nat.le_max_right _ _)

theorem descend : ∀ (d : Nat) {f f₁ q a ts e rest res}, a = q + d + 1 → a ≤ 6 →
    pLevel f a ts = some (e, rest) → NoOpAbove q rest → pLoop f₁ q e rest = some res →
    ∃ f', pLevel f' q ts = some res := by
  intro d
  induction d with
  | zero =>
    intro f f₁ q a ts e rest res ha ha6 h hno hl
    subst ha
    exact ascend (by omega) h hl
  | succ d ih =>
    intro f f₁ q a ts e rest res ha ha6 h hno hl
    subst ha
    have hstop : pLoop 1 (q + d + 1) e rest = some (e, rest) :=
      loop_stops _ _ _ (fun t ts o e1 b => by have := hno t ts o e1 b; omega)
    obtain ⟨f', hf'⟩ := ascend (k := q + d + 1) (by omega) h hstop
    exact ih rfl (by omega) hf' hno hl

/-- U: the unary level parses `prP 6 p` -/
def U (p : PExpr) : Prop := ∀ rest, ∃ f, pUnary f (prP 6 p ++ rest) = some (p.erase, rest)
/-- G: level q parses `prP q p` and then behaves like the level-q loop started on `erase p` -/
def G (p : PExpr) : Prop := ∀ q, 1 ≤ q → q ≤ 5 → ∀ rest res f, NoOpAbove q rest →
    pLoop f q p.erase rest = some res → ∃ f', pLevel f' q (prP q p ++ rest) = some res
/-- A: the argument tail `(, arg)* )` is parsed by `pRest` -/
def A (ps : List PExpr) : Prop := ∀ rest, ∃ f, pRest f (prPArgs ps ++ rest) = some (PExpr.eraseList ps, rest)

/-- a level-6 shaped printing (independent of q) that the unary level parses gives G -/
theorem G_of_U (p : PExpr) (hpr : ∀ q, prP q p = prP 6 p) (hu : U p) : G p := by
  intro q h1 h5 rest res f hno hl
  obtain ⟨fu, hfu⟩ := hu rest
  have h6 : pLevel (fu + 1) 6 (prP 6 p ++ rest) = some (p.erase, rest) := by
    rw [pLevel]; simp [hfu]
  rw [hpr q]
  exact descend (5 - q) (a := 6) (by omega) (by omega) h6 hno hl

/-- level 1 on `prP 1 p ++ rest` when `rest` starts with a token that is no operator -/
theorem G_level1 {p : PExpr} (hg : G p) {t : Tok} {ts : List Tok} (ht : binOf t = none) :
    ∃ f, pLevel f 1 (prP 1 p ++ t :: ts) = some (p.erase, t :: ts) :=
  hg 1 (Nat.le_refl _) (by omega) (t :: ts) _ 1 (NoOpAbove.of_nonop ht)
    (loop_stops _ _ _ (fun t' ts' o e b => by cases e; rw [ht] at b; cases b))

/-- a printed expression never starts with `)` or `,` -/
theorem prP_head : ∀ (k : Nat) (p : PExpr), ∃ t ts, prP k p = t :: ts ∧ t ≠ .rp ∧ t ≠ .comma
  | _, .num t => ⟨.num t, [], by simp [prP], by simp, by simp⟩
  | _, .bool true => ⟨.kwTrue, [], by simp [prP], by simp, by simp⟩
  | _, .bool false => ⟨.kwFalse, [], by simp [prP], by simp, by simp⟩
  | _, .str s => ⟨.str s, [], by simp [prP], by simp, by simp⟩
  | _, .var n => ⟨.var n, [], by simp [prP], by simp, by simp⟩
  | _, .null => ⟨.kwNull, [], by simp [prP], by simp, by simp⟩
  | _, .fn f [] => ⟨.fid f, [.lp, .rp], by simp [prP], by simp, by simp⟩
  | _, .fn f (a :: as) => ⟨.fid f, .lp :: (prP 1 a ++ prPArgs as), by simp [prP], by simp, by simp⟩
  | _, .neg e => ⟨.op .sub, prP 6 e, by simp [prP], by simp, by simp⟩
  | _, .not e => ⟨.not, prP 6 e, by simp [prP], by simp, by simp⟩
  | _, .paren e => ⟨.lp, prP 1 e ++ [.rp], by simp [prP], by simp, by simp⟩
  | k, .bin o l r => by
    obtain ⟨t, ts, h, h1, h2⟩ := prP_head (lvl o) l
    by_cases hk : lvl o < k
    · exact ⟨.lp, (prP (lvl o) l ++ tokOf o :: prP (lvl o + 1) r) ++ [.rp], by simp [prP, hk], by simp, by simp⟩
    · exact ⟨t, ts ++ tokOf o :: prP (lvl o + 1) r, by simp [prP, hk, h], h1, h2⟩

theorem prPArgs_head (ps : List PExpr) : ∃ t ts, prPArgs ps = t :: ts ∧ binOf t = none := by
  cases ps with
  | nil => exact ⟨.rp, [], by simp [prPArgs], rfl⟩
  | cons a as => exact ⟨.comma, prP 1 a ++ prPArgs as, by simp [prPArgs], rfl⟩

/-- the call case of `pUnary` when the argument list starts with an expression -/
theorem pUnary_call (f : Nat) (n : Str) (t : Tok) (ts : List Tok) (h1 : t ≠ .rp) (h2 : t ≠ .comma) :
    pUnary (f + 1) (.fid n :: .lp :: t :: ts) =
      match pLevel f 1 (t :: ts) with
      | some (e, r) =>
        (match pRest f r with
         | some (es, r') => some (.fn n (e :: es), r')
         | none => none)
      | none => none := by
  rw [pUnary]
  · rfl
  · intro r h; cases h; exact h1 rfl
  · intro r h; cases h; exact h2 rfl

mutual
theorem UG : ∀ p : PExpr, U p ∧ G p
  | .num t => by
    have hu : U (.num t) := fun rest => ⟨1, by simp [prP, pUnary, PExpr.erase]⟩
    exact ⟨hu, G_of_U _ (fun q => by simp [prP]) hu⟩
  | .bool true => by
    have hu : U (.bool true) := fun rest => ⟨1, by simp [prP, pUnary, PExpr.erase]⟩
    exact ⟨hu, G_of_U _ (fun q => by simp [prP]) hu⟩
  | .bool false => by
    have hu : U (.bool false) := fun rest => ⟨1, by simp [prP, pUnary, PExpr.erase]⟩
    exact ⟨hu, G_of_U _ (fun q => by simp [prP]) hu⟩
  | .str s => by
    have hu : U (.str s) := fun rest => ⟨1, by simp [prP, pUnary, PExpr.erase]⟩
    exact ⟨hu, G_of_U _ (fun q => by simp [prP]) hu⟩
  | .var n => by
    have hu : U (.var n) := fun rest => ⟨1, by simp [prP, pUnary, PExpr.erase]⟩
    exact ⟨hu, G_of_U _ (fun q => by simp [prP]) hu⟩
  | .null => by
    have hu : U .null := fun rest => ⟨1, by simp [prP, pUnary, PExpr.erase]⟩
    exact ⟨hu, G_of_U _ (fun q => by simp [prP]) hu⟩
  | .fn n [] => by
    have hu : U (.fn n []) := fun rest => ⟨1, by simp [prP, pUnary, PExpr.erase, PExpr.eraseList]⟩
    exact ⟨hu, G_of_U _ (fun q => by simp [prP]) hu⟩
  | .fn n (a :: as) => by
    have ⟨_, ihG⟩ := UG a
    have ihA := AA as
    have hu : U (.fn n (a :: as)) := by
      intro rest
      obtain ⟨t, ts, hhead, ht1, ht2⟩ := prP_head 1 a
      obtain ⟨t', ts', hah, hbin⟩ := prPArgs_head as
      obtain ⟨f1, hf1⟩ := G_level1 (p := a) ihG (t := t') (ts := ts' ++ rest) hbin
      obtain ⟨f2, hf2⟩ := ihA rest
      refine ⟨max f1 f2 + 1, ?_⟩
      have htoks : prP 6 (.fn n (a :: as)) ++ rest = .fid n :: .lp :: t :: (ts ++ (prPArgs as ++ rest)) := by
        simp [prP, hhead]
      rw [htoks, pUnary_call _ _ _ _ ht1 ht2]
      have hsame : t :: (ts ++ (prPArgs as ++ rest)) = prP 1 a ++ t' :: (ts' ++ rest) := by
        simp [hhead, hah]
      rw [hsame, mono_level hf1 (Nat.le_max_left _ _)]
      simp only
      have hsame2 : t' :: (ts' ++ rest) = prPArgs as ++ rest := by simp [hah]
      rw [hsame2, mono_rest hf2 (Nat.le_max_right _ _)]
      simp [PExpr.erase, PExpr.eraseList]
    exact ⟨hu, G_of_U _ (fun q => by simp [prP]) hu⟩
  | .neg e => by
    have ⟨ihU, _⟩ := UG e
    have hu : U (.neg e) := fun rest => by
      obtain ⟨f, hf⟩ := ihU rest
      exact ⟨f + 1, by simp [prP, pUnary, hf, PExpr.erase]⟩
    exact ⟨hu, G_of_U _ (fun q => by simp [prP]) hu⟩
  | .not e => by
    have ⟨ihU, _⟩ := UG e
    have hu : U (.not e) := fun rest => by
      obtain ⟨f, hf⟩ := ihU rest
      exact ⟨f + 1, by simp [prP, pUnary, hf, PExpr.erase]⟩
    exact ⟨hu, G_of_U _ (fun q => by simp [prP]) hu⟩
  | .paren e => by
    have ⟨_, ihG⟩ := UG e
    have hu : U (.paren e) := fun rest => by
      obtain ⟨f, hf⟩ := G_level1 (p := e) ihG (t := .rp) (ts := rest) rfl
      refine ⟨f + 1, ?_⟩
      have : prP 6 (.paren e) ++ rest = .lp :: (prP 1 e ++ .rp :: rest) := by simp [prP]
      rw [this, pUnary, hf]
      simp [PExpr.erase]
    exact ⟨hu, G_of_U _ (fun q => by simp [prP]) hu⟩
  | .bin o l r => by
    have ⟨_, ihGl⟩ := UG l
    have ⟨ihUr, ihGr⟩ := UG r
    obtain ⟨ha1, ha5⟩ := lvl_pos o
    have herase : (PExpr.bin o l r).erase = .bin o l.erase r.erase := by simp [PExpr.erase]
    -- N: the unparenthesised body at its own level
    have N : ∀ rest res f, NoOpAbove (lvl o) rest → pLoop f (lvl o) (.bin o l.erase r.erase) rest = some res →
        ∃ f', pLevel f' (lvl o) ((prP (lvl o) l ++ tokOf o :: prP (lvl o + 1) r) ++ rest) = some res := by
      intro rest res f hno hl
      -- the right operand at level a+1
      have hr : ∃ fr, pLevel fr (lvl o + 1) (prP (lvl o + 1) r ++ rest) = some (r.erase, rest) := by
        by_cases h6 : lvl o + 1 = 6
        · obtain ⟨fu, hfu⟩ := ihUr rest
          refine ⟨fu + 1, ?_⟩
          rw [pLevel]; simp [h6, hfu]
        · have hstop : pLoop 1 (lvl o + 1) r.erase rest = some (r.erase, rest) :=
            loop_stops _ _ _ (fun t ts o' e1 b => by have := hno t ts o' e1 b; omega)
          exact ihGr (lvl o + 1) (by omega) (by omega) rest _ 1 (hno.mono (by omega)) hstop
      obtain ⟨fr, hfr⟩ := hr
      -- the loop started on l sees `o`, parses r, and continues as the loop started on `bin o l r`
      have hloop : pLoop (max fr f + 1) (lvl o) l.erase (tokOf o :: (prP (lvl o + 1) r ++ rest)) = some res := by
        rw [pLoop]
        simp only [binOf_tokOf, ↓reduceIte]
        rw [mono_level hfr (Nat.le_max_left _ _)]
        exact mono_loop hl (Nat.le_max_right _ _)
      have hnol : NoOpAbove (lvl o) (tokOf o :: (prP (lvl o + 1) r ++ rest)) := by
        intro t ts o' e1 b
        cases e1
        rw [binOf_tokOf] at b
        cases b
        exact Nat.le_refl _
      have := ihGl (lvl o) ha1 ha5 _ res _ hnol hloop
      simpa [List.append_assoc] using this
    -- G at levels q ≤ lvl o (no parentheses)
    have Glow : ∀ q, 1 ≤ q → q ≤ lvl o → ∀ rest res f, NoOpAbove q rest →
        pLoop f q (.bin o l.erase r.erase) rest = some res →
        ∃ f', pLevel f' q ((prP (lvl o) l ++ tokOf o :: prP (lvl o + 1) r) ++ rest) = some res := by
      intro q h1 hq rest res f hno hl
      by_cases hqa : q = lvl o
      · subst hqa; exact N rest res f hno hl
      · have hstop : pLoop 1 (lvl o) (.bin o l.erase r.erase) rest = some (.bin o l.erase r.erase, rest) :=
          loop_stops _ _ _ (fun t ts o' e1 b => by have := hno t ts o' e1 b; omega)
        obtain ⟨fa, hfa⟩ := N rest _ 1 (hno.mono hq) hstop
        exact descend (lvl o - q - 1) (a := lvl o) (by omega) (by omega) hfa hno hl
    -- U: in parentheses
    have hu : U (.bin o l r) := by
      intro rest
      have hstop : pLoop 1 1 (.bin o l.erase r.erase) (.rp :: rest) = some (.bin o l.erase r.erase, .rp :: rest) :=
        loop_stops _ _ _ (fun t ts o' e1 b => by cases e1; simp [binOf] at b)
      have hno : NoOpAbove 1 (.rp :: rest) := NoOpAbove.of_nonop rfl
      obtain ⟨f1, hf1⟩ := Glow 1 (Nat.le_refl _) ha1 (.rp :: rest) _ 1 hno hstop
      refine ⟨f1 + 1, ?_⟩
      have hlt : lvl o < 6 := by omega
      simp only [prP, hlt, ↓reduceIte, List.cons_append, List.append_assoc, List.nil_append]
      rw [pUnary]
      simp only [List.append_assoc, List.cons_append] at hf1
      rw [hf1, herase]
    refine ⟨hu, ?_⟩
    intro q h1 h5 rest res f hno hl
    rw [herase] at hl
    by_cases hq : q ≤ lvl o
    · have : ¬ lvl o < q := by omega
      simp only [prP, this, ↓reduceIte]
      exact Glow q h1 hq rest res f hno hl
    · -- parenthesised: same tokens as at level 6
      have hlt : lvl o < q := by omega
      have hlt6 : lvl o < 6 := by omega
      obtain ⟨fu, hfu⟩ := hu rest
      have h6 : pLevel (fu + 1) 6 (prP 6 (.bin o l r) ++ rest) = some ((PExpr.bin o l r).erase, rest) := by
        rw [pLevel]; simp [hfu]
      have hsame : prP q (.bin o l r) = prP 6 (.bin o l r) := by simp [prP, hlt, hlt6]
      rw [hsame]
      rw [herase] at h6
      exact descend (5 - q) (a := 6) (by omega) (by omega) h6 hno hl
theorem AA : ∀ ps : List PExpr, A ps
  | [] => fun rest => ⟨1, by simp [prPArgs, pRest, PExpr.eraseList]⟩
  | a :: as => by
    have ⟨_, ihG⟩ := UG a
    have ihA := AA as
    intro rest
    obtain ⟨t', ts', hah, hbin⟩ := prPArgs_head as
    obtain ⟨f1, hf1⟩ := G_level1 (p := a) ihG (t := t') (ts := ts' ++ rest) hbin
    obtain ⟨f2, hf2⟩ := ihA rest
    refine ⟨max f1 f2 + 1, ?_⟩
    have htoks : prPArgs (a :: as) ++ rest = .comma :: (prP 1 a ++ t' :: (ts' ++ rest)) := by
      simp [prPArgs, hah]
    rw [htoks, pRest, mono_level hf1 (Nat.le_max_left _ _)]
    simp only
    have hsame2 : t' :: (ts' ++ rest) = prPArgs as ++ rest := by simp [hah]
    rw [hsame2, mono_rest hf2 (Nat.le_max_right _ _)]
    simp [PExpr.eraseList]
end

/-- the parser inverts the printer on every tree with explicit parenthesis nodes -/
theorem parse_prP (p : PExpr) : parseExpr (prP 1 p) = some p.erase := by
  have hg := (UG p).2 1 (Nat.le_refl _) (by omega) [] (p.erase, []) 1 (NoOpAbove.nil _) (by simp [pLoop])
  obtain ⟨f, h⟩ := hg
  rw [parseExpr_iff]
  exact ⟨f, by simpa using h⟩

/-! ## The three printers on plain trees are instances -/

mutual
/-- a plain tree as a tree without parenthesis nodes -/
def embed : Expr → PExpr
  | .num t => .num t | .bool b => .bool b | .str s => .str s | .var n => .var n | .null => .null
  | .fn f as => .fn f (embedList as)
  | .neg e => .neg (embed e) | .not e => .not (embed e)
  | .bin o l r => .bin o (embed l) (embed r)
def embedList : List Expr → List PExpr
  | [] => []
  | a :: as => embed a :: embedList as
end

mutual
theorem erase_embed : ∀ e : Expr, (embed e).erase = e
  | .num _ | .bool _ | .str _ | .var _ | .null => by simp [embed, PExpr.erase]
  | .fn f as => by simp [embed, PExpr.erase, eraseList_embedList as]
  | .neg e => by simp [embed, PExpr.erase, erase_embed e]
  | .not e => by simp [embed, PExpr.erase, erase_embed e]
  | .bin o l r => by simp [embed, PExpr.erase, erase_embed l, erase_embed r]
theorem eraseList_embedList : ∀ es : List Expr, PExpr.eraseList (embedList es) = es
  | [] => by simp [embedList, PExpr.eraseList]
  | a :: as => by simp [embedList, PExpr.eraseList, erase_embed a, eraseList_embedList as]
end

mutual
theorem prP_embed : ∀ (k : Nat) (e : Expr), prP k (embed e) = pr k e
  | _, .num _ | _, .str _ | _, .var _ | _, .null => by simp [embed, prP, pr]
  | _, .bool true | _, .bool false => by simp [embed, prP, pr]
  | _, .fn f [] => by simp [embed, embedList, prP, pr]
  | _, .fn f (a :: as) => by simp [embed, embedList, prP, pr, prP_embed 1 a, prPArgs_embedList as]
  | _, .neg e => by simp [embed, prP, pr, prP_embed 6 e]
  | _, .not e => by simp [embed, prP, pr, prP_embed 6 e]
  | k, .bin o l r => by simp [embed, prP, pr, prP_embed (lvl o) l, prP_embed (lvl o + 1) r]
theorem prPArgs_embedList : ∀ es : List Expr, prPArgs (embedList es) = prArgs es
  | [] => by simp [embedList, prPArgs, prArgs]
  | a :: as => by simp [embedList, prPArgs, prArgs, prP_embed 1 a, prPArgs_embedList as]
end

mutual
/-- every compound node in one explicit pair of parentheses -/
def fullP : Expr → PExpr
  | .num t => .num t | .bool b => .bool b | .str s => .str s | .var n => .var n | .null => .null
  | .fn f as => .fn f (fullPList as)
  | .neg e => .paren (.neg (fullP e)) | .not e => .paren (.not (fullP e))
  | .bin o l r => .paren (.bin o (fullP l) (fullP r))
def fullPList : List Expr → List PExpr
  | [] => []
  | a :: as => fullP a :: fullPList as
end

mutual
theorem erase_fullP : ∀ e : Expr, (fullP e).erase = e
  | .num _ | .bool _ | .str _ | .var _ | .null => by simp [fullP, PExpr.erase]
  | .fn f as => by simp [fullP, PExpr.erase, eraseList_fullPList as]
  | .neg e => by simp [fullP, PExpr.erase, erase_fullP e]
  | .not e => by simp [fullP, PExpr.erase, erase_fullP e]
  | .bin o l r => by simp [fullP, PExpr.erase, erase_fullP l, erase_fullP r]
theorem eraseList_fullPList : ∀ es : List Expr, PExpr.eraseList (fullPList es) = es
  | [] => by simp [fullPList, PExpr.eraseList]
  | a :: as => by simp [fullPList, PExpr.eraseList, erase_fullP a, eraseList_fullPList as]
end

mutual
/-- a fully parenthesised printing is the same at every level: no further pair is ever needed -/
theorem prP_fullP : ∀ (k : Nat) (e : Expr), prP k (fullP e) = printFull e
  | _, .num _ | _, .str _ | _, .var _ | _, .null => by simp [fullP, prP, printFull]
  | _, .bool true | _, .bool false => by simp [fullP, prP, printFull]
  | _, .fn f [] => by simp [fullP, fullPList, prP, printFull]
  | _, .fn f (a :: as) => by simp [fullP, fullPList, prP, printFull, prP_fullP 1 a, prPArgs_fullPList as]
  | _, .neg e => by simp [fullP, prP, printFull, prP_fullP 6 e]
  | _, .not e => by simp [fullP, prP, printFull, prP_fullP 6 e]
  | k, .bin o l r => by
    have := (lvl_pos o).1
    have h : ¬ lvl o < 1 := by omega
    simp [fullP, prP, printFull, prP_fullP (lvl o) l, prP_fullP (lvl o + 1) r, h]
theorem prPArgs_fullPList : ∀ es : List Expr, prPArgs (fullPList es) = printFullArgs es
  | [] => by simp [fullPList, prPArgs, printFullArgs]
  | a :: as => by simp [fullPList, prPArgs, printFullArgs, prP_fullP 1 a, prPArgs_fullPList as]
end

theorem erase_wrap (n : Nat) (p : PExpr) : (PExpr.wrap n p).erase = p.erase := by
  induction n with
  | zero => rfl
  | succ n ih => simp [PExpr.wrap, PExpr.erase, ih]

mutual
theorem erase_decorate (pol : Policy) : ∀ e : Expr, (decorate pol e).erase = e
  | .num _ | .bool _ | .str _ | .var _ | .null => by simp [decorate, erase_wrap, PExpr.erase]
  | .fn f as => by simp [decorate, erase_wrap, PExpr.erase, eraseList_decorateList pol as]
  | .neg e => by simp [decorate, erase_wrap, PExpr.erase, erase_decorate pol e]
  | .not e => by simp [decorate, erase_wrap, PExpr.erase, erase_decorate pol e]
  | .bin o l r => by simp [decorate, erase_wrap, PExpr.erase, erase_decorate pol l, erase_decorate pol r]
theorem eraseList_decorateList (pol : Policy) : ∀ es : List Expr, PExpr.eraseList (decorateList pol es) = es
  | [] => by simp [decorateList, PExpr.eraseList]
  | a :: as => by simp [decorateList, PExpr.eraseList, erase_decorate pol a, eraseList_decorateList pol as]
end

mutual
theorem decorate_zero_embed : ∀ e : Expr, decorate (fun _ => 0) e = embed e
  | .num _ | .bool _ | .str _ | .var _ | .null => by simp [decorate, embed, PExpr.wrap]
  | .fn f as => by simp [decorate, embed, PExpr.wrap, decorateList_zero_embed as]
  | .neg e => by simp [decorate, embed, PExpr.wrap, decorate_zero_embed e]
  | .not e => by simp [decorate, embed, PExpr.wrap, decorate_zero_embed e]
  | .bin o l r => by simp [decorate, embed, PExpr.wrap, decorate_zero_embed l, decorate_zero_embed r]
theorem decorateList_zero_embed : ∀ es : List Expr, decorateList (fun _ => 0) es = embedList es
  | [] => by simp [decorateList, embedList]
  | a :: as => by simp [decorateList, embedList, decorate_zero_embed a, decorateList_zero_embed as]
end

/-- the zero policy is the minimal printer -/
theorem printRedundant_zero (e : Expr) : printRedundant (fun _ => 0) e = printMin e := by
  simp [printRedundant, printMin, decorate_zero_embed, prP_embed]

/-- `n` extra pairs around a whole expression are `n` `(` in front and `n` `)` behind -/
theorem prP_wrap (k n : Nat) (p : PExpr) (hn : 0 < n) :
    prP k (PExpr.wrap n p) = List.replicate n .lp ++ prP 1 p ++ List.replicate n .rp := by
  induction n generalizing k with
  | zero => omega
  | succ n ih =>
    cases n with
    | zero => simp [PExpr.wrap, prP]
    | succ m =>
      have := ih 1 (by omega)
      simp only [PExpr.wrap, prP] at this ⊢
      rw [this]
      simp [List.replicate_succ, List.append_assoc]
      rw [← List.replicate_succ, List.replicate_succ']

/-! ## Printed tokens of a well-formed tree are well-formed -/

mutual
theorem wf_prP : ∀ (k : Nat) (p : PExpr), p.erase.wf = true → ∀ t ∈ prP k p, t.wf = true
  | _, .num x, h, t, ht => by
    simp only [prP, List.mem_singleton] at ht; subst ht; simpa [PExpr.erase, Expr.wf, Tok.wf] using h
  | _, .str x, h, t, ht => by
    simp only [prP, List.mem_singleton] at ht; subst ht; simpa [PExpr.erase, Expr.wf, Tok.wf] using h
  | _, .var x, h, t, ht => by
    simp only [prP, List.mem_singleton] at ht; subst ht; simpa [PExpr.erase, Expr.wf, Tok.wf] using h
  | _, .bool true, _, t, ht => by simp only [prP, List.mem_singleton] at ht; subst ht; rfl
  | _, .bool false, _, t, ht => by simp only [prP, List.mem_singleton] at ht; subst ht; rfl
  | _, .null, _, t, ht => by simp only [prP, List.mem_singleton] at ht; subst ht; rfl
  | _, .fn f [], h, t, ht => by
    simp only [PExpr.erase, PExpr.eraseList, Expr.wf, Expr.wfList, Bool.and_true, Bool.and_eq_true] at h
    simp only [prP, List.mem_cons, List.not_mem_nil, or_false] at ht
    rcases ht with rfl | rfl | rfl
    · simp [Tok.wf, h.1, h.2]
    · rfl
    · rfl
  | _, .fn f (a :: as), h, t, ht => by
    simp only [PExpr.erase, PExpr.eraseList, Expr.wf, Expr.wfList, Bool.and_eq_true] at h
    simp only [prP, List.mem_cons, List.mem_append] at ht
    rcases ht with rfl | rfl | ht | ht
    · simp [Tok.wf, h.1.1, h.1.2]
    · rfl
    · exact wf_prP 1 a h.2.1 t ht
    · exact wf_prPArgs as h.2.2 t ht
  | _, .neg e, h, t, ht => by
    simp only [PExpr.erase, Expr.wf] at h
    simp only [prP, List.mem_cons] at ht
    rcases ht with rfl | ht
    · rfl
    · exact wf_prP 6 e h t ht
  | _, .not e, h, t, ht => by
    simp only [PExpr.erase, Expr.wf] at h
    simp only [prP, List.mem_cons] at ht
    rcases ht with rfl | ht
    · rfl
    · exact wf_prP 6 e h t ht
  | _, .paren e, h, t, ht => by
    simp only [PExpr.erase] at h
    simp only [prP, List.mem_cons, List.mem_append, List.not_mem_nil, or_false] at ht
    rcases ht with (rfl | ht) | rfl
    · rfl
    · exact wf_prP 1 e h t ht
    · rfl
  | k, .bin o l r, h, t, ht => by
    simp only [PExpr.erase, Expr.wf, Bool.and_eq_true] at h
    have hbody : ∀ t ∈ prP (lvl o) l ++ tokOf o :: prP (lvl o + 1) r, t.wf = true := by
      intro t ht
      simp only [List.mem_append, List.mem_cons] at ht
      rcases ht with ht | rfl | ht
      · exact wf_prP _ l h.1 t ht
      · rfl
      · exact wf_prP _ r h.2 t ht
    simp only [prP] at ht
    split at ht
    · simp only [List.mem_cons, List.mem_append, List.not_mem_nil, or_false] at ht
      rcases ht with (rfl | ht) | rfl
      · rfl
      · exact hbody t (by simpa using ht)
      · rfl
    · exact hbody t ht
theorem wf_prPArgs : ∀ (ps : List PExpr), Expr.wfList (PExpr.eraseList ps) = true → ∀ t ∈ prPArgs ps, t.wf = true
  | [], _, t, ht => by simp only [prPArgs, List.mem_singleton] at ht; subst ht; rfl
  | a :: as, h, t, ht => by
    simp only [PExpr.eraseList, Expr.wfList, Bool.and_eq_true] at h
    simp only [prPArgs, List.mem_cons, List.mem_append] at ht
    rcases ht with rfl | ht | ht
    · rfl
    · exact wf_prP 1 a h.1 t ht
    · exact wf_prPArgs as h.2 t ht
end

end ExprSyntax
end Ysgo
